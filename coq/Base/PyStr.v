(* Base/PyStr.v — CPython str.strip() / str.isspace() on the code points Python treats as white space
   (Py_UNICODE_ISSPACE): the harness re-checks this table against the running interpreter at start-up. *)
Require Import PX.Base.Str.
Local Open Scope N_scope.
Definition py_space (c : N) : bool :=
  ((9 <=? c) && (c <=? 13)) || ((28 <=? c) && (c <=? 32)) || (c =? 133) || (c =? 160) || (c =? 5760) ||
  ((8192 <=? c) && (c <=? 8202)) || (c =? 8232) || (c =? 8233) || (c =? 8239) || (c =? 8287) || (c =? 12288).
Fixpoint lstrip (s : str) : str := match s with c :: r => if py_space c then lstrip r else s | [] => [] end.
Definition py_strip (s : str) : str := rev (lstrip (rev (lstrip s))).
Definition py_isspace (s : str) : bool := match s with [] => false | _ => forallb py_space s end.
