(* Base/Str.v — strings as lists of Unicode code points.
   char/str are Notations (not Definitions) so that lia/rewrite see one atom. *)
From Coq Require Export List NArith Bool Lia Arith.
Export ListNotations.
Notation char := N (only parsing).
Notation str := (list N) (only parsing).
Definition ceq (a b : char) : bool := N.eqb a b.

Lemma ceq_spec a b : reflect (a = b) (ceq a b).
Proof. apply N.eqb_spec. Qed.
Lemma ceq_refl a : ceq a a = true.
Proof. apply N.eqb_refl. Qed.

Fixpoint seqb (a b : str) : bool :=
  match a, b with
  | [], [] => true
  | x :: a', y :: b' => ceq x y && seqb a' b'
  | _, _ => false
  end.
Lemma seqb_spec a b : reflect (a = b) (seqb a b).
Proof.
  revert b; induction a as [|x a IH]; intros [|y b]; simpl; try (constructor; congruence).
  destruct (ceq_spec x y); simpl; [|constructor; congruence].
  destruct (IH b); constructor; congruence.
Qed.
Lemma seqb_refl a : seqb a a = true.
Proof. destruct (seqb_spec a a); congruence. Qed.
Lemma seqb_eq a b : seqb a b = true <-> a = b.
Proof. destruct (seqb_spec a b); split; congruence. Qed.

Fixpoint span (p : char -> bool) (s : str) : str * str :=
  match s with
  | [] => ([], [])
  | c :: r => if p c then let (a, b) := span p r in (c :: a, b) else ([], s)
  end.

Definition starts_not (p : char -> bool) (r : str) : Prop :=
  match r with [] => True | c :: _ => p c = false end.

Lemma span_app p a r : forallb p a = true -> starts_not p r -> span p (a ++ r) = (a, r).
Proof.
  induction a as [|c a IH]; simpl; intros Ha Hr.
  - destruct r as [|c r]; simpl in *; [reflexivity|]. rewrite Hr. reflexivity.
  - apply andb_true_iff in Ha as [Hc Ha]. rewrite Hc, IH by assumption. reflexivity.
Qed.

Fixpoint prefix (a s : str) : option str :=
  match a, s with
  | [], _ => Some s
  | x :: a', y :: s' => if ceq x y then prefix a' s' else None
  | _ :: _, [] => None
  end.
Lemma prefix_app a r : prefix a (a ++ r) = Some r.
Proof. induction a as [|x a IH]; simpl; [reflexivity|]. rewrite ceq_refl. exact IH. Qed.
Lemma prefix_some a s r : prefix a s = Some r -> s = a ++ r.
Proof.
  revert s; induction a as [|x a IH]; intros s H; simpl in *.
  - congruence.
  - destruct s as [|y s]; [discriminate|]. destruct (ceq_spec x y); [|discriminate].
    subst. f_equal. apply IH. exact H.
Qed.

Definition starts_with (a s : str) : bool :=
  match prefix a s with Some _ => true | None => false end.

(* substring test *)
Fixpoint contains (sub s : str) : bool :=
  starts_with sub s || match s with [] => false | _ :: r => contains sub r end.

(* join / split on a single separator character (Python "/".join, str.split("/")) *)
Fixpoint join (sep : str) (l : list str) : str :=
  match l with
  | [] => []
  | [x] => x
  | x :: r => x ++ sep ++ join sep r
  end.

Fixpoint split_on (c : char) (s : str) : list str :=
  match s with
  | [] => [[]]
  | x :: r =>
      if ceq x c then [] :: split_on c r
      else match split_on c r with
           | [] => [[x]]       (* unreachable: split_on never returns [] *)
           | h :: t => (x :: h) :: t
           end
  end.

Lemma split_on_nonnil c s : split_on c s <> [].
Proof. destruct s as [|x r]; simpl; [discriminate|]. destruct (ceq x c); [discriminate|]. destruct (split_on c r); discriminate. Qed.

Definition nochar (c : char) (s : str) : bool := forallb (fun x => negb (ceq x c)) s.

Lemma split_on_nochar c s : nochar c s = true -> split_on c s = [s].
Proof.
  induction s as [|x r IH]; simpl; intro H; [reflexivity|].
  apply andb_true_iff in H as [Hx Hr]. destruct (ceq x c); [discriminate|].
  rewrite IH by assumption. reflexivity.
Qed.

Lemma split_on_app c a r : nochar c a = true ->
  split_on c (a ++ c :: r) = a :: split_on c r.
Proof.
  induction a as [|x a IH]; simpl; intro H.
  - rewrite ceq_refl. reflexivity.
  - apply andb_true_iff in H as [Hx Ha]. destruct (ceq x c); [discriminate|].
    rewrite IH by assumption. reflexivity.
Qed.

Lemma split_join c (l : list str) : l <> [] -> Forall (fun x => nochar c x = true) l ->
  split_on c (join [c] l) = l.
Proof.
  induction l as [|x l IH]; intros Hne Hall; [congruence|].
  inversion Hall as [|? ? Hx Hl]; subst.
  destruct l as [|y l].
  - simpl. apply split_on_nochar. exact Hx.
  - change (join [c] (x :: y :: l)) with (x ++ [c] ++ join [c] (y :: l)).
    simpl app. rewrite split_on_app by assumption. f_equal. apply IH; [discriminate|assumption].
Qed.

(* own concat-map with simpl never (flat_map's fix unfolds under cbn and breaks rewrites) *)
Fixpoint cmap {A} (f : A -> str) (l : list A) : str :=
  match l with [] => [] | x :: r => f x ++ cmap f r end.
Lemma cmap_cons {A} (f : A -> str) x r : cmap f (x :: r) = f x ++ cmap f r.
Proof. reflexivity. Qed.
Lemma cmap_nil {A} (f : A -> str) : cmap f [] = [].
Proof. reflexivity. Qed.
Lemma cmap_app {A} (f : A -> str) a b : cmap f (a ++ b) = cmap f a ++ cmap f b.
Proof. induction a as [|x a IH]; [reflexivity|]. simpl. rewrite IH, app_assoc. reflexivity. Qed.
Arguments cmap : simpl never.

(* decimal rendering of N for generated names / canonical output; fuel = number of digits *)
Fixpoint digits_fuel (fuel : nat) (n : N) (acc : str) : str :=
  match fuel with
  | O => acc
  | S f => let d := (48 + n mod 10)%N in
           if (n <? 10)%N then d :: acc else digits_fuel f (n / 10)%N (d :: acc)
  end.
Definition dec (n : N) : str := digits_fuel 40 n [].

(* generic list helpers used by the correspondence cases *)
Fixpoint mismatches_from {A} (eqb : A -> A -> bool) (i : nat) (got want : list A) : list nat :=
  match got, want with
  | [], [] => []
  | g :: gs, w :: ws => (if eqb g w then [] else [i]) ++ mismatches_from eqb (S i) gs ws
  | _, _ => [i]
  end.
Definition mismatches (got want : list str) : list nat := mismatches_from seqb 0 got want.
