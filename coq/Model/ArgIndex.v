(* Model/ArgIndex.v — which argument of an indexed-repeat() call a reference sits in (Survey._var_repl_function._is_return_relative_path):
     offset = 0
     for idx, arg in enumerate(args):            # args = split_function_args(text between the parentheses)
         if offset <= position < offset + len(arg): found idx
         offset += len(arg) + 1                  # the comma
   position = offset of the reference inside that text. *)
Require Import PX.Base.Str.
Fixpoint arg_index_from (args : list str) (offset pos idx : nat) : option nat :=
  match args with
  | [] => None
  | a :: r => if Nat.leb offset pos && Nat.ltb pos (offset + length a) then Some idx else arg_index_from r (offset + length a + 1) pos (S idx)
  end.
Definition arg_index (args : list str) (pos : nat) : option nat := arg_index_from args 0 pos 0.
(* the offset at which the argument after `pre` starts in the text  a1,a2,...  *)
Fixpoint start_after (pre : list str) : nat := match pre with [] => 0 | a :: r => length a + 1 + start_after r end.
