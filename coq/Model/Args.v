(* Model/Args.v — survey.split_function_args (added by fix a8ccc7c): split the argument text of a call on the commas that are not
   inside nested parentheses. depth is a Python int and may go negative (more ')' than '('): commas are then not split either. *)
Require Import PX.Base.Str.
From Coq Require Import ZArith.
Local Open Scope N_scope.
Definition LP : N := 40. Definition RP : N := 41. Definition COMMA : N := 44.

Fixpoint split_go (depth : Z) (cur : str) (s : str) : list str :=
  match s with
  | [] => [rev cur]
  | c :: r =>
      if c =? LP then split_go (depth + 1) (c :: cur) r
      else if c =? RP then split_go (depth - 1) (c :: cur) r
      else if (c =? COMMA) && (depth =? 0)%Z then rev cur :: split_go depth [] r
      else split_go depth (c :: cur) r
  end.
Definition split_function_args (s : str) : list str := split_go 0 [] s.
(* the argument positions of an indexed-repeat() call whose ${references} stay absolute (survey.py, _is_return_relative_path) *)
Definition ABSOLUTE_ARG_POSITIONS : list nat := [0; 1; 3; 5]%nat.
