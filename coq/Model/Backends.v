(* Model/Backends.v — the spreadsheet grid readers of xls2json_backends.py, function for function:
     trim_trailing_empty (72-79), get_excel_column_headers (82-104), get_excel_rows (107-141),
     is_empty (337-345), xlsx_value_to_str (315-334), xls_value_to_unicode (222-249),
     the header cleaner RE_WHITESPACE.sub(" ", header.strip()).
   Cells arrive from openpyxl/xlrd as typed values; that boundary is the `cell` type. *)
Require Import PX.Base.Str.
From Coq Require Import ZArith.

Inductive res (A : Type) := Ok (a : A) | PyxErr (msg : str).
Arguments Ok {A}. Arguments PyxErr {A}.

(* trim_trailing_empty: avoids [:-0] *)
Definition trim_trailing_empty {A} (l : list A) (n : nat) : list A :=
  if Nat.ltb 0 n then firstn (length l - n) l else l.

(* ---- header row ---- *)
Definition SPACE : char := 32%N.
Fixpoint collapse_spaces (s : str) : str :=       (* RE_WHITESPACE = ( )+  ->  one space *)
  match s with
  | [] => []
  | c :: r => if ceq c SPACE then
                match r with
                | d :: _ => if ceq d SPACE then collapse_spaces r else c :: collapse_spaces r
                | [] => [c]
                end
              else c :: collapse_spaces r
  end.
Section Headers.
Variable strip : str -> str.                      (* str.strip() *)
Definition clean_header (h : str) : str := collapse_spaces (strip h).

(* first_row after is_empty: None = empty header cell *)
Fixpoint hdr_loop (max : nat) (row : list (option str)) (acc : list (option str)) (adj : nat)
  : res (list (option str) * nat) :=
  match row with
  | [] => Ok (acc, adj)
  | None :: r =>
      let acc' := acc ++ [None] in
      if Nat.eqb max adj then Ok (acc', adj) else hdr_loop max r acc' (S adj)
  | Some h :: r =>
      if existsb (fun x => match x with Some y => seqb y h | None => false end) acc
      then PyxErr h
      else hdr_loop max r (acc ++ [Some (clean_header h)]) 0
  end.
Definition get_excel_column_headers (max : nat) (row : list (option str)) : res (list (option str)) :=
  match hdr_loop max row [] 0 with
  | Ok (acc, adj) => Ok (trim_trailing_empty acc adj)
  | PyxErr m => PyxErr m
  end.
End Headers.

(* ---- data rows: a row is the dict of its non-empty cells under non-empty headers ---- *)
Definition rowdict := list (str * str).
Fixpoint row_loop (max : nat) (rows : list rowdict) (acc : list rowdict) (adj : nat) : list rowdict * nat :=
  match rows with
  | [] => (acc, adj)
  | d :: r =>
      match d with
      | [] => if Nat.eqb max adj then (acc, adj) else row_loop max r (acc ++ [d]) (S adj)
      | _ => row_loop max r (acc ++ [d]) 0
      end
  end.
Definition get_excel_rows (max : nat) (rows : list rowdict) : list rowdict :=
  let (acc, adj) := row_loop max rows [] 0 in trim_trailing_empty acc adj.

(* ---- typed cells ---- *)
Inductive cell :=
| CNone
| CStr (s : str)
| CBool (b : bool)
| CInt (z : Z)
| CFloatIntegral (z : Z)          (* a float with value.is_integer() *)
| CFloatOther (repr : str)        (* any other float: its str() (shortest round-trip repr, an oracle), which float_to_str rewrites without exponent *)
| CDate (text : str).             (* datetime/time: its str() *)

Definition NBSP : char := 160%N.
Definition z_dec (z : Z) : str :=
  match z with
  | Z0 => [48%N]
  | Zpos p => dec (Npos p)
  | Zneg p => 45%N :: dec (Npos p)
  end.
(* float_to_str: str(value) when it has no exponent, else format(Decimal(text), "f"): the decimal point moved by the exponent.
   text = [-] I [. F] e (+|-) X   (repr of a float: I is one digit) *)
Definition CH_E : char := 101%N.
Definition CH_DOT : char := 46%N.
Definition CH_MINUS : char := 45%N.
Definition CH_PLUS : char := 43%N.
Definition CH_0 : char := 48%N.
Fixpoint nat_of_digits_acc (acc : nat) (d : str) : nat :=
  match d with [] => acc | c :: r => nat_of_digits_acc (10 * acc + N.to_nat (c - 48)%N) r end.
Definition nat_of_digits (d : str) : nat := nat_of_digits_acc 0 d.
Definition shift_point (neg : bool) (ip fp : str) (eneg : bool) (n : nat) : str :=
  let digits := ip ++ fp in
  let body :=
    if eneg then
      if Nat.ltb n (length ip) then firstn (length ip - n) digits ++ CH_DOT :: skipn (length ip - n) digits
      else CH_0 :: CH_DOT :: repeat CH_0 (n - length ip) ++ digits
    else
      if Nat.ltb n (length fp) then firstn (length ip + n) digits ++ CH_DOT :: skipn (length ip + n) digits
      else digits ++ repeat CH_0 (n - length fp) in
  if neg then CH_MINUS :: body else body.
Definition float_text (r : str) : str :=
  let (mant, ex) := span (fun c => negb (ceq c CH_E)) r in
  match ex with
  | [] => r
  | _ :: ex' =>
      let (neg, m) := match mant with c :: m' => if ceq c CH_MINUS then (true, m') else (false, mant) | [] => (false, mant) end in
      let (ip, fp0) := span (fun c => negb (ceq c CH_DOT)) m in
      let fp := match fp0 with _ :: f => f | [] => [] end in
      let (eneg, ed) := match ex' with c :: d => if ceq c CH_MINUS then (true, d) else if ceq c CH_PLUS then (false, d) else (false, ex') | [] => (false, []) end in
      shift_point neg ip fp eneg (nat_of_digits ed)
  end.
Definition s_TRUE : str := [84;82;85;69]%N.
Definition s_FALSE : str := [70;65;76;83;69]%N.
Section Cells.
Variable strip : str -> str.
Variable isspace : str -> bool.                   (* str.isspace(), false on "" *)
Definition is_empty (c : cell) : bool :=
  match c with
  | CNone => true
  | CStr s => match s with [] => true | _ => isspace s end
  | _ => false
  end.
Definition replace_nbsp (s : str) : str := map (fun c => if ceq c NBSP then SPACE else c) s.
Definition xlsx_value_to_str (c : cell) : str :=
  match c with
  | CBool true => s_TRUE
  | CBool false => s_FALSE
  | CFloatIntegral z => z_dec z
  | CInt z => z_dec z
  | CDate t => t
  | CFloatOther r => replace_nbsp (float_text r)
  | CStr s => replace_nbsp s
  | CNone => [78;111;110;101]%N                 (* str(None); never reached: is_empty filters it *)
  end.
(* xlsx_clean_cell / xls_clean_cell: strip strings first, drop empties *)
Definition clean_cell (c : cell) : option str :=
  let c' := match c with CStr s => CStr (strip s) | _ => c end in
  if is_empty c' then None else Some (xlsx_value_to_str c').
End Cells.
