(* Model/Bind.v — how a row's logic cells become one bind:
     Question.__init__ (question.py:106-134): the type table's default bind, updated with the row's bind dict;
     SurveyElement.xml_bindings (survey_element.py:547-583): one bind with nodeset first, then every (k, v) of the bind
     dict in order, `calculate` skipped when a trigger is set, yes/no spellings converted for the convertible attributes.
   Values are reference-free here (reference substitution is C03's subject, message redirection to itext C07's). *)
Require Import PX.Base.Str PX.Model.Warnings.

Definition dict := list (str * str).              (* Python dict: insertion-ordered, unique keys *)
Fixpoint dget (k : str) (d : dict) : option str :=
  match d with [] => None | (a, v) :: r => if seqb a k then Some v else dget k r end.
Fixpoint dset (k v : str) (d : dict) : dict :=      (* d[k] = v : keeps the position of an existing key *)
  match d with
  | [] => [(k, v)]
  | (a, w) :: r => if seqb a k then (a, v) :: r else (a, w) :: dset k v r
  end.
Definition dupdate (a b : dict) : dict := fold_left (fun acc kv => dset (fst kv) (snd kv) acc) b a.   (* a.update(b) *)
Definition keys (d : dict) : list str := map fst d.

Definition question_bind (type_default row_bind : dict) : dict := dupdate type_default row_bind.

Definition s_calculate : str := [99;97;108;99;117;108;97;116;101]%N.
Definition s_nodeset : str := [110;111;100;101;115;101;116]%N.
Section Conv.
Variable conversions : dict.                      (* aliases.BINDING_CONVERSIONS *)
Variable convertible : list str.                  (* constants.CONVERTIBLE_BIND_ATTRIBUTES *)
Definition conv (k v : str) : str :=
  if mem k convertible then match dget v conversions with Some t => t | None => v end else v.
Definition bind_attrs (nodeset : str) (bind : dict) (has_trigger : bool) : dict :=
  (s_nodeset, nodeset) ::
  flat_map (fun kv => if has_trigger && seqb (fst kv) s_calculate then [] else [(fst kv, conv (fst kv) (snd kv))]) bind.
End Conv.
