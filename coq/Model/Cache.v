(* Model/Cache.v — functools.lru_cache as explicit state (is_parent_a_repeat, share_same_repeat_parent,
   escape_text_for_xml, parse_expression, read_tags): a bounded list of (key, value), most recent first.
   A trace is a list of (client, key): it IS an interleaving of the clients' request sequences. *)
Require Import PX.Base.Str.

Section Cache.
Context {K V : Type}.
Variable keq : K -> K -> bool.
Variable f : K -> V.                 (* the cached function *)
Variable maxsize : nat.

Definition cache := list (K * V).
Fixpoint find (k : K) (c : cache) : option V :=
  match c with [] => None | (k', v) :: r => if keq k' k then Some v else find k r end.
Definition remove (k : K) (c : cache) : cache := filter (fun e => negb (keq (fst e) k)) c.
(* hit: move to the front; miss: compute, insert at the front, evict beyond maxsize *)
Definition get (c : cache) (k : K) : cache * V :=
  match find k c with
  | Some v => ((k, v) :: remove k c, v)
  | None => let v := f k in (firstn maxsize ((k, v) :: c), v)
  end.
Fixpoint run (c : cache) (trace : list K) : cache * list V :=
  match trace with
  | [] => (c, [])
  | k :: r => let (c1, v) := get c k in let (c2, vs) := run c1 r in (c2, v :: vs)
  end.
End Cache.

(* the shared expression scanner (parsing/expression.py:66-90, stdlib re.Scanner.scan): scan() stores the
   current match in ONE shared cell and the token callback reads its start/end back from that cell.
   A token step is therefore two atomic actions: write the cell; read the cell. *)
Inductive sc_action := SWrite (thread : nat) (pos : nat) | SRead (thread : nat).
Definition sc_step (cell : nat) (a : sc_action) : nat * option (nat * nat) :=
  match a with
  | SWrite _ p => (p, None)
  | SRead t => (cell, Some (t, cell))           (* thread t records the position it reads *)
  end.
Fixpoint sc_run (cell : nat) (sched : list sc_action) : list (nat * nat) :=
  match sched with
  | [] => []
  | a :: r => let (cell', out) := sc_step cell a in
              match out with Some o => o :: sc_run cell' r | None => sc_run cell' r end
  end.
