(* Model/CallScan.v — Survey._var_repl_function._is_return_relative_path: which indexed-repeat() call, if any, a ${name} sits in.
   calls = the (start, end) offsets of the RE_INDEXED_REPEAT matches in text order; (s, e) = the offsets of the reference.
     for indexed_repeat in RE_INDEXED_REPEAT.finditer(text):
         if ref.start() >= indexed_repeat.end(): continue          # the reference lies after this call
         if ref.end() <= indexed_repeat.start(): return True       # before this call (and all later ones): outside
         ... inside this call: decided by the argument position ...
     return True                                                    # after the last call: outside
   old_scan is the loop as it was before fix e85826c (it advanced its own iterator inside the for loop and fell through to `return False`). *)
From Coq Require Import List Arith Bool.
Import ListNotations.
Inductive where_ := Outside | InCall (c : nat * nat) | FellThrough.
Fixpoint scan (calls : list (nat * nat)) (s e : nat) : where_ :=
  match calls with
  | [] => Outside
  | (cs, ce) :: more => if ce <=? s then scan more s e else if e <=? cs then Outside else InCall (cs, ce)
  end.
Fixpoint old_scan (calls : list (nat * nat)) (s e : nat) : where_ :=
  match calls with
  | [] => FellThrough
  | (cs, ce) :: more =>
      if ce <? e then match more with [] => Outside | _ :: more' => old_scan more' s e end
      else if (e <? cs) || (ce <? s) then Outside else InCall (cs, ce)
  end.
