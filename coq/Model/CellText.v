(* Model/CellText.v — xls2json.clean_text_values for one cell: strip, collapse runs of U+0020 (RE_WHITESPACE = "( )+"), then replace
   smart quotes (SMART_QUOTES) — property C13. *)
Require Import PX.Base.Str PX.Base.PyStr.
Local Open Scope N_scope.
Definition smart (c : N) : N := if (c =? 8216) || (c =? 8217) then 39 else if (c =? 8220) || (c =? 8221) then 34 else c.
Definition replace_smart (s : str) : str := map smart s.
Fixpoint collapse (s : str) : str :=
  match s with
  | [] => []
  | c :: r => if c =? 32 then match r with
                              | c2 :: _ => if c2 =? 32 then collapse r else c :: collapse r
                              | [] => [c] end
              else c :: collapse r
  end.
Definition clean_cell (strip_whitespace : bool) (s : str) : str :=
  replace_smart (if strip_whitespace then collapse (py_strip s) else s).
