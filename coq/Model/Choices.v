(* Model/Choices.v — choice lists, secondary instances, itemsets and itemsets.csv (property C09).
   Models, function for function:
     os.path.splitext (posixpath)                                            -> splitext
     Survey._generate_static_instances (survey.py)                           -> static_instance
     Survey._generate_external_instances / _generate_pulldata_instances /
       _generate_from_file_instances / _get_last_saved_instance              -> ext_info, pull_info, file_infos, last_info
       (their URI templates are the f-strings of the source, regenerated into Gen/Choices.v on every run)
     Survey._generate_instances (walk order, external-name validation, de-duplication loop) -> instances_of
     MultipleChoiceQuestion.build_xml (nodeset, value/label refs)            -> itemset_xml
     InputQuestion.build_xml (query)                                         -> query_attr
     utils.external_choices_to_csv (repaired code: cells under their own header) + csv.writer(QUOTE_ALL) -> itemsets_csv *)
Require Import PX.Base.Str PX.Model.Dom PX.Model.Warnings PX.Model.Bind PX.Gen.Choices.

Definition DOT : char := 46%N.
Definition COMMA : char := 44%N.
Definition CR : char := 13%N.

(* last occurrence of c: s = a ++ c :: b with no c in b *)
Fixpoint rsplit (c : char) (s : str) : option (str * str) :=
  match s with
  | [] => None
  | x :: r => match rsplit c r with
              | Some (a, b) => Some (x :: a, b)
              | None => if ceq x c then Some ([], r) else None
              end
  end.
Definition splitext (p : str) : str * str :=
  let '(dir, base) := match rsplit SLASH p with Some (a, b) => (a ++ [SLASH], b) | None => ([], p) end in
  match rsplit DOT base with
  | Some (a, e) => if forallb (ceq DOT) a then (p, []) else (dir ++ a, DOT :: e)
  | None => (p, [])
  end.

(* ---- static instances ---------------------------------------------------------------------------- *)
Record choice := mkChoice {
  c_name : str;
  c_label : option str;          (* Some s when the label is a plain string; None when it is a dict of translations or missing *)
  c_extra : list (str * str);    (* extra columns, in column order *)
  c_sms : option str }.
Record itemset := mkItemset { requires_itext : bool; used_by_search : bool; options : list choice }.

Definition tnode (tag text : str) : node := DE tag [] [PT text].            (* node(tag, text) *)
Definition nonempty (s : str) : bool := match s with [] => false | _ => true end.
Definition choice_nodes (req : bool) (list_name : str) (idx : nat) (c : choice) : list node :=
  (if req then [tnode [105;116;101;120;116;73;100]%N (itext_id list_name (dec (N.of_nat idx)))] else []) ++
  [tnode K_NAME (c_name c)] ++
  (match req, c_label c with false, Some l => [tnode K_LABEL l] | _, _ => [] end) ++
  map (fun kv => tnode (fst kv) (snd kv)) (c_extra c) ++
  (match c_sms c with Some s => if nonempty s then [tnode [115;109;115;95;111;112;116;105;111;110]%N s] else [] | None => [] end).
Definition s_item : str := [105;116;101;109]%N.  (* item *)
Definition s_root : str := [114;111;111;116]%N.  (* root *)
Definition s_instance : str := [105;110;115;116;97;110;99;101]%N.  (* instance *)
Definition s_id : str := [105;100]%N.  (* id *)
Definition s_src : str := [115;114;99]%N.  (* src *)
Fixpoint item_nodes (req : bool) (list_name : str) (idx : nat) (cs : list choice) : list node :=
  match cs with
  | [] => []
  | c :: r => DE s_item [] (choice_nodes req list_name idx c) :: item_nodes req list_name (S idx) r
  end.
Definition static_instance (list_name : str) (its : itemset) : node :=
  DE s_instance [(s_id, list_name)] [DE s_root [] (item_nodes (requires_itext its) list_name 0 (options its))].

(* ---- the instance registry ------------------------------------------------------------------------ *)
Inductive itype := TPull | TFile | TExt | TLast | TChoice.
Record info := mkInfo { i_ty : itype; i_name : str; i_src : option str }.

Definition pull_info (file_id : str) : info := mkInfo TPull file_id (Some (uri_pulldata file_id)).
Definition file_infos (its : str) : list info :=
  let '(file_id, ext) := splitext its in
  if nonempty its && mem ext EXTERNAL_INSTANCE_EXTENSIONS
  then [mkInfo TFile file_id (Some (uri_from_file (uri_from_file_kind ext) its))] else [].
Definition ext_info (name ty : str) : info :=
  let extension := hd [] (split_on 45%N ty) in
  mkInfo TExt name (Some (uri_external (uri_external_prefix extension) name extension)).
Definition last_info : info := mkInfo TLast LAST_SAVED_NAME (Some LAST_SAVED_URI).

(* one survey element in document order: the pulldata file ids its cells mention (in usage order), the itemset
   of a select, an xml-/csv-external declaration, and whether it mentions last-saved *)
Record elem := mkElem { e_pull : list str; e_file : option str; e_ext : option (str * str); e_last : bool }.
(* Survey._generate_last_saved_instance: the default, the choice_filter, or a bind entry under one of the
   EXTERNAL_INSTANCES keys mentions a last-saved reference (the arguments say which cells do) *)
Definition mentions_last_saved (default_ls filter_ls : bool) (bind_ls : list (str * bool)) : bool :=
  default_ls || filter_ls || existsb (fun kv => mem (fst kv) EXTERNAL_INSTANCES_SORTED && snd kv) bind_ls.
Definition elem_infos (e : elem) : list info :=
  map pull_info (e_pull e) ++
  (match e_file e with Some its => file_infos its | None => [] end) ++
  (match e_ext e with Some (n, t) => [ext_info n t] | None => [] end).
Definition all_infos (els : list elem) (choices : list (str * itemset)) : list info :=
  flat_map elem_infos els ++
  (if existsb e_last els then [last_info] else []) ++
  flat_map (fun kv => if used_by_search (snd kv) then [] else [mkInfo TChoice (fst kv) None]) choices.

Definition osrc_eqb (a b : option str) : bool :=
  match a, b with Some x, Some y => seqb x y | None, None => true | _, _ => false end.
Fixpoint seen_get (n : str) (seen : list (str * option str)) : option (option str) :=
  match seen with [] => None | (k, v) :: r => if seqb k n then Some v else seen_get n r end.
(* the loop at the end of _generate_instances: None = the same id with a different source URI *)
Fixpoint dedup (seen : list (str * option str)) (l : list info) : option (list info) :=
  match l with
  | [] => Some []
  | i :: r =>
      match seen_get (i_name i) seen with
      | Some src => if osrc_eqb src (i_src i) then dedup seen r else None
      | None => option_map (cons i) (dedup ((i_name i, i_src i) :: seen) r)
      end
  end.
Definition is_ext (i : info) : bool := match i_ty i with TExt => true | _ => false end.
Fixpoint nodupb (l : list str) : bool :=
  match l with [] => true | x :: r => negb (mem x r) && nodupb r end.
Inductive reg_result := RegOk (l : list info) | RegDuplicateExternal | RegClash.
Definition instances_of (els : list elem) (choices : list (str * itemset)) : reg_result :=
  let infos := all_infos els choices in
  if nodupb (map i_name (filter is_ext infos)) then
    match dedup [] infos with Some out => RegOk out | None => RegClash end
  else RegDuplicateExternal.

(* ---- itemset of a select -------------------------------------------------------------------------- *)
Definition s_randomize : str := [114;97;110;100;111;109;105;122;101]%N.  (* randomize *)
Definition s_seed : str := [115;101;101;100]%N.  (* seed *)
Definition s_true : str := [116;114;117;101]%N.  (* true *)
Definition s_value : str := [118;97;108;117;101]%N.  (* value *)
Definition s_labelk : str := [108;97;98;101;108]%N.  (* label *)
Definition s_dgeojson : str := [46;103;101;111;106;115;111;110]%N.  (* .geojson *)

(* its = the itemset string of the question (list name or file name, no reference to a previous question);
   filter and seed are the cell texts after reference substitution *)
Definition itemset_xml (its : str) (req_itext : bool) (filter : str) (params : dict) (seed_subst : str) : str * str * str :=
  let '(stem, ext) := splitext its in
  let vref0 := if seqb ext s_dgeojson then REF_VALUE_GEOJSON else REF_VALUE in
  let lref0 := if seqb ext s_dgeojson then REF_LABEL_GEOJSON else REF_LABEL in
  let vref := match dget s_value params with Some v => v | None => vref0 end in
  let lref1 := match dget s_labelk params with Some v => v | None => lref0 end in
  let is_file := mem ext EXTERNAL_INSTANCE_EXTENSIONS in
  let itemset := if is_file then stem else its in
  let lref := if is_file then lref1 else if req_itext then ITEXT_LABEL_REF else lref1 in
  let ns0 := nodeset_instance itemset in
  let ns1 := if nonempty filter then nodeset_filter ns0 filter else ns0 in
  let ns2 := match dget s_randomize params with
             | Some r => if seqb r s_true then
                           let a := nodeset_randomize ns1 in
                           let b := match dget s_seed params with
                                    | Some sd => if starts_with [36;123]%N sd then nodeset_seed a seed_subst else nodeset_seed_literal a sd
                                    | None => a end in
                           nodeset_close b
                         else ns1
             | None => ns1 end in
  (ns2, vref, lref).

Definition query_attr (query filter : str) : str :=
  if nonempty filter then query_filtered query filter else query_plain query.

(* ---- itemsets.csv --------------------------------------------------------------------------------- *)
Fixpoint add_keys (acc : list str) (ks : list str) : list str :=
  match ks with [] => acc | k :: r => add_keys (if mem k acc then acc else acc ++ [k]) r end.
Definition union_keys (rows : list dict) : list str := fold_left (fun acc row => add_keys acc (keys row)) rows [].
Definition csv_header (explicit : option (list str)) (rows : list dict) : list str :=
  match explicit with Some h => h | None => union_keys rows end.
Definition cell_of (row : dict) (k : str) : str := match dget k row with Some v => v | None => [] end.
Definition csv_table (explicit : option (list str)) (rows : list dict) : list (list str) :=
  let h := csv_header explicit rows in h :: map (fun row => map (cell_of row) h) rows.

(* csv.writer(quoting=QUOTE_ALL), excel dialect: doubled quotes, comma, CRLF *)
Definition wfield (f : str) : str := QUOT :: flat_map (fun c => if ceq c QUOT then [QUOT; QUOT] else [c]) f ++ [QUOT].
Fixpoint wrow (r : list str) : str :=
  match r with
  | [] => [CR; NL]
  | [f] => wfield f ++ [CR; NL]
  | f :: r' => wfield f ++ COMMA :: wrow r'
  end.
Definition write_csv (t : list (list str)) : str := flat_map wrow t.
Definition itemsets_csv (explicit : option (list str)) (rows : list dict) : str := write_csv (csv_table explicit rows).
