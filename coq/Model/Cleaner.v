(* Model/Cleaner.v — validators/error_cleaner.py ErrorCleaner.odk_validate, function for function:
   _replace_xpath_with_tokens, _cleanup_errors, _remove_java_content, _join_final.
   ERROR_MESSAGE_REGEX (pinned by the translator) is a slash followed by one or more segment characters, then one or more further such
   segments; a segment character is a XML name character (Model/Names.v nch, the classes of the NAME lexer rule) other than the dot;
   re.sub scans left to right, non-overlapping, greedy. *)
Require Import PX.Base.Str PX.Base.PyStr PX.Model.Names.
Local Open Scope N_scope.

Definition SLASHC : N := 47.
Definition segc (c : N) : bool := nch c && negb (c =? 46).
(* one segment: slash + at least one segment char *)
Definition eat_seg (s : str) : option (str * str) :=
  match s with
  | c :: r => if c =? SLASHC then
                let (a, b) := span segc r in match a with [] => None | _ => Some (c :: a, b) end
              else None
  | [] => None
  end.
Fixpoint eat_segs (fuel : nat) (s : str) : str * str :=
  match fuel with
  | O => ([], s)
  | S f => match eat_seg s with
           | Some (a, r) => let (m, r') := eat_segs f r in (a ++ m, r')
           | None => ([], s)
           end
  end.
(* a match at the start of s: at least two segments *)
Definition match_path (s : str) : option (str * str) :=
  match eat_seg s with
  | Some (a, r) => match eat_seg r with
                   | Some _ => let (m, r') := eat_segs (length r) r in Some (a ++ m, r')
                   | None => None
                   end
  | None => None
  end.
Fixpoint ends_with (suf s : str) : bool := starts_with (rev suf) (rev s).
Definition p_html_body : str := [47;104;116;109;108;47;98;111;100;121].
Definition p_root_item : str := [47;114;111;111;116;47;105;116;101;109].
Definition p_model_bind : str := [47;104;116;109;108;47;104;101;97;100;47;109;111;100;101;108;47;98;105;110;100].
Definition p_item_value : str := [47;105;116;101;109;47;118;97;108;117;101].
Definition last_seg (m : str) : str := last (split_on SLASHC m) [].
Definition replace_token (m : str) : str :=
  if starts_with p_html_body m || starts_with p_root_item m || starts_with p_model_bind m || ends_with p_item_value m
  then m else [36; 123] ++ last_seg m ++ [125].
Fixpoint sub_paths (fuel : nat) (s : str) : str :=
  match fuel with
  | O => s
  | S f => match s with
           | [] => []
           | c :: r => match match_path s with
                       | Some (m, rest) => replace_token m ++ sub_paths f rest
                       | None => c :: sub_paths f r
                       end
           end
  end.
(* str.splitlines() *)
Definition is_linebreak (c : N) : bool :=
  (c =? 10) || (c =? 11) || (c =? 12) || (c =? 13) || (c =? 28) || (c =? 29) || (c =? 30) || (c =? 133) || (c =? 8232) || (c =? 8233).
Fixpoint splitlines_aux (cur : str) (s : str) : list str :=
  match s with
  | [] => match cur with [] => [] | _ => [rev cur] end
  | c :: r => if is_linebreak c then
                match r with
                | d :: r' => if (c =? 13) && (d =? 10) then rev cur :: splitlines_aux [] r' else rev cur :: splitlines_aux [] r
                | [] => [rev cur]
                end
              else splitlines_aux (c :: cur) r
  end.
Definition splitlines (s : str) : list str := splitlines_aux [] s.
Fixpoint dedupe_consecutive (prev : option str) (l : list str) : list str :=
  match l with
  | [] => []
  | x :: r => match prev with
              | Some p => if seqb x p then dedupe_consecutive (Some x) r else x :: dedupe_consecutive (Some x) r
              | None => x :: dedupe_consecutive (Some x) r
              end
  end.
Definition cleanup_errors (msg : str) : list str :=
  dedupe_consecutive None (splitlines (py_strip (sub_paths (length msg) msg))).

Definition s_java_colon : str := [46;106;97;118;97;58].          (* .java: *)
Definition s_tab_at : str := [9;97;116].                          (* TAB a t *)
Definition pre_runtime : str := [106;97;118;97;46;108;97;110;103;46;82;117;110;116;105;109;101;69;120;99;101;112;116;105;111;110;58;32].
Definition pre_unhandled : str := [111;114;103;46;106;97;118;97;114;111;115;97;46;120;112;97;116;104;46;88;80;97;116;104;85;110;104;97;110;100;108;101;100;69;120;99;101;112;116;105;111;110;58;32].
Definition pre_npe : str := [106;97;118;97;46;108;97;110;103;46;78;117;108;108;80;111;105;110;116;101;114;69;120;99;101;112;116;105;111;110].
Definition pre_parse : str := [111;114;103;46;106;97;118;97;114;111;115;97;46;120;102;111;114;109;46;112;97;114;115;101;46;88;70;111;114;109;80;97;114;115;101;69;120;99;101;112;116;105;111;110].
(* str.replace(old, "") removes every occurrence *)
Fixpoint remove_all (fuel : nat) (old s : str) : str :=
  match fuel with
  | O => s
  | S f => match s with
           | [] => []
           | c :: r => match prefix old s with
                       | Some rest => match old with [] => s | _ => remove_all f old rest end
                       | None => c :: remove_all f old r
                       end
           end
  end.
Definition strip_prefix_all (p line : str) : str := if starts_with p line then remove_all (length line) p line else line.
(* the tail of a stack trace: "... 12 more" (after strip(): the literal "... ", ASCII digits, the literal " more") *)
Definition s_dots : str := [46;46;46;32].
Definition s_more : str := [32;109;111;114;101].
Definition is_ascii_digit (c : N) : bool := (48 <=? c) && (c <=? 57).
Definition is_elided_frames (line : str) : bool :=
  let f := py_strip line in
  starts_with s_dots f && ends_with s_more f &&
  (let mid := firstn (length f - 9) (skipn 4 f) in
   match mid with [] => false | _ => forallb is_ascii_digit mid end).
Definition remove_java_content (line : str) : option str :=
  if contains s_java_colon line || contains s_tab_at line || is_elided_frames line then None
  else Some (strip_prefix_all pre_parse (strip_prefix_all pre_npe (strip_prefix_all pre_unhandled (strip_prefix_all pre_runtime line)))).
Definition s_jarfile : str := [69;114;114;111;114;58;32;85;110;97;98;108;101;32;116;111;32;97;99;99;101;115;115;32;106;97;114;102;105;108;101].
Definition clean_lines (msg : str) : list str :=
  flat_map (fun l => match remove_java_content l with Some x => [x] | None => [] end) (cleanup_errors msg).
Definition odk_validate_clean (msg : str) : str :=
  if contains s_jarfile msg then msg else join [10] (clean_lines msg).
