(* Model/Cli.v — Survey.to_xml / print_xform_to_file (survey.py:1261-1328), check_xform (translated decision),
   xls2xform_convert and main_cli (xls2xform.py:127-149, 234-278) over an abstract file system.
   The external validator is an OUTCOME (java present?, watchdog fired?, return code, stderr). *)
Require Import PX.Base.Str PX.Model.Cleaner PX.Gen.Validate.
From Coq Require Import ZArith.

Definition fs := list (str * str).                       (* newest binding first *)
Fixpoint lookup (p : str) (f : fs) : option str :=
  match f with [] => None | (q, c) :: r => if seqb q p then Some c else lookup p r end.
Definition fs_write (p c : str) (f : fs) : fs := (p, c) :: f.
Definition fs_unlink (p : str) (f : fs) : fs := filter (fun e => negb (seqb (fst e) p)) f.

Record outcome := { java_present : bool; timed_out : bool; rc : Z; stderr : str }.
Inductive exn := EOdkValidate (msg : str) | EOs | EPyxform (msg : str).
Inductive result (A : Type) := Ret (a : A) | Raise (e : exn).
Arguments Ret {A}. Arguments Raise {A}.

Definition m_errors : str := [79;68;75;32;86;97;108;105;100;97;116;101;32;69;114;114;111;114;115;58;10]%N.      (* "ODK Validate Errors:\n" *)
Definition m_warnings : str := [79;68;75;32;86;97;108;105;100;97;116;101;32;87;97;114;110;105;110;103;115;58;10]%N. (* "ODK Validate Warnings:\n" *)
Definition check_xform (o : outcome) : result (list str) :=
  if negb (java_present o) then Raise EOs
  else match check_xform_decision (timed_out o) (rc o) (match stderr o with [] => false | _ => true end) with
       | VFixedWarning w => Ret [w]
       | VRaiseCleanedStderr => Raise (EOdkValidate (m_errors ++ odk_validate_clean (stderr o)))
       | VWarnStderr => Ret [m_warnings ++ stderr o]
       | VNoWarning => Ret []
       end.

(* print_xform_to_file: write, then validate *)
Definition print_xform_to_file (path xml : str) (validate : bool) (o : outcome) (f : fs) : result (list str) * fs :=
  let f1 := fs_write path xml f in
  if validate then (check_xform o, f1) else (Ret [], f1).
(* to_xml: temp file, try … finally unlink *)
Definition to_xml (tmp xml : str) (validate : bool) (o : outcome) (f : fs) : result (list str) * fs :=
  let (r, f1) := print_xform_to_file tmp xml validate o f in (r, fs_unlink tmp f1).

(* the pure part of convert(): either a PyXFormError or (xform, itemsets, warnings so far) *)
Definition conv := result (str * option str * list str).
Definition convert (c : conv) (tmp : str) (validate : bool) (o : outcome) (f : fs)
  : result (str * option str * list str) * fs :=
  match c with
  | Raise e => (Raise e, f)
  | Ret (xml, items, ws) =>
      match to_xml tmp xml validate o f with
      | (Ret vw, f') => (Ret (xml, items, ws ++ vw), f')
      | (Raise e, f') => (Raise e, f')
      end
  end.
Definition xls2xform_convert (c : conv) (tmp out itemsets_path : str) (validate : bool) (o : outcome) (f : fs)
  : result (list str) * fs :=
  match convert c tmp validate o f with
  | (Ret (xml, items, ws), f1) =>
      let f2 := fs_write out xml f1 in
      (Ret ws, match items with Some csv => fs_write itemsets_path csv f2 | None => f2 end)
  | (Raise e, f1) => (Raise e, f1)
  end.

Definition effective_validate (skip odk enk : bool) : bool := fst (validator_args_logic skip odk enk).
(* main_cli --json : (code, fs') *)
Definition main_cli_json (c : conv) (tmp out ip : str) (skip odk enk : bool) (o : outcome) (f : fs) : N * fs :=
  match xls2xform_convert c tmp out ip (effective_validate skip odk enk) o f with
  | (Ret [], f') => (100%N, f')
  | (Ret (_ :: _), f') => (101%N, f')
  | (Raise _, f') => (999%N, f')
  end.
(* main_cli plain: (logged an error?, uncaught exception?, fs') *)
Definition main_cli_plain (c : conv) (tmp out ip : str) (skip odk enk : bool) (o : outcome) (f : fs) : bool * bool * fs :=
  match xls2xform_convert c tmp out ip (effective_validate skip odk enk) o f with
  | (Ret _, f') => (false, false, f')
  | (Raise EOs, f') => (true, false, f')
  | (Raise (EOdkValidate _), f') => (true, false, fs_unlink out f')
  | (Raise (EPyxform _), f') => (false, true, f')
  end.
