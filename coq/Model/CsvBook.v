(* Model/CsvBook.v — xls2json_backends.csv_to_dict.process_csv_data (with first_column_as_sheet_name), over the rows that csv.reader
   delivers (the reader itself is Spec/Csv.v): a row whose first cell is filled names a sheet, the first row with content under it is
   the header row, later rows are data; only supported sheets keep rows (fix bc15c5b); every name is noted for the spelling check.
   The header row goes through get_excel_column_headers (Model/Backends.v) as a spreadsheet's does: empty header cells are skipped,
   runs of spaces collapsed, a duplicate header is an error; the only sheet of a workbook is the survey whatever its name. *)
Require Import PX.Base.Str PX.Base.PyStr PX.Model.Warnings PX.Gen.Warn PX.Model.Backends PX.Gen.Backends.
Local Open Scope N_scope.

Definition dictrow := list (str * str).
Inductive val := VRows (rows : list dictrow) | VHeader (h : list str) | VNames (l : list str).
Definition book := list (str * val).
Definition k_sheet_names : str := [115;104;101;101;116;95;110;97;109;101;115].
Definition header_key (n : str) : str := n ++ [95;104;101;97;100;101;114].
Fixpoint bget (k : str) (b : book) : option val := match b with [] => None | (k', v) :: r => if seqb k k' then Some v else bget k r end.
Fixpoint bput (k : str) (v : val) (b : book) : book :=
  match b with [] => [(k, v)] | (k', v') :: r => if seqb k k' then (k, v) :: r else (k', v') :: bput k v r end.
Definition bmem (k : str) (b : book) : bool := match bget k b with Some _ => true | None => false end.
Definition nonempty (s : str) : bool := match s with [] => false | _ => true end.

(* first_column_as_sheet_name *)
Definition first_col (row : list str) : option str * option (list str) :=
  match row with
  | [] => (None, None)
  | [x] => (Some (py_strip x), None)
  | x :: rest =>
      let n := py_strip x in
      let content := map py_strip rest in
      ((if nonempty n then Some n else None), (if existsb nonempty content then Some content else None))
  end.
(* the dict comprehension over zip(headers, cells): a repeated header keeps its first place and takes the last filled value *)
Fixpoint dput (k v : str) (d : dictrow) : dictrow :=
  match d with [] => [(k, v)] | (k', v') :: r => if seqb k k' then (k, v) :: r else (k', v') :: dput k v r end.
Fixpoint zip_filled_acc (acc : dictrow) (hs : list (option str)) (cs : list str) : dictrow :=
  match hs, cs with
  | h :: hs', c :: cs' => zip_filled_acc (match h with Some k => if nonempty c then dput k c acc else acc | None => acc end) hs' cs'
  | _, _ => acc
  end.
Definition zip_filled (hs : list (option str)) (cs : list str) : dictrow := zip_filled_acc [] hs cs.
Definition opt_cell (c : str) : option str := if nonempty c then Some c else None.      (* is_empty on a stripped cell *)
Definition somes (l : list (option str)) : list str := flat_map (fun x => match x with Some y => [y] | None => [] end) l.
(* _list_to_dict_list: the header row becomes the keys of one dict, so a repeated header keeps its first place only *)
Fixpoint dedup (seen : list str) (l : list str) : list str :=
  match l with [] => [] | x :: r => if existsb (seqb x) seen then dedup seen r else x :: dedup (x :: seen) r end.
Definition supported (n : option str) : bool := match n with Some s => mem s SUPPORTED_SHEET_NAMES | None => false end.
Record st := { bk : book; sheet : option str; headers : option (list (option str)); err : option str }.
Definition step (lower : str -> str) (only_one : bool) (s : st) (row : list str) : st :=
  match err s with Some _ => s | None =>
  let '(maybe, content) := first_col row in
  let s1 :=
    match maybe with
    | Some n =>
        if nonempty n && negb (bmem n (bk s)) then
          let names := match bget k_sheet_names (bk s) with Some (VNames l) => l | _ => [] end in
          let b1 := bput k_sheet_names (VNames (names ++ [n])) (bk s) in
          let ln0 := lower n in
          let ln := if negb (mem ln0 SUPPORTED_SHEET_NAMES) && only_one then s_survey else ln0 in
          {| bk := (if mem ln SUPPORTED_SHEET_NAMES then bput ln (VRows []) b1 else b1); sheet := Some ln; headers := None; err := None |}
        else {| bk := bk s; sheet := Some n; headers := None; err := None |}
    | None => s
    end in
  match content, sheet s1 with
  | Some c, Some sn =>
      if mem sn SUPPORTED_SHEET_NAMES then
        match headers s1 with
        | None =>
            match get_excel_column_headers py_strip (N.to_nat MAX_ADJACENT_EMPTY_COLUMNS) (map opt_cell c) with
            | Ok hs => {| bk := bput (header_key sn) (VHeader (dedup [] (somes hs))) (bk s1); sheet := sheet s1; headers := Some hs; err := None |}
            | PyxErr m => {| bk := bk s1; sheet := sheet s1; headers := headers s1; err := Some m |}
            end
        | Some hs =>
            let rows := match bget sn (bk s1) with Some (VRows r) => r | _ => [] end in
            {| bk := bput sn (VRows (rows ++ [zip_filled hs c])) (bk s1); sheet := sheet s1; headers := headers s1; err := None |}
        end
      else s1
  | None, Some sn =>
      (* a blank row (two or more cells, all empty) below the header row of a supported sheet is kept: row numbers stay those of the table *)
      match maybe, row, headers s1 with
      | None, _ :: _ :: _, Some _ =>
          if mem sn SUPPORTED_SHEET_NAMES then
            let rows := match bget sn (bk s1) with Some (VRows r) => r | _ => [] end in
            {| bk := bput sn (VRows (rows ++ [[]])) (bk s1); sheet := sheet s1; headers := headers s1; err := None |}
          else s1
      | _, _, _ => s1
      end
  | _, _ => s1
  end end.
(* below the last row of a sheet blank rows mean nothing: they are dropped at the end *)
Fixpoint drop_blank_front (l : list dictrow) : list dictrow := match l with [] :: r => drop_blank_front r | _ => l end.
Definition trim_rows (l : list dictrow) : list dictrow := rev (drop_blank_front (rev l)).
Definition trim_val (v : val) : val := match v with VRows r => VRows (trim_rows r) | _ => v end.
(* all_names: the distinct non-empty first-column names of the whole text *)
Definition sheet_names_of (rows : list (list str)) : list str :=
  dedup [] (flat_map (fun row => match fst (first_col row) with Some n => if nonempty n then [n] else [] | None => [] end) rows).
Definition only_one_sheet (rows : list (list str)) : bool := Nat.eqb (length (sheet_names_of rows)) 1.
Definition init_st : st := {| bk := [(k_sheet_names, VNames [])]; sheet := None; headers := None; err := None |}.
Definition csv_book (lower : str -> str) (rows : list (list str)) : res book :=
  let s := fold_left (step lower (only_one_sheet rows)) rows init_st in
  match err s with
  | Some m => PyxErr m
  | None => Ok (map (fun e => (fst e, trim_val (snd e))) (bk s))
  end.

(* renderer for the correspondence check *)
Definition show_val (v : val) : str :=
  match v with
  | VNames l => [78] ++ join [1] l
  | VHeader h => [72] ++ join [1] h
  | VRows rows => [82] ++ flat_map (fun r => flat_map (fun kv => fst kv ++ [61] ++ snd kv ++ [1]) r ++ [3]) rows
  end.
Definition show_book (b : res book) : str :=
  match b with Ok b => flat_map (fun e => fst e ++ [2] ++ show_val (snd e) ++ [4]) b | PyxErr m => [69] ++ m end.
