(* Model/Defaults.v — defaults and triggered calculations (property C10).
   Models, function for function:
     utils.default_is_dynamic (the decision over the lexer's tokens; re.Scanner itself is an oracle: `scan`)  -> default_is_dynamic
     Question.xml_instance (question.py) + Section.xml_instance / generate_repeating_template (section.py)     -> inst / tmpl with text
     SurveyElement.get_setvalue_node_for_dynamic_default, Survey.xml_descendent_bindings (model placement),
       RepeatingSection._dynamic_defaults_helper (repeat-body placement)                                     -> own, model_sv, body_sv
     SurveyElementBuilder._save_trigger, Survey.get_trigger_values_for_question_name,
       Question.xml_control/nest_set_nodes, SurveyElement.xml_bindings (calculate skipped when a trigger is set) -> save_triggers, nested_for, bind_calculate *)
Require Import PX.Base.Str PX.Model.Warnings PX.Gen.Defaults.

(* ---- static or dynamic ---- *)
Definition tok := (str * str)%type.                 (* lexer rule name, matched text *)
Definition s_ops_math : str := [79;80;83;95;77;65;84;72]%N.  (* OPS_MATH *)
Fixpoint dyn_tokens (hyphen_type : bool) (ts : list tok) : bool :=
  match ts with
  | [] => false
  | (n, v) :: r =>
      if hyphen_type && seqb n s_ops_math && seqb v [45%N] then false
      else if mem n DYNAMIC_TOKEN_NAMES then true
      else dyn_tokens hyphen_type r
  end.
Definition nonempty (s : str) : bool := match s with [] => false | _ => true end.
Section Classifier.
Variable scan : str -> list tok.                    (* _EXPRESSION_LEXER.scan: an oracle *)
Definition default_is_dynamic (d ty : str) : bool :=
  nonempty d && dyn_tokens (mem ty HYPHEN_TYPES) (scan d).
End Classifier.

(* ---- the element tree with defaults ---- *)
Inductive el :=
| Qn (name default : str) (dyn : bool)       (* default = [] : no default; dyn = default_is_dynamic default type *)
| Gp (name : str) (kids : list el)
| Rp (name : str) (kids : list el).
Definition path := list str.

(* xls2json: the default of an image question is a file name and gets the images prefix (process_image_default: unless the prefix occurs
   in it) - when it is a literal; an expression is left as it is (defect F103: it used to be prefixed too) *)
Definition s_images : str := [106;114;58;47;47;105;109;97;103;101;115;47]%N.          (* jr://images/ *)
Definition image_default (d : str) (dyn : bool) : str :=
  if nonempty d && negb dyn then (if contains s_images d then d else s_images ++ d) else d.

(* what the node of a question holds: the default, when there is one and it is static *)
Definition static_text (d : str) (dyn : bool) : str := if nonempty d && negb dyn then d else [].

Inductive itree := INode (name : str) (text : option str) (kids : list itree).   (* text: Some for a question node *)
Fixpoint inst (at_ : bool) (e : el) {struct e} : itree :=
  let step := fun k => match k with
                       | Rp _ _ => if at_ then [inst true k] else [tmpl k; inst true k]
                       | _ => [inst at_ k]
                       end in
  match e with
  | Qn n d dyn => INode n (Some (static_text d dyn)) []
  | Gp n kids => INode n None (flat_map step kids)
  | Rp n kids => INode n None (flat_map step kids)
  end
with tmpl (e : el) {struct e} : itree :=
  let step := fun k => match k with Rp _ _ => [tmpl k] | _ => [inst false k] end in
  match e with
  | Qn n d dyn => INode n (Some (static_text d dyn)) []
  | Gp n kids => INode n None (flat_map step kids)
  | Rp n kids => INode n None (flat_map step kids)
  end.
(* every question node of the primary instance (templates included) with its path and text *)
Fixpoint leaves (pre : path) (t : itree) : list (path * str) :=
  match t with
  | INode n txt kids => (match txt with Some x => [(pre ++ [n], x)] | None => [] end) ++ flat_map (leaves (pre ++ [n])) kids
  end.
(* the questions of the tree with the text their nodes are documented to hold *)
Fixpoint qtexts (pre : path) (e : el) : list (path * str) :=
  match e with
  | Qn n d dyn => [(pre ++ [n], static_text d dyn)]
  | Gp n kids => flat_map (qtexts (pre ++ [n])) kids
  | Rp n kids => flat_map (qtexts (pre ++ [n])) kids
  end.

(* ---- setvalue actions for dynamic defaults ---- *)
Record sv := mkSV { sv_ref : path; sv_value : str; sv_repeat : option path }.   (* sv_repeat: the repeat whose body holds it *)
(* events: odk-instance-first-load in the model, odk-instance-first-load odk-new-repeat in a repeat body *)
Definition has_dyn (d : str) (dyn : bool) : bool := nonempty d && dyn.
(* dynamic defaults of e and of its descendants that are not inside a (further) repeat *)
Fixpoint own (pre : path) (rep : option path) (e : el) : list sv :=
  match e with
  | Qn n d dyn => if has_dyn d dyn then [mkSV (pre ++ [n]) d rep] else []
  | Gp n kids => flat_map (own (pre ++ [n]) rep) kids
  | Rp _ _ => []
  end.
(* Survey.xml_descendent_bindings: elements without a repeat ancestor, in document order *)
Definition model_sv (root_name : str) (kids : list el) : list sv := flat_map (own [root_name] None) kids.
(* RepeatingSection.xml_control: every repeat's body gets the dynamic defaults of its non-repeat descendants *)
Fixpoint body_sv (pre : path) (e : el) : list (path * list sv) :=
  match e with
  | Qn _ _ _ => []
  | Gp n kids => flat_map (body_sv (pre ++ [n])) kids
  | Rp n kids => (pre ++ [n], flat_map (own (pre ++ [n]) (Some (pre ++ [n]))) kids) :: flat_map (body_sv (pre ++ [n])) kids
  end.

(* the dynamic defaults of the tree, each with the innermost repeat around its question (None: no repeat) *)
Fixpoint dynspec (pre : path) (rep : option path) (e : el) : list sv :=
  match e with
  | Qn n d dyn => if has_dyn d dyn then [mkSV (pre ++ [n]) d rep] else []
  | Gp n kids => flat_map (dynspec (pre ++ [n]) rep) kids
  | Rp n kids => flat_map (dynspec (pre ++ [n]) (Some (pre ++ [n]))) kids
  end.
Fixpoint body_flat (pre : path) (e : el) : list sv :=
  match e with
  | Qn _ _ _ => []
  | Gp n kids => flat_map (body_flat (pre ++ [n])) kids
  | Rp n kids => flat_map (own (pre ++ [n]) (Some (pre ++ [n]))) kids ++ flat_map (body_flat (pre ++ [n])) kids
  end.

(* ---- triggers ---- *)
Record trow := mkTrow { t_name : str; t_trigger : option str; t_calc : str; t_geo : bool }.
  (* t_trigger: the trigger cell after strip(); t_calc: bind.calculate or empty; t_geo: type is background-geopoint *)
Definition tdict := list (str * list (str * str)).
Fixpoint tappend (k : str) (v : str * str) (d : tdict) : tdict :=
  match d with
  | [] => [(k, [v])]
  | (a, l) :: r => if seqb a k then (a, l ++ [v]) :: r else (a, l) :: tappend k v r
  end.
Fixpoint tget (k : str) (d : tdict) : list (str * str) :=
  match d with [] => [] | (a, l) :: r => if seqb a k then l else tget k r end.
(* builder._save_trigger over the rows in document order: (setvalues_by_triggering_ref, setgeopoint_by_triggering_ref) *)
Definition save_trigger (acc : tdict * tdict) (r : trow) : tdict * tdict :=
  match t_trigger r with
  | None => acc
  | Some k => if t_geo r then (fst acc, tappend k (t_name r, t_calc r) (snd acc))
              else (tappend k (t_name r, t_calc r) (fst acc), snd acc)
  end.
Definition save_triggers (rows : list trow) : tdict * tdict := fold_left save_trigger rows ([], []).
Definition ref_of (name : str) : str := [36;123]%N ++ name ++ [125]%N.          (* the key used by get_trigger_values_for_question_name *)
Inductive action := SetValue (target value : str) | SetGeopoint (target value : str).
(* Question.xml_control of the question named a: nested setvalue items, then nested setgeopoint items *)
Definition nested_for (rows : list trow) (a : str) : list action :=
  let '(sv, sg) := save_triggers rows in
  map (fun tv => SetValue (fst tv) (snd tv)) (tget (ref_of a) sv) ++
  map (fun tv => SetGeopoint (fst tv) (snd tv)) (tget (ref_of a) sg).
(* xml_bindings: calculate is written on the bind unless the row has a trigger *)
Definition bind_calculate (r : trow) : option str :=
  match t_trigger r with
  | Some (_ :: _) => None
  | _ => if nonempty (t_calc r) then Some (t_calc r) else None
  end.
