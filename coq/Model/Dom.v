(* Model/Dom.v — stage E: the DOM that pyxform.utils.node() builds and its writers.
   Models, function for function:
     DE  = pyxform.utils.DetachableElement        (.writexml, utils.py:49-79)
     PT  = pyxform.utils.PatchedText              (.writexml, utils.py:90-96, escape_text_for_xml)
     ME  = xml.dom.minidom.Element shallow clone  (node(toParseString=True) clones with deep=False,
                                                   so a stock element never has children)
     MT  = xml.dom.minidom.Text clone             (Text.writexml -> _write_data)
   compact = Node.toxml() = writexml("", "", ""); pretty = toprettyxml(indent="  ") = writexml("", "  ", "\n"). *)
Require Import PX.Base.Str.

Definition LT : char := 60%N. Definition GT : char := 62%N. Definition AMP : char := 38%N.
Definition QUOT : char := 34%N. Definition SP : char := 32%N. Definition SLASH : char := 47%N.
Definition EQ : char := 61%N. Definition SEMI : char := 59%N. Definition NL : char := 10%N.
Definition s_amp : str := [38;97;109;112;59]%N.  (* &amp; *)
Definition s_lt : str := [38;108;116;59]%N.      (* &lt; *)
Definition s_gt : str := [38;103;116;59]%N.      (* &gt; *)
Definition s_quot : str := [38;113;117;111;116;59]%N. (* &quot; *)

(* escape_text_for_xml: XML_TEXT_SUBS maps amp, lt, gt *)
Definition esc_char_text (c : char) : str :=
  if ceq c AMP then s_amp else if ceq c LT then s_lt else if ceq c GT then s_gt else [c].
Definition esc_text (s : str) : str := flat_map esc_char_text s.
(* minidom._write_data: amp, lt, quot, gt *)
Definition esc_char_attr (c : char) : str :=
  if ceq c AMP then s_amp else if ceq c LT then s_lt else if ceq c QUOT then s_quot
  else if ceq c GT then s_gt else [c].
Definition wdata (s : str) : str := flat_map esc_char_attr s.

Inductive node :=
| DE (tag : str) (attrs : list (str * str)) (kids : list node)
| ME (tag : str) (attrs : list (str * str))
| PT (data : str)
| MT (data : str).

Definition is_text (n : node) : bool := match n with PT _ | MT _ => true | _ => false end.

Definition wattr (a : str * str) : str := SP :: fst a ++ [EQ; QUOT] ++ wdata (snd a) ++ [QUOT].
Definition wattrs (l : list (str * str)) : str := flat_map wattr l.

Fixpoint w (indent addindent newl : str) (n : node) {struct n} : str :=
  match n with
  | PT d => esc_text (indent ++ d ++ newl)
  | MT d => wdata (indent ++ d ++ newl)
  | ME tag attrs => indent ++ [LT] ++ tag ++ wattrs attrs ++ [SLASH; GT] ++ newl
  | DE tag attrs kids =>
      indent ++ [LT] ++ tag ++ wattrs attrs ++
      match kids with
      | [] => [SLASH; GT] ++ newl
      | k0 :: _ =>
          [GT] ++
          (if existsb is_text kids then
             (if andb (Nat.ltb 1 (length kids)) (is_text k0) then [SP] else []) ++
             flat_map (w [] [] []) kids ++
             (if Nat.ltb 1 (length kids) then [SP] else [])
           else newl ++ flat_map (w (indent ++ addindent) addindent newl) kids ++ indent)
          ++ [LT; SLASH] ++ tag ++ [GT] ++ newl
      end
  end.
Definition compact (n : node) : str := w [] [] [] n.
Definition pretty (n : node) : str := w [] [SP; SP] [NL] n.

(* Survey._to_ugly_xml / _to_pretty_xml (survey.py:1046-1051) *)
Definition decl : str := [60;63;120;109;108;32;118;101;114;115;105;111;110;61;34;49;46;48;34;63;62]%N.
Definition to_ugly (n : node) : str := decl ++ compact n.
Definition to_pretty (n : node) : str := decl ++ [NL] ++ pretty n.
