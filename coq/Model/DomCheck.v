(* Model/DomCheck.v — the checks pyxform performs while it builds and before it returns the document (pyxform/utils.py):
     DetachableElement.__init__ / setAttribute : validate_xml_name (is_xml_tag) on tag and attribute names,
                                                 validate_xml_text (no character outside the Char production) on attribute values;
     node()                                    : validate_xml_text on the text argument (before it is parsed, when it is);
     Survey.xml()                              : validate_namespace_prefixes on the assembled html element.
   DE/PT are the nodes pyxform creates; ME/MT are the nodes the namespace-aware XML parser delivers for a label that holds
   an <output/> (their names are QNames that are XML Names and their characters XML Chars by the parser's own checks:
   trusted base). *)
Require Import PX.Base.Str PX.Model.Dom PX.Model.Names PX.Model.Warnings PX.Spec.XmlName PX.Spec.NsCheck.
Definition text_ok (s : str) : bool := forallb xml_char s.
Definition attr_checked (p : str * str) : bool := is_xml_tag (fst p) && text_ok (snd p).
Definition attr_parsed (p : str * str) : bool := xml_name (fst p) && qname_ok (fst p) && text_ok (snd p).
Fixpoint built (n : node) : bool :=
  match n with
  | DE t a kids => is_xml_tag t && forallb attr_checked a && forallb built kids
  | ME t a => xml_name t && qname_ok t && forallb attr_parsed a
  | PT d => text_ok d
  | MT d => text_ok d
  end.
(* validate_namespace_declaration(prefix, uri), called for every attribute k with  k == "xmlns" or k.startswith("xmlns:"),  prefix = k[6:] *)
Definition XMLNS_COLON : str := s_xmlns ++ [NsCheck.COLON].
Definition py_is_decl (k : str) : bool := starts_with XMLNS_COLON k.
Definition py_decl_ok (a : str * str) : bool :=
  let k := fst a in let uri := snd a in
  if seqb k s_xmlns || py_is_decl k then
    let p := skipn 6 k in
    negb ((negb (is_nil p) && is_nil uri) || seqb p s_xmlns || seqb uri XMLNS_NS || xorb (seqb p s_xml) (seqb uri XML_NS))
  else true.
(* declared = declared | {k[6:] for k in attrs if k.startswith("xmlns:")}, starting from {"xml"} *)
Definition py_declared (attrs : list (str * str)) : list str :=
  flat_map (fun a => if py_is_decl (fst a) then [skipn 6 (fst a)] else []) attrs.
(* prefix, colon, _ = name.partition(":"); if colon and prefix not in declared: raise
   -- for the tag and for every attribute name that does not start with "xmlns:" *)
Definition py_bound (scope : list str) (n : str) : bool :=
  match qprefix n with None => true | Some p => mem p scope end.
Definition py_here (scope : list str) (t : str) (a : list (str * str)) : bool :=
  forallb py_decl_ok a && py_bound scope t && forallb (fun p => py_is_decl (fst p) || py_bound scope (fst p)) a.
Fixpoint py_ns_check (scope : list str) (n : node) : bool :=
  match n with
  | PT _ | MT _ => true
  | ME t a => py_here (py_declared a ++ scope) t a
  | DE t a kids => let scope' := py_declared a ++ scope in py_here scope' t a && forallb (py_ns_check scope') kids
  end.
Definition PY_SCOPE0 : list str := [s_xml].
(* the document is returned only if every check passed *)
Definition document_accepted (n : node) : bool := built n && py_ns_check PY_SCOPE0 n.
