(* Model/Dump.v — the JSON form of a survey element tree and its reload (property C16, on the repaired code):
     SurveyElement.to_json_dict (survey_element.py): copy the slots, delete internal keys and extra_data (recursively inside
       nested dicts), recurse into children and choices, drop every empty value;
     Question / Option / Survey overrides (slots starting with an underscore are internal; an Option keeps its extra columns);
     GroupedSection override (type is written as group; the bind is kept);
     SurveyElementBuilder.create_survey_element_from_dict (builder.py): rebuild by type, unknown keys go to extra_data.
   A question's type-table defaults are not part of the element here: the fields are what the form author supplied
   (Question.to_json_dict restores exactly those from _qtd_kwargs). *)
Require Import PX.Base.Str PX.Model.Warnings.

Inductive jv := JS (s : str) | JN | JT (b : bool) | JL (l : list jv) | JD (d : list (str * jv)).
Definition truthy (v : jv) : bool :=
  match v with JS [] => false | JS _ => true | JN => false | JT b => b | JL [] => false | JL _ => true | JD [] => false | JD _ => true end.

Inductive kind := KSurvey | KGroup | KRepeat | KQuestion | KOption | KList.
Definition kind_eqb (a b : kind) : bool :=
  match a, b with KSurvey, KSurvey | KGroup, KGroup | KRepeat, KRepeat | KQuestion, KQuestion | KOption, KOption | KList, KList => true | _, _ => false end.
(* fields: the non-structural slots in slot order; extra: extra_data; kids: children (for a question: the options of its own
   itemset; for a choice list: its options); lists: the survey's choice lists *)
Inductive elt := E (k : kind) (fields extra : list (str * jv)) (kids lists : list elt).

Definition s_type : str := [116;121;112;101]%N.  (* type *)
Definition s_group : str := [103;114;111;117;112]%N.  (* group *)
Definition s_repeat : str := [114;101;112;101;97;116]%N.  (* repeat *)
Definition s_survey : str := [115;117;114;118;101;121]%N.  (* survey *)
Definition s_children : str := [99;104;105;108;100;114;101;110]%N.  (* children *)
Definition s_choices : str := [99;104;111;105;99;101;115]%N.  (* choices *)
Definition s_name : str := [110;97;109;101]%N.  (* name *)
Definition internal (key : str) : bool := match key with 95%N :: _ => true | _ => false end.       (* slots whose name starts with an underscore *)

Fixpoint jget (k : str) (d : list (str * jv)) : option jv :=
  match d with [] => None | (a, v) :: r => if seqb a k then Some v else jget k r end.
Fixpoint jset (k : str) (v : jv) (d : list (str * jv)) : list (str * jv) :=
  match d with [] => [(k, v)] | (a, w) :: r => if seqb a k then (a, v) :: r else (a, w) :: jset k v r end.
Definition jsetdefault (k : str) (v : jv) (d : list (str * jv)) : list (str * jv) :=
  match jget k d with Some _ => d | None => d ++ [(k, v)] end.

Definition keep (kv : str * jv) : bool := truthy (snd kv) && negb (internal (fst kv)).

Fixpoint dump (e : elt) : list (str * jv) :=
  match e with
  | E k fields extra kids lists =>
      let base := filter keep fields in
      let base := match kids with [] => base | _ => base ++ [(s_children, JL (map (fun c => JD (dump c)) kids))] end in
      let base := match lists with
                  | [] => base
                  | _ => base ++ [(s_choices, JD (flat_map (fun l => match l with
                                   | E KList ((_, JS n) :: _) _ opts _ => [(n, JL (map (fun o => JD (dump o)) opts))]
                                   | _ => [] end) lists))]
                  end in
      let base := match k with KGroup => jset s_type (JS s_group) base | _ => base end in
      match k with KOption => fold_left (fun acc kv => if truthy (snd kv) then jsetdefault (fst kv) (snd kv) acc else acc) extra base | _ => base end
  end.

(* reload: the class is chosen by the type field (builder.create_survey_element_from_dict); the slot names of each class decide
   which keys are fields and which go to extra_data *)
Section Load.
Variable slots : kind -> list str.                (* get_slot_names() of each class, without the structural ones *)
Definition kind_of (parent_is_list : bool) (d : list (str * jv)) : kind :=
  if parent_is_list then KOption else
  match jget s_type d with
  | Some (JS t) => if seqb t s_survey then KSurvey else if seqb t s_group then KGroup else if seqb t s_repeat then KRepeat else KQuestion
  | _ => KQuestion
  end.
Definition structural (key : str) : bool := seqb key s_children || seqb key s_choices.
Fixpoint load (fuel : nat) (as_option : bool) (d : list (str * jv)) : elt :=
  let k := kind_of as_option d in
  let known := filter (fun kv => mem (fst kv) (slots k) && negb (structural (fst kv))) d in
  let unknown := filter (fun kv => negb (mem (fst kv) (slots k)) && negb (structural (fst kv))) d in
  match fuel with
  | O => E k known unknown [] []
  | S f =>
      let kid_is_option := match k with KQuestion | KList => true | _ => false end in
      let kids := match jget s_children d with
                  | Some (JL l) => flat_map (fun v => match v with JD c => [load f kid_is_option c] | _ => [] end) l
                  | _ => [] end in
      let lists := match k, jget s_choices d with
                   | KSurvey, Some (JD ls) =>
                       map (fun nl => E KList [(s_name, JS (fst nl))] []
                                        (match snd nl with JL l => flat_map (fun v => match v with JD c => [load f true c] | _ => [] end) l | _ => [] end) []) ls
                   | _, _ => [] end in
      E k known unknown kids lists
  end.
End Load.

(* what the XML generator reads from an element: its non-empty public fields (the generator tests values for truth), an option's
   extra columns, the children and choice lists — recursively *)
Fixpoint view (e : elt) : elt :=
  match e with
  | E k fields extra kids lists =>
      E k (match k with KList => fields | _ => filter keep fields end) (match k with KOption => filter (fun kv => truthy (snd kv)) extra | _ => [] end) (map view kids) (map view lists)
  end.
Fixpoint depth (e : elt) : nat :=
  match e with E _ _ _ kids lists => S (fold_right Nat.max 0 (map depth kids ++ map depth lists)) end.

(* ---- well-formed element trees (what the builder produces) ---- *)
Fixpoint nodupb (l : list str) : bool := match l with [] => true | x :: r => negb (mem x r) && nodupb r end.
Definition keys (d : list (str * jv)) : list str := map fst d.
Definition ekind (e : elt) : kind := match e with E k _ _ _ _ => k end.
Definition is_container (k : kind) : bool := match k with KSurvey | KGroup | KRepeat => true | _ => false end.
Definition type_ok (k : kind) (fields : list (str * jv)) : bool :=
  match k, jget s_type fields with
  | KSurvey, Some (JS t) => seqb t s_survey
  | KGroup, Some (JS t) => seqb t s_group
  | KRepeat, Some (JS t) => seqb t s_repeat
  | KQuestion, Some (JS (c :: t)) => negb (seqb (c :: t) s_survey) && negb (seqb (c :: t) s_group) && negb (seqb (c :: t) s_repeat)
  | KOption, _ => true
  | _, _ => false
  end.
Section WF.
Variable slots : kind -> list str.
Definition fields_ok (k : kind) (fields : list (str * jv)) : bool :=
  nodupb (keys fields) && forallb (fun key => mem key (slots k) && negb (structural key)) (keys fields).
Definition extra_ok (k : kind) (fields extra : list (str * jv)) : bool :=
  nodupb (keys extra) && forallb (fun key => negb (mem key (slots k)) && negb (structural key) && negb (mem key (keys fields))) (keys extra).
Fixpoint wf (e : elt) : bool :=
  match e with
  | E k fields extra kids lists =>
      fields_ok k fields && type_ok k fields && extra_ok k fields extra &&
      match k with
      | KSurvey | KGroup | KRepeat =>
          forallb (fun c => match ekind c with KGroup | KRepeat | KQuestion => true | _ => false end) kids && forallb wf kids &&
          match k with
          | KSurvey => forallb (fun l => match l with
                                         | E KList [(n, JS _)] [] opts [] => seqb n s_name && forallb (fun o => kind_eqb (ekind o) KOption) opts && forallb wf opts
                                         | _ => false end) lists
          | _ => match lists with [] => true | _ => false end
          end
      | KQuestion => forallb (fun c => kind_eqb (ekind c) KOption) kids && forallb wf kids && match lists with [] => true | _ => false end
      | KOption => match kids, lists with [], [] => true | _, _ => false end
      | KList => false
      end
  end.
End WF.

(* ---- canonical text of values and trees, for the correspondence ops (dict keys are listed in sorted order: the key order of a
   dump is not part of the model) ---- *)
Fixpoint str_leb (a b : str) : bool :=
  match a, b with
  | [], _ => true
  | _ :: _, [] => false
  | x :: a', y :: b' => if (x <? y)%N then true else if (y <? x)%N then false else str_leb a' b'
  end.
Fixpoint insert_kv (kv : str * str) (l : list (str * str)) : list (str * str) :=
  match l with [] => [kv] | x :: r => if str_leb (fst kv) (fst x) then kv :: l else x :: insert_kv kv r end.
Definition sort_kv (l : list (str * str)) : list (str * str) := fold_right insert_kv [] l.
Fixpoint render (v : jv) : str :=
  match v with
  | JS s => 34%N :: s ++ [34%N]
  | JN => [78%N]
  | JT true => [84%N]
  | JT false => [70%N]
  | JL l => 91%N :: flat_map (fun x => render x ++ [44%N]) l ++ [93%N]
  | JD d => 123%N :: flat_map (fun kv => fst kv ++ [58%N] ++ snd kv ++ [44%N]) (sort_kv (map (fun kv => match kv with (k, x) => (k, render x) end) d)) ++ [125%N]
  end.
Definition kind_char (k : kind) : N := match k with KSurvey => 83 | KGroup => 71 | KRepeat => 82 | KQuestion => 81 | KOption => 79 | KList => 76 end%N.
Fixpoint render_elt (e : elt) : str :=
  match e with
  | E k f x kids lists =>
      kind_char k :: render (JD f) ++ render (JD x) ++ 60%N :: flat_map (fun c => render_elt c ++ [59%N]) kids ++ [62%N] ++
      60%N :: flat_map (fun c => render_elt c ++ [59%N]) lists ++ [62%N]
  end.
