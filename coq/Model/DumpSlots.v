(* Model/DumpSlots.v — the slot names of the real classes (regenerated from /repo), as the `slots` argument of load / wf *)
Require Import PX.Base.Str PX.Model.Dump PX.Gen.Dump.
Definition real_slots (k : kind) : list str :=
  match k with
  | KSurvey => SLOTS_SURVEY
  | KGroup | KRepeat => SLOTS_SECTION
  | KQuestion => SLOTS_QUESTION
  | KOption => SLOTS_OPTION
  | KList => [s_name]
  end.
