(* Model/Entities.v — name validation of entities_parsing.py (get_validated_dataset_name, the name part of
   validate_entity_saveto) over the is_xml_tag model; the decision table itself is TRANSLATED (Gen/Entities.v). *)
Require Import PX.Base.Str PX.Model.Names PX.Model.Warnings.
Definition DOT : char := 46%N.
Definition reserved_prefix : str := [95;95]%N.
Definition s_name : str := [110;97;109;101]%N.
Definition s_label : str := [108;97;98;101;108]%N.
(* error number (1-based, in source order) or None *)
Definition dataset_check (d : str) : option nat :=
  if starts_with reserved_prefix d then Some 1
  else if negb (nochar DOT d) then Some 2
  else if negb (is_xml_tag d) then Some 3 else None.
(* the dataset CELL of the entities row: absent or empty is the first rejection (error 0), then the three name checks *)
Definition dataset_cell_check (c : option str) : option nat :=
  match c with None | Some [] => Some 0 | Some d => dataset_check d end.
Definition saveto_name_check (sv : str) : option nat :=
  if seqb (lower_ascii sv) s_name || seqb (lower_ascii sv) s_label then Some 1
  else if starts_with reserved_prefix sv then Some 2
  else if negb (is_xml_tag sv) then Some 3 else None.
(* in_repeat: any ancestor on the begin/end stack is a repeat *)
Definition in_repeat (stack : list bool) : bool := existsb (fun b => b) stack.
