(* Model/FindCalls.v — survey.find_indexed_repeat_calls: the (start, end) of each indexed-repeat(...) call of a text, found by counting
   parentheses from the opening one of the keyword (str.find for the keyword, then depth +1 on "(", -1 on ")", stop when it is 0 again;
   a call that is never closed is no call and ends the search). *)
Require Import PX.Base.Str.
Local Open Scope N_scope.
Definition LPc : N := 40. Definition RPc : N := 41.
Definition KW : str := [105;110;100;101;120;101;100;45;114;101;112;101;97;116;40].     (* indexed-repeat( *)
(* str.find(sub): index of the first occurrence *)
Fixpoint find_sub (sub s : str) : option nat :=
  match prefix sub s with
  | Some _ => Some 0%nat
  | None => match s with [] => None | _ :: r => option_map S (find_sub sub r) end
  end.
(* the number of characters up to and including the ")" that brings the depth back to 0; depth >= 1 is the depth before the first character *)
Fixpoint close_paren (depth : nat) (s : str) : option nat :=
  match s with
  | [] => None
  | c :: r =>
      if c =? LPc then option_map S (close_paren (S depth) r)
      else if c =? RPc then match depth with
                            | O => None
                            | S O => Some 1%nat
                            | S d => option_map S (close_paren d r)
                            end
      else option_map S (close_paren depth r)
  end.
(* calls of the text from offset `base` on; fuel bounds the number of calls (one per keyword occurrence) *)
Fixpoint find_calls_from (fuel : nat) (base : nat) (s : str) : list (nat * nat) :=
  match fuel with
  | O => []
  | S f =>
      match find_sub KW s with
      | None => []
      | Some i =>
          let after_kw := skipn (i + 15) s in             (* the text after "indexed-repeat(" *)
          match close_paren 1 after_kw with
          | None => []
          | Some k => (base + i, base + i + 15 + k)%nat :: find_calls_from f (base + i + 15 + k) (skipn k after_kw)
          end
      end
  end.
Definition find_calls (s : str) : list (nat * nat) := find_calls_from (S (length s)) 0 s.
