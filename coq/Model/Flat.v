(* Model/Flat.v — the `flat` setting (xls2json.add_flat_annotations marks every section that has children; section.py and
   survey_element.py then leave flat sections out of the instance and out of every xpath):
     Section.xml_instance_array / xml_instance   -> inst_list      (a flat section contributes its children's nodes, recursively)
     SurveyElement.get_xpath                       -> xpaths         (ancestors that are flat sections are skipped)
     Section._iter_instance_children + _validate_uniqueness_of_element_names (as repaired by fix 554d112) -> valid
   Names are compared through an arbitrary key function (Python's str.lower in the implementation). *)
Require Import PX.Base.Str.

Inductive ft := FQ (name : str) | FS (name : str) (flat : bool) (kids : list ft).
Inductive it := IN (name : str) (kids : list it).
Definition iname (x : it) : str := match x with IN n _ => n end.

(* the instance nodes an element contributes to its parent's node *)
Fixpoint inst_list (t : ft) : list it :=
  match t with
  | FQ n => [IN n []]
  | FS n true kids => flat_map inst_list kids
  | FS n false kids => [IN n (flat_map inst_list kids)]
  end.
(* the names _iter_instance_children yields for one child *)
Fixpoint inames (t : ft) : list str :=
  match t with
  | FQ n => [n]
  | FS n true kids => flat_map inames kids
  | FS n false _ => [n]
  end.
Definition path := list str.
(* get_xpath of every element that has an instance node (questions and non-flat sections), given the xpath of the nearest non-flat ancestor *)
Fixpoint xpaths (pre : path) (t : ft) : list path :=
  match t with
  | FQ n => [pre ++ [n]]
  | FS n true kids => flat_map (xpaths pre) kids
  | FS n false kids => (pre ++ [n]) :: flat_map (xpaths (pre ++ [n])) kids
  end.
Fixpoint ipaths (pre : path) (x : it) : list path :=
  match x with IN n kids => (pre ++ [n]) :: flat_map (ipaths (pre ++ [n])) kids end.

Section Key.
Variable key : str -> str.
Fixpoint dup_free (seen : list str) (l : list str) : bool :=
  match l with
  | [] => true
  | x :: r => negb (existsb (seqb (key x)) seen) && dup_free (key x :: seen) r
  end.
(* Section.validate: every child validates, and the children as they appear in the instance have distinct keys *)
Fixpoint valid (t : ft) : bool :=
  match t with
  | FQ _ => true
  | FS _ _ kids => forallb valid kids && dup_free [] (flat_map inames kids)
  end.
End Key.

(* renderers for the correspondence check *)
Fixpoint render_it (x : it) : str := match x with IN n kids => n ++ [40%N] ++ flat_map (fun k => render_it k ++ [59%N]) kids ++ [41%N] end.
Definition show_flat (key : str -> str) (t : ft) : str :=
  match t with
  | FS n false kids =>
      if valid key t
      then [86%N; 124%N] ++ flat_map (fun k => render_it k ++ [59%N]) (flat_map inst_list kids) ++ [124%N] ++ join [32%N] (map (join [47%N]) (flat_map (xpaths [n]) kids))
      else [88%N; 124%N; 124%N]
  | _ => []
  end.
