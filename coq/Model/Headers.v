(* Model/Headers.v — parsing/sheet_headers.py: to_snake_case, process_header (one header -> its token path),
   list_to_nested_dict + merge_dicts as used by process_row for the translatable / nested columns. *)
Require Import PX.Base.Str PX.Base.PyStr PX.Model.Warnings.

(* str.split() with no argument: split on runs of white space, no empty strings *)
Fixpoint py_split_ws_aux (cur : str) (s : str) : list str :=
  match s with
  | [] => match cur with [] => [] | _ => [rev cur] end
  | c :: r => if py_space c then (match cur with [] => [] | _ => [rev cur] end) ++ py_split_ws_aux [] r
              else py_split_ws_aux (c :: cur) r
  end.
Definition py_split_ws (s : str) : list str := py_split_ws_aux [] s.
Definition to_snake_case (s : str) : str := lower_ascii (join [95%N] (py_split_ws s)).

(* str.split(sep) for a non-empty separator *)
Fixpoint split_str (fuel : nat) (sep : str) (cur : str) (s : str) : list str :=
  match fuel with
  | O => [rev cur ++ s]
  | S f => match s with
           | [] => [rev cur]
           | c :: r => match prefix sep s with
                       | Some rest => rev cur :: split_str f sep [] rest
                       | None => split_str f sep (c :: cur) r
                       end
           end
  end.
Definition py_split (sep s : str) : list str := split_str (S (length s)) sep [] s.
Definition COLON2 : str := [58;58]%N.
Definition s_jr : str := [106;114]%N.
Fixpoint index_of (x : str) (l : list str) : option nat :=
  match l with [] => None | y :: r => if seqb x y then Some 0 else option_map S (index_of x r) end.

Section Header.
Variable aliases : list (str * list str).      (* header alias -> dealiased token(s) *)
Variable columns : list str.                   (* expected columns of the sheet *)
Fixpoint alias_get (k : str) (l : list (str * list str)) : option (list str) :=
  match l with [] => None | (a, v) :: r => if seqb a k then Some v else alias_get k r end.
Definition is_alias (k : str) : bool := match alias_get k aliases with Some _ => true | None => false end.

(* None = IndexError in tokens[jr_idx + 1]; the guard looks for jr in tokens[:-1], so that branch is
   proved unreachable (Proofs/Params.v: process_header_total) *)
Definition process_header (use_double_colon : bool) (header : str) : option (list str) :=
  if mem header columns && negb (is_alias header) then Some [header]
  else let norm := to_snake_case header in
  if mem norm columns && negb (is_alias norm) then Some [norm]
  else
    let tokens0 :=
      if use_double_colon || contains COLON2 header then Some (map py_strip (py_split COLON2 header))
      else let toks := map py_strip (py_split [58%N] header) in
           match index_of s_jr (removelast toks) with
           | None => Some toks
           | Some i => match nth_error toks (S i) with
                       | None => None
                       | Some nxt => Some (firstn i toks ++ [s_jr ++ [58%N] ++ nxt] ++ skipn (i + 2) toks)
                       end
           end in
    match tokens0 with
    | None => None
    | Some [] => Some []
    | Some (t0 :: rest) =>
        let nh := to_snake_case t0 in
        match alias_get nh aliases with
        | Some ((_ :: _) as d) => Some (d ++ rest)
        | _ => if mem nh columns then Some (nh :: rest) else Some (t0 :: rest)
        end
    end.
End Header.
