(* Model/InPredicate.v — Survey._var_repl_function._in_secondary_instance_predicate (for a text that mentions instance(...)): a reference is
   inside a predicate when more brackets have been opened than closed in the text before it:
       before = text[: match.start()];  return before.count("[") > before.count("]")  *)
Require Import PX.Base.Str.
Local Open Scope N_scope.
Definition LB : N := 91. Definition RB : N := 93.
Definition count_c (c : N) (s : str) : nat := length (filter (fun x => x =? c) s).
Definition in_predicate (before : str) : bool := Nat.ltb (count_c RB before) (count_c LB before).
