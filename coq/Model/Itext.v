(* Model/Itext.v — the translations store of Survey (survey.py:794-962) as data:
     facts: (language, text id, form, text) in the order SurveyElement.get_translations / get_choice_content /
            _setup_media produce them;
     _translations[lang][id][form] = text with Python dict insertion order (first touch fixes the position);
     _add_empty_translations: every language gets every id and, per id, every form seen in any language, '-' where
     nothing was written.
   Which references the body / binds / choice items emit is modelled beside it (needs_itext_ref, xml_label, xml_hint,
   xml_bindings' message redirection, Itemset.requires_itext). *)
Require Import PX.Base.Str PX.Model.Warnings.

Definition fact := (str * str * str * str)%type.            (* lang, id, form, text *)
Definition forms := list (str * str).                        (* form -> text *)
Definition ids := list (str * forms).                        (* id -> forms *)
Definition store := list (str * ids).                        (* lang -> ids *)

Fixpoint fget {V} (k : str) (d : list (str * V)) : option V :=
  match d with [] => None | (a, v) :: r => if seqb a k then Some v else fget k r end.
Fixpoint fset {V} (k : str) (v : V) (d : list (str * V)) : list (str * V) :=
  match d with
  | [] => [(k, v)]
  | (a, w) :: r => if seqb a k then (a, v) :: r else (a, w) :: fset k v r
  end.
Definition add_fact (s : store) (f : fact) : store :=
  let '(l, i, fm, t) := f in
  let li := match fget l s with Some x => x | None => [] end in
  let fi := match fget i li with Some x => x | None => [] end in
  fset l (fset i (fset fm t fi) li) s.
Definition build (fs : list fact) : store := fold_left add_fact fs [].

Definition lookup (s : store) (l i fm : str) : option str :=
  match fget l s with Some li => match fget i li with Some fi => fget fm fi | None => None end | None => None end.

(* _add_empty_translations *)
Definition DASH : str := [45%N].
Definition union_forms (acc : list (str * list str)) (li : ids) : list (str * list str) :=
  fold_left (fun a p => let cur := match fget (fst p) a with Some x => x | None => [] end in
                        fset (fst p) (fold_left (fun c fm => add_set (fst fm) c) (snd p) cur) a) li acc.
Definition all_paths_forms (s : store) : list (str * list str) := fold_left (fun a p => union_forms a (snd p)) s [].
Definition Gf (li : ids) (i : str) : forms := match fget i li with Some x => x | None => [] end.
Definition padforms (fms : list str) (fi : forms) : forms :=
  fold_left (fun f fm => match fget fm f with Some _ => f | None => fset fm DASH f end) fms fi.
Definition pad_lang (paths : list (str * list str)) (li : ids) : ids :=
  fold_left (fun cur p => fset (fst p) (padforms (snd p) (Gf cur (fst p))) cur) paths li.
Definition pad (s : store) : store := let ps := all_paths_forms s in map (fun p => (fst p, pad_lang ps (snd p))) s.

(* ---- which facts an element contributes, which references it emits ---- *)
Inductive lab := LNone | LStr (t : str) | LDict (d : list (str * str)).
Definition lab_truthy (x : lab) : bool := match x with LNone => false | LStr [] => false | LStr _ => true | LDict [] => false | LDict _ => true end.
Definition is_dict (x : lab) : bool := match x with LDict _ => true | _ => false end.
Record element := {
  e_path : str; e_label : lab; e_hint : lab; e_guidance : lab;
  e_media : list (str * lab);             (* media type -> file or per-language files *)
  e_constraint_msg : lab; e_required_msg : lab
}.
Definition s_long : str := [108;111;110;103]%N.
Definition s_guidance : str := [103;117;105;100;97;110;99;101]%N.
Definition sfx (p : str) (x : list N) : str := p ++ [58%N] ++ x.
Definition x_label : list N := [108;97;98;101;108]%N.
Definition x_hint : list N := [104;105;110;116]%N.
Definition x_cmsg : list N := [106;114;58;99;111;110;115;116;114;97;105;110;116;77;115;103]%N.
Definition x_rmsg : list N := [106;114;58;114;101;113;117;105;114;101;100;77;115;103]%N.
Definition REF_OPEN : str := [36;123]%N.
Definition has_ref (t : str) : bool := contains REF_OPEN t.

Definition needs_itext_ref (e : element) : bool := is_dict (e_label e) || negb (match e_media e with [] => true | _ => false end).

Section Facts.
Variable default_language : str.
Definition of_lab (id form : str) (x : lab) : list fact :=
  match x with LDict d => map (fun p => (fst p, id, form, snd p)) d | _ => [] end.
Definition msg_facts (id : str) (x : lab) : list fact :=
  match x with
  | LDict d => map (fun p => (fst p, id, s_long, snd p)) d
  | LStr t => if has_ref t then [(default_language, id, s_long, t)] else []
  | LNone => []
  end.
Definition element_facts (e : element) : list fact :=
  let p := e_path e in
  msg_facts (sfx p x_cmsg) (e_constraint_msg e) ++ msg_facts (sfx p x_rmsg) (e_required_msg e) ++
  (let l := match e_label e with
            | LStr t => if needs_itext_ref e && lab_truthy (LStr t) then LDict [(default_language, t)] else LStr t
            | x => x end in of_lab (sfx p x_label) s_long l) ++
  (let h := match e_hint e with
            | LStr t => if lab_truthy (LStr t) && lab_truthy (e_guidance e) then LDict [(default_language, t)] else LStr t
            | x => x end in of_lab (sfx p x_hint) s_long h) ++
  (let g := match e_guidance e with LStr [] => LStr [] | LStr t => LDict [(default_language, t)] | x => x end in
   of_lab (sfx p x_hint) s_guidance g).
Definition media_facts (e : element) : list fact :=
  flat_map (fun m => match snd m with
                     | LDict d => map (fun p => (fst p, sfx (e_path e) x_label, fst m, snd p)) d
                     | LStr t => [(default_language, sfx (e_path e) x_label, fst m, t)]
                     | LNone => [] end) (e_media e).
Definition survey_facts (es : list element) : list fact := flat_map element_facts es ++ flat_map media_facts es.

(* references emitted for an element: label ref, hint ref, bind message refs *)
Definition emitted_refs (e : element) : list str :=
  let p := e_path e in
  (if (lab_truthy (e_label e) || negb (match e_media e with [] => true | _ => false end)
       || lab_truthy (e_hint e) || lab_truthy (e_guidance e)) && needs_itext_ref e then [sfx p x_label] else []) ++
  (if (lab_truthy (e_hint e) || lab_truthy (e_guidance e)) && (is_dict (e_hint e) || lab_truthy (e_guidance e)) then [sfx p x_hint] else []) ++
  (match e_constraint_msg e with LDict _ => [sfx p x_cmsg] | LStr t => if has_ref t then [sfx p x_cmsg] else [] | LNone => [] end) ++
  (match e_required_msg e with LDict _ => [sfx p x_rmsg] | LStr t => if has_ref t then [sfx p x_rmsg] else [] | LNone => [] end).
End Facts.

Definition store_ids (s : store) (l : str) : list str := match fget l s with Some li => map fst li | None => [] end.
Definition langs (s : store) : list str := map fst s.

(* canonical text for the correspondence op D.itext *)
Definition show_store (s : store) : str :=
  join [2%N] (flat_map (fun pl => flat_map (fun pi => map (fun pf => fst pl ++ [1%N] ++ fst pi ++ [1%N] ++ fst pf ++ [1%N] ++ snd pf) (snd pi)) (snd pl)) s).
Definition itext_projection (dl : str) (es : list element) : str :=
  show_store (pad (build (survey_facts dl es))) ++ [0%N] ++ join [2%N] (flat_map (emitted_refs) es).

(* ---- choices (question.py Itemset.requires_itext; survey.py get_choice_content, _generate_static_instances) ---- *)
Record choice := { c_label : lab; c_media : list (str * lab) }.
Definition requires_itext (cs : list choice) : bool :=
  existsb (fun c => negb (match c_media c with [] => true | _ => false end) || is_dict (c_label c)
                    || match c_label c with LStr t => has_ref t | _ => false end) cs.
Definition choice_id (list_name : str) (idx : nat) : str := list_name ++ [45%N] ++ dec (N.of_nat idx).
Definition choice_facts (dl list_name : str) (idx : nat) (c : choice) : list fact :=
  let id := choice_id list_name idx in
  (match c_label c with
   | LDict d => map (fun p => (fst p, id, s_long, snd p)) d
   | LStr [] => [] | LStr t => [(dl, id, s_long, t)] | LNone => [] end) ++
  flat_map (fun m => match snd m with
                     | LDict d => map (fun p => (fst p, id, fst m, snd p)) d
                     | LStr t => [(dl, id, fst m, t)] | LNone => [] end) (c_media c).
Fixpoint list_facts (dl list_name : str) (idx : nat) (cs : list choice) : list fact :=
  match cs with [] => [] | c :: r => choice_facts dl list_name idx c ++ list_facts dl list_name (S idx) r end.
(* every item of a list that requires itext carries <itextId>list-idx</itextId> *)
Definition emitted_item_ids (list_name : str) (cs : list choice) : list str :=
  if requires_itext cs then map (choice_id list_name) (seq 0 (length cs)) else [].

(* ---- _add_empty_translations as repaired by fix 57bc304: the ids of all choices of lists that use itext are padded too ---- *)
(* paths.setdefault(id, {"long": None}) for every id of `extra`, in order *)
Definition add_ids (extra : list str) (ps : list (str * list str)) : list (str * list str) :=
  fold_left (fun a id => match fget id a with Some _ => a | None => a ++ [(id, [s_long])] end) extra ps.
Definition pad_with (extra : list str) (s : store) : store :=
  let ps := add_ids extra (all_paths_forms s) in map (fun p => (fst p, pad_lang ps (snd p))) s.

