(* Model/Json.v — json.dumps (default separators, ensure_ascii=True) and json.loads for the values a pyxform JSON form holds
   (strings, None, booleans, lists, dicts with string keys; numbers do not occur in the fragment). *)
Require Import PX.Base.Str PX.Model.Dump.
Local Open Scope N_scope.

Definition hex_digit (n : N) : N := if n <? 10 then 48 + n else 87 + n.           (* 0-9, a-f *)
Definition hex4 (c : N) : str := [hex_digit (c / 4096 mod 16); hex_digit (c / 256 mod 16); hex_digit (c / 16 mod 16); hex_digit (c mod 16)].
Definition uesc (c : N) : str := 92 :: 117 :: hex4 c.
(* json.encoder.py_encode_basestring_ascii: printable ASCII except backslash and quote passes; the seven short escapes; \uXXXX,
   as a surrogate pair above the BMP *)
Definition esc_char (c : N) : str :=
  if c =? 34 then [92; 34] else if c =? 92 then [92; 92]
  else if c =? 10 then [92; 110] else if c =? 13 then [92; 114] else if c =? 9 then [92; 116]
  else if c =? 8 then [92; 98] else if c =? 12 then [92; 102]
  else if (32 <=? c) && (c <=? 126) then [c]
  else if c <? 65536 then uesc c
  else uesc (55296 + (c - 65536) / 1024) ++ uesc (56320 + (c - 65536) mod 1024).
Definition dump_str (s : str) : str := 34 :: flat_map esc_char s ++ [34].
Definition s_null : str := [110;117;108;108]. Definition s_true : str := [116;114;117;101]. Definition s_false : str := [102;97;108;115;101].
Definition sep_item : str := [44; 32]. Definition sep_kv : str := [58; 32].
Fixpoint dumps (v : jv) : str :=
  match v with
  | JS s => dump_str s
  | JN => s_null
  | JT true => s_true
  | JT false => s_false
  | JL l => 91 :: join sep_item (map dumps l) ++ [93]
  | JD d => 123 :: join sep_item (map (fun kv => match kv with (k, x) => dump_str k ++ sep_kv ++ dumps x end) d) ++ [125]
  end.

(* ---- json.loads ---- *)
Definition hex_val (c : N) : option N :=
  if (48 <=? c) && (c <=? 57) then Some (c - 48) else if (97 <=? c) && (c <=? 102) then Some (c - 87)
  else if (65 <=? c) && (c <=? 70) then Some (c - 55) else None.
Definition parse_hex4 (s : str) : option (N * str) :=
  match s with
  | a :: b :: c :: d :: r =>
      match hex_val a, hex_val b, hex_val c, hex_val d with
      | Some x, Some y, Some z, Some w => Some (x * 4096 + y * 256 + z * 16 + w, r)
      | _, _, _, _ => None
      end
  | _ => None
  end.
(* the body of a string, after the opening quote *)
Definition short_escape (e : N) : option N :=
  if e =? 34 then Some 34 else if e =? 92 then Some 92 else if e =? 47 then Some 47 else if e =? 110 then Some 10
  else if e =? 114 then Some 13 else if e =? 116 then Some 9 else if e =? 98 then Some 8 else if e =? 102 then Some 12 else None.
Definition is_high (u : N) : bool := (55296 <=? u) && (u <=? 56319).
Definition is_low (u : N) : bool := (56320 <=? u) && (u <=? 57343).
Fixpoint parse_str (fuel : nat) (acc : str) (s : str) : option (str * str) :=
  match fuel with
  | O => None
  | S f =>
      match s with
      | [] => None
      | c :: r =>
          if c =? 34 then Some (rev acc, r)
          else if c =? 92 then
            match r with
            | [] => None
            | e :: r1 =>
                if e =? 117 then
                  match parse_hex4 r1 with
                  | Some (u, r2) =>
                      if is_high u then
                        match r2 with
                        | b :: u2 :: r3 =>
                            if (b =? 92) && (u2 =? 117) then
                              match parse_hex4 r3 with
                              | Some (lo, r4) => if is_low lo then parse_str f (65536 + (u - 55296) * 1024 + (lo - 56320) :: acc) r4
                                                 else parse_str f (u :: acc) r2
                              | None => None
                              end
                            else parse_str f (u :: acc) r2
                        | _ => parse_str f (u :: acc) r2
                        end
                      else parse_str f (u :: acc) r2
                  | None => None
                  end
                else match short_escape e with Some x => parse_str f (x :: acc) r1 | None => None end
            end
          else if c <? 32 then None else parse_str f (c :: acc) r
      end
  end.
Definition is_ws (c : N) : bool := (c =? 32) || (c =? 9) || (c =? 10) || (c =? 13).
Fixpoint skip_ws (s : str) : str := match s with c :: r => if is_ws c then skip_ws r else s | [] => [] end.
Definition opt_map2 {A B} (f : A -> B) (o : option (A * str)) : option (B * str) := match o with Some (a, r) => Some (f a, r) | None => None end.

Fixpoint parse_value (fuel : nat) (s : str) : option (jv * str) :=
  match fuel with
  | O => None
  | S f =>
      match skip_ws s with
      | [] => None
      | c :: r =>
          if c =? 34 then opt_map2 JS (parse_str (S (length r)) [] r)
          else if c =? 110 then opt_map2 (fun _ => JN) (option_map (fun x => (tt, x)) (prefix [117;108;108] r))
          else if c =? 116 then opt_map2 (fun _ => JT true) (option_map (fun x => (tt, x)) (prefix [114;117;101] r))
          else if c =? 102 then opt_map2 (fun _ => JT false) (option_map (fun x => (tt, x)) (prefix [97;108;115;101] r))
          else if c =? 91 then
            match skip_ws r with
            | c2 :: r' => if c2 =? 93 then Some (JL [], r') else opt_map2 JL (parse_elems f r)
            | [] => None
            end
          else if c =? 123 then
            match skip_ws r with
            | c2 :: r' => if c2 =? 125 then Some (JD [], r') else opt_map2 JD (parse_members f r)
            | [] => None
            end
          else None
      end
  end
with parse_elems (fuel : nat) (s : str) : option (list jv * str) :=
  match fuel with
  | O => None
  | S f =>
      match parse_value f s with
      | Some (v, r) =>
          match skip_ws r with
          | c :: r' => if c =? 44 then opt_map2 (cons v) (parse_elems f r') else if c =? 93 then Some ([v], r') else None
          | [] => None
          end
      | None => None
      end
  end
with parse_members (fuel : nat) (s : str) : option (list (str * jv) * str) :=
  match fuel with
  | O => None
  | S f =>
      match skip_ws s with
      | q :: r =>
          if q =? 34 then
            match parse_str (S (length r)) [] r with
            | Some (k, r1) =>
                match skip_ws r1 with
                | c :: r2 =>
                    if c =? 58 then
                      match parse_value f r2 with
                      | Some (v, r3) =>
                          match skip_ws r3 with
                          | c3 :: r4 => if c3 =? 44 then opt_map2 (cons (k, v)) (parse_members f r4) else if c3 =? 125 then Some ([(k, v)], r4) else None
                          | [] => None
                          end
                      | None => None
                      end
                    else None
                | [] => None
                end
            | None => None
            end
          else None
      | [] => None
      end
  end.
(* the fuel a value needs: one unit per value and per element / member *)
Fixpoint cost (v : jv) : nat :=
  match v with
  | JL l => S (fold_right (fun x acc => S (cost x + acc)) 0%nat l)
  | JD d => S (fold_right (fun kv acc => S (cost (snd kv) + acc)) 0%nat d)
  | _ => 1%nat
  end.
Definition loads (s : str) : option jv :=
  match parse_value (S (2 * length s)) s with
  | Some (v, r) => match skip_ws r with [] => Some v | _ => None end
  | None => None
  end.
(* values json can round-trip: code points below 0x110000 that are not surrogates *)
Definition char_ok (c : N) : bool := (c <? 1114112) && negb ((55296 <=? c) && (c <=? 57343)).
Definition str_ok (s : str) : bool := forallb char_ok s.
Fixpoint jv_ok (v : jv) : bool :=
  match v with
  | JS s => str_ok s
  | JL l => forallb jv_ok l
  | JD d => forallb (fun kv => str_ok (fst kv) && jv_ok (snd kv)) d
  | _ => true
  end.
Example ex_loads : loads (dumps (JD [([97], JL [JS [34;92;10;233;128512;127]; JN; JT true; JL []; JD []]); ([98;32], JS [])])) =
  Some (JD [([97], JL [JS [34;92;10;233;128512;127]; JN; JT true; JL []; JD []]); ([98;32], JS [])]).
Proof. vm_compute. reflexivity. Qed.
