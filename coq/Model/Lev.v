(* Model/Lev.v — pyxform.utils.levenshtein_distance (utils.py:254-299): the iterative two-row algorithm.
   v0 is the previous row, the new row v1 is filled left to right; `left` is v1[j]. *)
Require Import PX.Base.Str PX.Spec.EditDistance.

Fixpoint fill_row (x : char) (b : str) (v0 : list nat) (left : nat) : list nat :=
  match b, v0 with
  | y :: b', d :: ((u :: _) as v0') =>
      let deletion := u + 1 in
      let insertion := left + 1 in
      let substitution := if ceq x y then d else d + 1 in
      let c := min3 deletion insertion substitution in
      c :: fill_row x b' v0' c
  | _, _ => []
  end.
Definition next_row (x : char) (b : str) (v0 : list nat) (i : nat) : list nat :=
  (i + 1) :: fill_row x b v0 (i + 1).

Fixpoint rows (a b : str) (v0 : list nat) (i : nat) : list nat :=
  match a with
  | [] => v0
  | x :: a' => rows a' b (next_row x b v0 i) (S i)
  end.
Definition levenshtein (a b : str) : nat :=
  nth (length b) (rows a b (seq 0 (S (length b))) 0) 0.
