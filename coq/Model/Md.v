(* Model/Md.v — the Markdown reader xls2json_backends._md_table_to_ss_structure (with _md_strp_cell and the five MD_ patterns),
   line by line (pattern texts are regenerated and pinned in Proofs/PinsMd.v; they cannot be quoted inside a Coq comment):
     MD_COMMENT         a line whose first non-blank character is a hash sign is skipped
     MD_COMMENT_INLINE  a trailing comment (a hash followed by at least one character and no pipe up to the end of the line) is cut
     MD_CELL            the text between the first pipe (after leading blanks) and the LAST pipe of the line
     MD_SEPARATOR       a row made of pipes and dashes only is skipped
     MD_PIPE_OR_ESCAPE  cells are separated by the pipes that are not preceded by a backslash
   White space is Unicode white space (these are ordinary compiled patterns, unlike the expression scanner). *)
Require Import PX.Base.Str PX.Base.PyStr.
Local Open Scope N_scope.
Definition PIPE : N := 124. Definition HASH : N := 35. Definition BSL : N := 92. Definition DASH : N := 45.

Definition is_comment (line : str) : bool := match lstrip line with c :: _ => c =? HASH | [] => false end.
(* on the reversed line: the reversed text before the comment, if there is one *)
Fixpoint inline_cut_rev (seen : bool) (r : str) : option str :=
  match r with
  | [] => None
  | c :: r' => if c =? PIPE then None else if (c =? HASH) && seen then Some r' else inline_cut_rev true r'
  end.
Definition cut_inline_comment (line : str) : str := match inline_cut_rev false (rev line) with Some p => rev p | None => line end.
(* the text up to the last pipe, on the reversed remainder *)
Fixpoint drop_to_pipe (r : str) : option str := match r with [] => None | c :: r' => if c =? PIPE then Some r' else drop_to_pipe r' end.
Definition md_cell_group (line : str) : option str :=
  match lstrip line with
  | c :: rest => if c =? PIPE then match drop_to_pipe (rev rest) with Some g => Some (rev g) | None => None end else None
  | [] => None
  end.
Definition is_separator (g : str) : bool := match g with [] => false | _ => forallb (fun c => (c =? PIPE) || (c =? DASH)) g end.
Fixpoint split_unesc (prev_bs : bool) (cur : str) (s : str) : list str :=
  match s with
  | [] => [rev cur]
  | c :: r => if (c =? PIPE) && negb prev_bs then rev cur :: split_unesc false [] r else split_unesc (c =? BSL) (c :: cur) r
  end.
Fixpoint unescape_pipes (s : str) : str :=
  match s with
  | a :: ((b :: r) as t) => if (a =? BSL) && (b =? PIPE) then PIPE :: unescape_pipes r else a :: unescape_pipes t
  | _ => s
  end.
Definition strp_cell (cell : str) : option str := if py_isspace cell || match cell with [] => true | _ => false end then None else Some (unescape_pipes (py_strip cell)).

Definition row := list (option str).
Record st := { sheets : list (option str * option (list row)); cur_name : option str; cur_rows : option (list row) }.
Fixpoint put (k : option str) (v : option (list row)) (l : list (option str * option (list row))) :=
  match l with
  | [] => [(k, v)]
  | (k', v') :: r => if match k, k' with Some a, Some b => seqb a b | None, None => true | _, _ => false end then (k, v) :: r else (k', v') :: put k v r
  end.
Definition any_some (r : row) : bool := existsb (fun c => match c with Some _ => true | None => false end) r.
Definition step (s : st) (line : str) : st :=
  if is_comment line then s
  else
    let line := cut_inline_comment line in
    match md_cell_group line with
    | None => s
    | Some g =>
        if is_separator g then {| sheets := put (cur_name s) (cur_rows s) (sheets s); cur_name := cur_name s; cur_rows := cur_rows s |}
        else
          match map strp_cell (split_unesc false [] g) with
          | [] => {| sheets := put (cur_name s) (cur_rows s) (sheets s); cur_name := cur_name s; cur_rows := cur_rows s |}
          | first :: rw =>
              let '(sheets1, name1, rows1) :=
                match first with
                | Some n => ((match cur_rows s with Some ((_ :: _) as a) => put (cur_name s) (Some a) (sheets s) | _ => sheets s end), Some n, Some [])
                | None => (sheets s, cur_name s, cur_rows s)
                end in
              (* a blank row is kept below the header row of a sheet (first cell empty, rows already present): row numbers stay those of the table *)
              let blank_kept := match first, rows1 with None, Some (_ :: _) => true | _, _ => false end in
              let rows2 := match name1, rows1 with Some _, Some a => if any_some rw || blank_kept then Some (a ++ [rw]) else rows1 | _, _ => rows1 end in
              {| sheets := put name1 rows2 sheets1; cur_name := name1; cur_rows := rows2 |}
          end
    end.
Definition md_structure (text : str) : list (option str * option (list row)) :=
  sheets (fold_left step (split_on 10 text) {| sheets := []; cur_name := None; cur_rows := None |}).

(* renderer for the correspondence check *)
Definition show_cell (c : option str) : str := match c with Some s => [83] ++ s | None => [78] end.
Definition show_entry (e : option str * option (list row)) : str :=
  (match fst e with Some n => [75] ++ n | None => [70] end) ++ [2] ++
  (match snd e with Some rows => [82] ++ flat_map (fun r => join [1] (map show_cell r) ++ [3]) rows | None => [70] end).
Definition show_md (text : str) : str := flat_map (fun e => show_entry e ++ [4]) (md_structure text).
