(* Model/MdBook.v — xls2json_backends.md_to_dict.process_md_data with list_to_dicts, over the structure that _md_table_to_ss_structure
   delivers (Model/Md.v): every sheet name is noted; a supported sheet (or the only sheet of the workbook, as the survey) gets its header
   row through get_excel_column_headers (Model/Backends.v), its rows as dicts of the filled cells, and the list of its headers.
   The result has the type the CSV reader's has (Model/CsvBook.v book), so the two can be compared. *)
Require Import PX.Base.Str PX.Base.PyStr PX.Model.Warnings PX.Gen.Warn PX.Model.Backends PX.Gen.Backends PX.Model.Md PX.Model.CsvBook.
Local Open Scope N_scope.

Definition isnone (c : option str) : bool := match c with None => true | Some _ => false end.
Fixpoint takewhile {A} (p : A -> bool) (l : list A) : list A := match l with x :: r => if p x then x :: takewhile p r else [] | [] => [] end.
(* the keys of a row: the cleaned headers, then a None for every empty cell that follows them in the header row (up to the next filled one) *)
Definition md_keys (hs hrow : list (option str)) : list (option str) := hs ++ takewhile isnone (skipn (length hs) hrow).
(* a value under an empty header cell stays in the row under the key None: written here as the empty name, which no header can have *)
Definition key_of (k : option str) : str := match k with Some h => h | None => [] end.
Fixpoint md_zip_acc (acc : dictrow) (keys : list (option str)) (cells : Md.row) : dictrow :=
  match keys, cells with
  | k :: ks, c :: cs => md_zip_acc (match c with Some v => if nonempty v then dput (key_of k) v acc else acc | None => acc end) ks cs
  | _, _ => acc
  end.
Definition md_sheet_rows (contents : list Md.row) (hs : list (option str)) : list dictrow :=
  match contents with
  | [] => []
  | hrow :: data => trim_rows (map (md_zip_acc [] (md_keys hs hrow)) data)
  end.
Record mst := { mbk : book; merr : option str }.
Definition s_read_error : str := [114;101;97;100].       (* a sheet key that is not a name: AttributeError, reported as a read error *)
Definition md_step (only_one : bool) (s : mst) (e : option str * option (list Md.row)) : mst :=
  match merr s with
  | Some _ => s
  | None =>
      match fst e with
      | None => {| mbk := mbk s; merr := Some s_read_error |}
      | Some n =>
          let names := match bget k_sheet_names (mbk s) with Some (VNames l) => l | _ => [] end in
          let b1 := bput k_sheet_names (VNames (names ++ [n])) (mbk s) in
          let contents := match snd e with Some (r :: rs) => r :: rs | _ => [[]] end in
          let ln0 := lower_ascii n in
          if negb (mem ln0 SUPPORTED_SHEET_NAMES) && negb only_one then {| mbk := b1; merr := None |}
          else
            let ln := if mem ln0 SUPPORTED_SHEET_NAMES then ln0 else s_survey in
            match get_excel_column_headers py_strip (N.to_nat MAX_ADJACENT_EMPTY_COLUMNS) (hd [] contents) with
            | Ok hs => {| mbk := bput (header_key ln) (VHeader (dedup [] (somes hs))) (bput ln (VRows (md_sheet_rows contents hs)) b1); merr := None |}
            | PyxErr m => {| mbk := b1; merr := Some m |}
            end
      end
  end.
Definition md_book (structure : list (option str * option (list Md.row))) : res book :=
  let s := fold_left (md_step (Nat.eqb (length structure) 1)) structure {| mbk := [(k_sheet_names, VNames [])]; merr := None |} in
  match merr s with Some m => PyxErr m | None => Ok (mbk s) end.
