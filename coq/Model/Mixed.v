(* Model/Mixed.v — Survey.insert_output_values (survey.py:1222-1259) + node(tag, text, toParseString=True)
   (utils.py:117-136): a label/hint/itext value is escaped FIRST, then each reference is replaced by
   an output element carrying the path in its value attribute (with a space before the closing slash), then the string is wrapped in <tag>…</tag>, parsed, and the parsed children are
   cloned (shallow) into the result element.  The decomposition of the cell into text pieces and references is
   C03's business; here the cell is that list of pieces. *)
Require Import PX.Base.Str PX.Model.Dom.

Inductive piece := PTxt (s : str) | PRef (path : str).
Definition s_output_open : str := [60;111;117;116;112;117;116;32;118;97;108;117;101;61;34]%N.   (* output start tag up to the opening quote *)
Definition s_output_close : str := [34;32;47;62]%N.                                            (* quote, space, slash, gt *)
Definition t_output : str := [111;117;116;112;117;116]%N.
Definition t_value : str := [118;97;108;117;101]%N.
Definition render_piece (p : piece) : str :=
  match p with
  | PTxt s => esc_text s                            (* escape_text_for_xml, before substitution *)
  | PRef path => s_output_open ++ path ++ s_output_close
  end.
Definition render (ps : list piece) : str := flat_map render_piece ps.
(* the string handed to parseString *)
Definition to_parse (tag : str) (ps : list piece) : str := [LT] ++ tag ++ [GT] ++ render ps ++ [LT; SLASH] ++ tag ++ [GT].

(* the element node(tag, text, toParseString=True) returns, written compactly: parse the wrapper, clone the
   children shallowly (Text -> stock Text, Element -> stock Element without children) *)
Require Import PX.Spec.XmlParse PX.Spec.XmlName.
Definition clone (x : xn) : node := match x with Tx s => MT s | El t a _ => ME t a end.
Definition node_parsed (tag : str) (ps : list piece) : option node :=
  let s := render ps ++ [LT; SLASH] ++ tag ++ [GT] in
  match p_content xml_namestart xml_namech (2 * length s + 1) s with
  | Some (kids, _) => Some (DE tag [] (map clone kids))
  | None => None
  end.
Definition node_parsed_xml (tag : str) (ps : list piece) : str :=
  match node_parsed tag ps with Some n => compact n | None => [69;82;82]%N end.
