(* Model/Names.v — pyxform.parsing.expression.is_xml_tag (expression.py:114-118) with the NAME lexer rule
   (expression.py:5-24), as a hand-written matcher pinned to the live pattern string (Proofs/PinsNames.v).
   History: at the pinned commit the first alternative group read  \xc0-\xd6]  without its opening bracket, which
   made the four-character string  À-Ö]  a "name"; proving names_are_xml_names exposed it and it was repaired in
   /repo (known_findings.txt, fixed: C01 F15).  This model is of the repaired pattern. *)
Require Import PX.Base.Str.
Local Open Scope N_scope.

Definition inr (lo hi c : N) : bool := (lo <=? c) && (c <=? hi).
Definition nsc (c : N) : bool :=      (* namestartchar *)
  inr 65 90 c || (c =? 95) || inr 97 122 c || inr 192 214 c || inr 216 246 c || inr 248 767 c ||
  inr 880 893 c || inr 895 8191 c || inr 8204 8205 c || inr 8304 8591 c || inr 11264 12271 c ||
  inr 12289 55295 c || inr 63744 64975 c || inr 65008 65533 c || inr 65536 983039 c.
Definition nce (c : N) : bool :=      (* namechar_extra *)
  (c =? 45) || (c =? 46) || inr 48 57 c || (c =? 183) || inr 768 879 c || inr 8255 8256 c.
Definition nch (c : N) : bool := nsc c || nce c.

(* one ncname at the start of s (greedy): Some rest, or None *)
Definition eat_ncname (s : str) : option str :=
  match s with
  | [] => None
  | c :: r => if nsc c then Some (snd (span nch r)) else None
  end.
Definition COLON : N := 58.
(* ^ncname(:ncname)?$ on a newline-free string *)
Definition is_xml_tag (s : str) : bool :=
  match eat_ncname s with
  | None => false
  | Some [] => true
  | Some (c :: r) =>
      if c =? COLON then match eat_ncname r with Some [] => true | _ => false end else false
  end.
