(* Model/Params.v — validators/pyxform/parameters_generic.py: parse and validate, and the state machine of
   validators/pyxform/pyxform_reference.py over the lexer's tokens (property C17). None stands for the PyXFormError each raises;
   a Python exception other than that would be a partial operation failing, which the theorems exclude. *)
Require Import PX.Base.Str PX.Base.PyStr PX.Model.Warnings PX.Model.Bind PX.Model.Headers.

Definition s_semi : str := [59%N]. Definition s_comma1 : str := [44%N]. Definition s_eq : str := [61%N].
Definition s_label : str := [108;97;98;101;108]%N. Definition s_value : str := [118;97;108;117;101]%N.
Definition is_single {A} (l : list A) : bool := match l with [_] => true | _ => false end.
Definition split_parts (raw : str) : list str :=
  let p1 := py_split s_semi raw in
  if is_single p1 then let p2 := py_split s_comma1 raw in if is_single p2 then py_split_ws raw else p2 else p1.
(* one `k=v` part: the unpacking `k, v = param.split("=", 1)` needs two pieces, which the "=" in the part guarantees: the name is
   everything before the FIRST "=", the value everything after it (defect F96: it used to be cut at the second); inr tt = it would fail *)
Definition parse_part (p : str) : option (str * str) + unit :=
  if contains s_eq p then
    match span (fun c => negb (ceq c 61%N)) p with
    | (k, _ :: v) => let key := py_strip (lower_ascii k) in
                     inl (Some (key, if mem key [s_label; s_value] then py_strip v else py_strip (lower_ascii v)))
    | (_, []) => inr tt
    end
  else inl None.
Inductive presult := POk (d : dict) | PRejected | PCrash.
Fixpoint parse_parts (ps : list str) (acc : dict) : presult :=
  match ps with
  | [] => POk acc
  | p :: r => match parse_part p with
              | inl (Some (k, v)) => parse_parts r (dset k v acc)
              | inl None => PRejected
              | inr _ => PCrash
              end
  end.
Definition parse (raw : str) : presult := parse_parts (split_parts raw) [].
Definition validate (params : dict) (allowed : list str) : bool := forallb (fun k => mem k allowed) (keys params).

(* validate_pyxform_reference_syntax after the early returns: tokens by rule name *)
Inductive tname := TStart | TEnd | TName | TRef | TOther.
Fixpoint ref_check (open : bool) (ts : list tname) : bool :=
  match ts with
  | [] => negb open
  | t :: r =>
      if open then match t with TName => ref_check true r | TEnd => ref_check false r | _ => false end
      else match t with TStart => ref_check true r | _ => ref_check false r end
  end.
