(* Model/Redirect.v — the outcome of Survey._redirect_is_search_itext for one select: is it rendered with in-line items, and from
   which copy of the list.  appearance = element.control[appearance] (None: no such key / control is not a dict);
   itemset = element.itemset; has_copy = the select holds its own copy of the choices (element.choices is not None);
   lists = the names of the survey's choice lists (empty when the survey has none). *)
Require Import PX.Base.Str PX.Model.Warnings PX.Model.Search PX.Model.Choices PX.Gen.Choices.
Inductive redirect_outcome := RNotSearch | RErrFile | RErrNoList | RInline (adopted : bool).
Definition from_file (itemset : str) : bool := let ext := snd (splitext itemset) in nonempty ext && mem ext EXTERNAL_INSTANCE_EXTENSIONS.
Definition redirect (appearance : option str) (itemset : str) (has_copy : bool) (lists : list str) : redirect_outcome :=
  match appearance with
  | None => RNotSearch
  | Some a =>
      if negb (is_search a) then RNotSearch
      else if from_file itemset then RErrFile
      else if has_copy then RInline false
      else if mem itemset lists then RInline true
      else RErrNoList
  end.
