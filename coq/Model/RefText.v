(* Model/RefText.v — validate_pyxform_reference_syntax on the raw cell text: the early exits of the function, the modelled
   scanner (Model/Scanner.v) and the token state machine (Model/Params.v, ref_check). *)
Require Import PX.Base.Str PX.Model.Scanner PX.Model.Params.
Local Open Scope N_scope.

Definition n_ref_start : str := [80;89;88;70;79;82;77;95;82;69;70;95;83;84;65;82;84].   (* PYXFORM_REF_START *)
Definition n_ref_end : str := [80;89;88;70;79;82;77;95;82;69;70;95;69;78;68].           (* PYXFORM_REF_END *)
Definition n_name : str := [78;65;77;69].                                               (* NAME *)
Definition n_ref : str := [80;89;88;70;79;82;77;95;82;69;70].                           (* PYXFORM_REF *)
Definition tname_of (n : str) : tname :=
  if seqb n n_ref_start then TStart else if seqb n n_ref_end then TEnd else if seqb n n_name then TName else if seqb n n_ref then TRef else TOther.
Definition ref_syntax_ok (v : str) : bool :=
  if (Nat.ltb (length v) 2) || negb (contains [36;123] v) then true
  else ref_check false (map (fun t => tname_of (fst t)) (tokens v)).

(* expression.is_pyxform_reference: value and len(value) > 3 and RE_ONLY_PYXFORM_REF.match(value), the pattern being
   ^\$\{(last-saved#)?ncname\}$  — `$` also matches before one trailing newline *)
Definition is_pyxform_reference (v : str) : bool :=
  Nat.ltb 3 (length v) && match r_pyxform_ref v with Some (_, []) => true | Some (_, [10]) => true | _ => false end.

