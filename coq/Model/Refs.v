(* Model/Refs.v — reference resolution, string-faithful to survey.py:78-170 and 1071-1194:
     is_parent_a_repeat, share_same_repeat_parent (with _get_steps_and_target_xpath, its len()-based slices, its
     enumerate loop and its IndexError arm), SurveyElement.has_common_repeat_parent (as a relation on the tree),
     _relative_path and the absolute / relative / last-saved choice of _var_repl_function.
   Paths are TEXT here (as in the code); the tree supplies the xpaths and the set of repeat xpaths. *)
Require Import PX.Base.Str PX.Model.Warnings PX.Model.Tree.
From Coq Require Import ZArith.

Definition SL : char := 47%N.
Definition split_sl (s : str) : list str := split_on SL s.
Definition join_sl (l : list str) : str := join [SL] l.

(* "/".join(xpath.split("/")[:-1]) *)
Definition parent_of (x : str) : str := join_sl (removelast (split_sl x)).
Fixpoint is_parent_a_repeat (fuel : nat) (repeats : list str) (x : str) : option str :=
  match fuel with
  | O => None
  | S f => let p := parent_of x in
           match p with
           | [] => None
           | _ => if mem p repeats then Some p else is_parent_a_repeat f repeats p
           end
  end.
Definition ipr (repeats : list str) (x : str) : option str := is_parent_a_repeat (S (length x)) repeats x.

(* l[i:] with Python semantics for i = index - 1 (index may be 0, giving l[-1:]) *)
Definition py_from_pred {A} (index : nat) (l : list A) : list A :=
  match index with
  | O => match rev l with [] => [] | x :: _ => [x] end
  | S i => skipn i l
  end.

Section Steps.
Variables (x cx : str).            (* target xpath, context xpath *)
(* aligned: the target's xpath starts with context_parent + "/" (fix b68def5) *)
Fixpoint steps_loop (aligned : bool) (probe cparts xparts rem_parts : list str) (index : nat) (items : list str) (acc : nat * list str) : nat * list str :=
  match items with
  | [] => acc
  | item :: rest =>
      if negb aligned then (length (skipn index cparts), skipn index xparts) else
      match nth_error probe index with
      | None => (length (py_from_pred index cparts), py_from_pred index xparts)          (* IndexError arm *)
      | Some v => if seqb v item then steps_loop aligned probe cparts xparts rem_parts (S index) rest (fst acc, skipn (index + 2) rem_parts)
                  else (length (skipn index cparts), skipn index xparts)
      end
  end.
Definition get_steps_and_target_xpath (cp xp : str) (include_parent : bool) : nat * str :=
  let '(remainder, cparts, xparts) :=
    if negb include_parent then
      (skipn (length xp) x, split_sl (skipn (length xp + 1) cx), split_sl (skipn (length xp + 1) x))
    else
      let si := length (split_sl xp) in
      let xps := skipn (si - 1) (split_sl x) in
      (join_sl xps, skipn (si - 1) (split_sl cx), xps) in
  let probe := split_sl (skipn (length cp + 1) x) in
  let '(steps, parts) := steps_loop (starts_with (cp ++ [SL]) x) probe cparts xparts (split_sl remainder) 0 (removelast cparts) (1, []) in
  (steps, match parts with [] => remainder | _ => SL :: join_sl parts end).
End Steps.

Definition is_ancestor_or_self_text (xp cp : str) : bool := seqb cp xp || starts_with (xp ++ [SL]) cp.

Definition share_same_repeat_parent (repeats : list str) (x cx : str) (reference_parent : bool) : option (nat * str) :=
  match ipr repeats cx, ipr repeats x with
  | Some cp, Some xp =>
      if is_ancestor_or_self_text xp cp then
        let csa := ipr repeats cp in
        let '(cp', rp') :=
          if (negb (seqb cp xp) && reference_parent) || (match csa with Some _ => true | None => false end) then
            match csa with
            | Some c => if seqb c xp then (c, reference_parent)
                        else if seqb cp xp then (cp, false) else (cp, reference_parent)
            | None => (cp, reference_parent)
            end
          else (cp, reference_parent) in
        Some (get_steps_and_target_xpath x cx cp' xp rp')
      else
        match ipr repeats cp, ipr repeats xp with
        | Some csa, Some xsa => if seqb xsa csa then Some (get_steps_and_target_xpath x cx csa xsa false) else None
        | _, _ => None
        end
  | _, _ => None
  end.

Definition dotdot : str := [46;46]%N.
Definition s_current : str := [32;99;117;114;114;101;110;116;40;41;47]%N.       (* " current()/" *)
Definition s_last_saved : str := [105;110;115;116;97;110;99;101;40;39;95;95;108;97;115;116;45;115;97;118;101;100;39;41]%N.

Definition ends_with_s (suf s : str) : bool := starts_with (rev suf) (rev s).

Definition relative_path (repeats : list str) (x cx name : str) (unrelated use_current reference_parent : bool) : option str :=
  let cs := split_sl cx in let xs := split_sl x in
  if (2 <? length cs) && (2 <? length xs) && seqb (nth 2 xs []) (nth 2 cs []) then
    if unrelated then None
    else match share_same_repeat_parent repeats x cx reference_parent with
         | Some (steps, ref_path) =>
             match steps with
             | O => None
             | _ => let rp := if ends_with_s name ref_path then ref_path else SL :: name in
                    Some ((if use_current then s_current else [32%N]) ++ join_sl (repeat dotdot steps) ++ rp ++ [32%N])
             end
         | None => None
         end
  else None.

(* _var_repl_function for one reference, outside indexed-repeat(): relative when possible, else absolute *)
Definition var_repl (repeats : list str) (x cx name : str) (unrelated last_saved use_current reference_parent : bool) : str :=
  if last_saved then [32%N] ++ s_last_saved ++ x ++ [32%N]
  else match relative_path repeats x cx name unrelated use_current reference_parent with
       | Some r => r
       | None => [32%N] ++ x ++ [32%N]
       end.

(* ---- inputs read off the element tree ---- *)
Fixpoint find_paths (name : str) (pre : path) (e : elem) : list path :=
  match e with
  | Q n _ _ => if seqb n name then [pre ++ [n]] else []
  | G n _ _ kids => (if seqb n name then [pre ++ [n]] else []) ++ flat_map (find_paths name (pre ++ [n])) kids
  | R n _ kids => (if seqb n name then [pre ++ [n]] else []) ++ flat_map (find_paths name (pre ++ [n])) kids
  end.
Fixpoint repeat_paths (pre : path) (e : elem) : list path :=
  match e with
  | Q _ _ _ => []
  | G n _ _ kids => flat_map (repeat_paths (pre ++ [n])) kids
  | R n _ kids => (pre ++ [n]) :: flat_map (repeat_paths (pre ++ [n])) kids
  end.
Fixpoint path_eqb (a b : path) : bool :=
  match a, b with [], [] => true | x :: a', y :: b' => seqb x y && path_eqb a' b' | _, _ => false end.
Fixpoint is_prefix (a b : path) : bool :=
  match a, b with [] , _ => true | x :: a', y :: b' => seqb x y && is_prefix a' b' | _ :: _, [] => false end.
(* SurveyElement.has_common_repeat_parent(...)[0] == "Unrelated": neither is the other's parent and no proper
   ancestor of both is a repeat *)
Definition unrelated (reps : list path) (c t : path) : bool :=
  negb (path_eqb (removelast c) t || path_eqb (removelast t) c ||
        existsb (fun r => is_prefix r c && is_prefix r t && (length r <? length c) && (length r <? length t)) reps).

Definition resolve_in_tree (root : elem) (ctx tgt : str) (last_saved use_current reference_parent : bool) : str :=
  match find_paths ctx [] root, find_paths tgt [] root with
  | [c], [t] =>
      let reps := repeat_paths [] root in
      var_repl (map path_text reps) (path_text t) (path_text c) tgt (unrelated reps c t) last_saved use_current reference_parent
  | _, _ => [63%N]
  end.
