(* Model/RefsClean.v — reference resolution on component lists: what survey.py:109-170 computes when every
   slice falls on a path-step boundary (the closed form of DESIGN.md Appendix A.5).  This is the subject of the C03
   theorem; it is tied to the string-faithful model (Refs.v) and to the implementation by the op D.var_repl_clean. *)
Require Import PX.Base.Str PX.Model.Warnings PX.Model.Tree PX.Model.Refs.

(* the innermost repeat that is a proper ancestor of p *)
Fixpoint best_repeat (reps : list path) (p : path) (acc : option path) : option path :=
  match reps with
  | [] => acc
  | r :: rs =>
      if is_prefix r p && (length r <? length p) && (match acc with None => true | Some a => length a <? length r end)
      then best_repeat rs p (Some r) else best_repeat rs p acc
  end.
Definition nearest_repeat (reps : list path) (p : path) : option path := best_repeat reps p None.

(* length of the common prefix *)
Fixpoint lcp (a b : path) : nat :=
  match a, b with x :: a', y :: b' => if seqb x y then S (lcp a' b') else 0 | _, _ => 0 end.

(* steps up from the context node, then the path down *)
Definition steps_down (direct : bool) (a b : path) : nat * path :=
  if direct then
    let k := lcp a b in
    if k <? length a then
      if k <? length b then (length a + 1 - k, skipn k b)
      else (length a - length b + 2, match rev b with [] => [] | x :: _ => [x] end)      (* target is an ancestor section *)
    else (1, if length a <? length b then skipn (length a) b else b)
  else (length a + 1, b).

Definition clean_resolve (reps : list path) (C T : path) : option (nat * path) :=
  if (1 <? length C) && (1 <? length T) && seqb (nth 1 C []) (nth 1 T []) && negb (unrelated reps C T) then
    match nearest_repeat reps C, nearest_repeat reps T with
    | Some cp, Some xp =>
        if is_prefix xp cp then
          let direct := path_eqb cp xp || match nearest_repeat reps cp with Some c => path_eqb c xp | None => false end in
          Some (steps_down direct (skipn (length xp) (removelast C)) (skipn (length xp) T))
        else
          match nearest_repeat reps cp, nearest_repeat reps xp with
          | Some csa, Some xsa =>
              if path_eqb csa xsa then Some (steps_down true (skipn (length csa) (removelast C)) (skipn (length csa) T)) else None
          | _, _ => None
          end
    | _, _ => None
    end
  else None.

(* XPath denotation of "steps times .., then down" evaluated from the node C *)
Definition go (C : path) (steps : nat) (down : path) : path := firstn (length C - steps) C ++ down.

Definition clean_resolve_text (root : elem) (c t : str) : str :=
  match find_paths c [] root, find_paths t [] root with
  | [C], [T] =>
      match clean_resolve (repeat_paths [] root) C T with
      | Some (steps, down) => [32%N] ++ join_sl (repeat dotdot steps) ++ [SL] ++ join_sl down ++ [32%N]
      | None => [32%N] ++ path_text T ++ [32%N]
      end
  | _, _ => [63%N]
  end.
