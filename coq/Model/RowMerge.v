(* Model/RowMerge.v — parsing/sheet_headers.py process_row + merge_dicts for ONE translatable column family
   (e.g. label, label::en, label::fr …): the value the row ends up holding under that column after its cells are
   processed left to right.  A cell is (None, text) for the unsuffixed column or (Some lang, text).
   Follows the repaired code (fix: commits F14, F18 in known_findings.txt). *)
Require Import PX.Base.Str PX.Model.Warnings PX.Model.Itext.

Inductive cellval := VStr (t : str) | VDict (d : list (str * str)).
Section Merge.
Variable default_language : str.
Definition merge_cell (acc : option cellval) (cell : option str * str) : option cellval :=
  match acc, cell with
  | None, (None, u) => Some (VStr u)
  | None, (Some l, t) => Some (VDict [(l, t)])
  | Some (VStr _), (None, u) => Some (VStr u)
  | Some (VStr u), (Some l, t) =>
      (* merge_dicts(u, {l: t}): the unsuffixed text is the default language's, unless l is that language *)
      if seqb l default_language then Some (VDict [(l, t)]) else Some (VDict [(default_language, u); (l, t)])
  | Some (VDict d), (None, u) =>
      (* an unsuffixed column to the right of translated ones: merged, never overwriting *)
      match fget default_language d with Some _ => Some (VDict d) | None => Some (VDict (d ++ [(default_language, u)])) end
  | Some (VDict d), (Some l, t) => Some (VDict (fset l t d))
  end.
Definition process_family (cells : list (option str * str)) : option cellval := fold_left merge_cell cells None.
End Merge.
