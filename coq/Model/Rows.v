(* Model/Rows.v — the begin/end stack of xls2json.workbook_to_json (xls2json.py:523-545, 776-796, 822-950,
   1373-1383): rows are appended to the children of the innermost open section; `begin` pushes a frame, `end` pops it
   after checking the control type; an end with the wrong type or with nothing open is rejected with its row number;
   a begin still open at the end of the sheet is rejected by type and name.  Row numbers start at 2. *)
Require Import PX.Base.Str PX.Spec.Nest.

Inductive perr := UnmatchedEnd (row_number : nat) | UnmatchedBegin (k : ckind) (name : str).
Inductive pres := POk (ts : list rtree) | PErr (e : perr).
Definition frame := (ckind * str * list rtree)%type.      (* open section: type, name, its parent's children so far *)

Fixpoint go (rows : list row) (n : nat) (cur : list rtree) (stack : list frame) : pres :=
  match rows with
  | [] => match stack with [] => POk cur | (k, nm, _) :: _ => PErr (UnmatchedBegin k nm) end
  | RowQ nm :: rs => go rs (S n) (cur ++ [TQ nm]) stack
  | RowSkip :: rs => go rs (S n) cur stack
  | RowBegin k nm :: rs => go rs (S n) [] ((k, nm, cur) :: stack)
  | RowEnd k :: rs =>
      match stack with
      | [] => PErr (UnmatchedEnd n)
      | (k', nm, parent_cur) :: st =>
          if ckind_eqb k' k then go rs (S n) (parent_cur ++ [TS k' nm cur]) st else PErr (UnmatchedEnd n)
      end
  end.
Definition parse_rows (rows : list row) : pres := go rows 2 [] [].

(* canonical text of a parse result, for the correspondence op B.rows *)
Fixpoint show_tree (t : rtree) : str :=
  match t with
  | TQ n => 81%N :: n
  | TS k n kids =>
      (match k with KGroup => 71%N | KRepeat => 82%N | KLoop => 76%N end) :: n ++ [91%N] ++
      join [44%N] (map show_tree kids) ++ [93%N]
  end.
Definition show_result (r : pres) : str :=
  match r with
  | POk ts => join [44%N] (map show_tree ts)
  | PErr (UnmatchedEnd n) => [33;69]%N ++ dec (N.of_nat n)
  | PErr (UnmatchedBegin _ nm) => [33;66]%N ++ nm
  end.
