(* Model/SaveToRow.v — which rows validate_entity_saveto takes for the opening of a group, repeat or loop:
     RE_BEGIN_CONTROL_ROW = ^begin(\s|_)(<control aliases>)( |$)   used with .match (anchored at the start only).
   The alternation takes the first alias, in table order, after which a space or the end of the cell follows. *)
Require Import PX.Base.Str PX.Base.PyStr PX.Model.TypeCell.
Local Open Scope N_scope.
Definition begin_row (controls : list str) (t : str) : bool :=
  match sep_then [98;101;103;105;110] t (fun rest => first_alias controls rest (fun a r =>
          match r with 32 :: _ => Some tt | _ => if at_end r then Some tt else None end)) with
  | Some _ => true | None => false end.
