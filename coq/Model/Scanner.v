(* Model/Scanner.v — the expression lexer of pyxform/parsing/expression.py: re.Scanner over LEXER_RULES (rule order is match priority;
   within a rule, Python's leftmost-alternative, greedy, backtracking semantics, written out by hand for each of the 26 patterns).
   re.Scanner builds its SubPattern on a State whose flags are 0, so \d and \s mean ASCII digits and ASCII white space here
   (observed through the correspondence: NBSP and Arabic-Indic digits are OTHER / NAME characters for the real scanner).
   A token is (rule name, matched text). *)
Require Import PX.Base.Str PX.Base.PyStr PX.Model.Names.
Local Open Scope N_scope.

Definition digit (c : N) : bool := inr 48 57 c.
(* re.Scanner compiles its patterns without the UNICODE flag (sre state flags = 0), so \d and \s are the ASCII classes *)
Definition re_space (c : N) : bool := inr 9 13 c || (c =? 32).
Definition m := option (str * str).                 (* matched text, rest *)
Definition lit (l : str) (s : str) : m := match prefix l s with Some r => Some (l, r) | None => None end.
Definition seq (a b : str -> m) (s : str) : m :=
  match a s with Some (x, r) => match b r with Some (y, r') => Some (x ++ y, r') | None => None end | None => None end.
Definition opt (a : str -> m) (s : str) : m := match a s with Some x => Some x | None => Some ([], s) end.
Definition alt (a b : str -> m) (s : str) : m := match a s with Some x => Some x | None => b s end.
Definition one (p : N -> bool) (s : str) : m := match s with c :: r => if p c then Some ([c], r) else None | [] => None end.
Definition many (p : N -> bool) (s : str) : m := Some (span p s).                       (* p*  (greedy; nothing after it needs p) *)
Definition many1 (p : N -> bool) (s : str) : m := match span p s with ([], _) => None | x => Some x end.
Fixpoint times (n : nat) (a : str -> m) (s : str) : m :=
  match n with O => Some ([], s) | S k => seq a (times k a) s end.
Definition ch (c : N) : str -> m := one (N.eqb c).

Definition r_date : str -> m := seq (opt (ch 45)) (seq (times 4 (one digit)) (seq (ch 45) (seq (times 2 (one digit)) (seq (ch 45) (times 2 (one digit)))))).
Definition r_tz : str -> m := alt (seq (alt (ch 43) (ch 45)) (seq (times 2 (one digit)) (seq (ch 58) (times 2 (one digit))))) (ch 90).
Definition r_time : str -> m :=
  seq (times 2 (one digit)) (seq (ch 58) (seq (times 2 (one digit)) (seq (ch 58) (seq (times 2 (one digit))
      (seq (opt (seq (ch 46) (many1 digit))) (opt r_tz)))))).
Definition r_datetime : str -> m := seq r_date (seq (ch 84) r_time).
Definition r_number : str -> m :=
  alt (seq (opt (ch 45)) (seq (many1 digit) (seq (ch 46) (many digit))))
      (alt (seq (opt (ch 45)) (seq (ch 46) (many1 digit))) (seq (opt (ch 45)) (many1 digit))).
Definition r_ops_math : str -> m := alt (one (fun c => (c =? 42) || (c =? 43) || (c =? 45))) (alt (lit [32;109;111;100;32]) (lit [32;100;105;118;32])).
Definition r_ops_comp : str -> m := alt (ch 61) (alt (lit [33;61]) (alt (ch 60) (alt (ch 62) (alt (lit [60;61]) (lit [62;61]))))).
Definition r_ops_bool : str -> m := alt (lit [32;97;110;100;32]) (lit [32;111;114;32]).
Definition r_literal : str -> m :=
  alt (seq (ch 34) (seq (many (fun c => negb (c =? 34))) (ch 34))) (seq (ch 39) (seq (many (fun c => negb (c =? 39))) (ch 39))).
(* ncname: start char, name chars, and optionally a colon followed by another such part *)
Definition r_nc1 : str -> m := seq (one nsc) (many nch).
Definition r_ncname : str -> m := seq r_nc1 (opt (seq (ch 58) r_nc1)).
(* ncname followed by a literal: greedy first; if the literal does not follow and the colon part was taken, retry without it *)
Definition nc_then (l : str) (s : str) : m := alt (seq r_ncname (lit l)) (seq r_nc1 (lit l)) s.
Definition r_pyxform_ref : str -> m :=
  seq (lit [36;123]) (alt (seq (lit [108;97;115;116;45;115;97;118;101;100;35]) (nc_then [125])) (nc_then [125])).
Definition r_other : str -> m := one (fun c => negb (c =? 10)).

Definition RULES : list (str * (str -> m)) :=
  [([68;65;84;69;84;73;77;69], r_datetime); ([68;65;84;69], r_date); ([84;73;77;69], r_time); ([78;85;77;66;69;82], r_number);
   ([79;80;83;95;77;65;84;72], r_ops_math); ([79;80;83;95;67;79;77;80], r_ops_comp); ([79;80;83;95;66;79;79;76], r_ops_bool);
   ([79;80;83;95;85;78;73;79;78], ch 124); ([79;80;69;78;95;80;65;82;69;78], ch 40); ([67;76;79;83;69;95;80;65;82;69;78], ch 41);
   ([66;82;65;67;75;69;84], lit [91;93;123;125]); ([80;65;82;69;78;84;95;82;69;70], lit [46;46]); ([83;69;76;70;95;82;69;70], ch 46);
   ([80;65;84;72;95;83;69;80], ch 47); ([83;89;83;84;69;77;95;76;73;84;69;82;65;76], r_literal); ([67;79;77;77;65], ch 44);
   ([87;72;73;84;69;83;80;65;67;69], many1 re_space); ([80;89;88;70;79;82;77;95;82;69;70], r_pyxform_ref);
   ([70;85;78;67;95;67;65;76;76], nc_then [40]); ([88;80;65;84;72;95;80;82;69;68;95;83;84;65;82;84], nc_then [91]);
   ([88;80;65;84;72;95;80;82;69;68;95;69;78;68], ch 93); ([85;82;73;95;83;67;72;69;77;69], nc_then [58;47;47]); ([78;65;77;69], r_ncname);
   ([80;89;88;70;79;82;77;95;82;69;70;95;83;84;65;82;84], lit [36;123]); ([80;89;88;70;79;82;77;95;82;69;70;95;69;78;68], ch 125);
   ([79;84;72;69;82], r_other)].
Fixpoint first_rule (rules : list (str * (str -> m))) (s : str) : option (str * str * str) :=
  match rules with
  | [] => None
  | (name, r) :: rest => match r s with Some (c :: v, s') => Some (name, c :: v, s') | _ => first_rule rest s end
  end.
Fixpoint scan_fuel (fuel : nat) (s : str) : list (str * str) * str :=
  match fuel with
  | O => ([], s)
  | S f => match s with
           | [] => ([], [])
           | _ => match first_rule RULES s with
                  | Some (name, v, s') => let '(ts, rem) := scan_fuel f s' in ((name, v) :: ts, rem)
                  | None => ([], s)
                  end
           end
  end.
Definition scan (s : str) : list (str * str) * str := scan_fuel (length s) s.
(* the start and end offsets the token callbacks read back from scan.match *)
Fixpoint with_pos (off : nat) (ts : list (str * str)) : list (str * str * nat * nat) :=
  match ts with
  | [] => []
  | (n, v) :: r => (n, v, off, (off + length v)%nat) :: with_pos (off + length v) r
  end.
Definition tokens (s : str) : list (str * str) := fst (scan s).
