(* Model/Search.v — Survey._redirect_is_search_itext's detection of the search() appearance:
     appearance and len(appearance) > 7 and bool(SEARCH_FUNCTION_REGEX.search(appearance)),  the pattern being  search\(.*?\)
   (`.` does not match a line break; `search` looks at every position). *)
Require Import PX.Base.Str.
Local Open Scope N_scope.
Definition SEARCH_LP : str := [115;101;97;114;99;104;40].     (* search( *)
Fixpoint rp_before_nl (s : str) : bool :=
  match s with [] => false | c :: r => if c =? 41 then true else if c =? 10 then false else rp_before_nl r end.
Fixpoint search_anywhere (s : str) : bool :=
  match s with
  | [] => false
  | _ :: r => (match prefix SEARCH_LP s with Some rest => rp_before_nl rest | None => false end) || search_anywhere r
  end.
Definition is_search (appearance : str) : bool := Nat.ltb 7 (length appearance) && search_anywhere appearance.
