(* Model/Ser.v — canonical serialisation of parse trees, used only to compare the Spec parser with
   expat in the correspondence op `xmlparse` (delimiters are C0 controls, which no case contains). *)
Require Import PX.Base.Str PX.Model.Dom PX.Spec.XmlParse PX.Spec.XmlName PX.Spec.NsCheck.

Fixpoint ser (x : xn) : str :=
  match x with
  | Tx s => [7%N] ++ s ++ [6%N]
  | El t a kids =>
      [1%N] ++ t ++ [2%N] ++ flat_map (fun p => fst p ++ [3%N] ++ snd p ++ [4%N]) a ++ [5%N] ++
      flat_map ser kids ++ [6%N]
  end.
Definition REJECT : str := [82;69;74;69;67;84]%N.
Definition parse_ser (s : str) : str :=
  match xml_parse xml_namestart xml_namech s with
  | Some x => if ns_ok [] x && attrs_unique x then ser x else REJECT
  | None => REJECT end.
(* E.write: both print modes of one tree, separated by NUL *)
Definition write_both (n : node) : str := to_ugly n ++ [0%N] ++ to_pretty n.
(* soundness-only comparison for mutated documents: when the Spec parser rejects, nothing is claimed *)
Definition parse_ser_sound (p : str * str) : str :=
  let r := parse_ser (fst p) in if seqb r REJECT then snd p else r.
