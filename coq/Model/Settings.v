(* Model/Settings.v — how the settings sheet and the convert() arguments reach the form header (property C11).
   Models, function for function:
     xls2json.workbook_to_json: the JSON root (defaults updated with the de-aliased settings row), the instanceID /
       instanceName meta children                                                        -> json_root, meta_children
     Survey.xml (title, body class), Survey.get_nsmap, Survey.xml_model (submission),
       Survey.xml_instance (attributes of the primary instance root)                     -> title_of, body_class, nsmap_of, submission_of, root_attrs
   The submission and root-attribute tables are regenerated from the source on every run (Gen/Settings.v). *)
Require Import PX.Base.Str PX.Model.Warnings PX.Model.Bind PX.Model.Headers PX.Gen.Settings PX.Gen.Top PX.Gen.Headers.

Definition s_type : str := [116;121;112;101]%N.  (* type *)
Definition s_survey : str := [115;117;114;118;101;121]%N.  (* survey *)
Definition s_default : str := [100;101;102;97;117;108;116]%N.  (* default *)
Definition s_namespaces : str := [110;97;109;101;115;112;97;99;101;115]%N.  (* namespaces *)
Definition s_omit : str := [111;109;105;116;95;105;110;115;116;97;110;99;101;73;68]%N.  (* omit_instanceID *)
Definition s_public_key : str := [112;117;98;108;105;99;95;107;101;121]%N.  (* public_key *)
Definition s_instance_id : str := [105;110;115;116;97;110;99;101;95;105;100]%N.  (* instance_id *)
Definition s_uid : str := [117;105;100]%N.  (* uid *)
Definition s_instance_name : str := [105;110;115;116;97;110;99;101;95;110;97;109;101]%N.  (* instance_name *)
Definition s_instanceID : str := [105;110;115;116;97;110;99;101;73;68]%N.  (* instanceID *)
Definition s_instanceName : str := [105;110;115;116;97;110;99;101;78;97;109;101]%N.  (* instanceName *)
Definition s_readonly : str := [114;101;97;100;111;110;108;121]%N.  (* readonly *)
Definition s_truefn : str := [116;114;117;101;40;41]%N.  (* true() *)
Definition s_preload : str := [106;114;58;112;114;101;108;111;97;100]%N.  (* jr:preload *)
Definition s_calculate : str := [99;97;108;99;117;108;97;116;101]%N.  (* calculate *)
Definition s_xmlns_colon : str := [120;109;108;110;115;58]%N.  (* xmlns: *)
Definition s_id : str := [105;100]%N.  (* id *)
Definition s_class : str := [99;108;97;115;115]%N.  (* class *)
Definition getd (k : str) (d : dict) (def : str) : str := match dget k d with Some v => v | None => def end.
Definition odefault (o : option str) (def : str) : str := match o with Some v => v | None => def end.

(* the root of the JSON form: defaults, overridden by the settings row *)
Definition json_root (settings : dict) (form_name fallback default_language : option str) : dict :=
  let id := getd K_ID_STRING settings (odefault fallback DEFAULT_FORM_NAME) in
  dupdate [(s_type, s_survey); (K_NAME_S, odefault form_name DEFAULT_FORM_NAME); (K_TITLE, id); (K_ID_STRING, id);
           (K_SMS_KEYWORD, getd K_SMS_KEYWORD settings id);
           (K_DEFAULT_LANGUAGE, getd K_DEFAULT_LANGUAGE settings (odefault default_language s_default))]
          settings.

(* a Survey field that is set and not empty (Python truthiness of a str) *)
Definition field (root : dict) (k : str) : option str := match dget k root with Some (c :: r) => Some (c :: r) | _ => None end.
Definition is_some {A} (o : option A) : bool := match o with Some _ => true | None => false end.

Definition title_of (root : dict) : str := getd K_TITLE root [].
Definition root_name_of (root : dict) : str := getd K_NAME_S root [].
Definition body_class (root : dict) : option str := field root K_STYLE.

Definition submission_of (root : dict) : option dict :=
  if existsb (fun f => is_some (field root f)) SUBMISSION_TRIGGERS then
    Some (flat_map (fun e => let '(attr, guard, v) := e in
                    match field root guard with
                    | Some _ => [(attr, match v with inl f => getd f root [] | inr c => c end)]
                    | None => [] end) SUBMISSION_ATTRS)
  else None.

(* attributes of the primary instance root: the attribute:: columns first, then id, then the guarded ones; setAttribute on an
   existing name replaces the value in place *)
Definition root_attrs (root attribute : dict) : dict :=
  let a0 := fold_left (fun acc kv => dset (fst kv) (snd kv) acc) attribute [] in
  let a1 := dset s_id (getd K_ID_STRING root []) a0 in
  fold_left (fun acc e => match field root (snd e) with Some v => dset (fst e) v acc | None => acc end) INSTANCE_GUARDED_ATTRS a1.

(* Survey.get_nsmap without entities: prefix=uri tokens separated by whitespace *)
Definition strip_quotes (v : str) : str := filter (fun c => negb (ceq c 34%N || ceq c 39%N)) v.
Definition has_key (k : str) (d : dict) : bool := is_some (dget k d).
(* one entry: str.partition on the first "=" (the URI may hold further ones); no "=" or an empty prefix: not an entry *)
Definition ns_entry (tok : str) : option (str * str) :=
  let (k, r) := span (fun c => negb (ceq c 61%N)) tok in
  match r with
  | _ :: v => match k with [] => None | _ => Some (k, v) end
  | [] => None
  end.
Definition ns_step (acc : dict) (tok : str) : dict :=
  match ns_entry tok with
  | Some (k, v) => if negb (has_key (s_xmlns_colon ++ k) NSMAP) then dset (s_xmlns_colon ++ k) (strip_quotes v) acc else acc
  | None => acc
  end.
Definition ns_decls (ns : str) : dict := fold_left ns_step (py_split_ws ns) [].
Definition nsmap_of (root : dict) : dict :=
  match field root s_namespaces with Some ns => NSMAP ++ ns_decls ns | None => NSMAP end.

(* meta children generated from the settings: None = the form is rejected (instanceID omitted although encrypted) *)
Definition yes (v : str) : bool := match find (fun p => seqb (fst p) v) YES_NO with Some (_, b) => b | None => false end.
Definition meta_children (settings : dict) : option (list (str * dict)) :=
  let omit := match dget s_omit settings with Some v => yes v | None => false end in
  let name_part := match dget s_instance_name settings with Some v => [(s_instanceName, [(s_calculate, v)])] | None => [] end in
  if omit then (if is_some (field settings s_public_key) then None else Some name_part)
  else Some ((s_instanceID, [(s_readonly, s_truefn); (s_preload, getd s_instance_id settings s_uid)]) :: name_part).
