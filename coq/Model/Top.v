(* Model/Top.v — the top of Survey.xml() (survey.py:336-362) and of Survey.xml_model() (675-715):
   h:html[nsmap]( h:head( h:title(title), model[attrs]( submission?, itext?, instance(primary root), … ) ),
                  h:body[class?]( … ) ).  Children lists are parameters: the statements about the skeleton
   hold whatever the rest of the generator puts there. *)
Require Import PX.Base.Str PX.Model.Dom.

Definition t_html : str := [104;58;104;116;109;108]%N.       (* h:html *)
Definition t_head : str := [104;58;104;101;97;100]%N.         (* h:head *)
Definition t_title : str := [104;58;116;105;116;108;101]%N.   (* h:title *)
Definition t_body : str := [104;58;98;111;100;121]%N.         (* h:body *)
Definition t_model : str := [109;111;100;101;108]%N.          (* model *)
Definition t_instance : str := [105;110;115;116;97;110;99;101]%N. (* instance *)
Definition t_id : str := [105;100]%N.                         (* id *)

Definition xml_top (nsmap : list (str * str)) (title : str) (model_attrs : list (str * str))
    (pre : list node) (primary_root : node) (rest : list node)
    (body_attrs : list (str * str)) (body_kids : list node) : node :=
  DE t_html nsmap
    [DE t_head [] [DE t_title [] [PT title];
                   DE t_model model_attrs (pre ++ [DE t_instance [] [primary_root]] ++ rest)];
     DE t_body body_attrs body_kids].
