(* Model/Tree.v — the survey element tree (stage C output) and the structural part of stage D:
     SurveyElement.get_xpath (survey_element.py:255-282), Section.xml_instance / generate_repeating_template /
     RepeatingSection.template_instance (section.py:110-162,231-232), the nodesets and refs emitted by
     xml_bindings / _build_xml / RepeatingSection.xml_control / GroupedSection.xml_control,
     Section._validate_uniqueness_of_element_names, Survey._validate_uniqueness_of_section_names.
   A path is the list of element names from the root; its text is "/" ++ join "/" path. *)
Require Import PX.Base.Str PX.Model.Warnings.

Inductive elem :=
| Q (name : str) (has_bind has_control : bool)                    (* a question *)
| G (name : str) (has_bind bodyless : bool) (kids : list elem)    (* a group (meta is a bodyless group) *)
| R (name : str) (has_bind : bool) (kids : list elem).            (* a repeat *)

Definition ename (e : elem) : str := match e with Q n _ _ | G n _ _ _ | R n _ _ => n end.
Definition ekids (e : elem) : list elem := match e with Q _ _ _ => [] | G _ _ _ k | R _ _ k => k end.
Definition is_repeat (e : elem) : bool := match e with R _ _ _ => true | _ => false end.
Definition is_section (e : elem) : bool := match e with Q _ _ _ => false | _ => true end.

Definition path := list str.
Definition path_text (p : path) : str := [47%N] ++ join [47%N] p.

(* ---- primary instance ---- *)
Inductive itree := INode (name : str) (template : bool) (kids : list itree).

Fixpoint inst (at_ : bool) (e : elem) {struct e} : itree :=
  let step := fun k => match k with
                       | R _ _ _ => if at_ then [inst true k] else [tmpl k; inst true k]
                       | _ => [inst at_ k]
                       end in
  match e with
  | Q n _ _ => INode n false []
  | G n _ _ kids => INode n false (flat_map step kids)
  | R n _ kids => INode n false (flat_map step kids)
  end
with tmpl (e : elem) {struct e} : itree :=
  let step := fun k => match k with R _ _ _ => [tmpl k] | _ => [inst false k] end in
  match e with
  | Q n _ _ => INode n true []
  | G n _ _ kids => INode n true (flat_map step kids)
  | R n _ kids => INode n true (flat_map step kids)
  end.

Fixpoint ipaths (pre : path) (t : itree) : list path :=
  match t with INode n _ kids => (pre ++ [n]) :: flat_map (ipaths (pre ++ [n])) kids end.

(* every element's own path, top-down *)
Fixpoint all_paths (pre : path) (e : elem) : list path :=
  match e with
  | Q n _ _ => [pre ++ [n]]
  | G n _ _ kids => (pre ++ [n]) :: flat_map (all_paths (pre ++ [n])) kids
  | R n _ kids => (pre ++ [n]) :: flat_map (all_paths (pre ++ [n])) kids
  end.

(* ---- references emitted by the model and the body ---- *)
Fixpoint bind_nodesets (pre : path) (e : elem) : list path :=
  match e with
  | Q n b _ => if b then [pre ++ [n]] else []
  | G n b _ kids => (if b then [pre ++ [n]] else []) ++ flat_map (bind_nodesets (pre ++ [n])) kids
  | R n b kids => (if b then [pre ++ [n]] else []) ++ flat_map (bind_nodesets (pre ++ [n])) kids
  end.
(* body: question controls, group refs, repeat group ref + repeat nodeset *)
Fixpoint control_refs (pre : path) (e : elem) : list path :=
  let p := pre ++ [ename e] in
  match e with
  | Q _ _ c => if c then [p] else []
  | G _ _ bodyless kids => if bodyless then [] else p :: flat_map (control_refs p) kids
  | R _ _ kids => p :: p :: flat_map (control_refs p) kids
  end.
(* the survey root itself has no control: its children's controls are the body *)
Definition body_refs (root : elem) : list path := flat_map (control_refs [ename root]) (ekids root).
Definition model_binds (root : elem) : list path := flat_map (bind_nodesets [ename root]) (ekids root).

(* ---- validation ---- *)
Fixpoint dup_free_ci (seen : list str) (l : list str) : bool :=
  match l with
  | [] => true
  | x :: r => let lx := lower_ascii x in negb (mem lx seen) && dup_free_ci (lx :: seen) r
  end.
Fixpoint siblings_ok (e : elem) : bool :=
  match e with
  | Q _ _ _ => true
  | G _ _ _ kids => dup_free_ci [] (map ename kids) && forallb siblings_ok kids
  | R _ _ kids => dup_free_ci [] (map ename kids) && forallb siblings_ok kids
  end.
Fixpoint section_names (e : elem) : list str :=
  match e with
  | Q _ _ _ => []
  | G n _ _ kids => n :: flat_map section_names kids
  | R n _ kids => n :: flat_map section_names kids
  end.
Fixpoint dup_free_s (l : list str) : bool :=
  match l with [] => true | x :: r => negb (mem x r) && dup_free_s r end.
(* Survey.validate: sibling names unique case-insensitively in every section, section names unique in the form
   (the root counts as a section) *)
Definition validate (root : elem) : bool := siblings_ok root && dup_free_s (section_names root).

(* ---- canonical text of the projections, for the correspondence op D.tree ---- *)
Fixpoint ipaths_marked (pre : path) (in_tmpl : bool) (t : itree) : list str :=
  match t with
  | INode n tm kids =>
      ((if tm then [84%N] else [if in_tmpl then 116%N else 105%N]) ++ path_text (pre ++ [n]))
      :: flat_map (ipaths_marked (pre ++ [n]) (in_tmpl || tm)) kids
  end.
Definition tree_projection (root : elem) : str :=
  join [10%N] (ipaths_marked [] false (inst false root)) ++ [0%N] ++
  join [10%N] (map path_text (model_binds root)) ++ [0%N] ++
  join [10%N] (map path_text (body_refs root)) ++ [0%N] ++ (if validate root then [49%N] else [48%N]).
