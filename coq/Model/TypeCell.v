(* Model/TypeCell.v — how xls2json reads the `type` cell of a survey row: the three anchored patterns RE_END_CONTROL, RE_BEGIN_CONTROL and
   RE_SELECT (built from aliases.control and aliases.select, regenerated in Gen/Types.v), tried in that order by workbook_to_json.
   An alternation takes the first alias, in table order, for which the REST of the pattern matches up to the end of the cell. *)
Require Import PX.Base.Str PX.Base.PyStr.
Local Open Scope N_scope.

Definition nonspace (c : N) : bool := negb (py_space c).
(* the end anchor also matches before one final line break *)
Definition at_end (r : str) : bool := match r with [] => true | [10] => true | _ => false end.
Fixpoint first_alias {A} (aliases : list str) (s : str) (k : str -> str -> option A) : option A :=
  match aliases with
  | [] => None
  | a :: more => match prefix a s with
                 | Some rest => match k a rest with Some r => Some r | None => first_alias more s k end
                 | None => first_alias more s k
                 end
  end.
Definition sep_then {A} (word : str) (s : str) (k : str -> option A) : option A :=
  match prefix word s with
  | Some (c :: rest) => if py_space c || (c =? 95) then k rest else None
  | _ => None
  end.
Definition s_over : str := [111;118;101;114;32].    (* "over " *)
Definition OR_OTHER : list str := [[111;114;32;115;112;101;99;105;102;121;32;111;116;104;101;114]; [111;114;95;111;116;104;101;114]; [111;114;32;111;116;104;101;114]].
Inductive tkind := TEnd (ctl : str) | TBegin (ctl : str) (lst : option str) | TSelect (cmd lst : str) (other : bool) | TOther.

Definition word_to_end (r : str) : option str :=        (* \S+ up to the end *)
  let '(w, r2) := span nonspace r in match w with [] => None | _ => if at_end r2 then Some w else None end.
Definition parse_end (controls : list str) (t : str) : option tkind :=
  sep_then [101;110;100] t (fun rest => first_alias controls rest (fun a r => if at_end r then Some (TEnd a) else None)).
Definition parse_begin (controls : list str) (t : str) : option tkind :=
  sep_then [98;101;103;105;110] t (fun rest => first_alias controls rest (fun a r =>
    if at_end r then Some (TBegin a None)
    else match r with
         | 32 :: r1 =>
             match (match prefix s_over r1 with Some r2 => word_to_end r2 | None => None end) with
             | Some l => Some (TBegin a (Some l))
             | None => match word_to_end r1 with Some l => Some (TBegin a (Some l)) | None => None end
             end
         | _ => None
         end)).
Definition parse_select (selects : list str) (t : str) : option tkind :=
  first_alias selects t (fun a r =>
    match r with
    | 32 :: r1 =>
        let '(w, r2) := span nonspace r1 in
        match w with
        | [] => None
        | _ => if at_end r2 then Some (TSelect a w false)
               else match r2 with
                    | 32 :: r3 => if existsb (fun o => match prefix o r3 with Some r4 => at_end r4 | None => false end) OR_OTHER then Some (TSelect a w true) else None
                    | _ => None
                    end
        end
    | _ => None
    end).
Definition classify (controls selects : list str) (t : str) : tkind :=
  match parse_end controls t with
  | Some k => k
  | None => match parse_begin controls t with
            | Some k => k
            | None => match parse_select selects t with Some k => k | None => TOther end
            end
  end.
(* renderer for the correspondence check *)
Definition show_kind (k : tkind) : str :=
  match k with
  | TEnd c => [69; 1] ++ c
  | TBegin c None => [66; 1] ++ c ++ [1; 45]
  | TBegin c (Some l) => [66; 1] ++ c ++ [1; 76] ++ l
  | TSelect c l o => [83; 1] ++ c ++ [1] ++ l ++ [1] ++ (if o then [49] else [48])
  | TOther => [79]
  end.
