(* Model/Warnings.v — the advisory checks of C20, function for function:
     find_sheet_misspellings          validators/pyxform/sheet_misspellings.py:7-34
     get_languages_with_bad_tags      validators/pyxform/iana_subtags/validation.py:17-41
     Translations._find_translations / seen_default_only / _find_missing,
     format_missing_translations_msg, SheetTranslations.missing_check / or_other_check
                                      validators/pyxform/translations_checks.py *)
Require Import PX.Base.Str PX.Base.PyStr PX.Spec.EditDistance PX.Model.Lev.

Definition mem (x : str) (l : list str) : bool := existsb (seqb x) l.
Definition UNDERSCORE : char := 95%N.
Definition lower_ascii_c (c : char) : char := if (65 <=? c)%N && (c <=? 90)%N then (c + 32)%N else c.
Definition lower_ascii (s : str) : str := map lower_ascii_c s.

Section Misspell.
Variable lower : str -> str.           (* the name as the readers take it: str.strip().lower(); the ASCII instance is used for evaluation *)
Variable supported : list str.         (* constants.SUPPORTED_SHEET_NAMES *)

Definition is_candidate (key k : str) : bool :=
  (levenshtein (lower k) key <=? 2) && negb (mem (lower k) supported) && negb (starts_with [UNDERSCORE] k).
Definition misspelling_candidates (key : str) (keys : list str) : list str := filter (is_candidate key) keys.
End Misspell.

Definition q (s : str) : str := [39%N] ++ s ++ [39%N].
Definition msg_looking : str := [87;104;101;110;32;108;111;111;107;105;110;103;32;102;111;114;32;97;32;115;104;101;101;116;32;110;97;109;101;100;32]%N.
Definition msg_similar : str := [44;32;116;104;101;32;102;111;108;108;111;119;105;110;103;32;115;104;101;101;116;115;32;119;105;116;104;32;115;105;109;105;108;97;114;32;110;97;109;101;115;32;119;101;114;101;32;102;111;117;110;100;58;32]%N.
Definition comma_sp : str := [44;32]%N.
Definition find_sheet_misspellings (supported : list str) (key : str) (keys : list str) : option str :=
  match misspelling_candidates (fun k => lower_ascii (py_strip k)) supported key keys with
  | [] => None
  | cs => Some (msg_looking ++ q key ++ msg_similar ++ join comma_sp (map q cs) ++ [46%N])
  end.

(* ---- IANA language tags ---- *)
Definition LPAREN : char := 40%N. Definition RPAREN : char := 41%N.
Definition s_default : str := [100;101;102;97;117;108;116]%N.
(* LANG_CODE_REGEX (pinned in Proofs/PinsWarnings.v: backslash, lparen, lparen, dot, star, rparen, backslash,
   rparen, dollar) with re.search on a newline-free string: the leftmost LPAREN such that the string ends
   with RPAREN; group 1 is everything between them *)
Definition lang_code (lang : str) : option str :=
  let (_, rest) := span (fun c => negb (ceq c LPAREN)) lang in
  match rest with
  | [] => None
  | _ :: inner => match rev inner with
                  | c :: r => if ceq c RPAREN then Some (rev r) else None
                  | [] => None
                  end
  end.
Definition bad_tag (tags2 tags3 : list str) (lang : str) : bool :=
  if seqb lang s_default || (length lang <? 3) then false
  else match lang_code lang with
       | None => true
       | Some code => negb (mem code tags2 || mem code tags3)
       end.
Definition languages_with_bad_tags (tags2 tags3 : list str) (langs : list str) : list str :=
  filter (bad_tag tags2 tags3) langs.

(* ---- missing translations ---- *)
Definition header := list str.
Fixpoint assoc_get (k : str) (l : list (str * list str)) : option (list str) :=
  match l with [] => None | (a, v) :: r => if seqb a k then Some v else assoc_get k r end.
Fixpoint assoc_append (k v : str) (l : list (str * list str)) : list (str * list str) :=
  match l with
  | [] => [(k, [v])]
  | (a, vs) :: r => if seqb a k then (a, vs ++ [v]) :: r else (a, vs) :: assoc_append k v r
  end.
Definition add_set (x : str) (l : list str) : list str := if mem x l then l else l ++ [x].

Record trans := { seen : list (str * list str); columns_seen : list str }.
Definition s_media : str := [109;101;100;105;97]%N.
Definition s_bind : str := [98;105;110;100]%N.

Section Trans.
(* translatable_columns: internal name -> external name, or None when the table holds a tuple *)
Variable table : list (str * option str).
Fixpoint table_get (k : str) (l : list (str * option str)) : option (option str) :=
  match l with [] => None | (a, v) :: r => if seqb a k then Some v else table_get k r end.

Definition process_head (t : trans) (head : header) : trans :=
  match head with
  | [] => t
  | h0 :: rest =>
      match table_get h0 table with
      | None => t
      | Some ext =>
          let name := match ext with Some e => e | None => h0 end in
          let seen' := match rest with
                       | [] => assoc_append s_default name (seen t)
                       | [lang] => assoc_append lang name (seen t)
                       | _ => seen t
                       end in
          {| seen := seen'; columns_seen := add_set name (columns_seen t) |}
      end
  end.
Definition find_translations (sheet : list header) : trans :=
  fold_left (fun t h =>
    match h with
    | h0 :: (_ :: _) as rest => if seqb h0 s_media || seqb h0 s_bind then process_head t rest else process_head t h
    | _ => process_head t h
    end) sheet {| seen := []; columns_seen := [] |}.

Definition seen_default_only (t : trans) : bool :=
  match seen t with
  | [] => true
  | [(l, _)] => seqb l s_default
  | _ => false
  end.
(* missing[lang] = columns seen on the sheet but not for lang; only languages with a gap get a key *)
Definition find_missing (t : trans) : list (str * list str) :=
  if seen_default_only t then []
  else flat_map (fun p => match filter (fun c => negb (mem c (snd p))) (columns_seen t) with
                          | [] => [] | cs => [(fst p, cs)] end) (seen t).
End Trans.

(* sorted(): by code point, lexicographic *)
Fixpoint str_leb (a b : str) : bool :=
  match a, b with
  | [], _ => true
  | _ :: _, [] => false
  | x :: a', y :: b' => if (x <? y)%N then true else if (y <? x)%N then false else str_leb a' b'
  end.
Fixpoint insert_sorted (x : str) (l : list str) : list str :=
  match l with [] => [x] | y :: r => if str_leb x y then x :: l else y :: insert_sorted x r end.
Definition sort_strs (l : list str) : list str := fold_right insert_sorted [] l.

Definition m_language : str := [76;97;110;103;117;97;103;101;32]%N.          (* "Language " *)
Definition m_missing_the : str := [32;105;115;32;109;105;115;115;105;110;103;32;116;104;101;32]%N. (* " is missing the " *)
Definition m_column : str := [32;99;111;108;117;109;110;46]%N.                (* " column." *)
Definition m_columns : str := [32;99;111;108;117;109;110;115;32]%N.           (* " columns " *)
Definition nl : str := [10%N].
Definition sheet_msg (name : str) (missing : list (str * list str)) : option str :=
  match missing with
  | [] => None
  | _ =>
    let langs := sort_strs (map fst missing) in
    Some (join nl (flat_map (fun lang =>
      match assoc_get lang missing with
      | Some [c] => [m_language ++ q lang ++ m_missing_the ++ name ++ [32%N] ++ c ++ m_column]
      | Some (c1 :: c2 :: cs) => [m_language ++ q lang ++ m_missing_the ++ name ++ m_columns ++
                                   join comma_sp (sort_strs (c1 :: c2 :: cs)) ++ [46%N]]
      | _ => []
      end) langs))
  end.
Definition s_survey : str := [115;117;114;118;101;121]%N.
Definition s_choices : str := [99;104;111;105;99;101;115]%N.
Definition missing_check (tsurvey tchoices : list (str * option str)) (survey choices : list header) : option str :=
  let ms := find_missing (find_translations tsurvey survey) in
  let mc := find_missing (find_translations tchoices choices) in
  match ms, mc with
  | [], [] => None
  | _, _ => match sheet_msg s_survey ms, sheet_msg s_choices mc with
            | Some a, Some b => Some (a ++ nl ++ b)
            | Some a, None => Some a
            | None, Some b => Some b
            | None, None => None
            end
  end.
Definition or_other_warns (tsurvey tchoices : list (str * option str)) (survey choices : list header) (or_other_seen : bool) : bool :=
  or_other_seen && (negb (seen_default_only (find_translations tsurvey survey)) ||
                    negb (seen_default_only (find_translations tchoices choices))).
