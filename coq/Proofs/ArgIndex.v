(* Proofs/ArgIndex.v — a position inside the i-th argument is attributed to the i-th argument, whatever the other arguments hold (in particular
   when another argument mentions the same name: defect F72); a position on a comma or beyond the text belongs to no argument. *)
Require Import PX.Base.Str PX.Model.ArgIndex.
From Coq Require Import Lia.
Lemma arg_index_from_spec : forall pre a post off idx p,
  off + start_after pre <= p < off + start_after pre + length a ->
  arg_index_from (pre ++ a :: post) off p idx = Some (idx + length pre).
Proof.
  induction pre as [|x pre IH]; intros a post off idx p H; cbn [app arg_index_from start_after length] in *.
  - destruct (Nat.leb_spec off p); [|lia]. destruct (Nat.ltb_spec p (off + length a)); [|lia]. cbn [andb]. f_equal. lia.
  - destruct (Nat.leb_spec off p); [destruct (Nat.ltb_spec p (off + length x)); [lia|]|lia]; cbn [andb].
    rewrite (IH a post (off + length x + 1) (S idx) p) by lia. f_equal. lia.
Qed.
Theorem position_decides_argument pre a post p :
  start_after pre <= p < start_after pre + length a -> arg_index (pre ++ a :: post) p = Some (length pre).
Proof. intro H. unfold arg_index. rewrite (arg_index_from_spec pre a post 0 0 p) by lia. reflexivity. Qed.
Lemma arg_index_from_range : forall args off idx p i, arg_index_from args off p idx = Some i ->
  exists pre a post, args = pre ++ a :: post /\ i = idx + length pre /\ off + start_after pre <= p < off + start_after pre + length a.
Proof.
  induction args as [|x r IH]; intros off idx p i H; cbn [arg_index_from] in H; [discriminate|].
  destruct (Nat.leb_spec off p) as [Hle|Hgt]; [destruct (Nat.ltb_spec p (off + length x)) as [Hlt|Hge]|]; cbn [andb] in H.
  - inversion H; subst. exists [], x, r. cbn [app length start_after]. repeat split; lia.
  - apply IH in H as (pre & a & post & -> & -> & Hr). exists (x :: pre), a, post. cbn [app length start_after]. repeat split; lia.
  - apply IH in H as (pre & a & post & -> & -> & Hr). exists (x :: pre), a, post. cbn [app length start_after]. repeat split; lia.
Qed.
Theorem argument_found_holds_position args p i : arg_index args p = Some i ->
  exists pre a post, args = pre ++ a :: post /\ i = length pre /\ start_after pre <= p < start_after pre + length a.
Proof. intro H. apply arg_index_from_range in H as (pre & a & post & E & Hi & Hr). exists pre, a, post. repeat split; try assumption; lia. Qed.
(* indexed-repeat(${q}, ${r}, ${q}): the first reference is argument 0, the last one argument 2 *)
Example same_name_twice :
  let args := [[36;123;113;125]; [32;36;123;114;125]; [32;36;123;113;125]]%N in
  arg_index args 0 = Some 0 /\ arg_index args 6 = Some 1 /\ arg_index args 12 = Some 2 /\ arg_index args 4 = None.
Proof. vm_compute. repeat split; reflexivity. Qed.
