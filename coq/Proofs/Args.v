(* Proofs/Args.v — split_function_args loses nothing, never splits inside parentheses, and is the plain comma split without them *)
Require Import PX.Base.Str PX.Model.Args.
From Coq Require Import ZArith Lia.
Local Open Scope N_scope.

Lemma split_go_nonempty : forall s depth cur, split_go depth cur s <> [].
Proof.
  induction s as [|c r IH]; intros depth cur; cbn [split_go]; [discriminate|].
  destruct (c =? LP); [apply IH|]. destruct (c =? RP); [apply IH|]. destruct ((c =? COMMA) && (depth =? 0)%Z); [discriminate|apply IH].
Qed.
Lemma join_cons a l : l <> [] -> join [COMMA] (a :: l) = a ++ [COMMA] ++ join [COMMA] l.
Proof. intro Hl. destruct l; [congruence|reflexivity]. Qed.
(* nothing is lost: joining the pieces with commas gives back the text *)
Lemma split_go_join : forall s depth cur, join [COMMA] (split_go depth cur s) = rev cur ++ s.
Proof.
  induction s as [|c r IH]; intros depth cur; cbn [split_go].
  - cbn [join]. rewrite app_nil_r. reflexivity.
  - destruct (c =? LP); [rewrite IH; cbn [rev]; rewrite <- app_assoc; reflexivity|].
    destruct (c =? RP); [rewrite IH; cbn [rev]; rewrite <- app_assoc; reflexivity|].
    destruct ((c =? COMMA) && (depth =? 0)%Z) eqn:E.
    + apply andb_true_iff in E as [Ec _]. apply N.eqb_eq in Ec. subst c.
      rewrite join_cons by apply split_go_nonempty. rewrite IH. reflexivity.
    + rewrite IH. cbn [rev]. rewrite <- app_assoc. reflexivity.
Qed.
Theorem split_lossless s : join [COMMA] (split_function_args s) = s.
Proof. unfold split_function_args. rewrite split_go_join. reflexivity. Qed.

(* without parentheses it is the plain split on commas *)
Lemma split_go_plain : forall s cur, forallb (fun c => negb (c =? LP) && negb (c =? RP)) s = true ->
  split_go 0 cur s = match split_on COMMA s with [] => [rev cur] | x :: r => (rev cur ++ x) :: r end.
Proof.
  induction s as [|c r IH]; intros cur H; cbn [split_go split_on].
  - rewrite app_nil_r. reflexivity.
  - cbn [forallb] in H. apply andb_true_iff in H as [Hc Hr]. apply andb_true_iff in Hc as [H1 H2].
    apply negb_true_iff in H1. apply negb_true_iff in H2. rewrite H1, H2.
    change ((0 =? 0)%Z) with true. rewrite andb_true_r. unfold ceq. rewrite N.eqb_sym.
    destruct (COMMA =? c) eqn:E.
    + rewrite (IH [] Hr). cbn [rev app]. rewrite app_nil_r. pose proof (split_on_nonnil COMMA r) as Hn. destruct (split_on COMMA r); [congruence|reflexivity].
    + rewrite (IH (c :: cur) Hr). cbn [rev]. pose proof (split_on_nonnil COMMA r) as Hn. destruct (split_on COMMA r) as [|x l]; [congruence|]. rewrite <- app_assoc. reflexivity.
Qed.
Theorem split_plain s : forallb (fun c => negb (c =? LP) && negb (c =? RP)) s = true -> split_function_args s = split_on COMMA s.
Proof.
  intro H. unfold split_function_args. rewrite (split_go_plain s [] H). pose proof (split_on_nonnil COMMA s) as Hn.
  destruct (split_on COMMA s); [congruence|reflexivity].
Qed.
(* a comma inside parentheses never separates: a parenthesised group stays inside one piece *)
Lemma split_go_deep : forall s depth cur, (0 < depth)%Z -> forallb (fun c => negb (c =? LP) && negb (c =? RP)) s = true ->
  split_go depth cur s = [rev cur ++ s].
Proof.
  induction s as [|c r IH]; intros depth cur Hd H; cbn [split_go]; [rewrite app_nil_r; reflexivity|].
  cbn [forallb] in H. apply andb_true_iff in H as [Hc Hr]. apply andb_true_iff in Hc as [H1 H2].
  apply negb_true_iff in H1. apply negb_true_iff in H2. rewrite H1, H2.
  assert (E : (depth =? 0)%Z = false) by (apply Z.eqb_neq; lia). rewrite E, andb_false_r.
  rewrite (IH depth (c :: cur) Hd Hr). cbn [rev]. rewrite <- app_assoc. reflexivity.
Qed.
Theorem parenthesised_group_is_one_piece pre inner post :
  forallb (fun c => negb (c =? LP) && negb (c =? RP) && negb (c =? COMMA)) pre = true ->
  forallb (fun c => negb (c =? LP) && negb (c =? RP)) inner = true ->
  forallb (fun c => negb (c =? LP) && negb (c =? RP) && negb (c =? COMMA)) post = true ->
  split_function_args (pre ++ [LP] ++ inner ++ [RP] ++ post) = [pre ++ [LP] ++ inner ++ [RP] ++ post].
Proof.
  intros Hpre Hin Hpost. unfold split_function_args.
  assert (G : forall s cur d tail, forallb (fun c => negb (c =? LP) && negb (c =? RP) && negb (c =? COMMA)) s = true ->
              split_go d cur (s ++ tail) = split_go d (rev s ++ cur) tail).
  { induction s as [|c r IH]; intros cur d tail H; [reflexivity|]. cbn [forallb] in H. apply andb_true_iff in H as [Hc Hr].
    apply andb_true_iff in Hc as [Hc H3]. apply andb_true_iff in Hc as [H1 H2].
    apply negb_true_iff in H1. apply negb_true_iff in H2. apply negb_true_iff in H3.
    cbn [app split_go]. rewrite H1, H2, H3. cbn [andb]. rewrite (IH (c :: cur) d tail Hr). cbn [rev]. rewrite <- app_assoc. reflexivity. }
  rewrite (G pre [] 0%Z _ Hpre). cbn [app split_go]. change (LP =? LP) with true. cbv iota.
  (* inside the parentheses *)
  assert (D : forall s cur tail, forallb (fun c => negb (c =? LP) && negb (c =? RP)) s = true ->
              split_go 1 cur (s ++ RP :: tail) = split_go 0 (RP :: rev s ++ cur) tail).
  { induction s as [|c r IH]; intros cur tail H.
    - cbn [app split_go]. change (RP =? LP) with false. change (RP =? RP) with true. cbv iota. reflexivity.
    - cbn [forallb] in H. apply andb_true_iff in H as [Hc Hr]. apply andb_true_iff in Hc as [H1 H2].
      apply negb_true_iff in H1. apply negb_true_iff in H2. cbn [app split_go]. rewrite H1, H2.
      change ((1 =? 0)%Z) with false. rewrite andb_false_r. rewrite (IH (c :: cur) tail Hr). cbn [rev]. rewrite <- app_assoc. reflexivity. }
  change (0 + 1)%Z with 1%Z. rewrite (D inner _ post Hin).
  rewrite <- (app_nil_r post) at 1. rewrite (G post _ 0%Z [] Hpost). cbn [split_go].
  f_equal. rewrite app_nil_r.
  change (rev post ++ RP :: rev inner ++ LP :: rev pre) with (rev post ++ [RP] ++ rev inner ++ [LP] ++ rev pre).
  rewrite !rev_app_distr, !rev_involutive. cbn [rev app]. rewrite <- !app_assoc. reflexivity.
Qed.

(* tie to the source (Gen/Lexer.v is regenerated from /repo on every run): the positions kept absolute are the ones modelled, and the
   keyword that opens a call is the one Model/FindCalls.v looks for *)
Require Import PX.Gen.Lexer PX.Model.FindCalls.
Lemma indexed_repeat_constants_pinned :
  INDEXED_REPEAT_ABSOLUTE_ARGS = ABSOLUTE_ARG_POSITIONS /\ INDEXED_REPEAT_CALL = KW.
Proof. split; reflexivity. Qed.
