(* Proofs/AttrUnique.v — the attributes of an element are set one by one through DetachableElement.setAttribute, which files an attribute
   under its whole name (a new name is appended, a known name has its value replaced in place: Model/Bind.v dset).  Whatever the sequence of
   calls, no name occurs twice on the element -- the hypothesis dom_attrs_unique of the C01 theorems, established by construction. *)
Require Import PX.Base.Str PX.Model.Dom PX.Model.Bind PX.Model.Warnings PX.Spec.NsCheck PX.Proofs.Bind.
Lemma dup_free_NoDup (l : list str) : NoDup l -> dup_free l = true.
Proof.
  induction 1 as [|x l Hx _ IH]; [reflexivity|]. cbn [dup_free]. rewrite IH, Bool.andb_true_r. apply Bool.negb_true_iff.
  destruct (existsb (seqb x) l) eqn:E; [|reflexivity]. apply existsb_exists in E as [y [Hy Exy]]. apply seqb_eq in Exy. subst y. contradiction.
Qed.
Definition set_attributes (calls : list (str * str)) : dict := fold_left (fun attrs kv => dset (fst kv) (snd kv) attrs) calls [].
Theorem attributes_unique_by_construction calls : dup_free (map fst (set_attributes calls)) = true.
Proof.
  apply dup_free_NoDup. unfold set_attributes. change (map fst) with keys.
  assert (G : forall acc, NoDup (keys acc) -> NoDup (keys (fold_left (fun attrs kv => dset (fst kv) (snd kv) attrs) calls acc))).
  { induction calls as [|kv r IH]; intros acc H; [exact H|]. cbn [fold_left]. apply IH. apply NoDup_dset. exact H. }
  apply G. constructor.
Qed.
(* the last value set under a name is the one the element carries; a name with a prefix and the same name without one are two attributes *)
Theorem last_value_wins calls k v : dget k (set_attributes (calls ++ [(k, v)])) = Some v.
Proof. unfold set_attributes. rewrite fold_left_app. cbn [fold_left fst snd]. apply dget_dset_same. Qed.
Theorem other_names_untouched calls k v k' : k' <> k -> dget k' (set_attributes (calls ++ [(k, v)])) = dget k' (set_attributes calls).
Proof. intro H. unfold set_attributes. rewrite fold_left_app. cbn [fold_left fst snd]. apply dget_dset_other. exact H. Qed.
Example prefixed_and_plain_coexist :
  set_attributes [([110;111;100;101;115;101;116], [47;100]); ([116;121;112;101], [115]); ([97;58;116;121;112;101], [84])]%N
  = [([110;111;100;101;115;101;116], [47;100]); ([116;121;112;101], [115]); ([97;58;116;121;112;101], [84])]%N.
Proof. reflexivity. Qed.
