(* Proofs/Bind.v — no logic cell is dropped, duplicated or attached elsewhere on its way into the bind. *)
Require Import PX.Base.Str PX.Base.PyStr PX.Model.Warnings PX.Model.Bind PX.Model.Headers PX.Spec.DocsBind PX.Gen.Headers PX.Proofs.Warn.

Lemma dget_dset_same k v d : dget k (dset k v d) = Some v.
Proof. induction d as [|[a w] r IH]; simpl; [rewrite seqb_refl; reflexivity|]. destruct (seqb a k) eqn:E; simpl; rewrite E; [reflexivity|exact IH]. Qed.
Lemma dget_dset_other k k' v d : k' <> k -> dget k' (dset k v d) = dget k' d.
Proof.
  intro H. induction d as [|[a w] r IH]; simpl.
  - destruct (seqb_spec k k'); [congruence|reflexivity].
  - destruct (seqb_spec a k); simpl.
    + subst. destruct (seqb_spec k k'); [congruence|reflexivity].
    + destruct (seqb a k'); [reflexivity|exact IH].
Qed.
Lemma keys_dset k v d : keys (dset k v d) = if mem k (keys d) then keys d else keys d ++ [k].
Proof.
  induction d as [|[a w] r IH]; simpl; [reflexivity|].
  destruct (seqb_spec a k).
  - subst. simpl. rewrite seqb_refl. reflexivity.
  - simpl. rewrite IH. unfold mem. simpl. destruct (seqb_spec k a); [congruence|]. simpl.
    destruct (existsb (seqb k) (keys r)); reflexivity.
Qed.
Lemma NoDup_snoc {A} (l : list A) x : NoDup l -> ~ In x l -> NoDup (l ++ [x]).
Proof.
  induction l as [|a l IH]; intros H Hx; simpl; [constructor; [intros []|constructor]|].
  inversion H; subst. constructor.
  - intro Hin. apply in_app_or in Hin as [Hin|[<-|[]]]; [contradiction|]. apply Hx. left. reflexivity.
  - apply IH; [assumption|]. intro Hin. apply Hx. right. exact Hin.
Qed.
Lemma NoDup_dset k v d : NoDup (keys d) -> NoDup (keys (dset k v d)).
Proof.
  intro H. rewrite keys_dset. destruct (mem k (keys d)) eqn:E; [exact H|].
  apply NoDup_snoc; [exact H|]. intro Hin. apply mem_In in Hin. congruence.
Qed.
Lemma dget_none k d : ~ In k (keys d) -> dget k d = None.
Proof.
  induction d as [|[a w] r IH]; simpl; intro H; [reflexivity|].
  destruct (seqb_spec a k); [exfalso; apply H; left; assumption|]. apply IH. intro Hin. apply H. right. exact Hin.
Qed.

(* a.update(b): the row's cells win over the type's defaults; nothing else changes *)
Theorem update_lookup : forall b a k, NoDup (keys b) ->
  dget k (dupdate a b) = match dget k b with Some v => Some v | None => dget k a end.
Proof.
  unfold dupdate. induction b as [|[bk bv] b IH]; intros a k Hnd; [reflexivity|].
  cbn [fold_left fst snd keys map] in *. inversion Hnd as [|? ? Hnotin Hnd']; subst.
  rewrite (IH _ _ Hnd'). cbn [dget]. destruct (seqb_spec bk k) as [->|Hne].
  - rewrite (dget_none k b Hnotin). apply dget_dset_same.
  - destruct (dget k b); [reflexivity|]. apply dget_dset_other. congruence.
Qed.
Theorem update_keys_unique : forall b a, NoDup (keys a) -> NoDup (keys (dupdate a b)).
Proof.
  unfold dupdate. induction b as [|[bk bv] b IH]; intros a H; [exact H|]. cbn [fold_left fst snd]. apply IH. apply NoDup_dset. exact H.
Qed.

(* xml_bindings: every bind entry appears exactly once, converted, under its own key; only `calculate` of a
   triggered question is withheld *)
Theorem bind_attrs_exact conversions convertible ns bind trig k v' :
  In (k, v') (tl (bind_attrs conversions convertible ns bind trig)) <->
  exists v, In (k, v) bind /\ v' = conv conversions convertible k v /\ (trig && seqb k s_calculate) = false.
Proof.
  unfold bind_attrs. cbn [tl]. rewrite in_flat_map. split.
  - intros ((a, w) & Hin & H). cbn [fst snd] in H. destruct (trig && seqb a s_calculate) eqn:E; [destruct H|].
    destruct H as [H|[]]. inversion H; subst. exists w. repeat split; assumption.
  - intros (v & Hin & -> & E). exists (k, v). split; [exact Hin|]. cbn [fst snd]. rewrite E. left. reflexivity.
Qed.
Lemma keys_bind_attrs conversions convertible ns bind trig :
  keys (tl (bind_attrs conversions convertible ns bind trig)) = filter (fun k => negb (trig && seqb k s_calculate)) (keys bind).
Proof.
  unfold bind_attrs. cbn [tl]. induction bind as [|[a w] r IH]; [reflexivity|].
  cbn [flat_map keys map filter fst snd]. destruct (trig && seqb a s_calculate); cbn [negb app map]; unfold keys in *; rewrite ?map_app; simpl; rewrite IH; reflexivity.
Qed.
Theorem bind_attrs_unique conversions convertible ns bind trig : NoDup (keys bind) ->
  NoDup (keys (tl (bind_attrs conversions convertible ns bind trig))).
Proof. intro H. rewrite keys_bind_attrs. apply NoDup_filter. exact H. Qed.

(* ---- the tables are the documented ones (finite, over the regenerated Gen/Headers.v) ---- *)
Definition logic_column_ok (p : str * str) : bool :=
  match process_header SURVEY_HEADER_ALIASES SURVEY_COLUMNS false (fst p) with
  | Some [b; a] => seqb b b_ && seqb a (snd p)
  | _ => false
  end.
Lemma logic_columns_documented : forallb logic_column_ok docs_logic_columns = true.
Proof. vm_compute. reflexivity. Qed.
Lemma truth_values_documented : forallb (fun p => match dget (fst p) BINDING_CONVERSIONS with Some t => seqb t (snd p) | None => false end) docs_truth = true
  /\ length BINDING_CONVERSIONS = length docs_truth /\ CONVERTIBLE_BIND_ATTRIBUTES = docs_convertible.
Proof. repeat split; vm_compute; reflexivity. Qed.
