(* Proofs/Cache.v — cache transparency under every interleaving; sorting erases iteration order;
   the shared scanner cell is NOT safe under interleaving (refutation). *)
Require Import PX.Base.Str PX.Model.Cache PX.Model.Warnings.
From Coq Require Import Permutation.

Section CacheProofs.
Context {K V : Type}.
Variable keq : K -> K -> bool.
Hypothesis keq_eq : forall a b, keq a b = true -> a = b.
Variable f : K -> V.
Variable maxsize : nat.

Definition Coherent (c : cache) : Prop := Forall (fun e => snd e = f (fst e)) c.

Lemma find_coherent c k v : Coherent c -> find keq k c = Some v -> v = f k.
Proof.
  induction c as [|[k' v'] c IH]; intros Hc H; simpl in H; [discriminate|].
  inversion Hc as [|? ? Hh Ht]; subst. destruct (keq k' k) eqn:E.
  - inversion H; subst. apply keq_eq in E. subst. exact Hh.
  - apply IH; assumption.
Qed.
Lemma coherent_filter p c : Coherent c -> Coherent (filter p c).
Proof. induction c as [|e c IH]; intro H; simpl; [constructor|]. inversion H; subst. destruct (p e); [constructor; [assumption|apply IH; assumption]|apply IH; assumption]. Qed.
Lemma coherent_firstn n c : Coherent c -> Coherent (firstn n c).
Proof. revert n; induction c as [|e c IH]; intros n H; destruct n; simpl; try constructor; inversion H; subst; [assumption|apply IH; assumption]. Qed.

Theorem get_transparent c k : Coherent c ->
  snd (get keq f maxsize c k) = f k /\ Coherent (fst (get keq f maxsize c k)).
Proof.
  intro Hc. unfold get. destruct (find keq k c) as [v|] eqn:E; simpl.
  - pose proof (find_coherent c k v Hc E) as ->. split; [reflexivity|].
    constructor; [reflexivity|]. apply coherent_filter. exact Hc.
  - split; [reflexivity|]. apply coherent_firstn. constructor; [reflexivity|exact Hc].
Qed.

(* any sequence of requests — i.e. any interleaving of any number of clients — sees exactly f *)
Theorem run_transparent : forall trace c, Coherent c ->
  snd (run keq f maxsize c trace) = map f trace /\ Coherent (fst (run keq f maxsize c trace)).
Proof.
  induction trace as [|k r IH]; intros c Hc; simpl; [split; [reflexivity|exact Hc]|].
  destruct (get_transparent c k Hc) as [Hv Hc1].
  destruct (get keq f maxsize c k) as [c1 v]. simpl in *.
  destruct (IH c1 Hc1) as [Hvs Hc2]. destruct (run keq f maxsize c1 r) as [c2 vs]. simpl in *.
  subst. split; [reflexivity|exact Hc2].
Qed.
End CacheProofs.

(* each client of an interleaved trace sees f on its own requests *)
Theorem interleaving_transparent {K V} (keq : K -> K -> bool) (f : K -> V) maxsize
  (keq_eq : forall a b, keq a b = true -> a = b) (trace : list (nat * K)) (client : nat) :
  map snd (filter (fun e => Nat.eqb (fst e) client) (combine (map fst trace) (snd (run keq f maxsize [] (map snd trace)))))
  = map f (map snd (filter (fun e => Nat.eqb (fst e) client) trace)).
Proof.
  destruct (run_transparent keq keq_eq f maxsize (map snd trace) [] (Forall_nil _)) as [H _]. rewrite H. clear H.
  induction trace as [|[cl k] r IH]; [reflexivity|]. simpl. destruct (Nat.eqb cl client); simpl; rewrite IH; reflexivity.
Qed.

(* ---- sorting erases the iteration order of a set (translations_checks columns_seen -> sorted(cols)) ---- *)
Lemma str_leb_refl a : str_leb a a = true.
Proof. induction a as [|x a IH]; simpl; [reflexivity|]. rewrite N.ltb_irrefl. exact IH. Qed.
Lemma str_leb_total a b : str_leb a b = true \/ str_leb b a = true.
Proof.
  revert b; induction a as [|x a IH]; intros [|y b]; simpl; auto.
  destruct (N.ltb_spec x y), (N.ltb_spec y x); auto; try lia.
Qed.
Lemma str_leb_antisym a b : str_leb a b = true -> str_leb b a = true -> a = b.
Proof.
  revert b; induction a as [|x a IH]; intros [|y b]; simpl; intros H1 H2; try discriminate; [reflexivity|].
  destruct (N.ltb_spec x y), (N.ltb_spec y x); try discriminate; try lia.
  assert (x = y) by lia. subst. f_equal. apply IH; assumption.
Qed.
Lemma str_leb_trans a b c : str_leb a b = true -> str_leb b c = true -> str_leb a c = true.
Proof.
  revert b c; induction a as [|x a IH]; intros [|y b] [|z c]; simpl; intros H1 H2; try discriminate; try reflexivity.
  destruct (N.ltb_spec x y), (N.ltb_spec y x), (N.ltb_spec y z), (N.ltb_spec z y), (N.ltb_spec x z), (N.ltb_spec z x);
    try discriminate; try reflexivity; try lia.
  eapply IH; eassumption.
Qed.

Lemma insert_cons x z s : insert_sorted x (z :: s) = if str_leb x z then x :: z :: s else z :: insert_sorted x s.
Proof. reflexivity. Qed.
Lemma leb_false_flip a b : str_leb a b = false -> str_leb b a = true.
Proof. intro H. destruct (str_leb_total a b); congruence. Qed.

Lemma insert_comm x y : forall s, insert_sorted x (insert_sorted y s) = insert_sorted y (insert_sorted x s).
Proof.
  induction s as [|z s IH].
  - cbn [insert_sorted].
    destruct (str_leb x y) eqn:Exy, (str_leb y x) eqn:Eyx; try reflexivity.
    + rewrite (str_leb_antisym x y Exy Eyx). reflexivity.
    + apply leb_false_flip in Exy. congruence.
  - rewrite (insert_cons y z s), (insert_cons x z s).
    destruct (str_leb y z) eqn:Eyz, (str_leb x z) eqn:Exz.
    + rewrite (insert_cons x y), (insert_cons y x), !insert_cons, Exz, Eyz.
      destruct (str_leb x y) eqn:Exy, (str_leb y x) eqn:Eyx; try reflexivity.
      * rewrite (str_leb_antisym x y Exy Eyx). reflexivity.
      * apply leb_false_flip in Exy. congruence.
    + assert (Exy : str_leb x y = false).
      { destruct (str_leb x y) eqn:E; [|reflexivity]. rewrite (str_leb_trans x y z E Eyz) in Exz. discriminate. }
      rewrite (insert_cons x y), Exy, (insert_cons x z), Exz, (insert_cons y z), Eyz. reflexivity.
    + assert (Eyx : str_leb y x = false).
      { destruct (str_leb y x) eqn:E; [|reflexivity]. rewrite (str_leb_trans y x z E Exz) in Eyz. discriminate. }
      rewrite (insert_cons y x), Eyx, (insert_cons y z), Eyz, (insert_cons x z), Exz. reflexivity.
    + rewrite (insert_cons x z), Exz, (insert_cons y z), Eyz, IH. reflexivity.
Qed.

Theorem sort_perm_invariant l l' : Permutation l l' -> sort_strs l = sort_strs l'.
Proof.
  unfold sort_strs. induction 1; simpl; try congruence.
  apply insert_comm.
Qed.

(* ---- the shared scanner cell: a refutation ---- *)
(* sequential: thread 1 writes 3 then reads; thread 2 writes 7 then reads: each reads its own position *)
Example scanner_sequential : sc_run 0 [SWrite 1 3; SRead 1; SWrite 2 7; SRead 2] = [(1, 3); (2, 7)].
Proof. reflexivity. Qed.
(* interleaved: thread 2's write lands between thread 1's write and read *)
Theorem scanner_interleaving_refuted :
  exists sched, Permutation sched [SWrite 1 3; SRead 1; SWrite 2 7; SRead 2]
             /\ sc_run 0 sched <> [(1, 3); (2, 7)] /\ In (1, 7) (sc_run 0 sched).
Proof.
  exists [SWrite 1 3; SWrite 2 7; SRead 1; SRead 2]. split.
  - apply perm_skip. apply perm_swap.
  - split; [discriminate|left; reflexivity].
Qed.

(* with the scan serialised by a lock, a token's write and read are one atomic step: every schedule of whole
   token steps gives each token its own position *)
Theorem scanner_locked_safe : forall (cell : nat) (steps : list (nat * nat)),
  sc_run cell (flat_map (fun tp => [SWrite (fst tp) (snd tp); SRead (fst tp)]) steps) = steps.
Proof.
  intros cell steps. revert cell. induction steps as [|[t p] r IH]; intro cell; [reflexivity|].
  cbn [flat_map app sc_run sc_step fst snd]. rewrite IH. reflexivity.
Qed.
