(* Proofs/CallScan.v — the repaired scan finds the call a reference sits in, for any number of calls; the unrepaired one did not (F60). *)
Require Import PX.Model.CallScan.
From Coq Require Import List Arith Bool Lia.
Import ListNotations.
(* calls as the regular expression delivers them: non-empty, in text order, not overlapping *)
Fixpoint calls_ok (from : nat) (calls : list (nat * nat)) : Prop :=
  match calls with [] => True | (cs, ce) :: more => from <= cs /\ cs < ce /\ calls_ok ce more end.
Definition inside (c : nat * nat) (s e : nat) : Prop := fst c <= s /\ e <= snd c.
Definition apart (c : nat * nat) (s e : nat) : Prop := e <= fst c \/ snd c <= s.
Theorem scan_finds_the_call : forall calls from s e c, calls_ok from calls -> s < e -> In c calls -> inside c s e -> scan calls s e = InCall c.
Proof.
  induction calls as [|[cs ce] more IH]; intros from s e c Hok Hse Hin Hins; [destruct Hin|]. cbn [scan]. cbn [calls_ok] in Hok. destruct Hok as (Hf & Hlt & Hm).
  destruct Hin as [<-|Hin].
  - unfold inside in Hins. cbn [fst snd] in Hins. destruct (Nat.leb_spec ce s); [lia|]. destruct (Nat.leb_spec e cs); [lia|]. reflexivity.
  - assert (Hc : ce <= fst c). { clear -Hm Hin. revert ce Hm. induction more as [|[a b] r IHr]; intros ce Hm; [destruct Hin|]. cbn [calls_ok] in Hm. destruct Hm as (H1 & H2 & H3).
      destruct Hin as [<-|Hin']; [exact H1|]. specialize (IHr Hin' b H3). lia. }
    unfold inside in Hins. destruct (Nat.leb_spec ce s); [|lia]. eapply IH; eauto.
Qed.
Theorem scan_outside : forall calls from s e, calls_ok from calls -> s < e -> (forall c, In c calls -> apart c s e) -> scan calls s e = Outside.
Proof.
  induction calls as [|[cs ce] more IH]; intros from s e Hok Hse Hap; [reflexivity|]. cbn [scan]. cbn [calls_ok] in Hok. destruct Hok as (Hf & Hlt & Hm).
  destruct (Nat.leb_spec ce s); [eapply IH; eauto; intros c Hc; apply Hap; right; exact Hc|].
  destruct (Nat.leb_spec e cs); [reflexivity|]. destruct (Hap (cs, ce) (or_introl eq_refl)) as [H1|H1]; cbn [fst snd] in H1; lia.
Qed.
Theorem scan_never_falls_through calls s e : scan calls s e <> FellThrough.
Proof. induction calls as [|[cs ce] more IH]; cbn [scan]; [discriminate|]. destruct (ce <=? s); [exact IH|]. destruct (e <=? cs); discriminate. Qed.
(* the loop as it was: a reference inside the second of two calls is not found in it *)
Theorem old_scan_refuted : exists calls s e c, calls_ok 0 calls /\ s < e /\ In c calls /\ inside c s e /\ old_scan calls s e <> InCall c.
Proof.
  exists [(0, 10); (12, 22)], 18, 20, (12, 22). split; [cbn; lia|]. split; [lia|]. split; [right; left; reflexivity|]. split; [unfold inside; cbn; lia|].
  vm_compute. discriminate.
Qed.
