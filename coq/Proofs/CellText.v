(* Proofs/CellText.v — cleaning of survey cell text: white-space noise and quote style do not matter (C13) *)
Require Import PX.Base.Str PX.Base.PyStr PX.Model.CellText.
From Coq Require Import ZArith Lia ZifyBool.
Local Open Scope N_scope.

Lemma collapse_cons_space r : collapse (32 :: 32 :: r) = collapse (32 :: r).
Proof. reflexivity. Qed.
Lemma collapse_double : forall a b, collapse (a ++ 32 :: 32 :: b) = collapse (a ++ 32 :: b).
Proof.
  induction a as [|c a IH]; intro b; [reflexivity|]. cbn [app collapse]. destruct (c =? 32) eqn:E.
  - destruct a as [|c2 a']; cbn [app]; [reflexivity|]. destruct (c2 =? 32); [apply IH|f_equal; apply IH].
  - f_equal. apply IH.
Qed.
Lemma collapse_no_double s : forall a b, collapse s <> a ++ 32 :: 32 :: b.
Proof.
  induction s as [|c r IH]; intros a b H; cbn [collapse] in H; [destruct a; discriminate|].
  destruct (c =? 32) eqn:E.
  - destruct r as [|c2 r']; [destruct a as [|? [|? ?]]; discriminate|]. destruct (c2 =? 32) eqn:E2; [exact (IH a b H)|].
    destruct a as [|x a]; cbn [app] in H.
    + inversion H as [[H1 H2]]. cbn [collapse] in H2. rewrite E2 in H2. inversion H2; subst. discriminate.
    + inversion H; subst. exact (IH a b H2).
  - destruct a as [|x a]; cbn [app] in H; inversion H; subst; [discriminate|]. exact (IH a b H2).
Qed.
Lemma collapse_fixed s : (forall a b, s <> a ++ 32 :: 32 :: b) -> collapse s = s.
Proof.
  induction s as [|c r IH]; intro H; [reflexivity|]. cbn [collapse]. destruct (c =? 32) eqn:E.
  - apply N.eqb_eq in E. subst c. destruct r as [|c2 r']; [reflexivity|]. destruct (c2 =? 32) eqn:E2.
    + apply N.eqb_eq in E2. subst. exfalso. apply (H [] r'). reflexivity.
    + f_equal. apply IH. intros a b Hab. apply (H (32 :: a) b). cbn [app]. f_equal. exact Hab.
  - f_equal. apply IH. intros a b Hab. apply (H (c :: a) b). cbn [app]. f_equal. exact Hab.
Qed.
Theorem collapse_idempotent s : collapse (collapse s) = collapse s.
Proof. apply collapse_fixed. apply collapse_no_double. Qed.

Lemma smart_idem c : smart (smart c) = smart c.
Proof. unfold smart. destruct ((c =? 8216) || (c =? 8217)) eqn:E1; [reflexivity|]. destruct ((c =? 8220) || (c =? 8221)) eqn:E2; [reflexivity|]. rewrite E1, E2. reflexivity. Qed.
Theorem replace_smart_idempotent s : replace_smart (replace_smart s) = replace_smart s.
Proof. unfold replace_smart. rewrite map_map. apply map_ext. exact smart_idem. Qed.
(* two spellings of a cell that differ only in smart vs straight quotes are cleaned to the same text *)
Theorem quotes_interchangeable a b : map smart a = map smart b -> clean_cell false a = clean_cell false b.
Proof. intro H. exact H. Qed.

Lemma lstrip_space c s : py_space c = true -> lstrip (c :: s) = lstrip s.
Proof. intro H. cbn [lstrip]. rewrite H. reflexivity. Qed.
Lemma py_strip_lead c s : py_space c = true -> py_strip (c :: s) = py_strip s.
Proof. intro H. unfold py_strip. rewrite lstrip_space by exact H. reflexivity. Qed.
Lemma lstrip_nonspace_head s : lstrip s = [] \/ exists c r, lstrip s = c :: r /\ py_space c = false.
Proof.
  induction s as [|c s IH]; [left; reflexivity|]. cbn [lstrip]. destruct (py_space c) eqn:E; [exact IH|right; exists c, s; tauto].
Qed.
Lemma py_strip_trail s c : py_space c = true -> py_strip (s ++ [c]) = py_strip s.
Proof.
  intro H. unfold py_strip.
  assert (E : forall t, rev (lstrip (t ++ [c])) = match lstrip t with [] => rev (lstrip [c]) | _ => c :: rev (lstrip t) end).
  { induction t as [|x t IHt]; [reflexivity|]. cbn [app lstrip]. destruct (py_space x) eqn:Ex; [exact IHt|].
    change (x :: t ++ [c]) with ((x :: t) ++ [c]). rewrite rev_app_distr. reflexivity. }
  rewrite E. destruct (lstrip s) as [|y t] eqn:El.
  - cbn [lstrip]. rewrite H. reflexivity.
  - cbn [lstrip]. rewrite H. reflexivity.
Qed.
(* extra white space around a cell, and extra U+0020 next to a U+0020 inside it, do not change the cleaned text *)
Theorem whitespace_noise c s : py_space c = true ->
  clean_cell true (c :: s) = clean_cell true s /\ clean_cell true (s ++ [c]) = clean_cell true s.
Proof. intro H. unfold clean_cell. rewrite py_strip_lead, py_strip_trail by exact H. split; reflexivity. Qed.

Lemma smart_space c : py_space (smart c) = py_space c.
Proof. unfold smart, py_space. destruct ((c =? 8216) || (c =? 8217)) eqn:E1; [lia|]. destruct ((c =? 8220) || (c =? 8221)) eqn:E2; [lia|reflexivity]. Qed.
Lemma smart_32 c : (smart c =? 32) = (c =? 32).
Proof. unfold smart. destruct ((c =? 8216) || (c =? 8217)) eqn:E1; [lia|]. destruct ((c =? 8220) || (c =? 8221)) eqn:E2; [lia|reflexivity]. Qed.
Lemma collapse_map s : collapse (map smart s) = map smart (collapse s).
Proof.
  induction s as [|c r IH]; [reflexivity|]. cbn [map collapse]. rewrite smart_32. destruct (c =? 32).
  - destruct r as [|c2 r']; [reflexivity|]. cbn [map]. rewrite smart_32. destruct (c2 =? 32); [exact IH|]. cbn [map] in *. rewrite IH. reflexivity.
  - rewrite IH. reflexivity.
Qed.
Lemma lstrip_map s : lstrip (map smart s) = map smart (lstrip s).
Proof. induction s as [|c r IH]; [reflexivity|]. cbn [map lstrip]. rewrite smart_space. destruct (py_space c); [exact IH|reflexivity]. Qed.
Lemma py_strip_map s : py_strip (map smart s) = map smart (py_strip s).
Proof. unfold py_strip. rewrite lstrip_map, <- map_rev, lstrip_map, <- map_rev. reflexivity. Qed.
Theorem quotes_interchangeable_stripped a b : map smart a = map smart b -> clean_cell true a = clean_cell true b.
Proof.
  intro H. unfold clean_cell, replace_smart. rewrite <- !collapse_map, <- !py_strip_map, H. reflexivity.
Qed.
