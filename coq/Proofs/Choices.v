(* Proofs/Choices.v — instance registry, static instances, itemset nodeset and itemsets.csv (C09) *)
Require Import PX.Base.Str PX.Model.Dom PX.Model.Warnings PX.Model.Bind PX.Gen.Choices PX.Model.Choices PX.Spec.Csv.

(* ---- splitext ---- *)
Lemma rsplit_none c s : rsplit c s = None -> nochar c s = true.
Proof.
  induction s as [|y r IH]; [reflexivity|]. simpl.
  destruct (rsplit c r) as [[? ?]|]; [discriminate|]. destruct (ceq y c); [discriminate|]. intros _. simpl. apply IH. reflexivity.
Qed.
Lemma rsplit_spec c s a b : rsplit c s = Some (a, b) -> s = a ++ c :: b /\ nochar c b = true.
Proof.
  revert a b; induction s as [|x r IH]; intros a b H; simpl in H; [discriminate|].
  destruct (rsplit c r) as [[a' b']|] eqn:E.
  - inversion H; subst. destruct (IH a' b eq_refl) as [-> Hn]. split; [reflexivity|exact Hn].
  - destruct (ceq_spec x c); [|discriminate]. inversion H; subst. split; [reflexivity|]. apply rsplit_none. exact E.
Qed.
Theorem splitext_join p : fst (splitext p) ++ snd (splitext p) = p.
Proof.
  unfold splitext. destruct (rsplit SLASH p) as [[a b]|] eqn:E1.
  - apply rsplit_spec in E1 as [-> _].
    destruct (rsplit DOT b) as [[a' e]|] eqn:E2; [|simpl; apply app_nil_r].
    apply rsplit_spec in E2 as [-> _]. destruct (forallb (ceq DOT) a'); simpl; [apply app_nil_r|].
    rewrite <- !app_assoc. reflexivity.
  - destruct (rsplit DOT p) as [[a' e]|] eqn:E2; [|simpl; apply app_nil_r].
    apply rsplit_spec in E2 as [-> _]. destruct (forallb (ceq DOT) a'); simpl; [apply app_nil_r|reflexivity].
Qed.

(* ---- the de-duplication loop ---- *)
Lemma osrc_eqb_eq a b : osrc_eqb a b = true <-> a = b.
Proof.
  destruct a as [x|], b as [y|]; simpl; try (split; congruence).
  rewrite seqb_eq. split; congruence.
Qed.
Lemma seen_get_cons n k v seen : seen_get n ((k, v) :: seen) = if seqb k n then Some v else seen_get n seen.
Proof. reflexivity. Qed.

Lemma dedup_spec l : forall seen out, dedup seen l = Some out ->
  NoDup (map i_name out) /\
  (forall o, In o out -> seen_get (i_name o) seen = None /\ In o l) /\
  (forall i, In i l ->
     match seen_get (i_name i) seen with
     | Some s => s = i_src i
     | None => exists o, In o out /\ i_name o = i_name i /\ i_src o = i_src i
     end).
Proof.
  induction l as [|i r IH]; intros seen out H; simpl in H.
  - inversion H; subst. split; [simpl; constructor|]. split; intros ? [].
  - destruct (seen_get (i_name i) seen) as [s|] eqn:Es.
    + destruct (osrc_eqb s (i_src i)) eqn:Eo; [|discriminate]. apply osrc_eqb_eq in Eo.
      destruct (IH _ _ H) as (Hnd & Hout & Hin). split; [exact Hnd|]. split.
      * intros o Ho. destruct (Hout o Ho). split; [assumption|right; assumption].
      * intros j [<-|Hj]; [rewrite Es; exact Eo|apply Hin; exact Hj].
    + destruct (dedup ((i_name i, i_src i) :: seen) r) as [out'|] eqn:Ed; [|discriminate]. inversion H; subst out. clear H.
      destruct (IH _ _ Ed) as (Hnd & Hout & Hin). split; [|split].
      * simpl. constructor; [|exact Hnd]. intro Hi. apply in_map_iff in Hi as (o & Hn & Ho).
        destruct (Hout o Ho) as [Hg _]. rewrite seen_get_cons, <- Hn, seqb_refl in Hg. discriminate.
      * intros o [<-|Ho]; [split; [exact Es|left; reflexivity]|].
        destruct (Hout o Ho) as [Hg Hl]. rewrite seen_get_cons in Hg. destruct (seqb (i_name i) (i_name o)); [discriminate|].
        split; [exact Hg|right; exact Hl].
      * intros j [<-|Hj]; [rewrite Es; exists i; repeat split; left; reflexivity|].
        specialize (Hin j Hj). rewrite seen_get_cons in Hin. destruct (seqb_spec (i_name i) (i_name j)) as [En|En].
        -- rewrite <- En, Es. exists i. repeat split; [left; reflexivity|exact Hin].
        -- destruct (seen_get (i_name j) seen); [exact Hin|]. destruct Hin as (o & Ho & H1 & H2). exists o. repeat split; [right; exact Ho|exact H1|exact H2].
Qed.

Definition Compat (seen : list (str * option str)) (l : list info) : Prop :=
  (forall i s, In i l -> seen_get (i_name i) seen = Some s -> s = i_src i) /\
  (forall i j, In i l -> In j l -> i_name i = i_name j -> i_src i = i_src j).
Lemma dedup_ok_iff l : forall seen, dedup seen l <> None <-> Compat seen l.
Proof.
  induction l as [|i r IH]; intros seen; simpl.
  - split; [intros _; split; [intros ? ? []|intros ? ? []]|discriminate].
  - destruct (seen_get (i_name i) seen) as [s|] eqn:Es.
    + destruct (osrc_eqb s (i_src i)) eqn:Eo.
      * apply osrc_eqb_eq in Eo. rewrite IH. split; intros [H1 H2]; split.
        -- intros j t [<-|Hj] Hg; [congruence|eapply H1; eassumption].
        -- intros j k [Ej|Hj] [Ek|Hk] En; try subst j; try subst k; try reflexivity.
           ++ rewrite En in Es. rewrite <- (H1 k s Hk Es). symmetry; exact Eo.
           ++ rewrite <- En in Es. rewrite <- (H1 j s Hj Es). exact Eo.
           ++ apply H2; assumption.
        -- intros j t Hj. apply H1. right; exact Hj.
        -- intros j k Hj Hk. apply H2; right; assumption.
      * split; [congruence|]. intros [H1 _]. exfalso. specialize (H1 i s (or_introl eq_refl) Es).
        apply osrc_eqb_eq in H1. congruence.
    + assert (Hm : option_map (cons i) (dedup ((i_name i, i_src i) :: seen) r) <> None <-> dedup ((i_name i, i_src i) :: seen) r <> None).
      { destruct (dedup _ r); simpl; split; congruence. }
      rewrite Hm, IH. clear Hm. split; intros [H1 H2]; split.
      * intros j t [<-|Hj] Hg; [congruence|]. specialize (H1 j t Hj). rewrite seen_get_cons in H1.
        destruct (seqb_spec (i_name i) (i_name j)) as [En|En]; [rewrite <- En in Hg; congruence|apply H1; exact Hg].
      * intros j k [Ej|Hj] [Ek|Hk] En; try subst j; try subst k; try reflexivity.
        -- specialize (H1 k (i_src i) Hk). rewrite seen_get_cons, En, seqb_refl in H1. apply H1. reflexivity.
        -- specialize (H1 j (i_src i) Hj). rewrite seen_get_cons, <- En, seqb_refl in H1. symmetry. apply H1. reflexivity.
        -- apply H2; assumption.
      * intros j t Hj Hg. rewrite seen_get_cons in Hg. destruct (seqb_spec (i_name i) (i_name j)) as [En|En].
        -- inversion Hg; subst. apply H2; [left; reflexivity|right; exact Hj|exact En].
        -- eapply H1; [right; exact Hj|exact Hg].
      * intros j k Hj Hk. apply H2; right; assumption.
Qed.

Theorem dedup_once l out : dedup [] l = Some out ->
  NoDup (map i_name out) /\ incl out l /\
  (forall i, In i l -> exists o, In o out /\ i_name o = i_name i /\ i_src o = i_src i).
Proof.
  intro H. destruct (dedup_spec l [] out H) as (H1 & H2 & H3). split; [exact H1|]. split.
  - intros o Ho. apply H2. exact Ho.
  - intros i Hi. exact (H3 i Hi).
Qed.
Theorem dedup_rejects_iff l : dedup [] l = None <->
  exists i j, In i l /\ In j l /\ i_name i = i_name j /\ i_src i <> i_src j.
Proof.
  split.
  - intro H. destruct (dedup_ok_iff l []) as [_ Hc].
    (* decide by search over the finite list *)
    assert (D : forall a b : option str, {a = b} + {a <> b}).
    { intros a b. destruct (osrc_eqb a b) eqn:E; [left; apply osrc_eqb_eq; exact E|right; intro; subst].
      assert (osrc_eqb b b = true) by (apply osrc_eqb_eq; reflexivity). congruence. }
    assert (Dn : forall a b : str, {a = b} + {a <> b}) by (intros a b; destruct (seqb_spec a b); [left|right]; assumption).
    destruct (Exists_dec (fun i => Exists (fun j => i_name i = i_name j /\ i_src i <> i_src j) l) l) as [E|E].
    { intro i. apply Exists_dec. intro j. destruct (Dn (i_name i) (i_name j)); [|right; tauto]. destruct (D (i_src i) (i_src j)); [right; tauto|left; tauto]. }
    + apply Exists_exists in E as (i & Hi & E). apply Exists_exists in E as (j & Hj & En & Es). exists i, j. tauto.
    + exfalso. apply Hc; [|exact H]. split; [intros ? ? _; discriminate|].
      intros i j Hi Hj En. destruct (D (i_src i) (i_src j)) as [|Hne]; [assumption|]. exfalso. apply E.
      apply Exists_exists. exists i. split; [exact Hi|]. apply Exists_exists. exists j. tauto.
  - intros (i & j & Hi & Hj & En & Es). destruct (dedup [] l) eqn:E; [|reflexivity]. exfalso.
    assert (Hn : dedup [] l <> None) by congruence. apply dedup_ok_iff in Hn as [_ H2]. apply Es. apply H2; assumption.
Qed.

(* ---- static instances ---- *)
Definition read_child (n : node) : option (str * str) :=
  match n with DE tag [] [PT t] => Some (tag, t) | _ => None end.
Definition read_item (n : node) : option (list (option (str * str))) :=
  match n with DE tag [] kids => if seqb tag s_item then Some (map read_child kids) else None | _ => None end.
Definition items_of (inst : node) : list node :=
  match inst with DE _ _ [DE _ _ items] => items | _ => [] end.

Lemma item_nodes_length req ln k cs : length (item_nodes req ln k cs) = length cs.
Proof. revert k; induction cs as [|c r IH]; intro k; simpl; [reflexivity|]. rewrite IH. reflexivity. Qed.
Lemma item_nodes_nth req ln cs : forall k i c, nth_error cs i = Some c ->
  nth_error (item_nodes req ln k cs) i = Some (DE s_item [] (choice_nodes req ln (k + i) c)).
Proof.
  induction cs as [|c0 r IH]; intros k i c H; destruct i as [|i]; simpl in *; try discriminate.
  - inversion H; subst. rewrite Nat.add_0_r. reflexivity.
  - rewrite (IH (S k) i c H). rewrite Nat.add_succ_r. reflexivity.
Qed.
Lemma item_nodes_nth_inv req ln cs : forall k i n, nth_error (item_nodes req ln k cs) i = Some n ->
  exists c, nth_error cs i = Some c /\ n = DE s_item [] (choice_nodes req ln (k + i) c).
Proof.
  intros k i n H. destruct (nth_error cs i) as [c|] eqn:E.
  - exists c. split; [reflexivity|]. rewrite (item_nodes_nth req ln cs k i c E) in H. congruence.
  - apply nth_error_None in E. assert (nth_error (item_nodes req ln k cs) i = None) by (apply nth_error_None; rewrite item_nodes_length; exact E). congruence.
Qed.

(* ---- nodeset reads from its own list ---- *)
Definition s_inst_open : str := [105;110;115;116;97;110;99;101;40;39]%N.  (* instance(' *)
Definition s_rand : str := [114;97;110;100;111;109;105;122;101;40]%N.  (* randomize( *)
Definition source_of (ns : str) : option str :=
  let body := match prefix s_rand ns with Some r => r | None => ns end in
  match prefix s_inst_open body with
  | Some r => let '(id, rest) := span (fun c => negb (ceq c 39%N)) r in
              match rest with 39%N :: _ => Some id | _ => None end
  | None => None
  end.
Definition own_source (its : str) : str :=
  let '(stem, ext) := splitext its in if mem ext EXTERNAL_INSTANCE_EXTENSIONS then stem else its.

Lemma span_noquote id rest : nochar 39%N id = true ->
  span (fun c => negb (ceq c 39%N)) (id ++ 39%N :: rest) = (id, 39%N :: rest).
Proof. intro H. apply span_app; [exact H|reflexivity]. Qed.
Lemma source_of_plain id rest : nochar 39%N id = true -> source_of (s_inst_open ++ id ++ 39%N :: rest) = Some id.
Proof.
  intro H. unfold source_of. change (prefix s_rand (s_inst_open ++ id ++ 39%N :: rest)) with (@None str). cbv beta iota.
  rewrite prefix_app, span_noquote by exact H. reflexivity.
Qed.
Lemma source_of_rand id rest : nochar 39%N id = true -> source_of (s_rand ++ s_inst_open ++ id ++ 39%N :: rest) = Some id.
Proof.
  intro H. unfold source_of. rewrite prefix_app. cbv beta iota. rewrite prefix_app, span_noquote by exact H. reflexivity.
Qed.
Theorem nodeset_reads_own_list its req filter params seed :
  nochar 39%N (own_source its) = true ->
  source_of (fst (fst (itemset_xml its req filter params seed))) = Some (own_source its).
Proof.
  unfold own_source, itemset_xml. destruct (splitext its) as [stem ext].
  set (id := if mem ext EXTERNAL_INSTANCE_EXTENSIONS then stem else its). intro H.
  cbn [fst]. unfold nodeset_instance, nodeset_filter, nodeset_randomize, nodeset_seed, nodeset_seed_literal, nodeset_close.
  destruct (dget s_randomize params) as [r|]; [destruct (seqb r s_true)|];
    destruct (nonempty filter); try destruct (dget s_seed params) as [sd|]; try destruct (starts_with _ sd);
    rewrite <- ?app_assoc;
    first [ apply (source_of_rand id); exact H | apply (source_of_plain id); exact H ].
Qed.

(* ---- CSV ---- *)
Definition escq (f : str) : str := flat_map (fun c => if ceq c QUOT then [QUOT; QUOT] else [c]) f.
Lemma pc_field f : forall rest field row rows,
  pc (escq f ++ QUOT :: rest) SIn field row rows = pc rest SQuote (rev f ++ field) row rows.
Proof.
  induction f as [|c f IH]; intros rest field row rows.
  - reflexivity.
  - unfold escq in *. simpl flat_map. destruct (ceq_spec c QUOT) as [->|Hc].
    + cbn [app pc]. change (ceq QUOT 34%N) with true. cbn iota. rewrite IH. simpl rev. rewrite <- app_assoc. reflexivity.
    + cbn [app pc]. change 34%N with QUOT. destruct (ceq_spec c QUOT); [contradiction|]. rewrite IH. simpl rev. rewrite <- app_assoc. reflexivity.
Qed.
Lemma pc_wfield f rest row rows : pc (wfield f ++ rest) SField [] row rows = pc rest SQuote (rev f) row rows.
Proof.
  unfold wfield. cbn [app pc]. change (ceq QUOT 34%N) with true. cbn iota.
  change (flat_map (fun c => if ceq c QUOT then [QUOT; QUOT] else [c]) f) with (escq f).
  rewrite <- app_assoc. cbn [app]. rewrite pc_field, app_nil_r. reflexivity.
Qed.
Lemma pc_row r : r <> [] -> forall rest row rows,
  pc (wrow r ++ rest) SField [] row rows = pc rest SField [] [] ((rev row ++ r) :: rows).
Proof.
  induction r as [|f r IH]; intros Hne rest row rows; [congruence|].
  destruct r as [|g r].
  - cbn [wrow]. rewrite <- app_assoc, pc_wfield. cbn [app pc]. cbn. rewrite rev_involutive. reflexivity.
  - change (wrow (f :: g :: r)) with (wfield f ++ COMMA :: wrow (g :: r)).
    rewrite <- app_assoc, pc_wfield. cbn [app pc]. cbn [ceq N.eqb Pos.eqb COMMA]. cbn iota.
    rewrite IH by discriminate. rewrite rev_involutive. simpl rev. rewrite <- app_assoc. reflexivity.
Qed.
Lemma pc_rows t : Forall (fun r => r <> []) t -> forall rows,
  pc (write_csv t) SField [] [] rows = Some (rev rows ++ t).
Proof.
  induction t as [|r t IH]; intros Hall rows.
  - simpl. rewrite app_nil_r. reflexivity.
  - inversion Hall as [|? ? Hr Ht]; subst. unfold write_csv in *. simpl flat_map. rewrite pc_row by exact Hr.
    rewrite IH by exact Ht. simpl. rewrite <- app_assoc. reflexivity.
Qed.
Theorem parse_write_csv t : Forall (fun r => r <> []) t -> parse_csv (write_csv t) = Some t.
Proof. intro H. unfold parse_csv. rewrite pc_rows by exact H. reflexivity. Qed.

Lemma csv_table_rows_nonempty explicit rows : csv_header explicit rows <> [] ->
  Forall (fun r => r <> []) (csv_table explicit rows).
Proof.
  intro H. unfold csv_table. constructor; [exact H|]. apply Forall_forall. intros r Hr.
  apply in_map_iff in Hr as (row & <- & _). destruct (csv_header explicit rows); [congruence|discriminate].
Qed.
Theorem itemsets_csv_reads_back explicit rows : csv_header explicit rows <> [] ->
  parse_csv (itemsets_csv explicit rows) = Some (csv_table explicit rows).
Proof. intro H. apply parse_write_csv. apply csv_table_rows_nonempty. exact H. Qed.
Theorem csv_cell_under_own_header explicit rows i j row k :
  nth_error rows i = Some row -> nth_error (csv_header explicit rows) j = Some k ->
  exists line, nth_error (csv_table explicit rows) (S i) = Some line /\ nth_error line j = Some (cell_of row k) /\
               nth_error (csv_table explicit rows) 0 = Some (csv_header explicit rows).
Proof.
  intros Hi Hj. unfold csv_table. exists (map (cell_of row) (csv_header explicit rows)). cbn [nth_error].
  split; [apply (map_nth_error (fun row0 => map (cell_of row0) (csv_header explicit rows))); exact Hi|]. split; [apply map_nth_error; exact Hj|reflexivity].
Qed.
Theorem csv_line_count explicit rows : length (csv_table explicit rows) = S (length rows).
Proof. unfold csv_table. simpl. rewrite map_length. reflexivity. Qed.

(* ---- against the documented shapes (Spec/DocsChoices.v) ---- *)
Require Import PX.Spec.DocsChoices.
Lemma read_choice_nodes req ln i c : map read_child (choice_nodes req ln i c) = doc_item req ln i c.
Proof.
  unfold choice_nodes, doc_item. rewrite !map_app. apply (f_equal2 (@app _)); [|apply (f_equal2 (@app _)); [|apply (f_equal2 (@app _)); [|apply (f_equal2 (@app _))]]].
  - destruct req; reflexivity.
  - reflexivity.
  - destruct req, (c_label c); reflexivity.
  - rewrite map_map. apply map_ext. intros [k v]. reflexivity.
  - destruct (c_sms c) as [[|x r]|]; reflexivity.
Qed.
Lemma read_items req ln cs : forall k, map read_item (item_nodes req ln k cs) = map Some (doc_items req ln k cs).
Proof.
  induction cs as [|c r IH]; intro k; [reflexivity|]. cbn [item_nodes doc_items map]. rewrite IH. f_equal.
  unfold read_item. rewrite seqb_refl, read_choice_nodes. reflexivity.
Qed.
Lemma static_instance_doc list_name its :
  map read_item (items_of (static_instance list_name its)) =
    map Some (doc_items (requires_itext its) list_name 0 (options its)) /\
  length (items_of (static_instance list_name its)) = length (options its) /\
  (exists root, static_instance list_name its = DE s_instance [(s_id, list_name)] [root]).
Proof.
  unfold static_instance. cbn [items_of]. split; [apply read_items|]. split; [apply item_nodes_length|]. eexists. reflexivity.
Qed.

Lemma itemset_xml_doc its req filter params seed :
  itemset_xml its req filter params seed =
    (doc_nodeset (own_source its) filter (doc_rand params) (doc_seed params seed),
     fst (doc_refs its req params), snd (doc_refs its req params)).
Proof.
  unfold itemset_xml, own_source, doc_refs, doc_nodeset, doc_rand, doc_seed.
  destruct (splitext its) as [stem ext] eqn:Esp. cbn [snd fst].
  change d_value with s_value. change d_label with s_labelk. change d_randomize with s_randomize. change d_seed with s_seed. change d_true with s_true.
  assert (Hm : mem ext EXTERNAL_INSTANCE_EXTENSIONS = seqb ext s_dgeo || seqb ext s_dcsv || seqb ext s_dxml).
  { unfold mem, EXTERNAL_INSTANCE_EXTENSIONS. cbn [existsb]. change s_dgeo with [46;103;101;111;106;115;111;110]%N.
    change s_dcsv with [46;99;115;118]%N. change s_dxml with [46;120;109;108]%N.
    rewrite (Bool.orb_comm (seqb _ _) (seqb ext [46;99;115;118]%N)) at 1.
    destruct (seqb_spec [46;99;115;118]%N ext), (seqb_spec [46;103;101;111;106;115;111;110]%N ext), (seqb_spec [46;120;109;108]%N ext); subst; try discriminate;
      repeat match goal with |- context [seqb ?a ?b] => destruct (seqb_spec a b); try congruence end; reflexivity. }
  rewrite <- Hm. change s_dgeojson with s_dgeo.
  apply (f_equal2 pair); [apply (f_equal2 pair)|].
  - unfold nodeset_instance, nodeset_filter, nodeset_randomize, nodeset_seed, nodeset_seed_literal, nodeset_close.
    destruct (dget s_randomize params) as [r|]; [destruct (seqb r s_true)|];
      destruct filter as [|f0 fr]; cbn [nonempty]; try destruct (dget s_seed params) as [sd|];
      change s_doll with [36;123]%N; try destruct (starts_with [36;123]%N sd);
      rewrite <- ?app_assoc; cbn [app]; rewrite ?app_nil_r; reflexivity.
  - destruct (dget s_value params); [reflexivity|]. destruct (seqb ext s_dgeo); reflexivity.
  - destruct (mem ext EXTERNAL_INSTANCE_EXTENSIONS); destruct (dget s_labelk params); destruct req; destruct (seqb ext s_dgeo); reflexivity.
Qed.

Lemma external_uris_doc :
  (forall its, nonempty its = true -> mem (snd (splitext its)) doc_extensions = true ->
     file_infos its = [mkInfo TFile (fst (splitext its)) (Some (doc_uri_file its))]) /\
  (forall its, mem (snd (splitext its)) doc_extensions = false -> file_infos its = []) /\
  (forall f, pull_info f = mkInfo TPull f (Some (doc_uri_pulldata f))) /\
  (forall n ty u, doc_uri_external n ty = Some u -> ext_info n ty = mkInfo TExt n (Some u)) /\
  (forall its, fst (splitext its) ++ snd (splitext its) = its).
Proof.
  split; [|split; [|split; [|split]]].
  - intros its Hne Hm. unfold file_infos, doc_uri_file. destruct (splitext its) as [stem ext]. cbn [fst snd] in *.
    rewrite Hne. change EXTERNAL_INSTANCE_EXTENSIONS with doc_extensions. rewrite Hm. cbn [andb].
    unfold mem, doc_extensions in Hm. cbn [existsb] in Hm.
    unfold uri_from_file, uri_from_file_kind, FROM_FILE_PLAIN_EXTENSIONS. cbn [existsb].
    revert Hm.
    destruct (seqb_spec ext s_dcsv) as [->|H1]; [reflexivity|].
    destruct (seqb_spec ext s_dgeo) as [->|H2]; [reflexivity|].
    destruct (seqb_spec ext s_dxml) as [->|H3]; [reflexivity|]. discriminate.
  - intros its Hm. unfold file_infos. destruct (splitext its) as [stem ext]. cbn [snd] in Hm.
    change EXTERNAL_INSTANCE_EXTENSIONS with doc_extensions. rewrite Hm, Bool.andb_false_r. reflexivity.
  - intro f. reflexivity.
  - intros n ty u H. unfold doc_uri_external in H.
    destruct (seqb_spec ty s_xmlext) as [->|_]; [inversion H; reflexivity|].
    destruct (seqb_spec ty s_csvext) as [->|_]; [inversion H; reflexivity|discriminate].
  - exact splitext_join.
Qed.

Lemma source_constants :
  EXTERNAL_INSTANCE_EXTENSIONS = doc_extensions /\ REF_VALUE = d_name /\ REF_LABEL = d_label /\
  REF_VALUE_GEOJSON = d_id /\ REF_LABEL_GEOJSON = d_title /\ ITEXT_LABEL_REF = s_itext.
Proof. repeat split; reflexivity. Qed.

(* a concrete registry and a concrete sparse sheet meet the hypotheses *)
Definition nv_infos : list info :=
  [pull_info [102]%N; pull_info [102]%N; mkInfo TFile [99]%N (Some (doc_uri_file [99;46;120;109;108]%N)); mkInfo TChoice [108]%N None].
Definition nv_rows : list dict := [[([97]%N, [49]%N); ([98]%N, [34;44]%N)]; [([98]%N, [50]%N)]].
Definition nonvacuous_witness : Prop :=
  (exists out, dedup [] nv_infos = Some out /\ length out = 3) /\
  dedup [] (nv_infos ++ [mkInfo TChoice [99]%N None]) = None /\
  csv_header None nv_rows <> [] /\
  parse_csv (itemsets_csv None nv_rows) = Some [[[97]%N; [98]%N]; [[49]%N; [34;44]%N]; [[]; [50]%N]].
Lemma nonvacuous_proof : nonvacuous_witness.
Proof. split; [eexists; split; vm_compute; reflexivity|]. split; [vm_compute; reflexivity|]. split; [vm_compute; discriminate|vm_compute; reflexivity]. Qed.
