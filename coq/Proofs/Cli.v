(* Proofs/Cli.v — validator verdict table, CLI outcome table and no temporary residue, for every outcome. *)
Require Import PX.Base.Str PX.Model.Cleaner PX.Model.Cli PX.Spec.DocsValidate PX.Gen.Validate.
From Coq Require Import ZArith Lia.

(* ---- abstract FS lemmas ---- *)
Lemma lookup_write_same p c f : lookup p (fs_write p c f) = Some c.
Proof. simpl. rewrite seqb_refl. reflexivity. Qed.
Lemma lookup_write_other p q c f : q <> p -> lookup p (fs_write q c f) = lookup p f.
Proof. intro H. simpl. destruct (seqb_spec q p); [contradiction|reflexivity]. Qed.
Lemma lookup_unlink_same p f : lookup p (fs_unlink p f) = None.
Proof.
  induction f as [|[q c] f IH]; simpl; [reflexivity|].
  destruct (seqb_spec q p); simpl; [exact IH|]. destruct (seqb_spec q p); [contradiction|exact IH].
Qed.
Lemma lookup_unlink_other p q f : q <> p -> lookup p (fs_unlink q f) = lookup p f.
Proof.
  intro H. induction f as [|[r c] f IH]; simpl; [reflexivity|].
  destruct (seqb_spec r q); simpl.
  - subst. destruct (seqb_spec q p); [contradiction|exact IH].
  - destruct (seqb_spec r p); [reflexivity|exact IH].
Qed.

(* ---- verdicts ---- *)
Definition nonempty (s : str) : bool := match s with [] => false | _ => true end.
Theorem verdict_table (o : outcome) :
  match spec_check (java_present o) (timed_out o) (rc o) (nonempty (stderr o)) with
  | SOsError => check_xform o = Raise EOs
  | SReject => check_xform o = Raise (EOdkValidate (m_errors ++ odk_validate_clean (stderr o)))
  | SAccept w => exists ws, check_xform o = Ret ws /\ (w = true <-> ws <> [])
               /\ (rc o = 0%Z -> timed_out o = false -> ws = if nonempty (stderr o) then [m_warnings ++ stderr o] else [])
  end.
Proof.
  destruct o as [j t r e]. unfold spec_check, check_xform, check_xform_decision, nonempty. cbn [java_present timed_out rc stderr].
  destruct j; cbn [negb]; [|reflexivity].
  destruct t.
  - eexists. split; [reflexivity|]. split; [split; [discriminate|reflexivity]|]. intros _ H; discriminate.
  - destruct (Z.ltb_spec 0 r) as [Hp|Hp].
    + assert (Hg : (r >? 0)%Z = true) by (rewrite Z.gtb_ltb; apply Z.ltb_lt; lia). rewrite Hg. reflexivity.
    + assert (Hg : (r >? 0)%Z = false) by (rewrite Z.gtb_ltb; apply Z.ltb_ge; lia). rewrite Hg.
      destruct (Z.eqb_spec r 0) as [->|Hz].
      * destruct e as [|c e]; eexists; (split; [reflexivity|]); split; try (split; [discriminate|]); try (intros; reflexivity);
          try (split; intro H; [discriminate|contradiction]). intros H. congruence.
      * assert (Hl : (r <? 0)%Z = true) by (apply Z.ltb_lt; lia). rewrite Hl.
        eexists. split; [reflexivity|]. split; [split; [discriminate|reflexivity]|]. intros H; contradiction.
Qed.

Theorem args_table : forall skip odk enk, validator_args_logic skip odk enk = spec_validators (negb skip) odk enk.
Proof. intros [] [] []; reflexivity. Qed.

(* ---- no residue: the temporary file never survives, nothing else is touched ---- *)
Theorem to_xml_no_residue tmp xml validate o f : lookup tmp f = None ->
  forall p, lookup p (snd (to_xml tmp xml validate o f)) = lookup p f.
Proof.
  intros Hfresh p. unfold to_xml, print_xform_to_file. destruct validate; cbn [snd];
    (destruct (seqb_spec tmp p) as [<-|Hne];
      [rewrite lookup_unlink_same; symmetry; exact Hfresh | rewrite lookup_unlink_other by exact Hne; apply lookup_write_other; exact Hne]).
Qed.
Theorem convert_no_residue c tmp validate o f : lookup tmp f = None ->
  forall p, lookup p (snd (convert c tmp validate o f)) = lookup p f.
Proof.
  intros Hfresh p. unfold convert. destruct c as [[[xml items] ws]|e]; [|reflexivity].
  pose proof (to_xml_no_residue tmp xml validate o f Hfresh p) as H.
  destruct (to_xml tmp xml validate o f) as [[vw|e] f']; exact H.
Qed.

(* the library call: rejected / java missing / conversion error give an exception, never a result *)
Definition rejects (validate : bool) (o : outcome) : Prop :=
  validate = true /\ match spec_check (java_present o) (timed_out o) (rc o) (nonempty (stderr o)) with SAccept _ => False | _ => True end.

Lemma convert_result c tmp validate o f :
  match c with
  | Raise e => fst (convert c tmp validate o f) = Raise e
  | Ret (xml, items, ws) =>
      (validate = false -> fst (convert c tmp validate o f) = Ret (xml, items, ws ++ [])) /\
      (validate = true -> match check_xform o with
                          | Ret vw => fst (convert c tmp validate o f) = Ret (xml, items, ws ++ vw)
                          | Raise e => fst (convert c tmp validate o f) = Raise e
                          end)
  end.
Proof.
  destruct c as [[[xml items] ws]|e]; [|reflexivity].
  unfold convert, to_xml, print_xform_to_file. split; intros ->; [reflexivity|].
  destruct (check_xform o); reflexivity.
Qed.

(* ---- CLI, JSON mode ---- *)
Theorem cli_json_failure c tmp out ip skip odk enk o f : lookup tmp f = None ->
  (match c with Raise _ => True | Ret _ => rejects (effective_validate skip odk enk) o end) ->
  fst (main_cli_json c tmp out ip skip odk enk o f) = 999%N /\
  forall p, lookup p (snd (main_cli_json c tmp out ip skip odk enk o f)) = lookup p f.
Proof.
  intros Hfresh Hrej. unfold main_cli_json, xls2xform_convert.
  pose proof (convert_no_residue c tmp (effective_validate skip odk enk) o f Hfresh) as Hres.
  pose proof (convert_result c tmp (effective_validate skip odk enk) o f) as Hc.
  destruct c as [[[xml items] ws]|e].
  - destruct Hrej as [Hv Hs]. destruct Hc as [_ Hc]. specialize (Hc Hv).
    pose proof (verdict_table o) as Hvt.
    destruct (spec_check (java_present o) (timed_out o) (rc o) (nonempty (stderr o))); try contradiction;
      rewrite Hvt in Hc;
      destruct (convert (Ret (xml, items, ws)) tmp (effective_validate skip odk enk) o f) as [r f'];
      cbn [fst snd] in *; subst r; split; [reflexivity|exact Hres|reflexivity|exact Hres].
  - destruct (convert (Raise e) tmp (effective_validate skip odk enk) o f) as [r f']. cbn [fst snd] in *. subst r.
    split; [reflexivity|exact Hres].
Qed.

Theorem cli_json_success xml items ws tmp out ip skip odk enk o f vw :
  lookup tmp f = None -> out <> tmp -> ip <> out -> ip <> tmp ->
  (effective_validate skip odk enk = true -> check_xform o = Ret vw) ->
  (effective_validate skip odk enk = false -> vw = []) ->
  let r := main_cli_json (Ret (xml, items, ws)) tmp out ip skip odk enk o f in
  fst r = (match ws ++ vw with [] => 100%N | _ => 101%N end)
  /\ lookup out (snd r) = Some xml
  /\ lookup tmp (snd r) = None
  /\ (match items with Some csv => lookup ip (snd r) = Some csv | None => forall p, p <> out -> lookup p (snd r) = lookup p f end).
Proof.
  intros Hfresh Hot Hio Hit Hv1 Hv0 r. subst r. unfold main_cli_json, xls2xform_convert.
  pose proof (convert_no_residue (Ret (xml, items, ws)) tmp (effective_validate skip odk enk) o f Hfresh) as Hres.
  pose proof (convert_result (Ret (xml, items, ws)) tmp (effective_validate skip odk enk) o f) as [Hc0 Hc1].
  assert (Hfst : fst (convert (Ret (xml, items, ws)) tmp (effective_validate skip odk enk) o f) = Ret (xml, items, ws ++ vw)).
  { destruct (effective_validate skip odk enk) eqn:Ev.
    - specialize (Hc1 eq_refl). rewrite (Hv1 eq_refl) in Hc1. exact Hc1.
    - rewrite (Hv0 eq_refl). apply Hc0. reflexivity. }
  destruct (convert (Ret (xml, items, ws)) tmp (effective_validate skip odk enk) o f) as [rr f']. cbn [fst snd] in *. subst rr.
  assert (Htmp : forall g, lookup tmp (fs_write out xml g) = lookup tmp g) by (intro g; apply lookup_write_other; exact Hot).
  destruct items as [csv|].
  - destruct (ws ++ vw); cbn [fst snd]; (split; [reflexivity|]); (split; [rewrite lookup_write_other by exact Hio; apply lookup_write_same|]);
      (split; [rewrite lookup_write_other by exact Hit; rewrite Htmp, Hres; exact Hfresh|apply lookup_write_same]).
  - destruct (ws ++ vw); cbn [fst snd]; (split; [reflexivity|]); (split; [apply lookup_write_same|]);
      (split; [rewrite Htmp, Hres; exact Hfresh|]); intros p Hp; rewrite lookup_write_other by (intro E; apply Hp; symmetry; exact E); apply Hres.
Qed.

(* ---- CLI, plain mode: a validator rejection removes the output file; other failures leave everything alone ---- *)
Theorem cli_plain_reject xml items ws tmp out ip skip odk enk o f :
  lookup tmp f = None -> out <> tmp ->
  effective_validate skip odk enk = true ->
  spec_check (java_present o) (timed_out o) (rc o) (nonempty (stderr o)) = SReject ->
  let r := main_cli_plain (Ret (xml, items, ws)) tmp out ip skip odk enk o f in
  fst (fst r) = true /\ lookup out (snd r) = None /\ lookup tmp (snd r) = None
  /\ forall p, p <> out -> lookup p (snd r) = lookup p f.
Proof.
  intros Hfresh Hot Hv Hs r. subst r. unfold main_cli_plain, xls2xform_convert.
  pose proof (convert_no_residue (Ret (xml, items, ws)) tmp (effective_validate skip odk enk) o f Hfresh) as Hres.
  pose proof (convert_result (Ret (xml, items, ws)) tmp (effective_validate skip odk enk) o f) as [_ Hc1].
  specialize (Hc1 Hv). pose proof (verdict_table o) as Hvt. rewrite Hs in Hvt. rewrite Hvt in Hc1.
  destruct (convert (Ret (xml, items, ws)) tmp (effective_validate skip odk enk) o f) as [rr f']. cbn [fst snd] in *. subst rr.
  cbv beta iota. cbn [fst snd].
  split; [reflexivity|]. split; [apply lookup_unlink_same|]. split.
  - rewrite lookup_unlink_other by exact Hot. rewrite Hres. exact Hfresh.
  - intros p Hp. rewrite lookup_unlink_other by (intro E; apply Hp; symmetry; exact E). apply Hres.
Qed.
Theorem cli_plain_java_missing xml items ws tmp out ip skip odk enk o f :
  lookup tmp f = None -> effective_validate skip odk enk = true -> java_present o = false ->
  let r := main_cli_plain (Ret (xml, items, ws)) tmp out ip skip odk enk o f in
  fst (fst r) = true /\ snd (fst r) = false /\ forall p, lookup p (snd r) = lookup p f.
Proof.
  intros Hfresh Hv Hj r. subst r. unfold main_cli_plain, xls2xform_convert.
  pose proof (convert_no_residue (Ret (xml, items, ws)) tmp (effective_validate skip odk enk) o f Hfresh) as Hres.
  pose proof (convert_result (Ret (xml, items, ws)) tmp (effective_validate skip odk enk) o f) as [_ Hc1].
  specialize (Hc1 Hv). unfold check_xform in Hc1. rewrite Hj in Hc1. cbn [negb] in Hc1.
  destruct (convert (Ret (xml, items, ws)) tmp (effective_validate skip odk enk) o f) as [rr f']. cbn [fst snd] in *. subst rr.
  cbv beta iota. cbn [fst snd].
  split; [reflexivity|]. split; [reflexivity|exact Hres].
Qed.

(* ---- error cleaner: no Java stack noise survives ---- *)
Lemma contains_suffix sub : forall s k, contains sub (skipn k s) = true -> contains sub s = true.
Proof.
  induction s as [|c s IH]; intros k H.
  - destruct k; exact H.
  - destruct k as [|k]; [exact H|]. simpl skipn in H. simpl. rewrite (IH k H). apply orb_true_r.
Qed.
Lemma contains_cons sub c s : contains sub s = true -> contains sub (c :: s) = true.
Proof. intro H. simpl. rewrite H. apply orb_true_r. Qed.

Theorem java_lines_dropped msg x : In x (clean_lines msg) ->
  exists l, In l (cleanup_errors msg) /\ contains s_java_colon l = false /\ contains s_tab_at l = false /\ is_elided_frames l = false
            /\ remove_java_content l = Some x.
Proof.
  unfold clean_lines. intro H. apply in_flat_map in H as (l & Hl & Hx).
  exists l. split; [exact Hl|]. unfold remove_java_content in *.
  destruct (contains s_java_colon l) eqn:E1; [destruct Hx|]. destruct (contains s_tab_at l) eqn:E2; [destruct Hx|].
  destruct (is_elided_frames l) eqn:E3; [destruct Hx|].
  cbn [orb] in Hx. destruct Hx as [<-|[]]. repeat split; reflexivity.
Qed.
(* what counts as the tail of a stack trace: "... " + ASCII digits + " more", white space around it ignored *)
Example elided_frames_examples :
  is_elided_frames [9;46;46;46;32;49;50;32;109;111;114;101]%N = true            (* TAB ... 12 more *)
  /\ is_elided_frames [46;46;46;32;109;111;114;101]%N = false                   (* ... more *)
  /\ is_elided_frames [46;46;46;32;32;109;111;114;101]%N = false                (* ...  more *)
  /\ is_elided_frames [46;46;46;32;49;32;109;111;114;101;32]%N = true           (* ... 1 more, trailing space *)
  /\ is_elided_frames [115;101;101;32;46;46;46;32;50;32;109;111;114;101]%N = false.   (* see ... 2 more *)
Proof. vm_compute. repeat split; reflexivity. Qed.

(* ---- instance paths: every question name without a dot is ONE path segment, whatever alphabet it is written in ---- *)
Require Import PX.Model.Names.
Lemma span_snd_nil p : forall (s : str), snd (span p s) = [] -> forallb p s = true.
Proof.
  induction s as [|c r IH]; [reflexivity|]. cbn [span]. destruct (p c) eqn:E.
  - destruct (span p r) as [a b] eqn:Er. cbn [snd] in *. intro H. cbn [forallb]. rewrite E. exact (IH H).
  - cbn [snd]. discriminate.
Qed.
Theorem name_is_one_segment n : is_xml_tag n = true -> nochar 46%N n = true -> nochar COLON n = true -> n <> [] /\ forallb segc n = true.
Proof.
  unfold is_xml_tag, eat_ncname. destruct n as [|c r]; [discriminate|]. destruct (nsc c) eqn:Ec; [|discriminate].
  intros H Hd Hc. split; [discriminate|].
  assert (Hr : snd (span nch r) = []).
  { destruct (snd (span nch r)) as [|x rest] eqn:E; [reflexivity|]. exfalso.
    (* a remainder after the first name would have to start with the colon, which the name does not hold *)
    destruct (N.eqb x COLON) eqn:Ex; [|discriminate].
    apply N.eqb_eq in Ex. subst x.
    assert (Hin : In COLON r).
    { clear -E. revert E. induction r as [|y r IH]; cbn [span snd]; [discriminate|]. destruct (nch y).
      - destruct (span nch r) as [a b]. cbn [snd]. intro E. right. exact (IH E).
      - cbn [snd]. intro E. injection E as -> _. left. reflexivity. }
    unfold nochar in Hc. cbn [forallb] in Hc. apply andb_true_iff in Hc as [_ Hc]. rewrite forallb_forall in Hc.
    specialize (Hc COLON Hin). unfold ceq in Hc. rewrite N.eqb_refl in Hc. discriminate. }
  pose proof (span_snd_nil nch r Hr) as Hall.
  unfold nochar in Hd. cbn [forallb] in Hd |- *. apply andb_true_iff in Hd as [Hd1 Hd2].
  apply andb_true_iff. split.
  - unfold segc, nch. rewrite Ec. cbn [orb andb]. unfold ceq in Hd1. exact Hd1.
  - clear -Hall Hd2. induction r as [|y r IH]; [reflexivity|]. cbn [forallb] in *.
    apply andb_true_iff in Hall as [H1 H2]. apply andb_true_iff in Hd2 as [D1 D2]. apply andb_true_iff. split; [|exact (IH D2 H2)].
    unfold segc. rewrite H1. cbn [andb]. unfold ceq in D1. exact D1.
Qed.
Example segment_examples :
  (* /data/größe  and  /data/日本/名前  are tokens as a whole; a dot ends a segment *)
  sub_paths 30 [47;100;97;116;97;47;103;114;246;223;101]%N = [36;123;103;114;246;223;101;125]%N
  /\ sub_paths 30 [47;100;47;26085;26412;47;21517;21069;46]%N = [36;123;21517;21069;125;46]%N
  /\ sub_paths 30 [47;100;97;116;97;47;97;46;98]%N = [36;123;97;125;46;98]%N.
Proof. vm_compute. repeat split; reflexivity. Qed.
