(* Proofs/Convert.v — composition of the stage theorems for the structural fragment (questions, groups, repeats): from the rows of the
   survey sheet, through the begin/end parser (C04), the element tree and its primary instance with repeat templates (C02/C04), the DOM
   and the compact writer, to the document read back by the independent XML parser (C01): the parsed instance has exactly the shape
   the rows dictate. *)
Require Import PX.Base.Str PX.Model.Dom PX.Model.Warnings PX.Model.Tree PX.Proofs.Tree PX.Spec.Nest PX.Model.Rows PX.Proofs.Rows
  PX.Spec.XmlParse PX.Spec.XmlName PX.Spec.Shape PX.Proofs.RT PX.Proofs.Doc PX.Proofs.Shape.
From Coq Require Import Lia.

Fixpoint elem_of (t : rtree) : elem :=
  match t with
  | TQ n => Q n true true
  | TS KRepeat n kids => R n false (map elem_of kids)
  | TS _ n kids => G n false false (map elem_of kids)
  end.
Definition s_template : str := [106;114;58;116;101;109;112;108;97;116;101]%N.   (* jr:template *)
Definition s_instance : str := [105;110;115;116;97;110;99;101]%N.
Fixpoint dom_of (t : itree) : node :=
  match t with INode n tm kids => DE n (if tm then [(s_template, [])] else []) (map dom_of kids) end.
Fixpoint ishape (t : itree) : sh :=
  match t with INode n tm kids => Sh n (if tm then [s_template] else []) (map ishape kids) end.
Definition survey_tree (root_name : str) (ts : list rtree) : elem := G root_name false false (map elem_of ts).
Definition instance_dom (root_name : str) (ts : list rtree) : node := DE s_instance [] [dom_of (inst false (survey_tree root_name ts))].
Definition instance_doc (root_name : str) (ts : list rtree) : str := to_ugly (instance_dom root_name ts).

Definition xname (n : str) : Prop := okname xml_namestart xml_namech n.
Fixpoint inames (t : itree) : list str := match t with INode n _ kids => n :: flat_map inames kids end.
Fixpoint enames (e : elem) : list str :=
  match e with Q n _ _ => [n] | G n _ _ kids => n :: flat_map enames kids | R n _ kids => n :: flat_map enames kids end.

Lemma itree_ind2 (P : itree -> Prop) : (forall n tm kids, Forall P kids -> P (INode n tm kids)) -> forall t, P t.
Proof. intro H. fix IH 1. intros [n tm kids]. apply H. induction kids as [|k r IHr]; constructor; [apply IH|exact IHr]. Qed.

Lemma dshape_dom : forall t, dshape (dom_of t) = ishape t.
Proof.
  induction t as [n tm kids IH] using itree_ind2. cbn [dom_of dshape ishape]. f_equal; [destruct tm; reflexivity|].
  induction kids as [|k r IHr]; [reflexivity|]. inversion IH as [|? ? Hk Hr]; subst. cbn [map flat_map].
  rewrite (IHr Hr). rewrite <- Hk. destruct k as [kn ktm kk]. reflexivity.
Qed.
Lemma template_ok : xname s_template.
Proof. split; reflexivity. Qed.
Lemma wfl_map kids : Forall (fun t => Forall xname (inames t) -> wf xml_namestart xml_namech (dom_of t)) kids ->
  Forall xname (flat_map inames kids) -> wfl xml_namestart xml_namech (map dom_of kids).
Proof.
  induction kids as [|k r IHr]; intros IH Hn; [exact I|]. inversion IH as [|? ? Hk Hr]; subst. cbn [flat_map] in Hn. apply Forall_app in Hn as [H1 H2].
  cbn [map wfl]. split; [apply Hk; exact H1|apply IHr; assumption].
Qed.
Lemma wf_dom_of : forall t, Forall xname (inames t) -> wf xml_namestart xml_namech (dom_of t).
Proof.
  induction t as [n tm kids IH] using itree_ind2. intro Hn. cbn [inames] in Hn. inversion Hn as [|? ? Hname Hrest]; subst.
  cbn [dom_of]. apply wf_DE. split; [exact Hname|]. split; [destruct tm; [constructor; [exact template_ok|constructor]|constructor]|].
  apply wfl_map; assumption.
Qed.
(* the instance mentions no name that is not an element's *)
Lemma inames_inst : forall e, (forall a, incl (inames (inst a e)) (enames e)) /\ incl (inames (tmpl e)) (enames e).
Proof.
  induction e as [n b c|n b bl kids IHk|n b kids IHk] using elem_ind2.
  - split; [intro a|]; cbn; intros x [<-|[]]; left; reflexivity.
  - assert (Hk : forall (step : elem -> list itree), (forall k, In k kids -> forall t, In t (step k) -> incl (inames t) (enames k)) ->
               incl (flat_map inames (flat_map step kids)) (flat_map enames kids)).
    { intros step Hs x Hx. apply in_flat_map in Hx as (t & Ht & Hx). apply in_flat_map in Ht as (k & Hkin & Ht). apply in_flat_map. exists k. split; [exact Hkin|]. exact (Hs k Hkin t Ht x Hx). }
    rewrite Forall_forall in IHk.
    split; [intro a|]; cbn [inst tmpl inames enames]; (intros x [<-|Hx]; [left; reflexivity|right]); revert x Hx; apply Hk; intros k Hkin t Ht;
      destruct (IHk k Hkin) as [Hi Htm]; destruct k; try destruct a; cbn [In] in Ht;
      repeat (destruct Ht as [<-|Ht]; [first [apply Hi|exact Htm]|]); destruct Ht.
  - assert (Hk : forall (step : elem -> list itree), (forall k, In k kids -> forall t, In t (step k) -> incl (inames t) (enames k)) ->
               incl (flat_map inames (flat_map step kids)) (flat_map enames kids)).
    { intros step Hs x Hx. apply in_flat_map in Hx as (t & Ht & Hx). apply in_flat_map in Ht as (k & Hkin & Ht). apply in_flat_map. exists k. split; [exact Hkin|]. exact (Hs k Hkin t Ht x Hx). }
    rewrite Forall_forall in IHk.
    split; [intro a|]; cbn [inst tmpl inames enames]; (intros x [<-|Hx]; [left; reflexivity|right]); revert x Hx; apply Hk; intros k Hkin t Ht;
      destruct (IHk k Hkin) as [Hi Htm]; destruct k; try destruct a; cbn [In] in Ht;
      repeat (destruct Ht as [<-|Ht]; [first [apply Hi|exact Htm]|]); destruct Ht.
Qed.

Theorem rows_to_parsed_instance rows ts root_name :
  Nest rows ts -> Forall xname (enames (survey_tree root_name ts)) ->
  parse_rows rows = POk ts /\
  exists x, parse (instance_doc root_name ts) = Some x /\
            xshape x = Sh s_instance [] [ishape (inst false (survey_tree root_name ts))].
Proof.
  intros HN Hnames. split; [apply parse_complete; exact HN|].
  assert (Hwf : wf_dom (instance_dom root_name ts)).
  { split; [|reflexivity]. unfold instance_dom. apply wf_DE. split; [split; reflexivity|]. split; [constructor|]. cbn [wfl]. split; [|exact I].
    apply wf_dom_of. apply Forall_forall. intros x Hx. rewrite Forall_forall in Hnames. apply Hnames. apply (proj1 (inames_inst _) false). exact Hx. }
  exists (canon_el [] [] [] (instance_dom root_name ts)). split; [apply parse_ugly; exact Hwf|].
  rewrite shape_canon by reflexivity. unfold instance_dom. cbn [dshape map flat_map app]. rewrite dshape_dom.
  destruct (inst false (survey_tree root_name ts)) as [n tm kids] eqn:E. cbn [dom_of]. reflexivity.
Qed.

(* ... and its live nodes (everything but the jr:template copies), in document order, are the root followed by exactly the named rows
   of the sheet in sheet order *)
Definition row_names (rows : list row) : list str :=
  flat_map (fun r => match r with RowQ n => [n] | RowBegin _ n => [n] | _ => [] end) rows.
Lemma row_names_app a b : row_names (a ++ b) = row_names a ++ row_names b.
Proof. unfold row_names. apply flat_map_app. Qed.
Lemma rtree_ind2 (P : rtree -> Prop) : (forall n, P (TQ n)) -> (forall k n kids, Forall P kids -> P (TS k n kids)) -> forall t, P t.
Proof. intros HQ HS. fix IH 1. intros [n|k n kids]; [apply HQ|]. apply HS. induction kids as [|x r IHr]; constructor; [apply IH|exact IHr]. Qed.
Lemma enames_rows : forall t, enames (elem_of t) = row_names (flatten t).
Proof.
  induction t as [n|k n kids IH] using rtree_ind2; [reflexivity|].
  assert (E : flat_map enames (map elem_of kids) = row_names (flat_map flatten kids)).
  { induction kids as [|x r IHr]; [reflexivity|]. inversion IH as [|? ? Hx Hr]; subst. cbn [map flat_map]. rewrite row_names_app, Hx, (IHr Hr). reflexivity. }
  cbn [flatten]. change (RowBegin k n :: flat_map flatten kids ++ [RowEnd k]) with ([RowBegin k n] ++ flat_map flatten kids ++ [RowEnd k]).
  rewrite !row_names_app. cbn [row_names flat_map app]. rewrite app_nil_r. destruct k; cbn [elem_of enames]; rewrite E; reflexivity.
Qed.
Lemma last_paths_kids (kids : list elem) q :
  Forall (fun e => forall pre, map (fun p => last p []) (all_paths pre e) = enames e) kids ->
  map (fun p => last p []) (flat_map (all_paths q) kids) = flat_map enames kids.
Proof.
  induction kids as [|k r IHr]; intro H; [reflexivity|]. inversion H as [|? ? Hk Hr]; subst. cbv beta in Hk. cbn [flat_map]. rewrite map_app. apply (f_equal2 (@app _)); [apply Hk|apply IHr; exact Hr].
Qed.
Lemma last_paths : forall e pre, map (fun p => last p []) (all_paths pre e) = enames e.
Proof.
  induction e as [n b c|n b bl kids IHk|n b kids IHk] using elem_ind2; intro pre; cbn [all_paths enames map].
  - rewrite last_last. reflexivity.
  - rewrite last_last. f_equal. apply last_paths_kids. exact IHk.
  - rewrite last_last. f_equal. apply last_paths_kids. exact IHk.
Qed.
Lemma row_names_cons r rows : row_names (r :: rows) = match r with RowQ n => [n] | RowBegin _ n => [n] | _ => [] end ++ row_names rows.
Proof. reflexivity. Qed.
Lemma row_names_strip rows : row_names (strip rows) = row_names rows.
Proof.
  induction rows as [|r rows IH]; [reflexivity|]. rewrite row_names_cons. unfold strip in *. cbn [filter].
  destruct r; rewrite ?row_names_cons, IH; reflexivity.
Qed.
Theorem live_instance_is_the_sheet rows ts root_name : Nest rows ts ->
  map (fun p => last p []) (ipaths_live [] (inst false (survey_tree root_name ts))) = root_name :: row_names rows.
Proof.
  intro HN. rewrite inst_live, last_paths. unfold survey_tree. cbn [enames]. f_equal.
  rewrite <- row_names_strip, <- (nest_flatten rows ts HN).
  induction ts as [|t r IH]; [reflexivity|]. cbn [map flat_map]. rewrite row_names_app, enames_rows. f_equal.
  (* the tail is independent of the head's nesting *)
  clear -r. induction r as [|x r IHr]; [reflexivity|]. cbn [map flat_map]. rewrite row_names_app, enames_rows, IHr. reflexivity.
Qed.

