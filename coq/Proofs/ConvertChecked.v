(* Proofs/ConvertChecked.v — the composition theorem of Proofs/Convert.v under the hypothesis the code itself establishes: every question and
   section name has passed is_xml_tag (workbook_to_json checks it row by row, DetachableElement checks it again when the node is made). *)
Require Import PX.Base.Str PX.Model.Dom PX.Model.Names PX.Model.Tree PX.Spec.Nest PX.Model.Rows PX.Spec.XmlParse PX.Spec.XmlName PX.Spec.Shape
  PX.Proofs.RT PX.Proofs.Doc PX.Proofs.Convert PX.Proofs.DomCheck.
Theorem rows_to_parsed_instance_checked rows ts root_name :
  Nest rows ts -> Forall (fun n => is_xml_tag n = true) (enames (survey_tree root_name ts)) ->
  parse_rows rows = POk ts /\
  exists x, parse (instance_doc root_name ts) = Some x /\
            xshape x = Sh s_instance [] [ishape (inst false (survey_tree root_name ts))].
Proof.
  intros HN Hnames. apply rows_to_parsed_instance; [exact HN|].
  eapply Forall_impl; [|exact Hnames]. intros n Hn. apply checked_name_okname. exact Hn.
Qed.
