(* Proofs/CsvBook.v — reading the rows of a written CSV workbook gives back its sheets: names, header rows and cell-for-cell data *)
Require Import PX.Base.Str PX.Base.PyStr PX.Model.Warnings PX.Gen.Warn PX.Spec.Csv PX.Model.Choices PX.Proofs.Choices PX.Model.Backends PX.Gen.Backends PX.Model.CsvBook.
From Coq Require Import Lia.
Local Open Scope N_scope.

(* ---- association lists ---- *)
Definition keys (b : book) : list str := map fst b.
Lemma bget_mid pre k v post : ~ In k (keys pre) -> bget k (pre ++ (k, v) :: post) = Some v.
Proof.
  induction pre as [|[k' v'] r IH]; intro H; cbn [app bget].
  - rewrite seqb_refl. reflexivity.
  - cbn [keys map fst] in H. destruct (seqb_spec k k') as [E|E]; [exfalso; apply H; left; symmetry; exact E|]. apply IH. intro Hin. apply H. right. exact Hin.
Qed.
Lemma bput_mid pre k v0 v post : ~ In k (keys pre) -> bput k v (pre ++ (k, v0) :: post) = pre ++ (k, v) :: post.
Proof.
  induction pre as [|[k' v'] r IH]; intro H; cbn [app bput].
  - rewrite seqb_refl. reflexivity.
  - cbn [keys map fst] in H. destruct (seqb_spec k k') as [E|E]; [exfalso; apply H; left; symmetry; exact E|]. f_equal. apply IH. intro Hin. apply H. right. exact Hin.
Qed.
Lemma bput_new b k v : ~ In k (keys b) -> bput k v b = b ++ [(k, v)].
Proof.
  induction b as [|[k' v'] r IH]; intro H; cbn [app bput]; [reflexivity|].
  cbn [keys map fst] in H. destruct (seqb_spec k k') as [E|E]; [exfalso; apply H; left; symmetry; exact E|]. f_equal. apply IH. intro Hin. apply H. right. exact Hin.
Qed.
Lemma bmem_new b k : ~ In k (keys b) -> bmem k b = false.
Proof.
  unfold bmem. induction b as [|[k' v'] r IH]; intro H; cbn [bget]; [reflexivity|].
  cbn [keys map fst] in H. destruct (seqb_spec k k') as [E|E]; [exfalso; apply H; left; symmetry; exact E|]. apply IH. intro Hin. apply H. right. exact Hin.
Qed.

(* ---- a written workbook ---- *)
Record sheetdef := { sname : str; shead : list str; sgrid : list (list str) }.
Definition stripped (c : str) : Prop := py_strip c = c.
Definition sheet_ok (d : sheetdef) : Prop :=
  nonempty (sname d) = true /\ mem (sname d) SUPPORTED_SHEET_NAMES = true /\ lower_ascii (sname d) = sname d /\ stripped (sname d) /\
  shead d <> [] /\ Forall (fun h => nonempty h = true /\ stripped h /\ collapse_spaces h = h) (shead d) /\ NoDup (shead d) /\
  Forall (fun cs => cs <> [] /\ Forall stripped cs) (sgrid d).
Definition sheet_rows (d : sheetdef) : list (list str) := [sname d] :: ([] :: shead d) :: map (fun cs => [] :: cs) (sgrid d).
Definition has_content (cs : list str) : bool := existsb nonempty cs.
(* a blank row of the grid is kept as an empty row (so that row numbers are those of the table); below the last row blank rows are dropped *)
Definition row_of (hs cs : list str) : dictrow := if has_content cs then zip_filled (map Some hs) cs else [].
Definition raw_rows (d : sheetdef) : list dictrow := map (row_of (shead d)) (sgrid d).
Definition data_rows (d : sheetdef) : list dictrow := trim_rows (raw_rows d).
Definition entries (d : sheetdef) : book := [(sname d, VRows (raw_rows d)); (header_key (sname d), VHeader (shead d))].
Definition final_entries (d : sheetdef) : book := [(sname d, VRows (data_rows d)); (header_key (sname d), VHeader (shead d))].
Definition all_keys (W : list sheetdef) : list str := k_sheet_names :: flat_map (fun d => [sname d; header_key (sname d)]) W.

Lemma map_strip_id cs : Forall stripped cs -> map py_strip cs = cs.
Proof. induction 1 as [|c r Hc _ IH]; [reflexivity|]. cbn [map]. rewrite Hc, IH. reflexivity. Qed.
Lemma first_col_data cs : cs <> [] -> Forall stripped cs -> first_col ([] :: cs) = (None, if has_content cs then Some cs else None).
Proof. intros Hne H. destruct cs as [|c r]; [congruence|]. unfold first_col. rewrite (map_strip_id _ H). reflexivity. Qed.
Lemma dedup_nodup : forall l seen, NoDup l -> (forall x, In x l -> ~ In x seen) -> dedup seen l = l.
Proof.
  induction l as [|x r IH]; intros seen Hnd Hs; [reflexivity|]. cbn [dedup]. inversion Hnd as [|? ? Hx Hr]; subst.
  assert (E : existsb (seqb x) seen = false).
  { destruct (existsb (seqb x) seen) eqn:Ex; [|reflexivity]. apply existsb_exists in Ex as [y [Hy Exy]]. apply seqb_eq in Exy. subst y. exfalso. exact (Hs x (or_introl eq_refl) Hy). }
  rewrite E. f_equal. apply IH; [exact Hr|]. intros y Hy [<-|Hin]; [exact (Hx Hy)|]. exact (Hs y (or_intror Hy) Hin).
Qed.

(* a header row of distinct, clean, non-empty names passes get_excel_column_headers unchanged *)
Lemma hdr_loop_good max : forall hs acc,
  Forall (fun h => nonempty h = true /\ clean_header py_strip h = h) hs -> NoDup hs -> (forall h, In h hs -> ~ In (Some h) acc) ->
  hdr_loop py_strip max (map opt_cell hs) acc 0 = Ok (acc ++ map Some hs, 0%nat).
Proof.
  induction hs as [|h hs IH]; intros acc Hf Hnd Hacc; cbn [map hdr_loop]; [rewrite app_nil_r; reflexivity|].
  inversion Hf as [|? ? [Hne Hcl] Hrest]; subst. inversion Hnd as [|? ? Hx Hr]; subst.
  unfold opt_cell at 1. rewrite Hne.
  assert (E : existsb (fun x => match x with Some y => seqb y h | None => false end) acc = false).
  { destruct (existsb _ acc) eqn:Ex; [|reflexivity]. apply existsb_exists in Ex as [[y|] [Hy Ey]]; [|discriminate].
    apply seqb_eq in Ey. subst y. exfalso. exact (Hacc h (or_introl eq_refl) Hy). }
  rewrite E, Hcl. rewrite (IH (acc ++ [Some h]) Hrest Hr).
  - rewrite <- app_assoc. reflexivity.
  - intros h' Hh' Hin. apply in_app_or in Hin as [Hin|[Hin|[]]]; [exact (Hacc h' (or_intror Hh') Hin)|]. injection Hin as ->. exact (Hx Hh').
Qed.
Lemma headers_good max hs : Forall (fun h => nonempty h = true /\ clean_header py_strip h = h) hs -> NoDup hs ->
  get_excel_column_headers py_strip max (map opt_cell hs) = Ok (map Some hs).
Proof. intros Hf Hnd. unfold get_excel_column_headers. rewrite (hdr_loop_good max hs [] Hf Hnd) by (intros ? _ []). reflexivity. Qed.
Lemma somes_map_Some l : somes (map Some l) = l.
Proof. induction l as [|x r IH]; [reflexivity|]. cbn. f_equal. exact IH. Qed.

Definition init : st := init_st.
(* the state after the sheets W1: names noted, every sheet's two entries in place *)
Definition Inv (W1 : list sheetdef) (s : st) : Prop :=
  bk s = (k_sheet_names, VNames (map sname W1)) :: flat_map entries W1 /\ err s = None.

Lemma keys_entries W : keys (flat_map entries W) = flat_map (fun d => [sname d; header_key (sname d)]) W.
Proof. induction W as [|d r IH]; [reflexivity|]. cbn [flat_map entries app keys map fst]. f_equal. f_equal. exact IH. Qed.

Lemma fold_data oo : forall grid s n hs pre rows post, Forall (fun cs => cs <> [] /\ Forall stripped cs) grid ->
  sheet s = Some n -> headers s = Some (map Some hs) -> err s = None -> mem n SUPPORTED_SHEET_NAMES = true ->
  bk s = pre ++ (n, VRows rows) :: post -> ~ In n (keys pre) ->
  let s' := fold_left (step lower_ascii oo) (map (fun cs => [] :: cs) grid) s in
  bk s' = pre ++ (n, VRows (rows ++ map (row_of hs) grid)) :: post /\ sheet s' = Some n /\ headers s' = Some (map Some hs) /\ err s' = None.
Proof.
  induction grid as [|cs grid IH]; intros s n hs pre rows post Hg Hn Hh He Hsup Hb Hk; cbn [map fold_left].
  - rewrite app_nil_r. repeat split; assumption.
  - inversion Hg as [|? ? Hcs Hrest]; subst.
    assert (Est : step lower_ascii oo s ([] :: cs) =
                  {| bk := pre ++ (n, VRows (rows ++ [row_of hs cs])) :: post; sheet := Some n; headers := Some (map Some hs); err := None |}).
    { destruct Hcs as [Hcne Hcs]. unfold step, row_of. rewrite He. rewrite (first_col_data cs Hcne Hcs). destruct (has_content cs).
      - rewrite Hn, Hsup, Hh, Hb, (bget_mid pre n _ post Hk), (bput_mid pre n _ _ post Hk). reflexivity.
      - destruct cs as [|c r]; [congruence|]. rewrite Hn, Hh, Hsup, Hb, (bget_mid pre n _ post Hk), (bput_mid pre n _ _ post Hk). reflexivity. }
    rewrite Est.
    specialize (IH {| bk := pre ++ (n, VRows (rows ++ [row_of hs cs])) :: post; sheet := Some n; headers := Some (map Some hs); err := None |}
                   n hs pre (rows ++ [row_of hs cs]) post Hrest eq_refl eq_refl eq_refl Hsup eq_refl Hk).
    cbn zeta in IH. rewrite <- app_assoc in IH. exact IH.
Qed.

Lemma process_sheet oo W1 d s : NoDup (all_keys (W1 ++ [d])) -> sheet_ok d -> Inv W1 s ->
  Inv (W1 ++ [d]) (fold_left (step lower_ascii oo) (sheet_rows d) s).
Proof.
  intros Hnd [Hne [Hsup [Hlow [Hstr [Hhne [Hhs [Hhnd Hg]]]]]]] [HI He]. unfold Inv in *. unfold sheet_rows. cbn [fold_left].
  (* keys of the book so far *)
  assert (Hkeys : keys (bk s) = all_keys W1) by (rewrite HI; unfold all_keys; cbn [keys map fst]; rewrite <- keys_entries; reflexivity).
  assert (Hfresh : ~ In (sname d) (all_keys W1) /\ ~ In (header_key (sname d)) (all_keys W1 ++ [sname d])).
  { unfold all_keys in Hnd. rewrite flat_map_app in Hnd. cbn [flat_map app] in Hnd.
    change (k_sheet_names :: flat_map (fun d0 => [sname d0; header_key (sname d0)]) W1 ++ [sname d; header_key (sname d)])
      with ((k_sheet_names :: flat_map (fun d0 => [sname d0; header_key (sname d0)]) W1) ++ [sname d; header_key (sname d)]) in Hnd.
    fold (all_keys W1) in Hnd. split.
    - intro Hin. apply NoDup_remove_2 in Hnd. apply Hnd. apply in_or_app. left. exact Hin.
    - change (all_keys W1 ++ [sname d; header_key (sname d)]) with (all_keys W1 ++ [sname d] ++ [header_key (sname d)]) in Hnd. rewrite app_assoc in Hnd.
      apply NoDup_remove_2 in Hnd. rewrite app_nil_r in Hnd. exact Hnd. }
  destruct Hfresh as [Hf1 Hf2].
  (* the sheet-name row *)
  assert (E1 : step lower_ascii oo s [sname d] =
     {| bk := ((k_sheet_names, VNames (map sname W1 ++ [sname d])) :: flat_map entries W1) ++ [(sname d, VRows [])]; sheet := Some (sname d); headers := None; err := None |}).
  { unfold step. rewrite He. cbn [first_col]. rewrite Hstr. rewrite Hne. rewrite (bmem_new (bk s) (sname d)) by (rewrite Hkeys; exact Hf1). cbn [andb negb].
    rewrite HI. cbn [bget]. rewrite seqb_refl. cbn [bput]. rewrite seqb_refl. rewrite Hlow, Hsup. cbn [negb andb].
    rewrite Hsup.
    rewrite bput_new; [reflexivity|]. cbn [keys map fst]. rewrite keys_entries. exact Hf1. }
  rewrite E1.
  (* the header row *)
  set (b1 := ((k_sheet_names, VNames (map sname W1 ++ [sname d])) :: flat_map entries W1) ++ [(sname d, VRows [])]).
  assert (E2 : step lower_ascii oo {| bk := b1; sheet := Some (sname d); headers := None; err := None |} ([] :: shead d) =
     {| bk := b1 ++ [(header_key (sname d), VHeader (shead d))]; sheet := Some (sname d); headers := Some (map Some (shead d)); err := None |}).
  { unfold step. cbn [err]. assert (Hst : Forall stripped (shead d)) by (eapply Forall_impl; [|exact Hhs]; intros h [_ [Hh _]]; exact Hh).
    rewrite (first_col_data _ Hhne Hst).
    assert (Hc : has_content (shead d) = true).
    { destruct (shead d) as [|h r]; [congruence|]. inversion Hhs as [|? ? [Hh _] _]; subst. unfold has_content. cbn [existsb]. rewrite Hh. reflexivity. }
    rewrite Hc. cbn [sheet headers bk]. rewrite Hsup.
    rewrite headers_good; [|eapply Forall_impl; [|exact Hhs]; intros h [H1 [H2 H3]]; split; [exact H1|unfold clean_header; rewrite H2; exact H3]|exact Hhnd].
    rewrite somes_map_Some. rewrite (dedup_nodup _ [] Hhnd) by (intros x _ []).
    rewrite bput_new; [reflexivity|]. unfold b1. unfold keys. rewrite map_app. cbn [map fst]. fold (keys (flat_map entries W1)). rewrite keys_entries.
    change (k_sheet_names :: flat_map (fun d0 => [sname d0; header_key (sname d0)]) W1) with (all_keys W1). exact Hf2. }
  cbn [fold_left]. rewrite E2.
  (* the data rows *)
  destruct (fold_data oo (sgrid d) {| bk := b1 ++ [(header_key (sname d), VHeader (shead d))]; sheet := Some (sname d); headers := Some (map Some (shead d)); err := None |}
             (sname d) (shead d) ((k_sheet_names, VNames (map sname W1 ++ [sname d])) :: flat_map entries W1) [] [(header_key (sname d), VHeader (shead d))]
             Hg eq_refl eq_refl eq_refl Hsup) as [Hb [_ [_ He']]].
  - unfold b1. rewrite <- app_assoc. reflexivity.
  - cbn [keys map fst]. rewrite keys_entries. exact Hf1.
  - cbn zeta in Hb, He'. split; [|exact He']. rewrite Hb. rewrite map_app, flat_map_app. cbn [map flat_map entries app]. unfold raw_rows. reflexivity.
Qed.
Theorem csv_rows_round_trip oo : forall W2 W1 s, NoDup (all_keys (W1 ++ W2)) -> Forall sheet_ok W2 -> Inv W1 s ->
  Inv (W1 ++ W2) (fold_left (step lower_ascii oo) (flat_map sheet_rows W2) s).
Proof.
  induction W2 as [|d W2 IH]; intros W1 s Hnd Hok HI.
  - rewrite app_nil_r. exact HI.
  - cbn [flat_map]. rewrite fold_left_app. inversion Hok as [|? ? Hd Hrest]; subst.
    replace (W1 ++ d :: W2) with ((W1 ++ [d]) ++ W2) in * by (rewrite <- app_assoc; reflexivity).
    apply IH; [exact Hnd|exact Hrest|]. apply process_sheet; [|exact Hd|exact HI].
    unfold all_keys in *. rewrite flat_map_app in Hnd. rewrite app_comm_cons in Hnd.
    clear -Hnd. revert Hnd. generalize (k_sheet_names :: flat_map (fun d0 => [sname d0; header_key (sname d0)]) (W1 ++ [d])). intros l H.
    induction l as [|x l IHl]; [constructor|]. cbn [app] in H. inversion H as [|? ? Hx Hr]; subst. constructor; [intro Hin; apply Hx; apply in_or_app; left; exact Hin|apply IHl; exact Hr].
Qed.
Lemma trim_entries W : map (fun e => (fst e, trim_val (snd e))) (flat_map entries W) = flat_map final_entries W.
Proof. induction W as [|d W IH]; [reflexivity|]. cbn [flat_map entries final_entries app map fst snd trim_val]. rewrite IH. reflexivity. Qed.
Theorem csv_book_round_trip W : NoDup (all_keys W) -> Forall sheet_ok W ->
  csv_book lower_ascii (flat_map sheet_rows W) = Ok ((k_sheet_names, VNames (map sname W)) :: flat_map final_entries W).
Proof.
  intros Hnd Hok. unfold csv_book.
  destruct (csv_rows_round_trip (only_one_sheet (flat_map sheet_rows W)) W [] init_st Hnd Hok) as [Hb He]; [split; reflexivity|].
  cbn [app] in Hb. rewrite He, Hb.
  cbn [map fst snd trim_val]. rewrite trim_entries. reflexivity.
Qed.
(* what the trimming does: nothing to a sheet that does not end in a blank row; blank rows inside the data stay where they are *)
Lemma trim_rows_snoc l r : r <> [] -> trim_rows (l ++ [r]) = l ++ [r].
Proof. intro H. unfold trim_rows. rewrite rev_app_distr. cbn [rev app drop_blank_front]. destruct r; [congruence|]. cbn [rev]. rewrite rev_involutive. reflexivity. Qed.
Lemma trim_rows_blank l : trim_rows (l ++ [[]]) = trim_rows l.
Proof. unfold trim_rows. rewrite rev_app_distr. reflexivity. Qed.

(* ---- through the text: the rows are written by a QUOTE_ALL writer and read by the RFC 4180 reader (Spec/Csv.v) ---- *)
Lemma sheet_rows_nonempty W : Forall (fun r => r <> []) (flat_map sheet_rows W).
Proof.
  induction W as [|d W IH]; [constructor|]. cbn [flat_map]. apply Forall_app. split; [|exact IH].
  unfold sheet_rows. constructor; [discriminate|]. constructor; [discriminate|]. apply Forall_map. apply Forall_forall. intros cs _. discriminate.
Qed.
Theorem csv_text_round_trip W : NoDup (all_keys W) -> Forall sheet_ok W ->
  option_map (csv_book lower_ascii) (parse_csv (write_csv (flat_map sheet_rows W))) = Some (Ok ((k_sheet_names, VNames (map sname W)) :: flat_map final_entries W)).
Proof.
  intros Hnd Hok. rewrite (parse_write_csv _ (sheet_rows_nonempty W)). cbn [option_map]. f_equal. apply csv_book_round_trip; assumption.
Qed.
(* the hypotheses are satisfiable *)
Definition ex_csv_workbook : list sheetdef :=
  [{| sname := [115;117;114;118;101;121]; shead := [[116;121;112;101]; [110;97;109;101]; [108;97;98;101;108]];
      sgrid := [[[116;101;120;116]; [113;49]; [72;105;32;116;104;101;114;101]]; [[110;111;116;101]; [110]; []]; [[]; []; []]] |};
   {| sname := [99;104;111;105;99;101;115]; shead := [[108;105;115;116;95;110;97;109;101]; [110;97;109;101]]; sgrid := [[[121;110]; [121;101;115]]] |}].
Lemma ex_csv_workbook_ok : NoDup (all_keys ex_csv_workbook) /\ Forall sheet_ok ex_csv_workbook.
Proof.
  split.
  - unfold all_keys, ex_csv_workbook. cbn [flat_map sname header_key app]. repeat constructor; cbn; intuition discriminate.
  - repeat constructor; try discriminate; try reflexivity; cbn; intuition discriminate.
Qed.

(* ---- errors of the content, and the workbook of one sheet ---- *)
(* once a header row has been refused nothing that follows changes the outcome *)
Lemma step_err_sticky lower oo s row m : err s = Some m -> step lower oo s row = s.
Proof. intro H. unfold step. rewrite H. reflexivity. Qed.
Lemma fold_err_sticky lower oo rows : forall s m, err s = Some m -> fold_left (step lower oo) rows s = s.
Proof. induction rows as [|r rows IH]; intros s m H; [reflexivity|]. cbn [fold_left]. rewrite (step_err_sticky lower oo s r m H). exact (IH s m H). Qed.
Theorem csv_refused_header_refuses_workbook lower pre post m :
  err (fold_left (step lower (only_one_sheet (pre ++ post))) pre init_st) = Some m -> csv_book lower (pre ++ post) = PyxErr m.
Proof.
  intro H. unfold csv_book. rewrite fold_left_app. rewrite (fold_err_sticky lower _ post _ m H). rewrite H. reflexivity.
Qed.
(* the header row of a supported sheet: what get_excel_column_headers refuses (a repeated header) is refused here *)
Theorem csv_header_row_refused lower oo s sn cs m : err s = None -> sheet s = Some sn -> headers s = None -> mem sn SUPPORTED_SHEET_NAMES = true ->
  cs <> [] -> Forall stripped cs -> has_content cs = true ->
  get_excel_column_headers py_strip (N.to_nat MAX_ADJACENT_EMPTY_COLUMNS) (map opt_cell cs) = PyxErr m ->
  err (step lower oo s ([] :: cs)) = Some m.
Proof.
  intros He Hs Hh Hsup Hne Hst Hc Hg. unfold step. rewrite He, (first_col_data cs Hne Hst), Hc, Hs, Hsup, Hh, Hg. reflexivity.
Qed.
(* the name row of the only sheet of a workbook: whatever the name, the rows that follow are the survey's; the name is still noted *)
Theorem csv_only_sheet_is_survey lower s n : err s = None -> nonempty (py_strip n) = true -> bmem (py_strip n) (bk s) = false ->
  mem (lower (py_strip n)) SUPPORTED_SHEET_NAMES = false ->
  let s' := step lower true s [n] in
  sheet s' = Some s_survey /\ headers s' = None /\ err s' = None /\ bget s_survey (bk s') = Some (VRows []).
Proof.
  intros He Hn Hb Hsup. unfold step. rewrite He. cbn [first_col]. rewrite Hn, Hb, Hsup. cbn [negb andb].
  change (mem s_survey SUPPORTED_SHEET_NAMES) with true. cbn iota. cbn [sheet headers err bk]. repeat split.
  generalize (bput k_sheet_names (VNames (match bget k_sheet_names (bk s) with Some (VNames l) => l | _ => [] end ++ [py_strip n])) (bk s)).
  intro b. induction b as [|[k v] r IH]; cbn [bput bget]; [rewrite seqb_refl; reflexivity|].
  destruct (seqb s_survey k) eqn:E; cbn [bget]; rewrite ?seqb_refl, ?E; [reflexivity|exact IH].
Qed.
(* and with another sheet beside it an unknown sheet is only noted *)
Theorem csv_unknown_sheet_is_skipped lower s n : err s = None -> nonempty (py_strip n) = true -> bmem (py_strip n) (bk s) = false ->
  mem (lower (py_strip n)) SUPPORTED_SHEET_NAMES = false ->
  let s' := step lower false s [n] in sheet s' = Some (lower (py_strip n)) /\ err s' = None.
Proof.
  intros He Hn Hb Hsup. unfold step. rewrite He. cbn [first_col]. rewrite Hn, Hb, Hsup. cbn [negb andb]. rewrite Hsup. split; reflexivity.
Qed.
Example csv_examples :
  (* Sheet1 alone: its rows are the survey; a repeated header is refused; an empty header cell is skipped with its column *)
  csv_book lower_ascii [[[83;104;101;101;116;49]]; [[]; [116;121;112;101]; [110;97;109;101]]; [[]; [116;101;120;116]; [113]]]
    = Ok [(k_sheet_names, VNames [[83;104;101;101;116;49]]); (s_survey, VRows [[([116;121;112;101], [116;101;120;116]); ([110;97;109;101], [113])]]);
          (header_key s_survey, VHeader [[116;121;112;101]; [110;97;109;101]])]
  /\ csv_book lower_ascii [[s_survey]; [[]; [116;121;112;101]; [110;97;109;101]; [110;97;109;101]]; [[]; [116;101;120;116]; [113]; [114]]] = PyxErr [110;97;109;101]
  /\ csv_book lower_ascii [[s_survey]; [[]; [116;121;112;101]; []; [110;97;109;101]]; [[]; [116;101;120;116]; [120]; [113]]]
    = Ok [(k_sheet_names, VNames [s_survey]); (s_survey, VRows [[([116;121;112;101], [116;101;120;116]); ([110;97;109;101], [113])]]);
          (header_key s_survey, VHeader [[116;121;112;101]; [110;97;109;101]])].
Proof. vm_compute. repeat split; reflexivity. Qed.
