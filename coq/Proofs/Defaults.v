(* Proofs/Defaults.v — defaults and triggers are applied exactly once (C10) *)
Require Import PX.Base.Str PX.Model.Warnings PX.Model.Tree PX.Proofs.Tree PX.Gen.Defaults PX.Model.Defaults.
From Coq Require Import Permutation.

Lemma el_ind2 (P : el -> Prop) :
  (forall n d dy, P (Qn n d dy)) ->
  (forall n kids, Forall P kids -> P (Gp n kids)) ->
  (forall n kids, Forall P kids -> P (Rp n kids)) ->
  forall e, P e.
Proof.
  intros HQ HG HR. fix IH 1. intros [n d dy|n kids|n kids].
  - apply HQ.
  - apply HG. induction kids as [|k ks IHk]; constructor; [apply IH|exact IHk].
  - apply HR. induction kids as [|k ks IHk]; constructor; [apply IH|exact IHk].
Qed.

(* ---- the classifier over tokens ---- *)
Lemma dyn_tokens_none h ts : Forall (fun t => mem (fst t) DYNAMIC_TOKEN_NAMES = false) ts -> dyn_tokens h ts = false.
Proof.
  induction ts as [|[n v] r IH]; intro H; [reflexivity|]. inversion H as [|? ? Hn Hr]; subst. cbn [dyn_tokens fst] in *.
  destruct (h && seqb n s_ops_math && seqb v [45%N]); [reflexivity|]. rewrite Hn. apply IH. exact Hr.
Qed.
Lemma dyn_tokens_first ts : forall pre n v r, ts = pre ++ (n, v) :: r ->
  Forall (fun t => mem (fst t) DYNAMIC_TOKEN_NAMES = false) pre -> mem n DYNAMIC_TOKEN_NAMES = true -> dyn_tokens false ts = true.
Proof.
  intros pre n v r ->. induction pre as [|[n0 v0] p IH]; intros Hp Hn; cbn [app dyn_tokens andb].
  - rewrite Hn. reflexivity.
  - inversion Hp as [|? ? H0 Hr]; subst. cbn [fst] in H0. rewrite H0. apply IH; assumption.
Qed.
Lemma dyn_tokens_false_false ts : dyn_tokens false ts = false <-> Forall (fun t => mem (fst t) DYNAMIC_TOKEN_NAMES = false) ts.
Proof.
  split; [|apply dyn_tokens_none]. induction ts as [|[n v] r IH]; intro H; [constructor|]. cbn [dyn_tokens andb] in H.
  destruct (mem n DYNAMIC_TOKEN_NAMES) eqn:E; [discriminate|]. constructor; [exact E|apply IH; exact H].
Qed.

(* ---- what the instance nodes hold ---- *)
Lemma flat_step (step : el -> list itree) kids p x :
  (forall k, In k kids -> step k <> [] /\ forall t, In t (step k) -> (In x (leaves p t) <-> In x (qtexts p k))) ->
  (In x (flat_map (leaves p) (flat_map step kids)) <-> In x (flat_map (qtexts p) kids)).
Proof.
  intro H. rewrite !in_flat_map. split.
  - intros (t & Ht & Hx). apply in_flat_map in Ht as (k & Hk & Ht). exists k. split; [exact Hk|].
    destruct (H k Hk) as [_ Hs]. apply (Hs t Ht). exact Hx.
  - intros (k & Hk & Hx). destruct (H k Hk) as [Hne Hs]. destruct (step k) as [|t ts] eqn:E; [congruence|].
    exists t. split; [apply in_flat_map; exists k; split; [exact Hk|rewrite E; left; reflexivity]|].
    apply (Hs t); [left; reflexivity|exact Hx].
Qed.
Lemma leaves_iff x : forall e pre,
  (forall a, In x (leaves pre (inst a e)) <-> In x (qtexts pre e)) /\ (In x (leaves pre (tmpl e)) <-> In x (qtexts pre e)).
Proof.
  induction e as [n d dy|n kids IHk|n kids IHk] using el_ind2; intro pre.
  - split; [intro a|]; cbn; tauto.
  - rewrite Forall_forall in IHk. split; [intro a|]; cbn [inst tmpl leaves qtexts app]; apply flat_step; intros k Hk;
      destruct (IHk k Hk (pre ++ [n])) as [Hi Ht]; destruct k as [kn kd kdy|kn kk|kn kk];
      try destruct a; (split; [discriminate|]); intros t Hin; cbn [In] in Hin;
      repeat (destruct Hin as [<-|Hin]; [first [apply Hi|exact Ht]|]); destruct Hin.
  - rewrite Forall_forall in IHk. split; [intro a|]; cbn [inst tmpl leaves qtexts app]; apply flat_step; intros k Hk;
      destruct (IHk k Hk (pre ++ [n])) as [Hi Ht]; destruct k as [kn kd kdy|kn kk|kn kk];
      try destruct a; (split; [discriminate|]); intros t Hin; cbn [In] in Hin;
      repeat (destruct Hin as [<-|Hin]; [first [apply Hi|exact Ht]|]); destruct Hin.
Qed.
Theorem instance_text_spec root x : In x (leaves [] (inst false root)) <-> In x (qtexts [] root).
Proof. apply leaves_iff. Qed.

(* ---- paths of questions are unique when sibling names are ---- *)
Fixpoint erase (e : el) : elem :=
  match e with
  | Qn n _ _ => Q n true true
  | Gp n kids => G n false false (map erase kids)
  | Rp n kids => R n false (map erase kids)
  end.
Definition is_q (e : elem) : bool := negb (is_section e).
Lemma flat_map_map {A B C} (f : A -> B) (g : B -> list C) l : flat_map g (map f l) = flat_map (fun x => g (f x)) l.
Proof. induction l as [|a l IH]; [reflexivity|]. simpl. rewrite IH. reflexivity. Qed.
Lemma map_flat_map {A B C} (f : B -> C) (g : A -> list B) l : map f (flat_map g l) = flat_map (fun x => map f (g x)) l.
Proof. induction l as [|a l IH]; [reflexivity|]. simpl. rewrite map_app, IH. reflexivity. Qed.
Lemma flat_map_ext_in {A B} (f g : A -> list B) l : (forall x, In x l -> f x = g x) -> flat_map f l = flat_map g l.
Proof. induction l as [|a l IH]; intro H; [reflexivity|]. simpl. rewrite (H a (or_introl eq_refl)), IH; [reflexivity|]. intros; apply H; right; assumption. Qed.
Lemma qtexts_paths : forall e pre, map fst (qtexts pre e) = select is_q pre (erase e).
Proof.
  induction e as [n d dy|n kids IHk|n kids IHk] using el_ind2; intro pre; cbn [qtexts erase select is_q is_section negb app map fst].
  - reflexivity.
  - rewrite map_flat_map, flat_map_map. apply flat_map_ext_in. rewrite Forall_forall in IHk. intros k Hk. apply IHk. exact Hk.
  - rewrite map_flat_map, flat_map_map. apply flat_map_ext_in. rewrite Forall_forall in IHk. intros k Hk. apply IHk. exact Hk.
Qed.
Theorem question_paths_unique e pre : siblings_ok (erase e) = true -> NoDup (map fst (qtexts pre e)).
Proof. intro H. rewrite qtexts_paths. apply select_NoDup. exact H. Qed.

(* ---- dynamic defaults: exactly one setvalue, in the right place ---- *)
Lemma perm_flat_map_app {A B} (f g : A -> list B) l : Permutation (flat_map f l ++ flat_map g l) (flat_map (fun x => f x ++ g x) l).
Proof.
  induction l as [|a l IH]; [constructor|]. simpl.
  rewrite <- !app_assoc. apply Permutation_app_head. rewrite app_assoc.
  eapply Permutation_trans; [apply Permutation_app_tail; apply Permutation_app_comm|]. rewrite <- app_assoc. apply Permutation_app_head. exact IH.
Qed.
Lemma perm_flat_map_ext {A B} (f g : A -> list B) l : (forall x, In x l -> Permutation (f x) (g x)) -> Permutation (flat_map f l) (flat_map g l).
Proof.
  induction l as [|a l IH]; intro H; [constructor|]. simpl. apply Permutation_app; [apply H; left; reflexivity|apply IH; intros; apply H; right; assumption].
Qed.
Theorem all_sv_perm : forall e pre rep, Permutation (own pre rep e ++ body_flat pre e) (dynspec pre rep e).
Proof.
  induction e as [n d dy|n kids IHk|n kids IHk] using el_ind2; intros pre rep; cbn [own body_flat dynspec].
  - rewrite app_nil_r. apply Permutation_refl.
  - eapply Permutation_trans; [apply perm_flat_map_app|]. apply perm_flat_map_ext. rewrite Forall_forall in IHk. intros k Hk. apply IHk. exact Hk.
  - cbn [app]. eapply Permutation_trans; [apply perm_flat_map_app|]. apply perm_flat_map_ext. rewrite Forall_forall in IHk. intros k Hk. apply IHk. exact Hk.
Qed.
Lemma concat_map_flat_map {A B} (g : A -> list (path * list B)) l :
  concat (map snd (flat_map g l)) = flat_map (fun k => concat (map snd (g k))) l.
Proof. induction l as [|a l IH]; [reflexivity|]. simpl. rewrite map_app, concat_app, IH. reflexivity. Qed.
Lemma body_flat_concat : forall e pre, body_flat pre e = concat (map snd (body_sv pre e)).
Proof.
  induction e as [n d dy|n kids IHk|n kids IHk] using el_ind2; intro pre; cbn [body_flat body_sv].
  - reflexivity.
  - rewrite concat_map_flat_map. apply flat_map_ext_in. rewrite Forall_forall in IHk. intros k Hk. apply IHk. exact Hk.
  - cbn [map snd concat]. f_equal. rewrite concat_map_flat_map. apply flat_map_ext_in. rewrite Forall_forall in IHk. intros k Hk. apply IHk. exact Hk.
Qed.
(* the whole survey: the model's setvalues plus those of every repeat body are, as a multiset, the dynamic defaults *)
Theorem setvalues_exactly_once root_name kids :
  Permutation (model_sv root_name kids ++ concat (map snd (flat_map (body_sv [root_name]) kids)))
              (flat_map (dynspec [root_name] None) kids).
Proof.
  unfold model_sv. rewrite concat_map_flat_map.
  eapply Permutation_trans; [apply perm_flat_map_app|]. apply perm_flat_map_ext. intros k _.
  rewrite <- body_flat_concat. apply all_sv_perm.
Qed.

Lemma own_rep : forall e pre rep s, In s (own pre rep e) -> sv_repeat s = rep.
Proof.
  induction e as [n d dy|n kids IHk|n kids IHk] using el_ind2; intros pre rep s H; cbn [own] in H.
  - destruct (has_dyn d dy); [|destruct H]. destruct H as [<-|[]]. reflexivity.
  - apply in_flat_map in H as (k & Hk & Hs). rewrite Forall_forall in IHk. eapply IHk; eassumption.
  - destruct H.
Qed.
Theorem model_sv_outside_repeats root_name kids s : In s (model_sv root_name kids) -> sv_repeat s = None.
Proof. unfold model_sv. intro H. apply in_flat_map in H as (k & _ & Hs). eapply own_rep. exact Hs. Qed.
Theorem body_sv_in_own_repeat : forall e pre rp svs, In (rp, svs) (body_sv pre e) -> Forall (fun s => sv_repeat s = Some rp) svs.
Proof.
  induction e as [n d dy|n kids IHk|n kids IHk] using el_ind2; intros pre rp svs H; cbn [body_sv] in H.
  - destruct H.
  - apply in_flat_map in H as (k & Hk & Hs). rewrite Forall_forall in IHk. eapply IHk; eassumption.
  - destruct H as [H|H].
    + inversion H; subst. apply Forall_forall. intros s Hs. apply in_flat_map in Hs as (k & _ & Hs). eapply own_rep. exact Hs.
    + apply in_flat_map in H as (k & Hk & Hs). rewrite Forall_forall in IHk. eapply IHk; eassumption.
Qed.
(* the repeat recorded for a dynamic default is the innermost repeat around its question *)
Inductive innermost : path -> option path -> el -> path -> option path -> Prop :=
| in_q pre rep n d dy : innermost pre rep (Qn n d dy) (pre ++ [n]) rep
| in_g pre rep n kids k p r : In k kids -> innermost (pre ++ [n]) rep k p r -> innermost pre rep (Gp n kids) p r
| in_r pre rep n kids k p r : In k kids -> innermost (pre ++ [n]) (Some (pre ++ [n])) k p r -> innermost pre rep (Rp n kids) p r.
Theorem dynspec_innermost : forall e pre rep s, In s (dynspec pre rep e) -> innermost pre rep e (sv_ref s) (sv_repeat s).
Proof.
  induction e as [n d dy|n kids IHk|n kids IHk] using el_ind2; intros pre rep s H; cbn [dynspec] in H.
  - destruct (has_dyn d dy); [|destruct H]. destruct H as [<-|[]]. constructor.
  - apply in_flat_map in H as (k & Hk & Hs). rewrite Forall_forall in IHk. econstructor; [exact Hk|]. apply IHk; assumption.
  - apply in_flat_map in H as (k & Hk & Hs). rewrite Forall_forall in IHk. econstructor; [exact Hk|]. apply IHk; assumption.
Qed.
(* a dynamic default leaves its node empty; a static one has no setvalue *)
Lemma dynspec_node_empty : forall e pre rep s, In s (dynspec pre rep e) -> In (sv_ref s, []) (qtexts pre e) /\ sv_value s <> [].
Proof.
  induction e as [n d dy|n kids IHk|n kids IHk] using el_ind2; intros pre rep s H; cbn [dynspec qtexts] in *.
  - unfold has_dyn in H. destruct d as [|c d]; [destruct H|]. destruct dy; [|destruct H]. destruct H as [<-|[]]. cbn. split; [left; reflexivity|discriminate].
  - apply in_flat_map in H as (k & Hk & Hs). rewrite Forall_forall in IHk. destruct (IHk k Hk _ _ _ Hs). split; [apply in_flat_map; exists k; tauto|assumption].
  - apply in_flat_map in H as (k & Hk & Hs). rewrite Forall_forall in IHk. destruct (IHk k Hk _ _ _ Hs). split; [apply in_flat_map; exists k; tauto|assumption].
Qed.
Lemma NoDup_fst_inj {A B} (l : list (A * B)) a b1 b2 : NoDup (map fst l) -> In (a, b1) l -> In (a, b2) l -> b1 = b2.
Proof.
  induction l as [|[x y] l IH]; intros Hn H1 H2; [destruct H1|]. cbn [map fst] in Hn. inversion Hn as [|? ? Hx Hl]; subst.
  destruct H1 as [H1|H1], H2 as [H2|H2].
  - congruence.
  - inversion H1; subst. exfalso. apply Hx. apply (in_map fst) in H2. exact H2.
  - inversion H2; subst. exfalso. apply Hx. apply (in_map fst) in H1. exact H1.
  - apply IH; assumption.
Qed.
Theorem static_default_no_setvalue e pre rep p txt s :
  siblings_ok (erase e) = true -> In (p, txt) (qtexts pre e) -> txt <> [] -> In s (dynspec pre rep e) -> sv_ref s <> p.
Proof.
  intros Hok Hq Hne Hs Heq. destruct (dynspec_node_empty e pre rep s Hs) as [He _]. rewrite Heq in He.
  apply Hne. eapply NoDup_fst_inj; [apply question_paths_unique; exact Hok|exact Hq|exact He].
Qed.

(* ---- triggers ---- *)
Lemma tget_tappend k k' v d : tget k (tappend k' v d) = if seqb k' k then tget k d ++ [v] else tget k d.
Proof.
  induction d as [|[a l] r IH]; cbn [tappend tget].
  - destruct (seqb k' k); reflexivity.
  - destruct (seqb_spec a k') as [->|Hak]; cbn [tget].
    + destruct (seqb k' k); reflexivity.
    + destruct (seqb_spec a k) as [->|Hk]; [|exact IH]. destruct (seqb_spec k' k); [congruence|reflexivity].
Qed.
Definition is_trig (k : str) (r : trow) : bool := match t_trigger r with Some k' => seqb k' k | None => false end.
Definition tv (r : trow) : str * str := (t_name r, t_calc r).
Lemma fold_save rows k : forall acc,
  tget k (fst (fold_left save_trigger rows acc)) = tget k (fst acc) ++ map tv (filter (fun r => is_trig k r && negb (t_geo r)) rows) /\
  tget k (snd (fold_left save_trigger rows acc)) = tget k (snd acc) ++ map tv (filter (fun r => is_trig k r && t_geo r) rows).
Proof.
  induction rows as [|r rows IH]; intro acc; cbn [fold_left filter map].
  - rewrite !app_nil_r. split; reflexivity.
  - destruct (IH (save_trigger acc r)) as [H1 H2]. rewrite H1, H2. clear IH H1 H2.
    unfold save_trigger, is_trig. destruct (t_trigger r) as [k'|]; cbn [andb]; [|split; reflexivity].
    destruct (t_geo r); cbn [fst snd negb]; rewrite tget_tappend; destruct (seqb k' k); cbn [andb map]; rewrite <- ?app_assoc; split; reflexivity.
Qed.
Theorem nested_for_spec rows a :
  nested_for rows a =
    map (fun r => SetValue (t_name r) (t_calc r)) (filter (fun r => is_trig (ref_of a) r && negb (t_geo r)) rows) ++
    map (fun r => SetGeopoint (t_name r) (t_calc r)) (filter (fun r => is_trig (ref_of a) r && t_geo r) rows).
Proof.
  unfold nested_for, save_triggers. destruct (fold_save rows (ref_of a) ([], [])) as [H1 H2].
  destruct (fold_left save_trigger rows ([], [])) as [sv sg]. cbn [fst snd tget app] in *. rewrite H1, H2, !map_map. reflexivity.
Qed.
Definition action_of (r : trow) : action := if t_geo r then SetGeopoint (t_name r) (t_calc r) else SetValue (t_name r) (t_calc r).
Theorem triggered_exactly_once rows a :
  Permutation (nested_for rows a) (map action_of (filter (is_trig (ref_of a)) rows)).
Proof.
  rewrite nested_for_spec. induction rows as [|r rows IH]; [constructor|]. cbn [filter].
  destruct (is_trig (ref_of a) r) eqn:E; cbn [andb]; [|exact IH].
  destruct (t_geo r) eqn:G; cbn [negb filter map].
  - replace (action_of r) with (SetGeopoint (t_name r) (t_calc r)) by (unfold action_of; rewrite G; reflexivity).
    eapply Permutation_trans; [apply Permutation_sym; apply Permutation_middle|]. apply perm_skip. exact IH.
  - replace (action_of r) with (SetValue (t_name r) (t_calc r)) by (unfold action_of; rewrite G; reflexivity).
    cbn [app]. apply perm_skip. exact IH.
Qed.
Theorem triggered_no_calculate r k : t_trigger r = Some k -> k <> [] -> bind_calculate r = None.
Proof. intros H Hk. unfold bind_calculate. rewrite H. destruct k; [congruence|reflexivity]. Qed.
Theorem untriggered_keeps_calculate r : t_trigger r = None -> t_calc r <> [] -> bind_calculate r = Some (t_calc r).
Proof. intros H Hc. unfold bind_calculate. rewrite H. destruct (t_calc r); [congruence|reflexivity]. Qed.
Lemma ref_of_inj a b : ref_of a = ref_of b -> a = b.
Proof. unfold ref_of. intro H. inversion H as [H1]. apply app_inv_tail in H1. exact H1. Qed.
Theorem trigger_goes_to_own_question rows a r :
  In r rows -> t_trigger r = Some (ref_of a) -> In (action_of r) (nested_for rows a).
Proof.
  intros Hr Ht. eapply Permutation_in; [apply Permutation_sym; apply triggered_exactly_once|].
  apply in_map. apply filter_In. split; [exact Hr|]. unfold is_trig. rewrite Ht. apply seqb_refl.
Qed.
Theorem not_triggered_elsewhere rows a b r :
  In r (filter (is_trig (ref_of b)) rows) -> t_trigger r = Some (ref_of a) -> a = b.
Proof.
  intros H Ht. apply filter_In in H as [_ H]. unfold is_trig in H. rewrite Ht in H. apply seqb_eq in H. apply ref_of_inj. exact H.
Qed.

(* ---- documented constants and a concrete survey meeting every hypothesis ---- *)
Definition doc_dynamic_tokens : list str :=
  [[70;85;78;67;95;67;65;76;76]%N; [79;80;83;95;77;65;84;72]%N; [79;80;83;95;85;78;73;79;78]%N; [80;89;88;70;79;82;77;95;82;69;70]%N; [88;80;65;84;72;95;80;82;69;68]%N].
  (* FUNC_CALL OPS_MATH OPS_UNION PYXFORM_REF XPATH_PRED *)
Definition doc_event_first_load : str := [111;100;107;45;105;110;115;116;97;110;99;101;45;102;105;114;115;116;45;108;111;97;100]%N.
Definition doc_event_new_repeat : str := doc_event_first_load ++ [32;111;100;107;45;110;101;119;45;114;101;112;101;97;116]%N.
Lemma source_constants :
  DYNAMIC_TOKEN_NAMES = doc_dynamic_tokens /\ EVENT_FIRST_LOAD = doc_event_first_load /\
  EVENT_FIRST_LOAD ++ EVENT_NEW_REPEAT_SUFFIX = doc_event_new_repeat /\
  HYPHEN_TYPES = [[100;97;116;101]%N; [100;97;116;101;84;105;109;101]%N; [103;101;111;112;111;105;110;116]%N; [103;101;111;115;104;97;112;101]%N; [103;101;111;116;114;97;99;101]%N].
Proof. repeat split; reflexivity. Qed.

Definition nv_tree : list el :=
  [Qn [97]%N [120]%N false; Qn [98]%N [110;111;119;40;41]%N true;
   Rp [114]%N [Qn [99]%N [49;43;49]%N true; Gp [103]%N [Qn [100]%N [53]%N false; Rp [115]%N [Qn [101]%N [36;123;97;125]%N true]]]].
Definition nv_rows : list trow :=
  [mkTrow [97]%N None [] false; mkTrow [98]%N (Some (ref_of [97]%N)) [49]%N false; mkTrow [99]%N (Some (ref_of [97]%N)) [] true;
   mkTrow [100]%N None [50]%N false].
Definition nonvacuous_witness : Prop :=
  siblings_ok (erase (Gp [100;97;116;97]%N nv_tree)) = true /\
  length (model_sv [100;97;116;97]%N nv_tree) = 1 /\
  map (fun x => length (snd x)) (flat_map (body_sv [[100;97;116;97]%N]) nv_tree) = [1; 1] /\
  length (flat_map (dynspec [[100;97;116;97]%N] None) nv_tree) = 3 /\
  length (leaves [] (inst false (Gp [100;97;116;97]%N nv_tree))) = 9 /\
  nested_for nv_rows [97]%N = [SetValue [98]%N [49]%N; SetGeopoint [99]%N []] /\
  map bind_calculate nv_rows = [None; None; None; Some [50]%N].
Lemma nonvacuous_proof : nonvacuous_witness.
Proof. repeat split; vm_compute; reflexivity. Qed.
