(* Proofs/Doc.v — whole-document round trips for Survey._to_ugly_xml / _to_pretty_xml. *)
Require Import PX.Base.Str PX.Model.Dom PX.Spec.XmlParse PX.Spec.XmlName PX.Spec.WsEquiv
  PX.Proofs.Esc PX.Proofs.RT PX.Proofs.Ws.

Definition wf_dom (n : node) : Prop := wf xml_namestart xml_namech n /\ is_elem n = true.
Definition parse := xml_parse xml_namestart xml_namech.

Lemma plain_sp2 : plain [SP; SP]. Proof. split; reflexivity. Qed.
Lemma plain_nl : plain [NL]. Proof. split; reflexivity. Qed.

Lemma core_LT ind add nl n : is_elem n = true -> exists r, core ind add nl n = LT :: r.
Proof. destruct n; intro H; try discriminate; eexists; cbn [core app]; reflexivity. Qed.

Lemma parse_ugly n : wf_dom n -> parse (to_ugly n) = Some (canon_el [] [] [] n).
Proof.
  intros [Hwf He]. unfold parse, xml_parse, to_ugly, compact.
  rewrite prefix_app. cbn [obind]. rewrite w_core by exact He. cbn [app]. rewrite app_nil_r.
  destruct (core_LT [] [] [] n He) as [r Er].
  assert (Hs : skip_ws (core [] [] [] n) = core [] [] [] n) by (rewrite Er; reflexivity).
  rewrite Hs.
  rewrite <- (app_nil_r (core [] [] [] n)) at 2.
  rewrite (elem_rt xml_namestart xml_namech xml_nc_sp xml_nc_slash xml_nc_gt xml_nc_eq n [] [] []);
    try assumption; try apply plain_nil.
  - reflexivity.
  - rewrite app_nil_r. lia.
Qed.

Lemma parse_pretty n : wf_dom n -> parse (to_pretty n) = Some (canon_el [] [SP; SP] [NL] n).
Proof.
  intros [Hwf He]. unfold parse, xml_parse, to_pretty, pretty.
  rewrite prefix_app. cbn [obind]. rewrite w_core by exact He. cbn [app].
  destruct (core_LT [] [SP; SP] [NL] n He) as [r Er].
  assert (Hs : skip_ws (NL :: core [] [SP; SP] [NL] n ++ [NL]) = core [] [SP; SP] [NL] n ++ [NL])
    by (rewrite Er; reflexivity).
  rewrite Hs.
  rewrite (elem_rt xml_namestart xml_namech xml_nc_sp xml_nc_slash xml_nc_gt xml_nc_eq n [] [SP; SP] [NL]);
    try assumption; try apply plain_nil; try apply plain_sp2; try apply plain_nl.
  - reflexivity.
  - lia.
Qed.

Theorem pretty_compact_equiv n : wf_dom n ->
  exists a b, parse (to_pretty n) = Some a /\ parse (to_ugly n) = Some b /\ ws_equiv a b.
Proof.
  intro H. exists (canon_el [] [SP; SP] [NL] n), (canon_el [] [] [] n).
  split; [apply parse_pretty; exact H|]. split; [apply parse_ugly; exact H|].
  apply ws_canon; reflexivity.
Qed.

(* non-vacuity: a concrete mixed-content tree satisfies wf_dom and both documents parse *)
Definition ex_tree : node :=
  DE [104;58;104;116;109;108]%N [([120;109;108;110;115], [104;116;116;112])]%N
    [DE [108;97;98;101;108]%N [] [PT [72;105;32]%N; ME [111;117;116;112;117;116]%N [([118;97;108;117;101], [47;100;47;113])]%N; MT [32;60;38;34;62]%N];
     DE [104;58;98;111;100;121]%N [] [DE [105;110;112;117;116]%N [([114;101;102], [47;100;47;113])]%N []]].
Example ex_tree_wf : wf_dom ex_tree.
Proof. unfold wf_dom, ex_tree, okname. simpl. repeat split; repeat constructor. Qed.
Example ex_tree_parses :
  parse (to_pretty ex_tree) <> None /\ parse (to_ugly ex_tree) <> None /\
  parse (to_pretty ex_tree) <> parse (to_ugly ex_tree).
Proof. vm_compute. repeat split; discriminate. Qed.
