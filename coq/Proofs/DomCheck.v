(* Proofs/DomCheck.v — a document that passed pyxform's own checks (Model/DomCheck.v) meets every hypothesis of the round-trip and
   namespace theorems: the checks the code performs are sufficient, for every DOM tree. *)
Require Import PX.Base.Str PX.Model.Dom PX.Model.Names PX.Model.Warnings PX.Spec.XmlParse PX.Spec.XmlName PX.Spec.NsCheck
  PX.Model.DomCheck PX.Proofs.Warn PX.Proofs.NamesOk PX.Proofs.RT PX.Proofs.Doc PX.Proofs.Top.
From Coq Require Import Lia ZifyBool.

Lemma nch_not_colon c : nch c = true -> negb (ceq c NsCheck.COLON) = true.
Proof. unfold nch, nsc, nce, Names.inr, ceq, NsCheck.COLON. lia. Qed.
Lemma nsc_not_colon c : nsc c = true -> negb (ceq c NsCheck.COLON) = true.
Proof. intro H. apply nch_not_colon. unfold nch. rewrite H. reflexivity. Qed.
Lemma span_all p l : forallb p l = true -> span p l = (l, []).
Proof. intro H. rewrite <- (app_nil_r l) at 1. apply span_app; [exact H|exact I]. Qed.

(* is_xml_tag accepts QNames only: at most one colon, with a name on both sides *)
Theorem checked_name_is_qname s : is_xml_tag s = true -> qname_ok s = true.
Proof.
  unfold is_xml_tag. destruct (eat_ncname s) as [r|] eqn:E; [|discriminate].
  apply eat_ncname_spec in E as (c & pre & -> & Hc & Hpre).
  assert (Hnc : forallb (fun x => negb (ceq x NsCheck.COLON)) (c :: pre) = true).
  { cbn [forallb]. rewrite (nsc_not_colon c Hc). cbn [andb]. eapply forallb_impl; [apply nch_not_colon|exact Hpre]. }
  destruct r as [|d r].
  - intros _. unfold qname_ok, qprefix. rewrite app_nil_r. change (c :: pre) with ([c] ++ pre) in *. rewrite (span_all _ _ Hnc). reflexivity.
  - destruct (N.eqb_spec d Names.COLON) as [->|]; [|discriminate].
    destruct (eat_ncname r) as [[|x y]|] eqn:E2; try discriminate. intros _.
    apply eat_ncname_spec in E2 as (c2 & pre2 & -> & Hc2 & Hpre2). rewrite app_nil_r.
    assert (Hsp : span (fun x => negb (ceq x NsCheck.COLON)) ((c :: pre) ++ Names.COLON :: c2 :: pre2) = (c :: pre, Names.COLON :: c2 :: pre2)).
    { apply span_app; [exact Hnc|reflexivity]. }
    unfold qname_ok, qprefix, local_part. change (c :: pre ++ Names.COLON :: c2 :: pre2) with ((c :: pre) ++ Names.COLON :: c2 :: pre2).
    rewrite Hsp. cbn [seqb negb andb]. unfold nochar. cbn [forallb]. rewrite (nsc_not_colon c2 Hc2). cbn [andb].
    eapply forallb_impl; [apply nch_not_colon|exact Hpre2].
Qed.
Lemma xml_name_okname s : xml_name s = true -> okname xml_namestart xml_namech s.
Proof.
  unfold xml_name, okname, name_ok. destruct s as [|c r]; [discriminate|]. intro H. apply andb_true_iff in H as [H1 H2]. split; assumption.
Qed.
Lemma checked_name_okname s : is_xml_tag s = true -> okname xml_namestart xml_namech s.
Proof. intro H. apply xml_name_okname, names_are_xml_names, H. Qed.

(* ---- built trees are well-formed DOM trees ---- *)
Lemma attrs_checked_ok a : forallb attr_checked a = true -> Forall (fun p => okname xml_namestart xml_namech (fst p)) a.
Proof.
  induction a as [|p a IH]; intro H; [constructor|]. cbn [forallb] in H. apply andb_true_iff in H as [Hp Ha].
  constructor; [|apply IH; exact Ha]. unfold attr_checked in Hp. apply andb_true_iff in Hp as [Hn _]. apply checked_name_okname; exact Hn.
Qed.
Lemma attrs_parsed_ok a : forallb attr_parsed a = true -> Forall (fun p => okname xml_namestart xml_namech (fst p)) a.
Proof.
  induction a as [|p a IH]; intro H; [constructor|]. cbn [forallb] in H. apply andb_true_iff in H as [Hp Ha].
  constructor; [|apply IH; exact Ha]. unfold attr_parsed in Hp. apply andb_true_iff in Hp as [Hp _]. apply andb_true_iff in Hp as [Hn _].
  apply xml_name_okname; exact Hn.
Qed.
Fixpoint node_size (n : node) : nat :=
  match n with DE _ _ kids => S (list_sum (map node_size kids)) | _ => 1 end.
Lemma built_wf : forall n, built n = true -> wf xml_namestart xml_namech n.
Proof.
  fix IH 1. intros [t a kids|t a|d|d] H; cbn [built] in H.
  - apply andb_true_iff in H as [H Hk]. apply andb_true_iff in H as [Ht Ha].
    apply wf_DE. split; [apply checked_name_okname; exact Ht|split; [apply attrs_checked_ok; exact Ha|]].
    revert Hk. induction kids as [|k r IHr]; intro Hk; [exact I|]. cbn [forallb] in Hk. apply andb_true_iff in Hk as [H1 H2].
    split; [apply IH; exact H1|apply IHr; exact H2].
  - apply andb_true_iff in H as [H Ha]. apply andb_true_iff in H as [Ht _]. cbn [wf]. split; [apply xml_name_okname; exact Ht|apply attrs_parsed_ok; exact Ha].
  - exact I.
  - exact I.
Qed.

(* ---- the namespace check of the code decides the namespace rule of the specification on built trees ---- *)
Lemma seqb_comm a b : seqb a b = seqb b a.
Proof. destruct (seqb_spec a b), (seqb_spec b a); congruence. Qed.
Lemma span_snd_head p s c r : snd (span p s) = c :: r -> p c = false.
Proof.
  induction s as [|x s IH]; cbn [span]; [discriminate|]. destruct (p x) eqn:E.
  - destruct (span p s) as [a b]. cbn [snd] in *. exact IH.
  - cbn [snd]. intro H. inversion H; subst. exact E.
Qed.
Lemma is_decl_qprefix k : py_is_decl k = match qprefix k with Some p => seqb p s_xmlns | None => false end.
Proof.
  unfold py_is_decl, starts_with. destruct (prefix XMLNS_COLON k) as [r|] eqn:E.
  - apply prefix_some in E. subst k. unfold qprefix, XMLNS_COLON. rewrite <- app_assoc.
    rewrite (span_app _ s_xmlns ([NsCheck.COLON] ++ r)) by reflexivity. reflexivity.
  - unfold qprefix. pose proof (span_split (fun c => negb (ceq c NsCheck.COLON)) k) as Hs.
    destruct (span (fun c => negb (ceq c NsCheck.COLON)) k) as [a b] eqn:Esp. cbn [fst snd] in Hs.
    destruct b as [|c r]; [reflexivity|]. destruct (seqb_spec a s_xmlns) as [->|]; [|reflexivity].
    assert (Hc : c = NsCheck.COLON).
    { pose proof (span_snd_head (fun c => negb (ceq c NsCheck.COLON)) k c r) as H. rewrite Esp in H. specialize (H eq_refl).
      apply Bool.negb_false_iff in H. destruct (ceq_spec c NsCheck.COLON); [assumption|discriminate]. }
    subst c k. change (s_xmlns ++ NsCheck.COLON :: r) with (XMLNS_COLON ++ r) in E. rewrite prefix_app in E. discriminate.
Qed.
Lemma py_declared_declared a : py_declared a = declared a.
Proof.
  unfold py_declared, declared. induction a as [|x a IH]; [reflexivity|]. cbn [flat_map]. rewrite IH, is_decl_qprefix.
  destruct (qprefix (fst x)) as [p|]; reflexivity.
Qed.
Lemma py_decl_ok_decl_ok a : py_decl_ok a = decl_ok a.
Proof.
  unfold py_decl_ok, decl_ok, decl_prefix. destruct (seqb_spec (fst a) s_xmlns) as [E|E].
  - rewrite E. reflexivity.
  - cbn [orb]. rewrite is_decl_qprefix. destruct (qprefix (fst a)) as [p|]; [|reflexivity]. destruct (seqb p s_xmlns); reflexivity.
Qed.
Lemma forallb_ext_eq {A} (f g : A -> bool) l : (forall x, f x = g x) -> forallb f l = forallb g l.
Proof. intro H. induction l as [|x l IH]; [reflexivity|]. cbn [forallb]. rewrite H, IH. reflexivity. Qed.
Lemma decls_keep_xmlns_out a : forallb decl_ok a = true -> mem s_xmlns (declared a) = false.
Proof.
  induction a as [|x a IH]; intro H; [reflexivity|]. cbn [forallb] in H. apply andb_true_iff in H as [Hx Ha].
  unfold declared in *. cbn [flat_map]. unfold mem in *. rewrite existsb_app, (IH Ha), Bool.orb_false_r.
  unfold decl_ok, decl_prefix in Hx. destruct (qprefix (fst x)) as [p|] eqn:Eq; [|reflexivity].
  destruct (seqb p s_xmlns) eqn:Ep; [|reflexivity].
  destruct (seqb_spec (fst x) s_xmlns) as [E|E].
  - rewrite E in Eq. discriminate.
  - apply Bool.negb_true_iff in Hx. apply Bool.orb_false_iff in Hx as [Hx _]. apply Bool.orb_false_iff in Hx as [Hx _].
    apply Bool.orb_false_iff in Hx as [_ Hx]. cbn [existsb]. rewrite Bool.orb_false_r. rewrite seqb_comm. exact Hx.
Qed.

(* one name: the code's membership test against the specification's rule, in a scope that holds no declaration of xmlns *)
Lemma py_bound_el sc n : qname_ok n = true -> mem s_xmlns sc = false -> py_bound (sc ++ PY_SCOPE0) n = true -> bound_el sc n = true.
Proof.
  unfold py_bound, bound_el, bound. intros Hq Hx. rewrite Hq. cbn [andb]. destruct (qprefix n) as [p|]; [|reflexivity].
  unfold mem in *. rewrite existsb_app. unfold PY_SCOPE0. cbn [existsb]. rewrite Bool.orb_false_r. intro H.
  destruct (seqb_spec p s_xmlns) as [->|Hp].
  - rewrite Hx in H. discriminate.
  - cbn [negb]. rewrite Bool.andb_true_r. destruct (seqb p s_xml); [reflexivity|]. cbn [orb] in *. rewrite Bool.orb_false_r in H. exact H.
Qed.
Lemma py_bound_attr sc n : qname_ok n = true -> py_is_decl n || py_bound (sc ++ PY_SCOPE0) n = true -> bound sc n = true.
Proof.
  unfold py_bound, bound. intros Hq. rewrite Hq, is_decl_qprefix. cbn [andb]. destruct (qprefix n) as [p|]; [|reflexivity].
  unfold mem. rewrite existsb_app. unfold PY_SCOPE0. cbn [existsb]. rewrite Bool.orb_false_r. intro H.
  destruct (seqb p s_xmlns); [apply Bool.orb_true_iff; left; apply Bool.orb_true_r|]. cbn [orb] in *.
  destruct (seqb p s_xml); [reflexivity|]. rewrite Bool.orb_false_r in H. exact H.
Qed.
Lemma bound_el_py sc n : bound_el sc n = true -> py_bound (sc ++ PY_SCOPE0) n = true.
Proof.
  unfold py_bound, bound_el, bound. intro H. apply andb_true_iff in H as [H Hx]. apply andb_true_iff in H as [_ H].
  destruct (qprefix n) as [p|]; [|reflexivity]. unfold mem. rewrite existsb_app. unfold PY_SCOPE0. cbn [existsb]. rewrite Bool.orb_false_r.
  apply Bool.negb_true_iff in Hx. rewrite Hx in H. destruct (seqb p s_xml); [apply Bool.orb_true_r|]. cbn [orb] in H. rewrite H. reflexivity.
Qed.
Lemma bound_attr_py sc n : bound sc n = true -> py_is_decl n || py_bound (sc ++ PY_SCOPE0) n = true.
Proof.
  unfold py_bound, bound. rewrite is_decl_qprefix. intro H. apply andb_true_iff in H as [_ H].
  destruct (qprefix n) as [p|]; [|reflexivity]. unfold mem. rewrite existsb_app. unfold PY_SCOPE0. cbn [existsb]. rewrite Bool.orb_false_r.
  destruct (seqb p s_xmlns); [reflexivity|]. cbn [orb]. destruct (seqb p s_xml); [apply Bool.orb_true_r|]. cbn [orb] in H. rewrite H. reflexivity.
Qed.
(* one element *)
Lemma py_here_here (q : str * str -> bool) sc t a : qname_ok t = true -> (forall p, q p = true -> qname_ok (fst p) = true) -> forallb q a = true ->
  mem s_xmlns sc = false -> py_here (sc ++ PY_SCOPE0) t a = true -> here_ns sc t a = true.
Proof.
  intros Ht Hq Ha Hx H. unfold py_here in H. apply andb_true_iff in H as [H Hat]. apply andb_true_iff in H as [Hd Hb].
  unfold here_ns. rewrite (forallb_ext_eq decl_ok py_decl_ok) by (intro; symmetry; apply py_decl_ok_decl_ok). rewrite Hd.
  rewrite (py_bound_el sc t Ht Hx Hb). cbn [andb].
  clear Hd Hb. induction a as [|p a IH]; [reflexivity|]. cbn [forallb] in *. apply andb_true_iff in Ha as [Ha1 Ha2]. apply andb_true_iff in Hat as [H1 H2].
  rewrite (py_bound_attr sc (fst p) (Hq p Ha1) H1), (IH Ha2 H2). reflexivity.
Qed.
Lemma here_py_here sc t a : here_ns sc t a = true -> py_here (sc ++ PY_SCOPE0) t a = true.
Proof.
  unfold here_ns, py_here. intro H. apply andb_true_iff in H as [H Hat]. apply andb_true_iff in H as [Hd Hb].
  rewrite (forallb_ext_eq py_decl_ok decl_ok) by (intro; apply py_decl_ok_decl_ok). rewrite Hd, (bound_el_py sc t Hb). cbn [andb].
  induction a as [|p a IH]; [reflexivity|]. cbn [forallb] in *. apply andb_true_iff in Hat as [H1 H2]. apply andb_true_iff in Hd as [_ Hd2].
  rewrite (bound_attr_py sc (fst p) H1), (IH Hd2 H2). reflexivity.
Qed.
Lemma here_scope_clean sc t a : mem s_xmlns sc = false -> here_ns (declared a ++ sc) t a = true -> mem s_xmlns (declared a ++ sc) = false.
Proof.
  intros Hx H. unfold here_ns in H. apply andb_true_iff in H as [H _]. apply andb_true_iff in H as [Hd _].
  unfold mem in *. rewrite existsb_app, Hx, Bool.orb_false_r. apply decls_keep_xmlns_out; exact Hd.
Qed.
Lemma py_scope_clean sc a : mem s_xmlns sc = false -> forallb py_decl_ok a = true -> mem s_xmlns (declared a ++ sc) = false.
Proof.
  intros Hx Hd. unfold mem in *. rewrite existsb_app, Hx, Bool.orb_false_r. apply decls_keep_xmlns_out.
  rewrite (forallb_ext_eq decl_ok py_decl_ok) by (intro; symmetry; apply py_decl_ok_decl_ok). exact Hd.
Qed.
Lemma attr_checked_qname p : attr_checked p = true -> qname_ok (fst p) = true.
Proof. unfold attr_checked. intro H. apply andb_true_iff in H as [H _]. apply checked_name_is_qname; exact H. Qed.
Lemma attr_parsed_qname p : attr_parsed p = true -> qname_ok (fst p) = true.
Proof. unfold attr_parsed. intro H. apply andb_true_iff in H as [H _]. apply andb_true_iff in H as [_ H]. exact H. Qed.

Lemma checked_ns_ok : forall n sc, built n = true -> mem s_xmlns sc = false -> py_ns_check (sc ++ PY_SCOPE0) n = true -> dom_ns_ok sc n = true.
Proof.
  fix IH 1. intros [t a kids|t a|d|d] sc Hb Hx Hn; cbn [built py_ns_check dom_ns_ok] in *; try reflexivity.
  - apply andb_true_iff in Hb as [Hb Hk]. apply andb_true_iff in Hb as [Ht Ha].
    rewrite py_declared_declared, app_assoc in Hn. apply andb_true_iff in Hn as [Hh Hnk].
    assert (Hx' : mem s_xmlns (declared a ++ sc) = false).
    { apply py_scope_clean; [exact Hx|]. unfold py_here in Hh. apply andb_true_iff in Hh as [Hh _]. apply andb_true_iff in Hh as [Hh _]. exact Hh. }
    rewrite (py_here_here attr_checked (declared a ++ sc) t a (checked_name_is_qname t Ht) attr_checked_qname Ha Hx' Hh). cbn [andb].
    revert Hk Hnk. induction kids as [|k r IHr]; intros Hk Hnk; [reflexivity|]. cbn [forallb] in *.
    apply andb_true_iff in Hk as [Hk1 Hk2]. apply andb_true_iff in Hnk as [Hn1 Hn2].
    rewrite (IH k (declared a ++ sc) Hk1 Hx' Hn1), (IHr Hk2 Hn2). reflexivity.
  - apply andb_true_iff in Hb as [Hb Ha]. apply andb_true_iff in Hb as [_ Ht].
    rewrite py_declared_declared, app_assoc in Hn.
    assert (Hx' : mem s_xmlns (declared a ++ sc) = false).
    { apply py_scope_clean; [exact Hx|]. unfold py_here in Hn. apply andb_true_iff in Hn as [Hh _]. apply andb_true_iff in Hh as [Hh _]. exact Hh. }
    exact (py_here_here attr_parsed (declared a ++ sc) t a Ht attr_parsed_qname Ha Hx' Hn).
Qed.
(* and the other way round: the code's check refuses nothing the specification allows *)
Lemma ns_ok_checked : forall n sc, dom_ns_ok sc n = true -> py_ns_check (sc ++ PY_SCOPE0) n = true.
Proof.
  fix IH 1. intros [t a kids|t a|d|d] sc H; cbn [py_ns_check dom_ns_ok] in *; try reflexivity.
  - rewrite py_declared_declared, app_assoc. apply andb_true_iff in H as [Hh Hk]. rewrite (here_py_here _ t a Hh). cbn [andb].
    revert Hk. induction kids as [|k r IHr]; intro Hk; [reflexivity|]. cbn [forallb] in *.
    apply andb_true_iff in Hk as [H1 H2]. rewrite (IH k _ H1), (IHr H2). reflexivity.
  - rewrite py_declared_declared, app_assoc. apply here_py_here; exact H.
Qed.

(* ---- every character the writer emits for an accepted document is an XML Char ---- *)
Lemma namech_char c : xml_namech c = true -> xml_char c = true.
Proof. unfold xml_namech, xml_namestart, xml_char, XmlName.inr. lia. Qed.

Theorem accepted_document_valid n : is_elem n = true -> document_accepted n = true -> wf_dom n /\ dom_ns_ok [] n = true.
Proof.
  intros He H. unfold document_accepted in H. apply andb_true_iff in H as [Hb Hn].
  split; [split; [apply built_wf; exact Hb|exact He]|apply checked_ns_ok; [exact Hb|reflexivity|exact Hn]].
Qed.
Theorem accepted_iff_spec n : built n = true -> (document_accepted n = true <-> dom_ns_ok [] n = true).
Proof.
  intro Hb. unfold document_accepted. rewrite Hb. cbn [andb]. split; [apply (checked_ns_ok n []); [exact Hb|reflexivity]|apply (ns_ok_checked n [])].
Qed.
Lemma forallb_flat_map {A} (p : N -> bool) (f : A -> str) l : (forall x, In x l -> forallb p (f x) = true) -> forallb p (flat_map f l) = true.
Proof.
  induction l as [|x l IH]; intro H; [reflexivity|]. cbn [flat_map]. rewrite forallb_app, (H x (or_introl eq_refl)), IH; [reflexivity|].
  intros y Hy. apply H. right. exact Hy.
Qed.
Lemma esc_text_chars s : forallb xml_char s = true -> forallb xml_char (esc_text s) = true.
Proof.
  intro H. unfold esc_text. apply forallb_flat_map. intros c Hc. rewrite forallb_forall in H. specialize (H c Hc).
  unfold esc_char_text. destruct (ceq c AMP); [reflexivity|]. destruct (ceq c LT); [reflexivity|]. destruct (ceq c GT); [reflexivity|].
  cbn [forallb]. rewrite H. reflexivity.
Qed.
Lemma wdata_chars s : forallb xml_char s = true -> forallb xml_char (wdata s) = true.
Proof.
  intro H. unfold wdata. apply forallb_flat_map. intros c Hc. rewrite forallb_forall in H. specialize (H c Hc).
  unfold esc_char_attr. destruct (ceq c AMP); [reflexivity|]. destruct (ceq c LT); [reflexivity|]. destruct (ceq c QUOT); [reflexivity|].
  destruct (ceq c GT); [reflexivity|]. cbn [forallb]. rewrite H. reflexivity.
Qed.
Lemma xml_name_chars s : xml_name s = true -> forallb xml_char s = true.
Proof.
  unfold xml_name. destruct s as [|c r]; [discriminate|]. intro H. apply andb_true_iff in H as [_ H].
  eapply forallb_impl; [apply namech_char|exact H].
Qed.
Lemma wattrs_chars (q : str * str -> bool) a : (forall p, q p = true -> xml_name (fst p) = true /\ text_ok (snd p) = true) ->
  forallb q a = true -> forallb xml_char (wattrs a) = true.
Proof.
  intros Hq H. unfold wattrs. apply forallb_flat_map. intros p Hp. rewrite forallb_forall in H. destruct (Hq p (H p Hp)) as [Hn Hv].
  unfold wattr. cbn [forallb]. rewrite !forallb_app. rewrite (xml_name_chars _ Hn). cbn [forallb]. rewrite (wdata_chars _ Hv). reflexivity.
Qed.
Lemma attr_checked_parts p : attr_checked p = true -> xml_name (fst p) = true /\ text_ok (snd p) = true.
Proof. unfold attr_checked. intro H. apply andb_true_iff in H as [H1 H2]. split; [apply names_are_xml_names; exact H1|exact H2]. Qed.
Lemma attr_parsed_parts p : attr_parsed p = true -> xml_name (fst p) = true /\ text_ok (snd p) = true.
Proof. unfold attr_parsed. intro H. apply andb_true_iff in H as [H H2]. apply andb_true_iff in H as [H1 _]. split; assumption. Qed.
(* whatever indentation is used (made of XML Chars), the text written for a built tree holds XML Chars only *)
Theorem written_chars_are_xml_chars : forall n ind add nl, built n = true ->
  forallb xml_char ind = true -> forallb xml_char add = true -> forallb xml_char nl = true ->
  forallb xml_char (w ind add nl n) = true.
Proof.
  fix IH 1. intros [t a kids|t a|d|d] ind add nl Hb Hi Ha Hn; cbn [built] in Hb.
  - apply andb_true_iff in Hb as [Hb Hk]. apply andb_true_iff in Hb as [Ht Hat].
    pose proof (xml_name_chars t (names_are_xml_names t Ht)) as Htc.
    pose proof (wattrs_chars attr_checked a attr_checked_parts Hat) as Hac.
    assert (Hkids : forall i ad n', forallb xml_char i = true -> forallb xml_char ad = true -> forallb xml_char n' = true ->
                    forallb xml_char (flat_map (w i ad n') kids) = true).
    { intros i ad n' H1 H2 H3. clear -IH Hk H1 H2 H3. induction kids as [|k r IHr]; [reflexivity|]. cbn [flat_map forallb] in *.
      apply andb_true_iff in Hk as [Hk1 Hk2]. rewrite forallb_app, (IH k i ad n' Hk1 H1 H2 H3), (IHr Hk2). reflexivity. }
    cbn [w]. rewrite !forallb_app, Hi, Htc, Hac. cbn [forallb andb]. destruct kids as [|k0 r]; [cbn [forallb app]; exact Hn|].
    rewrite !forallb_app. cbn [forallb andb]. rewrite Htc, Hn. cbn [andb]. rewrite Bool.andb_true_r.
    destruct (existsb is_text (k0 :: r)).
    + rewrite !forallb_app, (Hkids [] [] [] eq_refl eq_refl eq_refl).
      destruct (Nat.ltb 1 (length (k0 :: r)) && is_text k0); destruct (Nat.ltb 1 (length (k0 :: r))); reflexivity.
    + rewrite !forallb_app, Hn, Hi. rewrite (Hkids (ind ++ add) add nl); [reflexivity|rewrite forallb_app, Hi, Ha; reflexivity|exact Ha|exact Hn].
  - apply andb_true_iff in Hb as [Hb Hat]. apply andb_true_iff in Hb as [Ht _].
    cbn [w]. rewrite !forallb_app, Hi, (xml_name_chars t Ht), (wattrs_chars attr_parsed a attr_parsed_parts Hat), Hn. reflexivity.
  - cbn [w]. apply esc_text_chars. rewrite !forallb_app, Hi, Hn. unfold text_ok in Hb. rewrite Hb. reflexivity.
  - cbn [w]. apply wdata_chars. rewrite !forallb_app, Hi, Hn. unfold text_ok in Hb. rewrite Hb. reflexivity.
Qed.
Theorem document_chars_are_xml_chars n (pp : bool) : built n = true -> forallb xml_char (if pp then to_pretty n else to_ugly n) = true.
Proof.
  intro Hb. destruct pp; unfold to_pretty, to_ugly, pretty, compact; rewrite !forallb_app.
  - rewrite (written_chars_are_xml_chars n [] [SP; SP] [NL] Hb eq_refl eq_refl eq_refl). reflexivity.
  - rewrite (written_chars_are_xml_chars n [] [] [] Hb eq_refl eq_refl eq_refl). reflexivity.
Qed.
