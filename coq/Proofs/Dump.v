(* Proofs/Dump.v — survey -> JSON dict -> survey keeps everything the XML generator reads (C16) *)
Require Import PX.Base.Str PX.Model.Warnings PX.Model.Dump.
From Coq Require Import Lia.

Lemma mem_true_In x l : mem x l = true <-> In x l.
Proof.
  unfold mem. rewrite existsb_exists. split.
  - intros (y & Hy & E). apply seqb_eq in E. subst. exact Hy.
  - intro H. exists x. split; [exact H|apply seqb_refl].
Qed.
Lemma nodupb_NoDup l : nodupb l = true -> NoDup l.
Proof.
  induction l as [|x r IH]; intro H; [constructor|]. cbn [nodupb] in H. apply andb_true_iff in H as [H1 H2].
  constructor; [|apply IH; exact H2]. intro Hin. apply mem_true_In in Hin. rewrite Hin in H1. discriminate.
Qed.
Lemma jget_app k a b : jget k (a ++ b) = match jget k a with Some v => Some v | None => jget k b end.
Proof. induction a as [|[x v] a IH]; [reflexivity|]. cbn [app jget]. destruct (seqb x k); [reflexivity|exact IH]. Qed.
Lemma jget_none k d : ~ In k (keys d) -> jget k d = None.
Proof.
  induction d as [|[x v] d IH]; intro H; [reflexivity|]. cbn [jget]. destruct (seqb_spec x k); [exfalso; apply H; left; assumption|].
  apply IH. intro Hin. apply H. right. exact Hin.
Qed.
Lemma jget_in k v d : jget k d = Some v -> In (k, v) d.
Proof.
  induction d as [|[x w] d IH]; intro H; [discriminate|]. cbn [jget] in H. destruct (seqb_spec x k); [inversion H; subst; left; reflexivity|right; apply IH; exact H].
Qed.
Lemma jset_same k v d : jget k d = Some v -> jset k v d = d.
Proof.
  induction d as [|[x w] d IH]; intro H; [discriminate|]. cbn [jget jset] in *. destruct (seqb_spec x k); [inversion H; subst; reflexivity|].
  f_equal. apply IH. exact H.
Qed.
Lemma keys_filter f d k : In k (keys (filter f d)) -> In k (keys d).
Proof. unfold keys. intro H. apply in_map_iff in H as ([a v] & <- & Hin). apply filter_In in Hin as [Hin _]. apply (in_map fst) in Hin. exact Hin. Qed.
Lemma jget_filter_keep k d v : NoDup (keys d) -> jget k d = Some v -> keep (k, v) = true -> jget k (filter keep d) = Some v.
Proof.
  induction d as [|[x w] d IH]; intros Hn H Hk; [discriminate|]. cbn [keys map] in Hn. inversion Hn as [|? ? Hx Hd]; subst.
  cbn [jget filter] in *. destruct (seqb_spec x k) as [->|Hne].
  - inversion H; subst. rewrite Hk. cbn [jget]. rewrite seqb_refl. reflexivity.
  - destruct (keep (x, w)); [cbn [jget]; destruct (seqb_spec x k); [contradiction|]|]; apply IH; assumption.
Qed.
Lemma keep_idem d : filter keep (filter keep d) = filter keep d.
Proof. induction d as [|kv d IH]; [reflexivity|]. cbn [filter]. destruct (keep kv) eqn:E; [cbn [filter]; rewrite E, IH|]; [reflexivity|exact IH]. Qed.
Lemma filter_all {A} (f : A -> bool) l : (forall x, In x l -> f x = true) -> filter f l = l.
Proof. induction l as [|x l IH]; intro H; [reflexivity|]. cbn [filter]. rewrite (H x (or_introl eq_refl)), IH; [reflexivity|]. intros; apply H; right; assumption. Qed.
Lemma filter_none {A} (f : A -> bool) l : (forall x, In x l -> f x = false) -> filter f l = [].
Proof. induction l as [|x l IH]; intro H; [reflexivity|]. cbn [filter]. rewrite (H x (or_introl eq_refl)). apply IH. intros; apply H; right; assumption. Qed.

(* ---- an Option's extra columns ---- *)
Lemma extras_fold extra : forall base, NoDup (keys extra) -> (forall k, In k (keys extra) -> ~ In k (keys base)) ->
  fold_left (fun acc kv => if truthy (snd kv) then jsetdefault (fst kv) (snd kv) acc else acc) extra base = base ++ filter (fun kv => truthy (snd kv)) extra.
Proof.
  induction extra as [|[k v] extra IH]; intros base Hn Hd; [symmetry; apply app_nil_r|].
  cbn [keys map] in Hn. inversion Hn as [|? ? Hk He]; subst. cbn [fold_left filter fst snd].
  destruct (truthy v).
  - unfold jsetdefault. rewrite (jget_none k base) by (apply Hd; left; reflexivity). rewrite IH; [rewrite <- app_assoc; reflexivity|exact He|].
    intros k' Hk' Hin. unfold keys in Hin. rewrite map_app in Hin. apply in_app_or in Hin as [Hin|[<-|[]]]; [apply (Hd k'); [right; exact Hk'|exact Hin]|contradiction].
  - apply IH; [exact He|]. intros k' Hk'. apply Hd. right. exact Hk'.
Qed.

(* ---- the shape of a dump ---- *)
Definition children_part (kids : list elt) : list (str * jv) :=
  match kids with [] => [] | _ => [(s_children, JL (map (fun c => JD (dump c)) kids))] end.
Definition list_entry (l : elt) : list (str * jv) :=
  match l with E KList ((_, JS n) :: _) _ opts _ => [(n, JL (map (fun o => JD (dump o)) opts))] | _ => [] end.
Definition choices_part (lists : list elt) : list (str * jv) :=
  match lists with [] => [] | _ => [(s_choices, JD (flat_map list_entry lists))] end.
Definition extras_part (k : kind) (extra : list (str * jv)) : list (str * jv) :=
  match k with KOption => filter (fun kv => truthy (snd kv)) extra | _ => [] end.

Section Slots.
Variable slots : kind -> list str.

Lemma fields_facts k fields : fields_ok slots k fields = true ->
  NoDup (keys fields) /\ forall key, In key (keys fields) -> mem key (slots k) = true /\ structural key = false.
Proof.
  unfold fields_ok. intro H. apply andb_true_iff in H as [H1 H2]. split; [apply nodupb_NoDup; exact H1|].
  intros key Hin. rewrite forallb_forall in H2. specialize (H2 key Hin). apply andb_true_iff in H2 as [Ha Hb]. apply negb_true_iff in Hb. tauto.
Qed.
Lemma not_structural_children key : structural key = false -> key <> s_children /\ key <> s_choices.
Proof. unfold structural. intro H. apply orb_false_iff in H as [H1 H2]. split; intro; subst; rewrite seqb_refl in *; discriminate. Qed.

Lemma dump_shape k fields extra kids lists : wf slots (E k fields extra kids lists) = true ->
  dump (E k fields extra kids lists) = filter keep fields ++ children_part kids ++ choices_part lists ++ extras_part k extra.
Proof.
  intro H. cbn [wf] in H. apply andb_true_iff in H as [H Hrest]. apply andb_true_iff in H as [H Hx]. apply andb_true_iff in H as [Hf Ht].
  destruct (fields_facts k fields Hf) as [Hnd Hkeys].
  cbn [dump]. fold (children_part kids). 
  assert (Hb : (match kids with [] => filter keep fields | _ :: _ => filter keep fields ++ [(s_children, JL (map (fun c => JD (dump c)) kids))] end) = filter keep fields ++ children_part kids).
  { destruct kids; [symmetry; apply app_nil_r|reflexivity]. }
  rewrite Hb. clear Hb.
  set (b1 := filter keep fields ++ children_part kids).
  assert (Hb2 : (match lists with [] => b1 | _ :: _ => b1 ++ [(s_choices, JD (flat_map (fun l => match l with
                   | E KList ((_, JS n) :: _) _ opts _ => [(n, JL (map (fun o => JD (dump o)) opts))] | _ => [] end) lists))] end) = b1 ++ choices_part lists).
  { destruct lists; [symmetry; apply app_nil_r|reflexivity]. }
  rewrite Hb2. clear Hb2. subst b1.
  destruct k; cbn [extras_part]; rewrite ?app_nil_r, <- ?app_assoc; try reflexivity.
  - (* group: type is already group *)
    unfold type_ok in Ht. destruct (jget s_type fields) as [[t| | | |]|] eqn:Et; try discriminate. apply seqb_eq in Ht. subst t.
    apply jset_same. rewrite jget_app. rewrite (jget_filter_keep s_type fields (JS s_group) Hnd Et eq_refl). reflexivity.
  - (* option: no children, no lists; the extra columns follow *)
    destruct kids; [|discriminate]. destruct lists; [|discriminate]. cbn [children_part choices_part app]. rewrite ?app_nil_r.
    unfold extra_ok in Hx. apply andb_true_iff in Hx as [Hx1 Hx2]. apply extras_fold; [apply nodupb_NoDup; exact Hx1|].
    intros key Hin Hin'. rewrite forallb_forall in Hx2. specialize (Hx2 key Hin). apply andb_true_iff in Hx2 as [_ Hm]. apply negb_true_iff in Hm.
    apply keys_filter in Hin'. apply mem_true_In in Hin'. congruence.
Qed.

Lemma depth_kid k f x kids lists c : In c kids -> depth c < depth (E k f x kids lists).
Proof.
  intro H. cbn [depth]. apply Nat.lt_succ_r. induction kids as [|a kids IH]; [destruct H|]. cbn [map app fold_right].
  destruct H as [->|H]; [apply Nat.le_max_l|]. etransitivity; [apply IH; exact H|apply Nat.le_max_r].
Qed.
Lemma fold_max_app a b : fold_right Nat.max 0 (a ++ b) = Nat.max (fold_right Nat.max 0 a) (fold_right Nat.max 0 b).
Proof. induction a as [|x a IH]; [reflexivity|]. cbn [app fold_right]. rewrite IH. apply Nat.max_assoc. Qed.
Lemma depth_list k f x kids lists l : In l lists -> depth l < depth (E k f x kids lists).
Proof.
  intro H. cbn [depth]. apply Nat.lt_succ_r. rewrite fold_max_app. etransitivity; [|apply Nat.le_max_r].
  induction lists as [|a lists IH]; [destruct H|]. cbn [map fold_right].
  destruct H as [->|H]; [apply Nat.le_max_l|]. etransitivity; [apply IH; exact H|apply Nat.le_max_r].
Qed.
Lemma flat_map_JD (g : list (str * jv) -> elt) (h : elt -> list (str * jv)) kids :
  flat_map (fun v => match v with JD c => [g c] | _ => [] end) (map (fun c => JD (h c)) kids) = map (fun c => g (h c)) kids.
Proof. induction kids as [|c kids IH]; [reflexivity|]. cbn [map flat_map app]. rewrite IH. reflexivity. Qed.

(* lookups and partitions of a dump *)
Lemma part_keys_structural kids lists key : In key (keys (children_part kids ++ choices_part lists)) -> structural key = true.
Proof.
  unfold children_part, choices_part, keys. rewrite map_app. intro H. apply in_app_or in H as [H|H].
  - destruct kids; [destruct H|]. destruct H as [<-|[]]. reflexivity.
  - destruct lists; [destruct H|]. destruct H as [<-|[]]. unfold structural. rewrite seqb_refl. apply orb_true_r.
Qed.
Lemma extras_facts k fields extra : extra_ok slots k fields extra = true ->
  forall key, In key (keys (extras_part k extra)) -> mem key (slots k) = false /\ structural key = false.
Proof.
  unfold extra_ok. intro H. apply andb_true_iff in H as [_ H]. rewrite forallb_forall in H. intros key Hin.
  assert (Hk : In key (keys extra)) by (destruct k; try destruct Hin; eapply keys_filter; exact Hin).
  specialize (H key Hk). apply andb_true_iff in H as [H _]. apply andb_true_iff in H as [H1 H2]. apply negb_true_iff in H1, H2. tauto.
Qed.
Lemma known_of_dump k fields extra kids lists : fields_ok slots k fields = true -> extra_ok slots k fields extra = true ->
  filter (fun kv => mem (fst kv) (slots k) && negb (structural (fst kv))) (filter keep fields ++ children_part kids ++ choices_part lists ++ extras_part k extra)
  = filter keep fields.
Proof.
  intros Hf Hx. destruct (fields_facts k fields Hf) as [_ Hkeys]. rewrite !filter_app.
  assert (E1 : filter (fun kv => mem (fst kv) (slots k) && negb (structural (fst kv))) (filter keep fields) = filter keep fields).
  { apply filter_all. intros [key v] Hin. apply (in_map fst) in Hin. apply keys_filter in Hin. destruct (Hkeys key Hin) as [H1 H2]. cbn [fst]. rewrite H1, H2. reflexivity. }
  assert (E2 : filter (fun kv => mem (fst kv) (slots k) && negb (structural (fst kv))) (children_part kids) = []).
  { apply filter_none. intros [key v] Hin. apply (in_map fst) in Hin. cbn [fst]. rewrite (part_keys_structural kids lists key); [apply andb_false_r|].
    unfold keys. rewrite map_app. apply in_or_app. left. exact Hin. }
  assert (E2' : filter (fun kv => mem (fst kv) (slots k) && negb (structural (fst kv))) (choices_part lists) = []).
  { apply filter_none. intros [key v] Hin. apply (in_map fst) in Hin. cbn [fst]. rewrite (part_keys_structural kids lists key); [apply andb_false_r|].
    unfold keys. rewrite map_app. apply in_or_app. right. exact Hin. }
  assert (E3 : filter (fun kv => mem (fst kv) (slots k) && negb (structural (fst kv))) (extras_part k extra) = []).
  { apply filter_none. intros [key v] Hin. apply (in_map fst) in Hin. destruct (extras_facts k fields extra Hx key Hin) as [H1 _]. cbn [fst]. rewrite H1. reflexivity. }
  rewrite E1, E2, E2', E3, !app_nil_r. reflexivity.
Qed.
Lemma unknown_of_dump k fields extra kids lists : fields_ok slots k fields = true -> extra_ok slots k fields extra = true ->
  filter (fun kv => negb (mem (fst kv) (slots k)) && negb (structural (fst kv))) (filter keep fields ++ children_part kids ++ choices_part lists ++ extras_part k extra)
  = extras_part k extra.
Proof.
  intros Hf Hx. destruct (fields_facts k fields Hf) as [_ Hkeys]. rewrite !filter_app.
  assert (E1 : filter (fun kv => negb (mem (fst kv) (slots k)) && negb (structural (fst kv))) (filter keep fields) = []).
  { apply filter_none. intros [key v] Hin. apply (in_map fst) in Hin. apply keys_filter in Hin. destruct (Hkeys key Hin) as [H1 _]. cbn [fst]. rewrite H1. reflexivity. }
  assert (E2 : filter (fun kv => negb (mem (fst kv) (slots k)) && negb (structural (fst kv))) (children_part kids) = []).
  { apply filter_none. intros [key v] Hin. apply (in_map fst) in Hin. cbn [fst]. rewrite (part_keys_structural kids lists key); [apply andb_false_r|].
    unfold keys. rewrite map_app. apply in_or_app. left. exact Hin. }
  assert (E2' : filter (fun kv => negb (mem (fst kv) (slots k)) && negb (structural (fst kv))) (choices_part lists) = []).
  { apply filter_none. intros [key v] Hin. apply (in_map fst) in Hin. cbn [fst]. rewrite (part_keys_structural kids lists key); [apply andb_false_r|].
    unfold keys. rewrite map_app. apply in_or_app. right. exact Hin. }
  assert (E3 : filter (fun kv => negb (mem (fst kv) (slots k)) && negb (structural (fst kv))) (extras_part k extra) = extras_part k extra).
  { apply filter_all. intros [key v] Hin. apply (in_map fst) in Hin. destruct (extras_facts k fields extra Hx key Hin) as [H1 H2]. cbn [fst]. rewrite H1, H2. reflexivity. }
  rewrite E1, E2, E2', E3. reflexivity.
Qed.
Lemma jget_structural_of_dump key k fields extra kids lists : fields_ok slots k fields = true -> extra_ok slots k fields extra = true ->
  structural key = true ->
  jget key (filter keep fields ++ children_part kids ++ choices_part lists ++ extras_part k extra) = jget key (children_part kids ++ choices_part lists).
Proof.
  intros Hf Hx Hs. destruct (fields_facts k fields Hf) as [_ Hkeys]. rewrite jget_app.
  rewrite (jget_none key (filter keep fields)).
  - rewrite app_assoc, jget_app. destruct (jget key (children_part kids ++ choices_part lists)); [reflexivity|].
    apply jget_none. intro Hin. destruct (extras_facts k fields extra Hx key Hin) as [_ H2]. congruence.
  - intro Hin. apply keys_filter in Hin. destruct (Hkeys key Hin) as [_ H2]. congruence.
Qed.
Lemma jget_type_of_dump k fields extra kids lists t : fields_ok slots k fields = true -> jget s_type fields = Some (JS t) -> t <> [] ->
  jget s_type (filter keep fields ++ children_part kids ++ choices_part lists ++ extras_part k extra) = Some (JS t).
Proof.
  intros Hf Ht Hne. destruct (fields_facts k fields Hf) as [Hnd _]. rewrite jget_app.
  rewrite (jget_filter_keep s_type fields (JS t) Hnd Ht); [reflexivity|]. destruct t; [congruence|reflexivity].
Qed.
End Slots.

Section Reload.
Variable slots : kind -> list str.

Lemma kind_of_dump k fields extra kids lists :
  fields_ok slots k fields = true -> type_ok k fields = true -> k <> KList ->
  kind_of (kind_eqb k KOption) (filter keep fields ++ children_part kids ++ choices_part lists ++ extras_part k extra) = k.
Proof.
  intros Hf Ht Hl. unfold kind_of. destruct k; cbn [kind_eqb]; try reflexivity; try congruence; unfold type_ok in Ht;
    destruct (jget s_type fields) as [[t| | | |]|] eqn:Et; try discriminate.
  - apply seqb_eq in Ht. subst t. rewrite (jget_type_of_dump slots _ _ _ _ _ s_survey Hf Et) by discriminate. reflexivity.
  - apply seqb_eq in Ht. subst t. rewrite (jget_type_of_dump slots _ _ _ _ _ s_group Hf Et) by discriminate. reflexivity.
  - apply seqb_eq in Ht. subst t. rewrite (jget_type_of_dump slots _ _ _ _ _ s_repeat Hf Et) by discriminate. reflexivity.
  - destruct t as [|c t]; [discriminate|]. rewrite (jget_type_of_dump slots _ _ _ _ _ (c :: t) Hf Et) by discriminate.
    apply andb_true_iff in Ht as [Ht H3]. apply andb_true_iff in Ht as [H1 H2]. apply negb_true_iff in H1, H2, H3. rewrite H1, H2, H3. reflexivity.
Qed.

Lemma jget_children_part kids lists : jget s_children (children_part kids ++ choices_part lists) = match kids with [] => None | _ => Some (JL (map (fun c => JD (dump c)) kids)) end.
Proof. destruct kids; cbn [children_part app]; [destruct lists; reflexivity|]. cbn [jget]. rewrite seqb_refl. reflexivity. Qed.
Lemma jget_choices_part kids lists : jget s_choices (children_part kids ++ choices_part lists) = match lists with [] => None | _ => Some (JD (flat_map list_entry lists)) end.
Proof. destruct kids, lists; cbn [children_part choices_part app jget]; try reflexivity; rewrite ?seqb_refl; reflexivity. Qed.

Theorem reload_gen : forall n e, depth e <= n -> wf slots e = true ->
  view (load slots n (kind_eqb (ekind e) KOption) (dump e)) = view e.
Proof.
  induction n as [|f IH]; intros [k fields extra kids lists] Hd Hwf; [cbn [depth] in Hd; lia|].
  pose proof Hwf as Hwf0. rewrite (dump_shape slots _ _ _ _ _ Hwf). cbn [ekind].
  cbn [wf] in Hwf. apply andb_true_iff in Hwf as [Hw Hrest]. apply andb_true_iff in Hw as [Hw Hx]. apply andb_true_iff in Hw as [Hf Ht].
  assert (Hk : k <> KList) by (intro; subst; discriminate).
  cbn [load]. rewrite (kind_of_dump k fields extra kids lists Hf Ht Hk).
  rewrite (known_of_dump slots k fields extra kids lists Hf Hx), (unknown_of_dump slots k fields extra kids lists Hf Hx).
  rewrite !(jget_structural_of_dump slots _ k fields extra kids lists Hf Hx) by (unfold structural; rewrite ?seqb_refl, ?orb_true_r; reflexivity).
  rewrite jget_children_part, jget_choices_part.
  assert (Hkids : forall opt, (forall c, In c kids -> kind_eqb (ekind c) KOption = opt /\ wf slots c = true) ->
            map view (match (match kids with [] => None | _ => Some (JL (map (fun c => JD (dump c)) kids)) end) with
                      | Some (JL l) => flat_map (fun v => match v with JD c => [load slots f opt c] | _ => [] end) l | _ => [] end) = map view kids).
  { intros opt Hall. destruct kids as [|c0 kids0]; [reflexivity|]. cbv iota. rewrite flat_map_JD, map_map. apply map_ext_in. intros c Hc.
    destruct (Hall c Hc) as [<- Hwc]. apply IH; [|exact Hwc]. pose proof (depth_kid k fields extra (c0 :: kids0) lists c Hc). lia. }
  destruct k; try congruence; cbn [view extras_part]; rewrite keep_idem.
  - (* survey *)
    apply andb_true_iff in Hrest as [Hr Hl]. apply andb_true_iff in Hr as [Hkk Hkw].
    f_equal.
    + apply Hkids. intros c Hc. rewrite forallb_forall in Hkk, Hkw. specialize (Hkk c Hc). specialize (Hkw c Hc). split; [|exact Hkw].
      destruct (ekind c); try discriminate; reflexivity.
    + assert (Hgen : forall ls, (forall l, In l ls -> In l lists) ->
                map view (map (fun nl : str * jv => E KList [(s_name, JS (fst nl))] []
                     (match snd nl with JL l => flat_map (fun v => match v with JD c => [load slots f true c] | _ => [] end) l | _ => [] end) []) (flat_map list_entry ls)) = map view ls).
      { induction ls as [|l ls IHls]; intro Hsub; [reflexivity|].
        assert (Hlin : In l lists) by (apply Hsub; left; reflexivity).
        rewrite forallb_forall in Hl. pose proof (Hl l Hlin) as Hl1. destruct l as [lk lf lx opts ll].
        destruct lk; try discriminate. destruct lf as [|[nk [nm| | | |]] [|? ?]]; try discriminate. destruct lx; [|discriminate]. destruct ll; [|discriminate].
        apply andb_true_iff in Hl1 as [Hl1 Hlw]. apply andb_true_iff in Hl1 as [Hn Hlo]. apply seqb_eq in Hn. subst nk.
        cbn [flat_map list_entry app map fst snd]. rewrite IHls by (intros; apply Hsub; right; assumption). f_equal.
        cbn [view]. f_equal. rewrite flat_map_JD, map_map. apply map_ext_in. intros o Ho. rewrite forallb_forall in Hlo, Hlw.
        specialize (Hlo o Ho). specialize (Hlw o Ho). rewrite <- Hlo. apply IH; [|exact Hlw].
        pose proof (depth_list KSurvey fields extra kids lists _ Hlin). pose proof (depth_kid KList [(s_name, JS nm)] [] opts [] o Ho). lia. }
      destruct lists as [|l0 lists0]; [reflexivity|]. cbv iota. apply Hgen. intros; assumption.
  - (* group *)
    apply andb_true_iff in Hrest as [Hr Hl]. apply andb_true_iff in Hr as [Hkk Hkw]. destruct lists; [|discriminate].
    f_equal.
    apply Hkids. intros c Hc. rewrite forallb_forall in Hkk, Hkw. specialize (Hkk c Hc). specialize (Hkw c Hc). split; [|exact Hkw].
    destruct (ekind c); try discriminate; reflexivity.
  - (* repeat *)
    apply andb_true_iff in Hrest as [Hr Hl]. apply andb_true_iff in Hr as [Hkk Hkw]. destruct lists; [|discriminate].
    f_equal.
    apply Hkids. intros c Hc. rewrite forallb_forall in Hkk, Hkw. specialize (Hkk c Hc). specialize (Hkw c Hc). split; [|exact Hkw].
    destruct (ekind c); try discriminate; reflexivity.
  - (* question: its options *)
    apply andb_true_iff in Hrest as [Hr Hl]. apply andb_true_iff in Hr as [Hkk Hkw]. destruct lists; [|discriminate].
    f_equal.
    apply Hkids. intros c Hc. rewrite forallb_forall in Hkk, Hkw. split; [apply Hkk; exact Hc|apply Hkw; exact Hc].
  - (* option *)
    destruct kids; [|discriminate]. destruct lists; [|discriminate]. f_equal.
    clear. induction extra as [|kv extra IHx]; [reflexivity|]. cbn [filter]. destruct (truthy (snd kv)) eqn:E; [cbn [filter]; rewrite E, IHx; reflexivity|exact IHx].
Qed.

(* the statement for a whole survey *)
Theorem reload_keeps_what_the_generator_reads e : wf slots e = true -> ekind e = KSurvey ->
  view (load slots (depth e) false (dump e)) = view e.
Proof.
  intros Hw Hk. pose proof (reload_gen (depth e) e (le_n _) Hw) as H. rewrite Hk in H. exact H.
Qed.
End Reload.

(* ---- the dump is stable: dump, load, dump again gives the same JSON ---- *)
Lemma elt_ind2 (P : elt -> Prop) :
  (forall k f x kids lists, Forall P kids -> Forall P lists -> P (E k f x kids lists)) -> forall e, P e.
Proof.
  intro H. fix IH 1. intros [k f x kids lists]. apply H.
  - induction kids as [|c kids IHk]; constructor; [apply IH|exact IHk].
  - induction lists as [|c lists IHk]; constructor; [apply IH|exact IHk].
Qed.
Lemma fold_extras_truthy extra : forall base,
  fold_left (fun acc kv => if truthy (snd kv) then jsetdefault (fst kv) (snd kv) acc else acc) (filter (fun kv => truthy (snd kv)) extra) base =
  fold_left (fun acc kv => if truthy (snd kv) then jsetdefault (fst kv) (snd kv) acc else acc) extra base.
Proof.
  induction extra as [|kv extra IH]; intro base; [reflexivity|]. cbn [filter fold_left]. destruct (truthy (snd kv)) eqn:E; [cbn [fold_left]; rewrite E|]; apply IH.
Qed.
Definition ekids (e : elt) : list elt := match e with E _ _ _ kids _ => kids end.
Lemma dump_view_strong : forall e, dump (view e) = dump e /\ Forall (fun c => dump (view c) = dump c) (ekids e).
Proof.
  induction e as [k f x kids lists IHk IHl] using elt_ind2.
  assert (Hq : Forall (fun c => dump (view c) = dump c) kids).
  { apply Forall_forall. intros c Hc. rewrite Forall_forall in IHk. apply (IHk c Hc). }
  split; [|exact Hq]. cbn [view dump].
  assert (Ef : filter keep (match k with KList => f | _ => filter keep f end) = filter keep f) by (destruct k; try apply keep_idem; reflexivity).
  rewrite Ef.
  assert (Ek : map (fun c => JD (dump c)) (map view kids) = map (fun c => JD (dump c)) kids).
  { rewrite map_map. apply map_ext_in. intros c Hc. rewrite Forall_forall in Hq. rewrite (Hq c Hc). reflexivity. }
  assert (El : flat_map (fun l => match l with E KList ((_, JS n) :: _) _ opts _ => [(n, JL (map (fun o => JD (dump o)) opts))] | _ => [] end) (map view lists)
             = flat_map (fun l => match l with E KList ((_, JS n) :: _) _ opts _ => [(n, JL (map (fun o => JD (dump o)) opts))] | _ => [] end) lists).
  { clear -IHl. induction lists as [|l lists IHls]; [reflexivity|]. inversion IHl as [|? ? Hl Hrest]; subst. cbn [map flat_map]. rewrite (IHls Hrest). f_equal.
    destruct l as [lk lf lx lo ll]. destruct Hl as [_ Ho]. cbn [ekids] in Ho. cbn [view].
    destruct lk; try (destruct (filter keep lf) as [|[? [?| | | |]] ?]; reflexivity).
    destruct lf as [|[nk [nm| | | |]] lf']; try reflexivity. do 3 f_equal. rewrite map_map. apply map_ext_in. intros o Hin.
    rewrite Forall_forall in Ho. rewrite (Ho o Hin). reflexivity. }
  destruct kids as [|c0 kids0]; destruct lists as [|l0 lists0]; cbn [map] in *; rewrite ?Ek, ?El;
    destruct k; try reflexivity; rewrite fold_extras_truthy; reflexivity.
Qed.
Theorem dump_view e : dump (view e) = dump e.
Proof. apply dump_view_strong. Qed.

Section Stable.
Variable slots : kind -> list str.
Theorem dump_stable e : wf slots e = true -> ekind e = KSurvey -> dump (load slots (depth e) false (dump e)) = dump e.
Proof.
  intros Hw Hk. rewrite <- (dump_view (load slots (depth e) false (dump e))), (reload_keeps_what_the_generator_reads slots e Hw Hk). apply dump_view.
Qed.
End Stable.

(* ---- group logic and extra choice columns are in the dump ---- *)
Section Kept.
Variable slots : kind -> list str.
Theorem field_kept k fields extra kids lists key v :
  wf slots (E k fields extra kids lists) = true -> In (key, v) fields -> keep (key, v) = true -> In (key, v) (dump (E k fields extra kids lists)).
Proof.
  intros Hw Hin Hk. rewrite (dump_shape slots _ _ _ _ _ Hw). apply in_or_app. left. apply filter_In. split; assumption.
Qed.
Theorem option_column_kept fields extra key v :
  wf slots (E KOption fields extra [] []) = true -> In (key, v) extra -> truthy v = true -> In (key, v) (dump (E KOption fields extra [] [])).
Proof.
  intros Hw Hin Ht. rewrite (dump_shape slots _ _ _ _ _ Hw). cbn [children_part choices_part extras_part app].
  apply in_or_app. right. apply filter_In. split; assumption.
Qed.
End Kept.

(* a concrete survey: a group with a relevant, a select with a translated list whose options carry an extra column *)
Definition ex_slots (k : kind) : list str :=
  match k with
  | KOption => [s_name; [108;97;98;101;108]%N]
  | KList => [s_name]
  | _ => [s_name; [108;97;98;101;108]%N; s_type; [98;105;110;100]%N; [104;105;110;116]%N; [105;116;101;109;115;101;116]%N]
  end.
Definition ex_opt (n : str) : elt := E KOption [(s_name, JS n); ([108;97;98;101;108]%N, JD [([101;110]%N, JS n)])] [([99;102]%N, JS [120]%N); ([101]%N, JS [])] [] [].
Definition ex_survey : elt :=
  E KSurvey [(s_name, JS [100]%N); (s_type, JS s_survey); ([104;105;110;116]%N, JN)] []
    [E KGroup [(s_name, JS [103]%N); (s_type, JS s_group); ([98;105;110;100]%N, JD [([114;101;108;101;118;97;110;116]%N, JS [49]%N)])] []
       [E KQuestion [(s_name, JS [113]%N); (s_type, JS [115;101;108;101;99;116]%N); ([105;116;101;109;115;101;116]%N, JS [108]%N)] [([109;121]%N, JS [122]%N)]
          [ex_opt [97]%N; ex_opt [98]%N] []] []]
    [E KList [(s_name, JS [108]%N)] [] [ex_opt [97]%N; ex_opt [98]%N] []].
Definition nonvacuous_witness : Prop :=
  wf ex_slots ex_survey = true /\ depth ex_survey = 4 /\
  view (load ex_slots (depth ex_survey) false (dump ex_survey)) = view ex_survey /\
  load ex_slots 4 false (dump ex_survey) <> ex_survey.
Lemma nonvacuous_proof : nonvacuous_witness.
Proof. repeat split; try (vm_compute; reflexivity). vm_compute. discriminate. Qed.
