(* Proofs/Entities.v — the translated entity decision functions equal the documented table on all 16 rows. *)
Require Import PX.Base.Str PX.Spec.DocsEntities PX.Spec.XmlName PX.Model.Names PX.Model.Entities PX.Model.Warnings
  PX.Proofs.NamesOk PX.Gen.Entities.

Lemma reject_table : forall eid cr up lb,
  (match entity_reject eid cr up lb with Some _ => true | None => false end) = spec_rejected eid cr up lb.
Proof. intros [] [] [] []; reflexivity. Qed.

Lemma attrs_table : forall eid cr up lb, spec_rejected eid cr up lb = false ->
  map fst (entity_attrs eid cr up lb) = spec_attr_names eid cr up lb /\ entity_has_label_child eid cr up lb = lb.
Proof. intros [] [] [] []; intro H; try discriminate; split; reflexivity. Qed.

Lemma binds_table : forall eid cr up lb, spec_rejected eid cr up lb = false ->
  map (fun b => (fst (fst b), snd (fst b))) (entity_binds eid cr up lb) = spec_binds eid cr up lb.
Proof. intros [] [] [] []; intro H; try discriminate; reflexivity. Qed.

(* values that are fixed by the specification *)
Lemma attr_values : forall eid cr up lb,
  (forall v, In (a_update, v) (entity_attrs eid cr up lb) -> v = [49%N]) /\
  (forall v, In (a_create, v) (entity_attrs eid cr up lb) -> v = [49%N]) /\
  (forall v, In (a_id, v) (entity_attrs eid cr up lb) -> v = []).
Proof.
  intros [] [] [] []; repeat split; intros v H; cbn in H;
    repeat (destruct H as [H|H]; [inversion H; subst; try reflexivity; try discriminate|]); try contradiction.
Qed.

Lemma dataset_ok_is_xml_name d : dataset_check d = None -> xml_name d = true /\ nochar DOT d = true /\ starts_with reserved_prefix d = false.
Proof.
  unfold dataset_check. destruct (starts_with reserved_prefix d); [discriminate|].
  destruct (nochar DOT d); [|discriminate]. simpl. destruct (is_xml_tag d) eqn:E; [|discriminate].
  intros _. split; [apply names_are_xml_names; exact E|split; reflexivity].
Qed.
Lemma dataset_cell_ok c : dataset_cell_check c = None ->
  exists d, c = Some d /\ d <> [] /\ xml_name d = true /\ nochar DOT d = true /\ starts_with reserved_prefix d = false.
Proof.
  destruct c as [[|x r]|]; cbn [dataset_cell_check]; try discriminate. intro H. exists (x :: r). split; [reflexivity|split; [discriminate|]].
  apply dataset_ok_is_xml_name; exact H.
Qed.
Lemma dataset_cell_total c : (exists n, dataset_cell_check c = Some n /\ n <= 3) \/ dataset_cell_check c = None.
Proof.
  destruct c as [[|x r]|]; cbn [dataset_cell_check]; [left; exists 0; split; [reflexivity|lia]| |left; exists 0; split; [reflexivity|lia]].
  unfold dataset_check. destruct (starts_with reserved_prefix (x :: r)); [left; exists 1; split; [reflexivity|lia]|].
  destruct (negb (nochar DOT (x :: r))); [left; exists 2; split; [reflexivity|lia]|].
  destruct (negb (is_xml_tag (x :: r))); [left; exists 3; split; [reflexivity|lia]|right; reflexivity].
Qed.
Lemma saveto_ok_is_xml_name sv : saveto_name_check sv = None ->
  xml_name sv = true /\ lower_ascii sv <> s_name /\ lower_ascii sv <> s_label /\ starts_with reserved_prefix sv = false.
Proof.
  unfold saveto_name_check.
  destruct (seqb_spec (lower_ascii sv) s_name); [discriminate|]. destruct (seqb_spec (lower_ascii sv) s_label); [discriminate|]. simpl.
  destruct (starts_with reserved_prefix sv); [discriminate|]. destruct (is_xml_tag sv) eqn:E; [|discriminate].
  intros _. repeat split; try assumption. apply names_are_xml_names; exact E.
Qed.
