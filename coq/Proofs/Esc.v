(* Proofs/Esc.v — escaping lemmas: unescape inverts both writers' escaping; escaped text is free of
   LT, written attribute data is free of QUOT. *)
Require Import PX.Base.Str PX.Model.Dom PX.Spec.XmlParse.

Definition good_esc (e : char -> str) : Prop :=
  forall c, (c = AMP /\ e c = s_amp) \/ (c = LT /\ e c = s_lt) \/ (c = GT /\ e c = s_gt)
         \/ (c = QUOT /\ e c = s_quot) \/ (c <> AMP /\ c <> LT /\ e c = [c]).

Lemma good_text : good_esc esc_char_text.
Proof.
  intro c. unfold esc_char_text.
  destruct (ceq_spec c AMP); [left; auto|].
  destruct (ceq_spec c LT); [right; left; auto|].
  destruct (ceq_spec c GT); [right; right; left; auto|].
  right; right; right; right; auto.
Qed.
Lemma good_attr : good_esc esc_char_attr.
Proof.
  intro c. unfold esc_char_attr.
  destruct (ceq_spec c AMP); [left; auto|].
  destruct (ceq_spec c LT); [right; left; auto|].
  destruct (ceq_spec c QUOT); [right; right; right; left; auto|].
  destruct (ceq_spec c GT); [right; right; left; auto|].
  right; right; right; right; auto.
Qed.

Lemma unesc_amp r : unesc (s_amp ++ r) = option_map (cons AMP) (unesc r).
Proof. reflexivity. Qed.
Lemma unesc_lt r : unesc (s_lt ++ r) = option_map (cons LT) (unesc r).
Proof. reflexivity. Qed.
Lemma unesc_gt r : unesc (s_gt ++ r) = option_map (cons GT) (unesc r).
Proof. reflexivity. Qed.
Lemma unesc_quot r : unesc (s_quot ++ r) = option_map (cons QUOT) (unesc r).
Proof. reflexivity. Qed.
Lemma unesc_plain c r : c <> AMP -> c <> LT -> unesc (c :: r) = option_map (cons c) (unesc r).
Proof. intros H1 H2. cbn [unesc]. destruct (ceq_spec c AMP); [contradiction|]. destruct (ceq_spec c LT); [contradiction|]. reflexivity. Qed.

Lemma unesc_esc_app e : good_esc e -> forall s r,
  unesc (flat_map e s ++ r) = option_map (app s) (unesc r).
Proof.
  intros He s r. induction s as [|c s IH].
  - simpl. destruct (unesc r); reflexivity.
  - change (flat_map e (c :: s)) with (e c ++ flat_map e s). rewrite <- app_assoc.
    destruct (He c) as [[-> E]|[[-> E]|[[-> E]|[[-> E]|(Hn1 & Hn2 & E)]]]]; rewrite E.
    + rewrite unesc_amp, IH. destruct (unesc r); reflexivity.
    + rewrite unesc_lt, IH. destruct (unesc r); reflexivity.
    + rewrite unesc_gt, IH. destruct (unesc r); reflexivity.
    + rewrite unesc_quot, IH. destruct (unesc r); reflexivity.
    + cbn [app]. rewrite unesc_plain, IH by assumption. destruct (unesc r); reflexivity.
Qed.
Lemma unesc_esc e s : good_esc e -> unesc (flat_map e s) = Some s.
Proof. intro He. rewrite <- (app_nil_r (flat_map e s)), unesc_esc_app by assumption. simpl. rewrite app_nil_r. reflexivity. Qed.

Lemma esc_no_lt e : good_esc e -> forall s, forallb (notc LT) (flat_map e s) = true.
Proof.
  intros He s. induction s as [|c s IH]; [reflexivity|].
  change (flat_map e (c :: s)) with (e c ++ flat_map e s). rewrite forallb_app.
  apply andb_true_intro; split; [|exact IH].
  destruct (He c) as [[-> ->]|[[-> ->]|[[-> ->]|[[-> ->]|(Hn1 & Hn2 & ->)]]]]; try reflexivity.
  simpl. unfold notc. destruct (ceq_spec c LT); [contradiction|reflexivity].
Qed.
Lemma wdata_no_quot s : forallb (notc QUOT) (wdata s) = true.
Proof.
  unfold wdata. induction s as [|c s IH]; [reflexivity|].
  change (flat_map esc_char_attr (c :: s)) with (esc_char_attr c ++ flat_map esc_char_attr s).
  rewrite forallb_app. apply andb_true_intro; split; [|exact IH].
  unfold esc_char_attr.
  destruct (ceq_spec c AMP); [reflexivity|]. destruct (ceq_spec c LT); [reflexivity|].
  destruct (ceq_spec c QUOT); [reflexivity|]. destruct (ceq_spec c GT); [reflexivity|].
  simpl. unfold notc. destruct (ceq_spec c QUOT); [contradiction|reflexivity].
Qed.

(* the two user-facing round trips (C06 channels): text node and attribute value *)
Lemma unescape_escape_text s : unesc (esc_text s) = Some s.
Proof. apply unesc_esc, good_text. Qed.
Lemma unescape_write_data s : unesc (wdata s) = Some s.
Proof. apply unesc_esc, good_attr. Qed.
