(* Proofs/FindCalls.v — a call whose arguments nest parentheses to ANY depth is found from its keyword to its own closing parenthesis. *)
Require Import PX.Base.Str PX.Model.FindCalls.
From Coq Require Import Lia.
Local Open Scope N_scope.
(* texts whose parentheses are balanced *)
Inductive balanced : str -> Prop :=
| b_nil : balanced []
| b_char c r : c <> LPc -> c <> RPc -> balanced r -> balanced (c :: r)
| b_group a r : balanced a -> balanced r -> balanced (LPc :: a ++ RPc :: r).
Lemma omap_add0 (o : option nat) : option_map (Nat.add 0) o = o.
Proof. destruct o; reflexivity. Qed.
Lemma omap_S_add n (o : option nat) : option_map S (option_map (Nat.add n) o) = option_map (Nat.add (S n)) o.
Proof. destruct o; reflexivity. Qed.
(* scanning through balanced text leaves the depth as it was *)
Lemma scan_balanced b : balanced b -> forall d rest, close_paren (S d) (b ++ rest) = option_map (Nat.add (length b)) (close_paren (S d) rest).
Proof.
  induction 1 as [|c r Hl Hr _ IH|a r _ IHa _ IHr]; intros d rest.
  - cbn [app length]. rewrite omap_add0. reflexivity.
  - cbn [app close_paren length]. destruct (N.eqb_spec c LPc); [contradiction|]. destruct (N.eqb_spec c RPc); [contradiction|].
    rewrite IH, omap_S_add. reflexivity.
  - cbn [app close_paren length]. change (LPc =? LPc) with true. cbv iota. rewrite <- app_assoc. rewrite (IHa (S d)). cbn [app close_paren].
    change (RPc =? LPc) with false. change (RPc =? RPc) with true. cbv iota. rewrite IHr.
    destruct (close_paren (S d) rest) as [k|]; cbn [option_map]; [|reflexivity]. f_equal. rewrite app_length. cbn [length]. lia.
Qed.
Theorem balanced_arguments_closed body post : balanced body -> close_paren 1 (body ++ RPc :: post) = Some (S (length body)).
Proof.
  intro H. rewrite (scan_balanced body H 0). cbn [close_paren]. change (RPc =? LPc) with false. change (RPc =? RPc) with true. cbn [option_map]. f_equal. lia.
Qed.
Lemma skipn_app_exact {A} (a b : list A) n : n = length a -> skipn n (a ++ b) = b.
Proof. intros ->. induction a; [reflexivity|exact IHa]. Qed.
(* the first call of a text: from the first occurrence of the keyword to the parenthesis that closes it, whatever the nesting inside *)
Theorem first_call_found pre body post :
  find_sub KW (pre ++ KW ++ body ++ RPc :: post) = Some (length pre) -> balanced body ->
  exists more, find_calls (pre ++ KW ++ body ++ RPc :: post) = (length pre, (length pre + 15 + S (length body))%nat) :: more.
Proof.
  intros Hf Hb. unfold find_calls. cbn [find_calls_from]. rewrite Hf.
  assert (Hs : skipn (length pre + 15) (pre ++ KW ++ body ++ RPc :: post) = body ++ RPc :: post).
  { rewrite app_assoc. apply skipn_app_exact. rewrite app_length. reflexivity. }
  rewrite Hs, (balanced_arguments_closed body post Hb). eexists. reflexivity.
Qed.
(* three levels of nested parentheses, which the pattern used before fix caa49eb could not delimit *)
Example deep_call :
  find_calls [120;43;105;110;100;101;120;101;100;45;114;101;112;101;97;116;40;97;44;98;44;105;102;40;109;97;120;40;109;105;110;40;49;44;50;41;44;51;41;44;49;41;41;43;121]
  = [(2, 43)]%nat.
Proof. vm_compute. reflexivity. Qed.
