(* Proofs/Flat.v — under the flat setting, xpaths are the paths of the instance nodes, and the (repaired) validation makes the instance unambiguous at every depth *)
Require Import PX.Base.Str PX.Model.Flat.
From Coq Require Import Lia.

(* induction principle for the nested tree *)
Lemma ft_ind2 (P : ft -> Prop) :
  (forall n, P (FQ n)) -> (forall n fl kids, Forall P kids -> P (FS n fl kids)) -> forall t, P t.
Proof.
  intros HQ HS. fix IH 1. intros [n|n fl kids]; [apply HQ|]. apply HS. induction kids as [|k ks IHk]; constructor; [apply IH|exact IHk].
Qed.

(* the names of the nodes an element contributes are the names the validator looks at *)
Lemma inames_inst t : map iname (inst_list t) = inames t.
Proof.
  induction t as [n|n fl kids IH] using ft_ind2; [reflexivity|]. destruct fl; cbn [inst_list inames]; [|reflexivity].
  induction IH as [|k ks Hk _ IHks]; [reflexivity|]. cbn [flat_map]. rewrite map_app, Hk, IHks. reflexivity.
Qed.
Lemma inames_inst_list kids : map iname (flat_map inst_list kids) = flat_map inames kids.
Proof. induction kids as [|k ks IH]; [reflexivity|]. cbn [flat_map]. rewrite map_app, inames_inst, IH. reflexivity. Qed.

(* model, instance and body agree under `flat`: the xpath of every element with a node is the path of its node, in the same order *)
Lemma xpaths_ipaths t : forall pre, xpaths pre t = flat_map (ipaths pre) (inst_list t).
Proof.
  induction t as [n|n fl kids IH] using ft_ind2; intro pre; [reflexivity|].
  assert (H : forall p, flat_map (xpaths p) kids = flat_map (ipaths p) (flat_map inst_list kids)).
  { intro p. induction IH as [|k ks Hk _ IHks]; [reflexivity|]. cbn [flat_map]. rewrite flat_map_app, Hk, IHks. reflexivity. }
  destruct fl; cbn [inst_list xpaths].
  - apply H.
  - cbn [flat_map ipaths]. rewrite app_nil_r, H. reflexivity.
Qed.
Theorem flat_paths_agree name kids :
  xpaths [] (FS name false kids) = flat_map (ipaths []) (inst_list (FS name false kids)).
Proof. apply xpaths_ipaths. Qed.

Section Key.
Variable key : str -> str.
Fixpoint it_unique (x : it) : Prop :=
  match x with IN _ kids => NoDup (map key (map iname kids)) /\ (fix all (l : list it) : Prop := match l with [] => True | k :: r => it_unique k /\ all r end) kids end.
Definition all_unique (l : list it) : Prop := (fix all (l : list it) : Prop := match l with [] => True | k :: r => it_unique k /\ all r end) l.
Lemma it_unique_eq n kids : it_unique (IN n kids) = (NoDup (map key (map iname kids)) /\ all_unique kids).
Proof. reflexivity. Qed.
Lemma all_unique_app a b : all_unique (a ++ b) <-> all_unique a /\ all_unique b.
Proof. induction a as [|x a IH]; cbn [app all_unique]; [tauto|]. fold (all_unique (a ++ b)). fold (all_unique a). rewrite IH. tauto. Qed.

Lemma dup_free_spec l : forall seen, dup_free key seen l = true ->
  NoDup (map key l) /\ forall x, In x l -> existsb (seqb (key x)) seen = false.
Proof.
  induction l as [|x r IH]; intros seen H; [split; [constructor|intros ? []]|].
  cbn [dup_free] in H. apply andb_true_iff in H as [Hx Hr]. apply negb_true_iff in Hx.
  destruct (IH _ Hr) as [Hnd Hseen]. split.
  - cbn [map]. constructor; [|exact Hnd]. intro Hin. apply in_map_iff in Hin as [y [Ey Hy]].
    specialize (Hseen y Hy). cbn [existsb] in Hseen. rewrite Ey, seqb_refl in Hseen. discriminate.
  - intros y [<-|Hy]; [exact Hx|]. specialize (Hseen y Hy). cbn [existsb] in Hseen. apply orb_false_iff in Hseen. exact (proj2 Hseen).
Qed.

(* a valid tree gives an instance in which the children of every node have distinct keys, at every depth *)
Lemma valid_unique t : valid key t = true -> all_unique (inst_list t).
Proof.
  induction t as [n|n fl kids IH] using ft_ind2; intro H; [cbn; repeat split; constructor|].
  cbn [valid] in H. apply andb_true_iff in H as [Hk Hd].
  assert (Hall : all_unique (flat_map inst_list kids)).
  { clear Hd. induction IH as [|k ks Hk1 _ IHks]; [exact I|]. cbn [forallb] in Hk. apply andb_true_iff in Hk as [Hv Hvs].
    cbn [flat_map]. apply all_unique_app. split; [apply Hk1; exact Hv|apply IHks; exact Hvs]. }
  destruct fl; cbn [inst_list]; [exact Hall|].
  cbn [all_unique]. split; [|exact I]. rewrite it_unique_eq. split; [|exact Hall].
  rewrite inames_inst_list. exact (proj1 (dup_free_spec _ _ Hd)).
Qed.
Theorem flat_valid_instance_unambiguous name kids :
  valid key (FS name false kids) = true -> it_unique (IN name (flat_map inst_list kids)).
Proof. intro H. pose proof (valid_unique _ H) as U. cbn [inst_list all_unique] in U. exact (proj1 U). Qed.
End Key.

(* the rule as it was before fix 554d112 — uniqueness among the section's own children only — does NOT make the instance unambiguous *)
Definition sname (t : ft) : str := match t with FQ n => n | FS n _ _ => n end.
Fixpoint valid_per_section (key : str -> str) (t : ft) : bool :=
  match t with
  | FQ _ => true
  | FS _ _ kids => forallb (valid_per_section key) kids && dup_free key [] (map sname kids)
  end.
Local Open Scope N_scope.
Definition f35_kids : list ft := [FS [103;49] true [FQ [97]]; FS [103;50] true [FQ [97]]].
Definition f35_witness : ft := FS [100] false f35_kids.
Theorem per_section_rule_refuted :
  valid_per_section (fun s => s) f35_witness = true /\ ~ it_unique (fun s => s) (IN [100] (flat_map inst_list f35_kids))
  /\ valid (fun s => s) f35_witness = false.
Proof.
  split; [reflexivity|]. split; [|reflexivity]. cbn. intros [H _]. inversion H as [|x l Hn _]; subst. apply Hn. left; reflexivity.
Qed.
