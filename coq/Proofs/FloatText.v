(* Proofs/FloatText.v — float_to_str (Model/Backends.v float_text): a float's repr without exponent is kept as it is; one with a negative
   exponent e-n (the form str() gives a small non-integral float: one integer digit, optional fraction) has its point moved n places
   to the left, so the text reads 0.000ddd with the same digits. *)
Require Import PX.Base.Str PX.Model.Backends.
From Coq Require Import Lia.
Local Open Scope N_scope.

Definition isdigit (c : N) : bool := (48 <=? c) && (c <=? 57).
Lemma digit_neq c x : isdigit c = true -> (x <? 48) || (57 <? x) = true -> ceq c x = false.
Proof.
  unfold isdigit, ceq. intros H Hx. apply andb_true_iff in H as [H1 H2]. apply N.leb_le in H1. apply N.leb_le in H2.
  apply N.eqb_neq. intro E. subst x. apply orb_true_iff in Hx as [Hx|Hx]; apply N.ltb_lt in Hx; lia.
Qed.
Lemma span_all p (r : str) : forallb p r = true -> span p r = (r, []).
Proof. intro H. rewrite <- (app_nil_r r) at 1. apply span_app; [exact H|exact I]. Qed.
Lemma digits_no c (l : str) : (c <? 48) || (57 <? c) = true -> forallb isdigit l = true -> forallb (fun x => negb (ceq x c)) l = true.
Proof.
  intros Hc. induction l as [|x r IH]; intro H; [reflexivity|]. cbn [forallb] in *. apply andb_true_iff in H as [H1 H2].
  rewrite (digit_neq x c H1 Hc), (IH H2). reflexivity.
Qed.

Theorem float_text_plain r : nochar CH_E r = true -> float_text r = r.
Proof. intro H. unfold float_text. rewrite (span_all _ r H). reflexivity. Qed.

Definition sign (neg : bool) : str := if neg then [CH_MINUS] else [].
Definition frac (fp : str) : str := match fp with [] => [] | _ => CH_DOT :: fp end.
Theorem float_text_small neg d fp ed :
  forallb isdigit (d :: fp) = true -> (1 <= nat_of_digits ed)%nat ->
  float_text (sign neg ++ d :: frac fp ++ CH_E :: CH_MINUS :: ed)
  = sign neg ++ CH_0 :: CH_DOT :: repeat CH_0 (nat_of_digits ed - 1) ++ d :: fp.
Proof.
  intros Hd Hn. cbn [forallb] in Hd. apply andb_true_iff in Hd as [Hd Hfp].
  assert (He : forallb (fun c => negb (ceq c CH_E)) (sign neg ++ d :: frac fp) = true).
  { rewrite forallb_app. cbn [forallb]. rewrite (digit_neq d CH_E Hd eq_refl). cbn [negb andb].
    assert (forallb (fun c => negb (ceq c CH_E)) (frac fp) = true) as ->.
    { destruct fp as [|f fp']; [reflexivity|]. unfold frac. cbn [forallb]. change (ceq CH_DOT CH_E) with false. cbn [negb andb].
      exact (digits_no CH_E (f :: fp') eq_refl Hfp). }
    destruct neg; reflexivity. }
  unfold float_text.
  replace (sign neg ++ d :: frac fp ++ CH_E :: CH_MINUS :: ed) with ((sign neg ++ d :: frac fp) ++ CH_E :: CH_MINUS :: ed)
    by (rewrite <- app_assoc; reflexivity).
  rewrite (span_app _ _ _ He) by reflexivity.
  assert (Hdm : ceq d CH_MINUS = false) by (apply digit_neq; [exact Hd|reflexivity]).
  assert (Hdd : negb (ceq d CH_DOT) = true) by (rewrite (digit_neq d CH_DOT Hd eq_refl); reflexivity).
  assert (Hm : (let (ip, fp0) := span (fun c => negb (ceq c CH_DOT)) (d :: frac fp) in (ip, match fp0 with _ :: f => f | [] => [] end)) = ([d], fp)).
  { cbn [span]. rewrite Hdd. destruct fp as [|f fp']; [reflexivity|]. unfold frac. cbn [span]. reflexivity. }
  assert (Hs : shift_point neg [d] fp true (nat_of_digits ed) = sign neg ++ CH_0 :: CH_DOT :: repeat CH_0 (nat_of_digits ed - 1) ++ d :: fp).
  { unfold shift_point. cbn [length]. destruct (Nat.ltb_spec (nat_of_digits ed) 1) as [Hl|_]; [lia|]. destruct neg; reflexivity. }
  destruct neg; cbn [sign app].
  - change (ceq CH_MINUS CH_MINUS) with true. cbn iota.
    destruct (span (fun c => negb (ceq c CH_DOT)) (d :: frac fp)) as [ip fp0] eqn:E. injection Hm as -> Hfp0.
    change (ceq CH_MINUS CH_MINUS) with true. cbn iota. rewrite Hfp0. exact Hs.
  - rewrite Hdm.
    destruct (span (fun c => negb (ceq c CH_DOT)) (d :: frac fp)) as [ip fp0] eqn:E. injection Hm as -> Hfp0.
    change (ceq CH_MINUS CH_MINUS) with true. cbn iota. rewrite Hfp0. exact Hs.
Qed.
(* so the result has no exponent marker, and holds the digits of the mantissa in their order after n-1 zeros *)
Corollary float_text_small_no_exponent neg d fp ed :
  forallb isdigit (d :: fp) = true -> (1 <= nat_of_digits ed)%nat ->
  nochar CH_E (float_text (sign neg ++ d :: frac fp ++ CH_E :: CH_MINUS :: ed)) = true.
Proof.
  intros Hd Hn. rewrite (float_text_small neg d fp ed Hd Hn). unfold nochar. rewrite forallb_app.
  assert (forallb (fun x => negb (ceq x CH_E)) (sign neg) = true) as -> by (destruct neg; reflexivity).
  cbn [forallb andb]. change (ceq CH_0 CH_E) with false. change (ceq CH_DOT CH_E) with false. cbn [negb andb].
  rewrite forallb_app. apply andb_true_iff. split.
  - induction (nat_of_digits ed - 1)%nat as [|k IH]; [reflexivity|]. cbn [repeat forallb]. change (ceq CH_0 CH_E) with false. exact IH.
  - exact (digits_no CH_E (d :: fp) eq_refl Hd).
Qed.
Example float_text_examples :
  float_text [49;101;45;48;53] = [48;46;48;48;48;48;49]                      (* 1e-05 -> 0.00001 *)
  /\ float_text [45;51;46;50;101;45;48;57] = [45;48;46;48;48;48;48;48;48;48;48;51;50]    (* -3.2e-09 -> -0.0000000032 *)
  /\ float_text [50;46;53] = [50;46;53]                                       (* 2.5 *)
  /\ float_text [49;46;50;53;101;43;49] = [49;50;46;53].                      (* 1.25e+1 -> 12.5 *)
Proof. vm_compute. repeat split; reflexivity. Qed.
