(* Proofs/Grid.v — empty-run limits and trailing trim of the grid readers (DESIGN.md Appendix A.3). *)
Require Import PX.Base.Str PX.Spec.Runs PX.Model.Backends.

Section Gen.
Context {A : Type}.
Variable empty : A -> bool.
(* the loop counter: length of the run of empties at the end of what has been consumed *)
Fixpoint tr (k : nat) (l : list A) : nat :=
  match l with [] => k | x :: r => if empty x then tr (S k) r else tr 0 r end.

Lemma tr_snoc : forall l k x, tr k (l ++ [x]) = if empty x then S (tr k l) else 0.
Proof. induction l as [|y l IH]; intros k x; simpl; [destruct (empty x); reflexivity|]. destruct (empty y); apply IH. Qed.

Lemma tr_le : forall l k, tr k l <= k + length l.
Proof. induction l as [|y l IH]; intro k; simpl; [lia|]. destruct (empty y); [specialize (IH (S k))|specialize (IH 0)]; lia. Qed.

Variable e : A.
Hypothesis empty_e : empty e = true.
Hypothesis empty_unique : forall x, empty x = true -> x = e.

(* trimming by the loop counter removes exactly the trailing empties *)
Lemma trim_spec : forall l,
  l = trim_trailing_empty l (tr 0 l) ++ repeat e (tr 0 l)
  /\ (forall x, last (trim_trailing_empty l (tr 0 l)) x = x \/ empty (last (trim_trailing_empty l (tr 0 l)) x) = false).
Proof.
  induction l as [|x l IH] using rev_ind.
  - simpl. split; [reflexivity|]. intro x. left. reflexivity.
  - rewrite tr_snoc. destruct (empty x) eqn:Ex.
    + apply empty_unique in Ex. subst x. destruct IH as [IH1 IH2].
      pose proof (tr_le l 0) as Hle. simpl in Hle.
      assert (Ht : trim_trailing_empty (l ++ [e]) (S (tr 0 l)) = trim_trailing_empty l (tr 0 l)).
      { unfold trim_trailing_empty. simpl Nat.ltb. rewrite app_length. simpl length.
        replace (length l + 1 - S (tr 0 l)) with (length l - tr 0 l) by lia.
        rewrite firstn_app. replace (length l - tr 0 l - length l) with 0 by lia. simpl. rewrite app_nil_r.
        destruct (Nat.ltb_spec 0 (tr 0 l)); [reflexivity|].
        replace (tr 0 l) with 0 by lia. rewrite Nat.sub_0_r. apply firstn_all. }
      rewrite Ht. split; [|exact IH2].
      rewrite IH1 at 1. rewrite <- app_assoc. f_equal.
      cbn [repeat]. symmetry. apply repeat_cons.
    + unfold trim_trailing_empty. simpl. rewrite app_nil_r. split; [reflexivity|].
      intro y. right. rewrite last_last. exact Ex.
Qed.
End Gen.

(* ---- rows ---- *)
Definition isnil (d : rowdict) : bool := match d with [] => true | _ => false end.

Lemma row_loop_no_break max : forall rows acc adj,
  runs_ok isnil max adj rows = true -> row_loop max rows acc adj = (acc ++ rows, tr isnil adj rows).
Proof.
  induction rows as [|d rows IH]; intros acc adj H; simpl in *.
  - rewrite app_nil_r. reflexivity.
  - destruct d as [|p d]; simpl in *.
    + apply andb_true_iff in H as [Hk H]. apply Nat.ltb_lt in Hk.
      destruct (Nat.eqb_spec max adj); [lia|]. rewrite IH by exact H. rewrite <- app_assoc. reflexivity.
    + rewrite IH by exact H. rewrite <- app_assoc. reflexivity.
Qed.

(* get_excel_rows returns every row up to the last non-empty one, whenever no interior run of empty rows
   is longer than max: the input is the result followed by nothing but empty rows. *)
Theorem rows_never_truncated max rows : runs_ok isnil max 0 rows = true ->
  exists n, rows = get_excel_rows max rows ++ repeat [] n
         /\ (forall x, last (get_excel_rows max rows) x = x \/ isnil (last (get_excel_rows max rows) x) = false).
Proof.
  intro H. unfold get_excel_rows. rewrite row_loop_no_break by exact H. cbn [app].
  exists (tr isnil 0 rows).
  apply trim_spec; try reflexivity; intros x Hx; destruct x; (reflexivity || discriminate).
Qed.

(* ---- headers ---- *)
Section Hdr.
Variable strip : str -> str.
Definition isnone (h : option str) : bool := match h with None => true | Some _ => false end.
Definition clean_opt (h : option str) : option str := option_map (clean_header strip) h.
Definition in_acc (acc : list (option str)) (h : str) : bool :=
  existsb (fun x => match x with Some y => seqb y h | None => false end) acc.
(* no raw header equals an earlier cleaned header *)
Fixpoint no_dups (acc : list (option str)) (row : list (option str)) : bool :=
  match row with
  | [] => true
  | None :: r => no_dups (acc ++ [None]) r
  | Some h :: r => negb (in_acc acc h) && no_dups (acc ++ [Some (clean_header strip h)]) r
  end.

Lemma hdr_loop_no_break max : forall row acc adj,
  runs_ok isnone max adj row = true -> no_dups acc row = true ->
  hdr_loop strip max row acc adj = Ok (acc ++ map clean_opt row, tr isnone adj row).
Proof.
  induction row as [|h row IH]; intros acc adj H Hd; simpl in *.
  - rewrite app_nil_r. reflexivity.
  - destruct h as [h|]; simpl in *.
    + apply andb_true_iff in Hd as [Hn Hd]. apply negb_true_iff in Hn. unfold in_acc in Hn. rewrite Hn.
      rewrite IH by assumption. rewrite <- app_assoc. reflexivity.
    + apply andb_true_iff in H as [Hk H]. apply Nat.ltb_lt in Hk.
      destruct (Nat.eqb_spec max adj); [lia|]. rewrite IH by assumption. rewrite <- app_assoc. reflexivity.
Qed.

Theorem headers_never_truncated max row : runs_ok isnone max 0 row = true -> no_dups [] row = true ->
  exists hs n, get_excel_column_headers strip max row = Ok hs
         /\ map clean_opt row = hs ++ repeat None n
         /\ (forall x, last hs x = x \/ isnone (last hs x) = false).
Proof.
  intros H Hd. unfold get_excel_column_headers. rewrite hdr_loop_no_break by assumption. cbn [app].
  assert (Htr : tr isnone 0 row = tr isnone 0 (map clean_opt row)).
  { clear H Hd. generalize 0 as k. induction row as [|h r IHr]; intro k; [reflexivity|]. destruct h; simpl; apply IHr. }
  rewrite Htr.
  eexists _, _. split; [reflexivity|].
  apply trim_spec; try reflexivity; intros x Hx; destruct x; (reflexivity || discriminate).
Qed.
End Hdr.

(* ---- the truncating case, for completeness: the first run longer than max ends the sheet ---- *)
Lemma row_loop_break max : forall pre acc adj rest,
  runs_ok isnil max adj pre = true -> tr isnil adj pre = max ->
  row_loop max (pre ++ [] :: rest) acc adj = (acc ++ pre, max).
Proof.
  induction pre as [|d pre IH]; intros acc adj rest H Ht; simpl in *.
  - subst. rewrite Nat.eqb_refl, app_nil_r. reflexivity.
  - destruct d as [|p d]; simpl in *.
    + apply andb_true_iff in H as [Hk H]. apply Nat.ltb_lt in Hk.
      destruct (Nat.eqb_spec max adj); [lia|]. rewrite IH by assumption. rewrite <- app_assoc. reflexivity.
    + rewrite IH by assumption. rewrite <- app_assoc. reflexivity.
Qed.
