(* Proofs/InPredicate.v — a reference after an opening bracket that is still open is inside a predicate, however many complete predicates
   (nested to any depth) stand before it or between the bracket and it; after complete predicates only, it is outside (defect F74: the
   pattern used before stopped at the first closing bracket). *)
Require Import PX.Base.Str PX.Model.InPredicate.
From Coq Require Import Lia.
Local Open Scope N_scope.
Inductive bbalanced : str -> Prop :=
| bb_nil : bbalanced []
| bb_char c r : c <> LB -> c <> RB -> bbalanced r -> bbalanced (c :: r)
| bb_group a r : bbalanced a -> bbalanced r -> bbalanced (LB :: a ++ RB :: r).
Lemma count_app c a b : count_c c (a ++ b) = (count_c c a + count_c c b)%nat.
Proof. unfold count_c. rewrite filter_app, app_length. reflexivity. Qed.
Lemma count_cons c x r : count_c c (x :: r) = ((if N.eqb x c then 1 else 0) + count_c c r)%nat.
Proof. unfold count_c. cbn [filter]. destruct (N.eqb x c); reflexivity. Qed.
Lemma balanced_counts s : bbalanced s -> count_c LB s = count_c RB s.
Proof.
  induction 1 as [|c r Hl Hr _ IH|a r _ IHa _ IHr]; [reflexivity| |].
  - rewrite !count_cons. destruct (N.eqb_spec c LB); [contradiction|]. destruct (N.eqb_spec c RB); [contradiction|]. lia.
  - rewrite !count_cons, !count_app, !count_cons. change (LB =? LB) with true. change (LB =? RB) with false. change (RB =? LB) with false. change (RB =? RB) with true. lia.
Qed.
Theorem open_bracket_is_inside a b : bbalanced a -> bbalanced b -> in_predicate (a ++ LB :: b) = true.
Proof.
  intros Ha Hb. unfold in_predicate. rewrite !count_app, !count_cons. change (LB =? RB) with false. change (LB =? LB) with true.
  rewrite (balanced_counts a Ha), (balanced_counts b Hb). apply Nat.ltb_lt. lia.
Qed.
Theorem two_open_brackets_inside a b c : bbalanced a -> bbalanced b -> bbalanced c -> in_predicate (a ++ LB :: b ++ LB :: c) = true.
Proof.
  intros Ha Hb Hc. unfold in_predicate. rewrite !count_app, !count_cons, !count_app, !count_cons. change (LB =? RB) with false. change (LB =? LB) with true.
  rewrite (balanced_counts a Ha), (balanced_counts b Hb), (balanced_counts c Hc). apply Nat.ltb_lt. lia.
Qed.
Theorem after_complete_predicates_outside a : bbalanced a -> in_predicate a = false.
Proof. intro Ha. unfold in_predicate. rewrite (balanced_counts a Ha). apply Nat.ltb_irrefl. Qed.
