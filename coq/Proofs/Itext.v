(* Proofs/Itext.v — after padding, each (language, id, form) holds the text written for it or the placeholder,
   never anything else; every language has the same ids and forms. *)
Require Import PX.Base.Str PX.Model.Warnings PX.Model.Itext PX.Proofs.Warn.

Section Assoc.
Context {V : Type}.
Lemma fget_fset_same k (v : V) d : fget k (fset k v d) = Some v.
Proof. induction d as [|[a w] r IH]; simpl; [rewrite seqb_refl; reflexivity|]. destruct (seqb a k) eqn:E; simpl; rewrite E; [reflexivity|exact IH]. Qed.
Lemma fget_fset_other k k' (v : V) d : k' <> k -> fget k' (fset k v d) = fget k' d.
Proof.
  intro H. induction d as [|[a w] r IH]; simpl.
  - destruct (seqb_spec k k'); [congruence|reflexivity].
  - destruct (seqb_spec a k); simpl.
    + subst. destruct (seqb_spec k k'); [congruence|reflexivity].
    + destruct (seqb a k'); [reflexivity|exact IH].
Qed.
Lemma fget_fset k k' (v : V) d : fget k' (fset k v d) = if seqb k k' then Some v else fget k' d.
Proof. destruct (seqb_spec k k') as [->|H]; [apply fget_fset_same|apply fget_fset_other; congruence]. Qed.
Lemma keys_fset k (v : V) d : map fst (fset k v d) = if mem k (map fst d) then map fst d else map fst d ++ [k].
Proof.
  induction d as [|[a w] r IH]; simpl; [reflexivity|].
  destruct (seqb_spec a k).
  - subst. simpl. rewrite seqb_refl. reflexivity.
  - simpl. rewrite IH. unfold mem. simpl. destruct (seqb_spec k a); [congruence|]. simpl.
    destruct (existsb (seqb k) (map fst r)); reflexivity.
Qed.
End Assoc.

Definition G (a : list (str * list str)) (i : str) : list str := match fget i a with Some x => x | None => [] end.
Definition LK (li : ids) (i fm : str) : option str := match fget i li with Some fi => fget fm fi | None => None end.
Definition addall (fi : forms) (c : list str) : list str := fold_left (fun c fm => add_set (fst fm) c) fi c.

Lemma mem_add_set x y c : mem x (add_set y c) = mem x c || seqb x y.
Proof.
  unfold add_set. destruct (mem y c) eqn:E.
  - destruct (seqb_spec x y); [subst; rewrite E; reflexivity|rewrite orb_false_r; reflexivity].
  - unfold mem. rewrite existsb_app. simpl. rewrite orb_false_r. reflexivity.
Qed.
Lemma mem_addall x : forall fi c, mem x (addall fi c) = mem x c || mem x (map fst fi).
Proof.
  unfold addall. induction fi as [|[f t] fi IH]; intro c; simpl; [rewrite orb_false_r; reflexivity|].
  rewrite IH, mem_add_set. unfold mem at 3. simpl. rewrite <- orb_assoc. reflexivity.
Qed.

(* forms known for an id after merging one language's ids *)
Lemma G_union : forall li acc i fm,
  mem fm (G (union_forms acc li) i) = mem fm (G acc i) || existsb (fun p => seqb (fst p) i && mem fm (map fst (snd p))) li.
Proof.
  unfold union_forms. induction li as [|[i0 fi0] li IH]; intros acc i fm; simpl; [rewrite orb_false_r; reflexivity|].
  rewrite IH. unfold G at 1. rewrite fget_fset. fold (addall fi0 (G acc i0)).
  destruct (seqb_spec i0 i) as [->|Hne]; simpl.
  - rewrite mem_addall. rewrite <- orb_assoc. reflexivity.
  - reflexivity.
Qed.
Definition has_form (s : store) (i fm : str) : bool :=
  existsb (fun pl => existsb (fun p => seqb (fst p) i && mem fm (map fst (snd p))) (snd pl)) s.
Lemma G_all : forall s acc i fm,
  mem fm (G (fold_left (fun a pl => union_forms a (snd pl)) s acc) i) = mem fm (G acc i) || has_form s i fm.
Proof.
  unfold has_form. induction s as [|[l li] s IH]; intros acc i fm; simpl; [rewrite orb_false_r; reflexivity|].
  rewrite IH, G_union. rewrite <- orb_assoc. reflexivity.
Qed.
Lemma all_paths_forms_spec s i fm : mem fm (G (all_paths_forms s) i) = has_form s i fm.
Proof. unfold all_paths_forms. rewrite G_all. reflexivity. Qed.

(* keys of the union are unique (it is a dict) *)
Lemma NoDup_keys_fset {V} k (v : V) d : NoDup (map fst d) -> NoDup (map fst (fset k v d)).
Proof.
  intro H. rewrite keys_fset. destruct (mem k (map fst d)) eqn:E; [exact H|].
  induction (map fst d) as [|a l IHl]; simpl; [constructor; [intros []|constructor]|].
  inversion H; subst. unfold mem in E. simpl in E. apply orb_false_iff in E as [E1 E2]. constructor.
  - intro Hin. apply in_app_or in Hin as [Hin|[<-|[]]]; [contradiction|]. rewrite seqb_refl in E1. discriminate.
  - apply IHl; assumption.
Qed.
Lemma NoDup_union li : forall acc, NoDup (map fst acc) -> NoDup (map fst (union_forms acc li)).
Proof. unfold union_forms. induction li as [|p li IH]; intros acc H; simpl; [exact H|]. apply IH. apply NoDup_keys_fset. exact H. Qed.
Lemma NoDup_all_paths s : NoDup (map fst (all_paths_forms s)).
Proof.
  unfold all_paths_forms. assert (forall acc, NoDup (map fst acc) -> NoDup (map fst (fold_left (fun a pl => union_forms a (snd pl)) s acc))) as H.
  { induction s as [|pl s IH]; intros acc Ha; simpl; [exact Ha|]. apply IH. apply NoDup_union. exact Ha. }
  apply H. constructor.
Qed.
Lemma E_is_G (ps : list (str * list str)) i fm : NoDup (map fst ps) ->
  existsb (fun p => seqb (fst p) i && mem fm (snd p)) ps = mem fm (G ps i).
Proof.
  unfold G. induction ps as [|[k v] ps IH]; intro H; simpl; [reflexivity|].
  inversion H as [|? ? Hnotin H']; subst. destruct (seqb_spec k i) as [->|Hne]; simpl.
  - assert (Hrest : existsb (fun p => seqb (fst p) i && mem fm (snd p)) ps = false).
    { apply not_true_is_false. intro Hex. apply existsb_exists in Hex as ([k' v'] & Hin & Hc). simpl in Hc.
      apply andb_true_iff in Hc as [Hk _]. apply seqb_eq in Hk. subst. apply Hnotin. apply in_map_iff. exists (i, v'). split; [reflexivity|exact Hin]. }
    rewrite Hrest, orb_false_r. reflexivity.
  - apply IH. exact H'.
Qed.

(* padding the forms of one id *)
Lemma padforms_spec fm : forall fms fi,
  fget fm (padforms fms fi) = match fget fm fi with Some t => Some t | None => if mem fm fms then Some DASH else None end.
Proof.
  unfold padforms. induction fms as [|f fms IH]; intro fi; simpl; [destruct (fget fm fi); reflexivity|].
  rewrite IH. destruct (fget f fi) eqn:Ef.
  - destruct (fget fm fi) eqn:Efm; [reflexivity|]. unfold mem. simpl. destruct (seqb_spec fm f) as [->|Hne]; [congruence|reflexivity].
  - rewrite fget_fset. destruct (seqb_spec f fm) as [->|Hne].
    + rewrite Ef. unfold mem. simpl. rewrite seqb_refl. reflexivity.
    + destruct (fget fm fi); [reflexivity|]. unfold mem. simpl. destruct (seqb_spec fm f); [congruence|reflexivity].
Qed.

Lemma fget_Gf li i fm : fget fm (Gf li i) = LK li i fm.
Proof. unfold Gf, LK. destruct (fget i li); reflexivity. Qed.

Lemma pad_lang_spec i fm : forall ps li,
  LK (pad_lang ps li) i fm =
  match LK li i fm with Some t => Some t | None => if existsb (fun p => seqb (fst p) i && mem fm (snd p)) ps then Some DASH else None end.
Proof.
  unfold pad_lang. induction ps as [|[i0 fms] ps IH]; intro li; [simpl; destruct (LK li i fm); reflexivity|].
  cbn [fold_left existsb fst snd]. rewrite IH.
  unfold LK at 1. rewrite fget_fset. destruct (seqb_spec i0 i) as [->|Hne].
  - rewrite padforms_spec, fget_Gf. cbn [andb]. destruct (LK li i fm); [reflexivity|]. destruct (mem fm fms); reflexivity.
  - cbn [andb orb]. reflexivity.
Qed.

Lemma fget_map_pad ps l : forall s, fget l (map (fun p => (fst p, pad_lang ps (snd p))) s) = option_map (pad_lang ps) (fget l s).
Proof. induction s as [|[k li] s IH]; simpl; [reflexivity|]. destruct (seqb k l); [reflexivity|exact IH]. Qed.

(* THE characterisation: what each language shows for each id and form after padding *)
Theorem pad_lookup (s : store) (l i fm : str) :
  lookup (pad s) l i fm =
  match fget l s with
  | None => None
  | Some _ => match lookup s l i fm with
              | Some t => Some t
              | None => if has_form s i fm then Some DASH else None
              end
  end.
Proof.
  unfold lookup, pad. rewrite fget_map_pad. destruct (fget l s) as [li|]; simpl; [|reflexivity].
  pose proof (pad_lang_spec i fm (all_paths_forms s) li) as H. unfold LK in H. rewrite H.
  rewrite (E_is_G _ i fm (NoDup_all_paths s)), all_paths_forms_spec. reflexivity.
Qed.

Lemma fget_lang (s : store) : forall l, In l (langs s) -> exists li, fget l s = Some li.
Proof.
  unfold langs. induction s as [|[k li] s IH]; intros l Hl; [destruct Hl|]. simpl. destruct (seqb_spec k l); [eexists; reflexivity|].
  destruct Hl as [E|Hl]; [simpl in E; congruence|]. apply IH. exact Hl.
Qed.
Lemma fget_in {V} (d : list (str * V)) k v : fget k d = Some v -> In (k, v) d.
Proof. induction d as [|[a w] d IH]; [discriminate|]. simpl. destruct (seqb_spec a k); [intro H; inversion H; subst; left; reflexivity|intro H; right; apply IH; exact H]. Qed.
Lemma lookup_has_form (s : store) l i fm : lookup s l i fm <> None -> has_form s i fm = true.
Proof.
  unfold lookup, has_form. destruct (fget l s) as [li|] eqn:El; [|congruence]. destruct (fget i li) as [fi|] eqn:Ei; [|congruence].
  intro Hf. apply existsb_exists. exists (l, li). split; [apply fget_in; exact El|]. simpl.
  apply existsb_exists. exists (i, fi). split; [apply fget_in; exact Ei|]. simpl. rewrite seqb_refl. simpl.
  destruct (fget fm fi) as [t|] eqn:Ef; [|congruence]. apply mem_In. apply in_map_iff. exists (fm, t). split; [reflexivity|apply fget_in; exact Ef].
Qed.

(* all languages carry the same ids and, per id, the same forms *)
Theorem pad_uniform (s : store) (l1 l2 i fm : str) : In l1 (langs s) -> In l2 (langs s) ->
  (lookup (pad s) l1 i fm <> None <-> lookup (pad s) l2 i fm <> None).
Proof.
  intros H1 H2.
  pose proof (fget_lang s) as Hg.
  rewrite !pad_lookup. destruct (Hg l1 H1) as [li1 ->]. destruct (Hg l2 H2) as [li2 ->].
  split; intro H.
  - destruct (lookup s l1 i fm) eqn:E1.
    + assert (Hf : has_form s i fm = true) by (apply (lookup_has_form s l1); rewrite E1; discriminate).
      rewrite Hf. destruct (lookup s l2 i fm); discriminate.
    + destruct (has_form s i fm); [destruct (lookup s l2 i fm); discriminate|congruence].
  - destruct (lookup s l2 i fm) eqn:E2.
    + assert (Hf : has_form s i fm = true) by (apply (lookup_has_form s l2); rewrite E2; discriminate).
      rewrite Hf. destruct (lookup s l1 i fm); discriminate.
    + destruct (has_form s i fm); [destruct (lookup s l1 i fm); discriminate|congruence].
Qed.

(* ---- every fact is stored; every emitted reference has a fact ---- *)
Lemma lookup_add_fact s l i fm t l' i' fm' :
  lookup (add_fact s (l, i, fm, t)) l' i' fm' = if seqb l l' && seqb i i' && seqb fm fm' then Some t else lookup s l' i' fm'.
Proof.
  unfold lookup, add_fact. rewrite fget_fset. destruct (seqb_spec l l') as [->|Hl]; cbn [andb]; [|reflexivity].
  rewrite fget_fset. destruct (seqb_spec i i') as [->|Hi]; cbn [andb].
  - rewrite fget_fset. destruct (seqb_spec fm fm') as [->|Hf]; [reflexivity|].
    destruct (fget l' s) as [li|]; [destruct (fget i' li); reflexivity|reflexivity].
  - destruct (fget l' s); reflexivity.
Qed.
Lemma build_keeps fs : forall s l i fm, lookup s l i fm <> None -> lookup (fold_left add_fact fs s) l i fm <> None.
Proof.
  induction fs as [|[[[l0 i0] f0] t0] fs IH]; intros s l i fm H; [exact H|]. cbn [fold_left]. apply IH.
  rewrite lookup_add_fact. destruct (seqb l0 l && seqb i0 i && seqb f0 fm); [discriminate|exact H].
Qed.
Theorem build_has fs l i fm t : In (l, i, fm, t) fs -> lookup (build fs) l i fm <> None.
Proof.
  unfold build. generalize (@nil (str * ids)) as s. induction fs as [|f fs IH]; intros s H; [destruct H|].
  destruct H as [->|H]; [|cbn [fold_left]; apply IH; exact H]. cbn [fold_left]. apply build_keeps.
  rewrite lookup_add_fact, !seqb_refl. discriminate.
Qed.
Lemma build_lang fs l i fm t : In (l, i, fm, t) fs -> In l (langs (build fs)).
Proof.
  intro H. apply build_has in H. unfold lookup in H. destruct (fget l (build fs)) as [li|] eqn:E; [|congruence].
  unfold langs. apply in_map_iff. exists (l, li). split; [reflexivity|apply fget_in; exact E].
Qed.

(* guard: no empty dictionaries and no empty strings where a value is given (what sheets produce) *)
Definition lab_ok (x : lab) : bool := match x with LDict [] => false | LStr [] => false | _ => true end.
Definition element_ok (e : element) : bool :=
  lab_ok (e_label e) && lab_ok (e_hint e) && lab_ok (e_guidance e) && lab_ok (e_constraint_msg e) && lab_ok (e_required_msg e)
  && forallb (fun m => lab_ok (snd m) && match snd m with LNone => false | _ => true end) (e_media e).

Theorem emitted_ref_has_fact dl e r : element_ok e = true -> In r (emitted_refs e) ->
  exists l fm t, In (l, r, fm, t) (element_facts dl e ++ media_facts dl e).
Proof.
  unfold element_ok, emitted_refs, element_facts, media_facts, needs_itext_ref.
  destruct e as [p lb hi gu me cm rm]. cbn [e_path e_label e_hint e_guidance e_media e_constraint_msg e_required_msg].
  rewrite !andb_true_iff. intros [[[[[Hlb Hhi] Hgu] Hcm] Hrm] Hme] Hin.
  repeat (apply in_app_or in Hin as [Hin|Hin]).
  - (* label ref *)
    destruct ((lab_truthy lb || negb match me with [] => true | _ => false end || lab_truthy hi || lab_truthy gu)
              && (is_dict lb || negb match me with [] => true | _ => false end)) eqn:E; [|destruct Hin].
    destruct Hin as [<-|[]]. apply andb_true_iff in E as [_ E].
    destruct lb as [|t|d].
    + (* no label: media must be present *)
      simpl in E. destruct me as [|[mt mv] me]; [discriminate|]. simpl in Hme. apply andb_true_iff in Hme as [Hm _]. apply andb_true_iff in Hm as [Hm1 Hm2].
      destruct mv as [|t|[|[l t] d]]; try discriminate.
      * eexists dl, mt, t. apply in_or_app. right. simpl. left. reflexivity.
      * eexists l, mt, t. apply in_or_app. right. simpl. left. reflexivity.
    + destruct t as [|c t]; [discriminate|]. simpl in E. destruct me as [|m me]; [discriminate|].
      eexists dl, s_long, (c :: t). apply in_or_app. left. apply in_or_app. right. apply in_or_app. right. apply in_or_app. left.
      cbn [is_dict orb negb andb lab_truthy of_lab map]. left. reflexivity.
    + destruct d as [|[l t] d]; [discriminate|].
      eexists l, s_long, t. apply in_or_app. left. apply in_or_app. right. apply in_or_app. right. apply in_or_app. left. simpl. left. reflexivity.
  - (* hint ref *)
    destruct ((lab_truthy hi || lab_truthy gu) && (is_dict hi || lab_truthy gu)) eqn:E; [|destruct Hin].
    destruct Hin as [<-|[]]. apply andb_true_iff in E as [_ E].
    destruct gu as [|g|gd].
    + (* no guidance: the hint is a dict *)
      simpl in E. rewrite orb_false_r in E. destruct hi as [|t|[|[l t] d]]; try discriminate.
      eexists l, s_long, t. apply in_or_app. left. do 3 (apply in_or_app; right). apply in_or_app. left. simpl. left. reflexivity.
    + destruct g as [|c g]; [discriminate|].
      eexists dl, s_guidance, (c :: g). apply in_or_app. left. do 4 (apply in_or_app; right). simpl. left. reflexivity.
    + destruct gd as [|[l t] gd]; [discriminate|].
      eexists l, s_guidance, t. apply in_or_app. left. do 4 (apply in_or_app; right). simpl. left. reflexivity.
  - (* constraint message *)
    destruct cm as [|t|[|[l t] d]]; try discriminate; try (destruct Hin; fail).
    + destruct (has_ref t) eqn:E; [|destruct Hin]. destruct Hin as [<-|[]].
      eexists dl, s_long, t. apply in_or_app. left. apply in_or_app. left. simpl. rewrite E. left. reflexivity.
    + destruct Hin as [<-|[]]. eexists l, s_long, t. apply in_or_app. left. apply in_or_app. left. simpl. left. reflexivity.
  - (* required message *)
    destruct rm as [|t|[|[l t] d]]; try discriminate; try (destruct Hin; fail).
    + destruct (has_ref t) eqn:E; [|destruct Hin]. destruct Hin as [<-|[]].
      eexists dl, s_long, t. apply in_or_app. left. apply in_or_app. right. apply in_or_app. left. simpl. rewrite E. left. reflexivity.
    + destruct Hin as [<-|[]]. eexists l, s_long, t. apply in_or_app. left. apply in_or_app. right. apply in_or_app. left. simpl. left. reflexivity.
Qed.

Theorem refs_closed dl (es : list element) e r lang : Forall (fun x => element_ok x = true) es -> In e es -> In r (emitted_refs e) ->
  In lang (langs (pad (build (survey_facts dl es)))) ->
  exists fm, lookup (pad (build (survey_facts dl es))) lang r fm <> None.
Proof.
  intros Hok He Hr Hlang. rewrite Forall_forall in Hok.
  destruct (emitted_ref_has_fact dl e r (Hok e He) Hr) as (l & fm & t & Hf).
  assert (Hin : In (l, r, fm, t) (survey_facts dl es)).
  { unfold survey_facts. apply in_app_or in Hf as [Hf|Hf]; apply in_or_app; [left|right]; apply in_flat_map; exists e; split; assumption. }
  exists fm. set (s := build (survey_facts dl es)) in *.
  assert (Hlangs : langs (pad s) = langs s) by (unfold langs, pad; rewrite map_map; reflexivity).
  rewrite Hlangs in Hlang.
  pose proof (build_has _ _ _ _ _ Hin) as Hb. pose proof (build_lang _ _ _ _ _ Hin) as Hl. fold s in Hb, Hl.
  apply (pad_uniform s l lang r fm Hl Hlang).
  rewrite pad_lookup. destruct (fget_lang s l Hl) as [li ->]. destruct (lookup s l r fm); [discriminate|congruence].
Qed.

(* REFUTATION (known finding F9): a choice with neither label nor media inside a list that needs itext gets an
   itextId for which no language has a text *)
Definition f9_choices : list choice :=
  [{| c_label := LDict [([101;110]%N, [65]%N)]; c_media := [] |}; {| c_label := LNone; c_media := [] |}].
Theorem unlabelled_choice_refuted :
  exists id, In id (emitted_item_ids [108]%N f9_choices) /\
  forall l fm, lookup (pad (build (list_facts [100]%N [108]%N 0 f9_choices))) l id fm = None.
Proof.
  exists (choice_id [108]%N 1). split; [vm_compute; right; left; reflexivity|].
  intros l fm. rewrite pad_lookup.
  destruct (fget l (build (list_facts [100]%N [108]%N 0 f9_choices))) eqn:E; [|reflexivity].
  assert (Hf : has_form (build (list_facts [100]%N [108]%N 0 f9_choices)) (choice_id [108]%N 1) fm = false) by (vm_compute; reflexivity).
  rewrite Hf.
  assert (Hl : lookup (build (list_facts [100]%N [108]%N 0 f9_choices)) l (choice_id [108]%N 1) fm = None).
  { destruct (lookup _ l _ fm) eqn:E2; [|reflexivity]. exfalso.
    assert (H : has_form (build (list_facts [100]%N [108]%N 0 f9_choices)) (choice_id [108]%N 1) fm = true) by (apply (lookup_has_form _ l); rewrite E2; discriminate).
    congruence. }
  rewrite Hl. reflexivity.
Qed.

(* ---- the repaired padding (pad_with) ---- *)
Definition hit (i fm : str) (ps : list (str * list str)) : bool := existsb (fun p => seqb (fst p) i && mem fm (snd p)) ps.
Lemma hit_app i fm a b : hit i fm (a ++ b) = hit i fm a || hit i fm b.
Proof. unfold hit. apply existsb_app. Qed.
Lemma add_ids_keeps extra : forall ps i fm, hit i fm ps = true -> hit i fm (add_ids extra ps) = true.
Proof.
  unfold add_ids. induction extra as [|x extra IH]; intros ps i fm H; [exact H|]. cbn [fold_left]. apply IH.
  destruct (fget x ps); [exact H|]. rewrite hit_app, H. reflexivity.
Qed.
Lemma fget_app_none {V} k (a b : list (str * V)) : fget k a = None -> fget k (a ++ b) = fget k b.
Proof. induction a as [|[k' v] a IH]; intro H; [reflexivity|]. cbn [app fget] in *. destruct (seqb k' k); [discriminate|apply IH; exact H]. Qed.
Lemma fget_app_some {V} k (a b : list (str * V)) v : fget k a = Some v -> fget k (a ++ b) = Some v.
Proof. induction a as [|[k' w] a IH]; intro H; [discriminate|]. cbn [app fget] in *. destruct (seqb k' k); [exact H|apply IH; exact H]. Qed.
(* an id of `extra` that was not known gets the form "long"; one that was known keeps what it had *)
Lemma add_ids_new extra : forall ps id, In id extra -> fget id ps = None -> hit id s_long (add_ids extra ps) = true.
Proof.
  unfold add_ids. induction extra as [|x extra IH]; intros ps id Hin Hn; [destruct Hin|]. cbn [fold_left].
  destruct (seqb_spec x id) as [->|Hne].
  - rewrite Hn. apply (add_ids_keeps extra). rewrite hit_app. unfold hit at 2. cbn [existsb fst snd]. rewrite seqb_refl. unfold mem. cbn [existsb]. rewrite seqb_refl. cbn. apply orb_true_r.
  - destruct Hin as [E|Hin]; [congruence|]. destruct (fget x ps) eqn:Ex; [apply IH; assumption|].
    apply IH; [exact Hin|]. rewrite fget_app_none by exact Hn. cbn [fget]. destruct (seqb_spec x id); [congruence|reflexivity].
Qed.

Theorem pad_with_lookup (extra : list str) (s : store) (l i fm : str) li : fget l s = Some li ->
  lookup (pad_with extra s) l i fm =
  match lookup s l i fm with Some t => Some t | None => if hit i fm (add_ids extra (all_paths_forms s)) then Some DASH else None end.
Proof.
  intro Hl. unfold lookup, pad_with. rewrite fget_map_pad, Hl. cbn [option_map].
  pose proof (pad_lang_spec i fm (add_ids extra (all_paths_forms s)) li) as H. unfold LK in H. rewrite H. reflexivity.
Qed.

(* where the keys of the union come from *)
Lemma mem_in x l : mem x l = true <-> In x l.
Proof. unfold mem. rewrite existsb_exists. split; [intros [y [Hy E]]; apply seqb_eq in E; subst; exact Hy|intro H; exists x; split; [exact H|apply seqb_refl]]. Qed.
Lemma keys_fset_in {V} k (v : V) d i : In i (map fst (fset k v d)) <-> In i (map fst d) \/ i = k.
Proof.
  rewrite keys_fset. destruct (mem k (map fst d)) eqn:E.
  - apply mem_in in E. split.
    + intro H. left. exact H.
    + intros [H|H]; [exact H|subst; exact E].
  - rewrite in_app_iff. cbn [In]. split.
    + intros [H|[H|H]]; [left; exact H|right; symmetry; exact H|destruct H].
    + intros [H|H]; [left; exact H|right; left; symmetry; exact H].
Qed.
Lemma keys_union li : forall acc i, In i (map fst (union_forms acc li)) <-> In i (map fst acc) \/ In i (map fst li).
Proof.
  unfold union_forms. induction li as [|[i0 fi0] li IH]; intros acc i; cbn [fold_left map fst In]; [tauto|].
  rewrite IH, keys_fset_in. cbn [fst]. split.
  - intros [[H|H]|H]; [left; exact H|right; left; symmetry; exact H|right; right; exact H].
  - intros [H|[H|H]]; [left; left; exact H|left; right; symmetry; exact H|right; exact H].
Qed.
Lemma keys_all (s : store) : forall (acc : list (str * list str)) (i : str), In i (map fst (fold_left (fun a pl => union_forms a (snd pl)) s acc)) <->
  In i (map fst acc) \/ exists (l : str) (li : ids), In (l, li) s /\ In i (map fst li).
Proof.
  induction s as [|[l li] s IH]; intros acc i; cbn [fold_left].
  - split; [intro H; left; exact H|intros [H|[l [li [[] _]]]]; exact H].
  - rewrite IH, keys_union. cbn [snd]. split.
    + intros [[H|H]|[l' [li' [Hin Hk]]]]; [left; exact H|right; exists l, li; split; [left; reflexivity|exact H]|right; exists l', li'; split; [right; exact Hin|exact Hk]].
    + intros [H|[l' [li' [[E|Hin] Hk]]]]; [left; left; exact H|inversion E; subst; left; right; exact Hk|right; exists l', li'; split; assumption].
Qed.
Lemma fget_some_in {V} k (d : list (str * V)) v : fget k d = Some v -> In k (map fst d).
Proof. induction d as [|[a w] d IH]; intro H; [discriminate|]. cbn [fget map fst In] in *. destruct (seqb_spec a k) as [->|Hne]; [left; reflexivity|right; apply IH; exact H]. Qed.

(* every id entry of every language has at least one form: true of every store built from facts *)
Definition store_ok (s : store) : Prop := forall l li i fi, In (l, li) s -> In (i, fi) li -> fi <> [].
Lemma known_id_has_form s i : store_ok s -> In i (map fst (all_paths_forms s)) -> exists fm, has_form s i fm = true.
Proof.
  intros Hok Hin. unfold all_paths_forms in Hin. apply keys_all in Hin as [[]|[l [li [Hs Hk]]]].
  apply in_map_iff in Hk as [[i' fi] [E Hli]]. cbn [fst] in E. subst i'.
  pose proof (Hok l li i fi Hs Hli) as Hne. destruct fi as [|[fm t] fi']; [congruence|]. exists fm.
  unfold has_form. apply existsb_exists. exists (l, li). split; [exact Hs|]. cbn [snd]. apply existsb_exists. exists (i, (fm, t) :: fi'). split; [exact Hli|].
  cbn [fst snd map]. rewrite seqb_refl. unfold mem. cbn [existsb]. rewrite seqb_refl. reflexivity.
Qed.

(* THE statement for choices after the repair: every id handed to the padding has an entry in every language *)
Theorem padded_ids_closed (extra : list str) (s : store) l id : store_ok s -> In l (langs s) -> In id extra ->
  exists fm, lookup (pad_with extra s) l id fm <> None.
Proof.
  intros Hok Hl Hin. destruct (fget_lang s l Hl) as [li Hli].
  destruct (fget id (all_paths_forms s)) as [fms|] eqn:E.
  - destruct (known_id_has_form s id Hok (fget_some_in _ _ _ E)) as [fm Hfm]. exists fm. rewrite (pad_with_lookup extra s l id fm li Hli).
    destruct (lookup s l id fm); [discriminate|].
    assert (H : hit id fm (all_paths_forms s) = true). { unfold hit. rewrite (E_is_G _ id fm (NoDup_all_paths s)), all_paths_forms_spec. exact Hfm. }
    rewrite (add_ids_keeps extra _ _ _ H). discriminate.
  - exists s_long. rewrite (pad_with_lookup extra s l id s_long li Hli). destruct (lookup s l id s_long); [discriminate|].
    rewrite (add_ids_new extra _ id Hin E). discriminate.
Qed.
Lemma in_fset {V} k (v : V) d k' v' : In (k', v') (fset k v d) -> (k' = k /\ v' = v) \/ In (k', v') d.
Proof.
  induction d as [|[a w] d IH]; cbn [fset]; intro H.
  - destruct H as [E|[]]. inversion E; subst. left; split; reflexivity.
  - destruct (seqb_spec a k) as [->|Hne]; destruct H as [E|H].
    + inversion E; subst. left; split; reflexivity.
    + right. right. exact H.
    + right. left. exact E.
    + destruct (IH H) as [Hl|Hr]; [left; exact Hl|right; right; exact Hr].
Qed.
Lemma fset_nonempty {V} k (v : V) d : fset k v d <> [].
Proof. destruct d as [|[a w] d]; cbn [fset]; [discriminate|]. destruct (seqb a k); discriminate. Qed.
Lemma store_ok_add s f : store_ok s -> store_ok (add_fact s f).
Proof.
  intros Hok. destruct f as [[[l i] fm] t]. unfold add_fact, store_ok. intros l' li' i' fi' Hs Hi.
  apply in_fset in Hs as [[-> ->]|Hs].
  - apply in_fset in Hi as [[-> ->]|Hi]; [apply fset_nonempty|].
    destruct (fget l s) as [li|] eqn:El; [|destruct Hi]. apply (Hok l li i' fi' (fget_in _ _ _ El) Hi).
  - apply (Hok l' li' i' fi' Hs Hi).
Qed.
Lemma store_ok_build fs : store_ok (build fs).
Proof.
  unfold build. assert (H : forall s, store_ok s -> store_ok (fold_left add_fact fs s)).
  { induction fs as [|f fs IH]; intros s Hs; [exact Hs|]. cbn [fold_left]. apply IH. apply store_ok_add. exact Hs. }
  apply H. intros l li i fi [].
Qed.
(* for a choice list: after the repair every item id emitted for a list that needs itext has an entry in every language *)
Theorem choice_item_ids_closed dl list_name (cs : list choice) (other : list fact) l id :
  let s := build (other ++ list_facts dl list_name 0 cs) in
  In l (langs s) -> In id (emitted_item_ids list_name cs) ->
  exists fm, lookup (pad_with (emitted_item_ids list_name cs) s) l id fm <> None.
Proof. intros s Hl Hid. apply padded_ids_closed; [apply store_ok_build|exact Hl|exact Hid]. Qed.

(* tie to the source (Gen/Itext.v is regenerated from /repo on every run; the text of _add_empty_translations is pinned by the translator) *)
Require Import PX.Gen.Itext.
Lemma placeholder_pinned : ITEXT_PLACEHOLDER = DASH.
Proof. reflexivity. Qed.
