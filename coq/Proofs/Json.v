(* Proofs/Json.v — json.loads inverts json.dumps on every value without surrogate code points (C16, path through JSON text) *)
Require Import PX.Base.Str PX.Model.Dump PX.Model.Json.
From Coq Require Import ZArith Lia ZifyBool.
Ltac Zify.zify_post_hook ::= Z.to_euclidean_division_equations.
Local Open Scope N_scope.

Lemma hex_roundtrip n : n < 16 -> hex_val (hex_digit n) = Some n.
Proof.
  intro H. unfold hex_digit, hex_val. destruct (n <? 10) eqn:E.
  - assert (H1 : (48 <=? 48 + n) && (48 + n <=? 57) = true) by lia. rewrite H1. f_equal. lia.
  - assert (H1 : (48 <=? 87 + n) && (87 + n <=? 57) = false) by lia. rewrite H1.
    assert (H2 : (97 <=? 87 + n) && (87 + n <=? 102) = true) by lia. rewrite H2. f_equal. lia.
Qed.
Lemma parse_hex4_hex4 c r : c < 65536 -> parse_hex4 (hex4 c ++ r) = Some (c, r).
Proof.
  intro H. unfold hex4, parse_hex4. cbn [app].
  rewrite !hex_roundtrip by (apply N.mod_upper_bound; discriminate). f_equal. f_equal. lia.
Qed.

Lemma parse_str_uesc f acc c rest : c < 65536 -> is_high c = false ->
  parse_str (S f) acc (uesc c ++ rest) = parse_str f (c :: acc) rest.
Proof.
  intros Hc Hh. unfold uesc. cbn [app parse_str]. change (92 =? 34) with false. change (92 =? 92) with true. change (117 =? 117) with true. cbv iota.
  rewrite parse_hex4_hex4 by exact Hc. rewrite Hh. reflexivity.
Qed.
Lemma parse_str_esc f acc c rest : char_ok c = true ->
  parse_str (S f) acc (esc_char c ++ rest) = parse_str f (c :: acc) rest.
Proof.
  intro Hok. unfold char_ok in Hok. unfold esc_char.
  destruct (c =? 34) eqn:E34; [apply N.eqb_eq in E34; subst; reflexivity|].
  destruct (c =? 92) eqn:E92; [apply N.eqb_eq in E92; subst; reflexivity|].
  destruct (c =? 10) eqn:E10; [apply N.eqb_eq in E10; subst; reflexivity|].
  destruct (c =? 13) eqn:E13; [apply N.eqb_eq in E13; subst; reflexivity|].
  destruct (c =? 9) eqn:E9; [apply N.eqb_eq in E9; subst; reflexivity|].
  destruct (c =? 8) eqn:E8; [apply N.eqb_eq in E8; subst; reflexivity|].
  destruct (c =? 12) eqn:E12; [apply N.eqb_eq in E12; subst; reflexivity|].
  destruct ((32 <=? c) && (c <=? 126)) eqn:Ep.
  - cbn [app parse_str]. rewrite E34, E92. assert (H : c <? 32 = false) by lia. rewrite H. reflexivity.
  - destruct (c <? 65536) eqn:Eb.
    + apply parse_str_uesc; [lia|unfold is_high; lia].
    + (* a surrogate pair *)
      set (hi := 55296 + (c - 65536) / 1024). set (lo := 56320 + (c - 65536) mod 1024).
      assert (Hhi : hi < 65536 /\ is_high hi = true) by (unfold is_high, hi; lia).
      assert (Hlo : lo < 65536 /\ is_low lo = true) by (unfold is_low, lo; lia).
      rewrite <- app_assoc. unfold uesc at 1. cbn [app parse_str]. change (92 =? 34) with false. change (92 =? 92) with true. change (117 =? 117) with true. cbv iota.
      rewrite parse_hex4_hex4 by apply Hhi. rewrite (proj2 Hhi). unfold uesc. cbn [app]. change ((92 =? 92) && (117 =? 117)) with true. cbv iota.
      rewrite parse_hex4_hex4 by apply Hlo. rewrite (proj2 Hlo). f_equal. f_equal. unfold hi, lo. lia.
Qed.
Lemma esc_char_nonempty c : esc_char c <> [].
Proof.
  unfold esc_char, uesc. repeat match goal with |- context [if ?b then _ else _] => destruct b end; try discriminate.
Qed.
Lemma parse_str_dump s : forall fuel acc rest, str_ok s = true -> (length s < fuel)%nat ->
  parse_str fuel acc (flat_map esc_char s ++ 34 :: rest) = Some (rev acc ++ s, rest).
Proof.
  induction s as [|c s IH]; intros fuel acc rest Hok Hf.
  - destruct fuel as [|f]; [simpl in Hf; lia|]. cbn [flat_map app parse_str]. change (34 =? 34) with true. cbv iota. rewrite app_nil_r. reflexivity.
  - destruct fuel as [|f]; [simpl in Hf; lia|]. cbn [str_ok forallb] in Hok. apply andb_true_iff in Hok as [Hc Hs].
    cbn [flat_map]. rewrite <- app_assoc, parse_str_esc by exact Hc. rewrite IH; [|exact Hs|simpl in Hf; lia].
    cbn [rev]. rewrite <- app_assoc. reflexivity.
Qed.
Lemma length_flat_esc s : (length s <= length (flat_map esc_char s))%nat.
Proof.
  induction s as [|c s IH]; [apply le_n|]. cbn [flat_map length]. rewrite app_length.
  pose proof (esc_char_nonempty c). destruct (esc_char c); [congruence|]. simpl. lia.
Qed.
Theorem parse_dump_str s rest : str_ok s = true ->
  parse_str (S (length (flat_map esc_char s ++ 34 :: rest))) [] (flat_map esc_char s ++ 34 :: rest) = Some (s, rest).
Proof.
  intro H. rewrite parse_str_dump; [reflexivity|exact H|]. rewrite app_length. pose proof (length_flat_esc s). simpl. lia.
Qed.

Lemma jv_ind2 (P : jv -> Prop) :
  (forall s, P (JS s)) -> P JN -> (forall b, P (JT b)) ->
  (forall l, Forall P l -> P (JL l)) -> (forall d, Forall (fun kv => P (snd kv)) d -> P (JD d)) -> forall v, P v.
Proof.
  intros HS HN HT HL HD. fix IH 1. intros [s| |b|l|d].
  - apply HS.
  - apply HN.
  - apply HT.
  - apply HL. induction l as [|x l IHl]; constructor; [apply IH|exact IHl].
  - apply HD. induction d as [|[k x] d IHd]; constructor; [apply IH|exact IHd].
Qed.
Definition starts_value (s : str) : Prop := exists c t, s = c :: t /\ is_ws c = false /\ c <> 93 /\ c <> 125 /\ c <> 44.
Lemma dumps_starts v rest : starts_value (dumps v ++ rest).
Proof.
  unfold starts_value. destruct v as [s| |[|]|l|d]; cbn [dumps dump_str app]; eexists; eexists; (split; [reflexivity|]); repeat split; discriminate.
Qed.
Lemma skip_ws_starts s : starts_value s -> skip_ws s = s.
Proof. intros (c & t & -> & H & _). cbn [skip_ws]. rewrite H. reflexivity. Qed.
Lemma parse_value_space fuel s : parse_value fuel (32 :: s) = parse_value fuel s.
Proof. destruct fuel; reflexivity. Qed.
Lemma parse_members_space fuel s : parse_members fuel (32 :: s) = parse_members fuel s.
Proof. destruct fuel; reflexivity. Qed.

Definition P (v : jv) : Prop := forall fuel rest, jv_ok v = true -> (cost v <= fuel)%nat -> parse_value fuel (dumps v ++ rest) = Some (v, rest).

Lemma elems_ok l : Forall P l -> l <> [] -> forall fuel rest, forallb jv_ok l = true ->
  (fold_right (fun x acc => S (cost x + acc)) 0%nat l <= fuel)%nat ->
  parse_elems fuel (join sep_item (map dumps l) ++ 93 :: rest) = Some (l, rest).
Proof.
  induction l as [|x l IHl]; intros HP Hne fuel rest Hok Hf; [congruence|].
  inversion HP as [|? ? Hx Hl]; subst. cbn [forallb] in Hok. apply andb_true_iff in Hok as [Hox Hol].
  cbn [fold_right] in Hf. destruct fuel as [|f]; [lia|]. cbn [parse_elems].
  destruct l as [|y l'].
  - cbn [map join]. rewrite (Hx f (93 :: rest) Hox) by (simpl in Hf; lia). cbn [skip_ws]. change (is_ws 93) with false. cbv iota. reflexivity.
  - change (join sep_item (map dumps (x :: y :: l'))) with (dumps x ++ sep_item ++ join sep_item (map dumps (y :: l'))).
    rewrite <- !app_assoc. rewrite (Hx f _ Hox) by lia. unfold sep_item at 1. cbn [app skip_ws]. change (is_ws 44) with false. cbv iota. change (44 =? 44) with true. cbv iota. unfold opt_map2.
    assert (E : parse_elems f (32 :: join sep_item (map dumps (y :: l')) ++ 93 :: rest) = parse_elems f (join sep_item (map dumps (y :: l')) ++ 93 :: rest)).
    { destruct f; [reflexivity|]. cbn [parse_elems]. rewrite parse_value_space. reflexivity. }
    rewrite E, IHl; [reflexivity|exact Hl|discriminate|exact Hol|cbn [fold_right] in *; lia].
Qed.

Definition member_text (kv : str * jv) : str := match kv with (k, x) => dump_str k ++ sep_kv ++ dumps x end.
Lemma members_ok d : Forall (fun kv => P (snd kv)) d -> d <> [] -> forall fuel rest,
  forallb (fun kv => str_ok (fst kv) && jv_ok (snd kv)) d = true ->
  (fold_right (fun kv acc => S (cost (snd kv) + acc)) 0%nat d <= fuel)%nat ->
  parse_members fuel (join sep_item (map member_text d) ++ 125 :: rest) = Some (d, rest).
Proof.
  induction d as [|[k x] d IHd]; intros HP Hne fuel rest Hok Hf; [congruence|].
  inversion HP as [|? ? Hx Hd]; subst. cbn [snd] in Hx. cbn [forallb fst snd] in Hok. apply andb_true_iff in Hok as [Hok1 Hod].
  apply andb_true_iff in Hok1 as [Hk Hox]. cbn [fold_right snd] in Hf. destruct fuel as [|f]; [lia|].
  assert (Hkey : forall tail, parse_members (S f) (member_text (k, x) ++ tail) =
            match parse_value f (dumps x ++ tail) with
            | Some (v, r3) => match skip_ws r3 with
                              | c3 :: r4 => if c3 =? 44 then opt_map2 (cons (k, v)) (parse_members f r4) else if c3 =? 125 then Some ([(k, v)], r4) else None
                              | [] => None end
            | None => None end).
  { intro tail. unfold member_text, dump_str. cbn [parse_members app skip_ws]. change (is_ws 34) with false. cbv iota. change (34 =? 34) with true. cbv iota.
    rewrite <- !app_assoc. cbn [app]. rewrite parse_dump_str by exact Hk. unfold sep_kv. cbn [app skip_ws]. change (is_ws 58) with false. cbv iota.
    change (58 =? 58) with true. cbv iota. rewrite parse_value_space. reflexivity. }
  destruct d as [|kv2 d'].
  - cbn [map join]. rewrite Hkey. rewrite (Hx f (125 :: rest) Hox) by (simpl in Hf; lia). cbn [skip_ws]. change (is_ws 125) with false. cbv iota. reflexivity.
  - change (join sep_item (map member_text ((k, x) :: kv2 :: d'))) with (member_text (k, x) ++ sep_item ++ join sep_item (map member_text (kv2 :: d'))).
    rewrite <- !app_assoc. rewrite Hkey. rewrite (Hx f _ Hox) by lia. unfold sep_item at 1. cbn [app skip_ws]. change (is_ws 44) with false. cbv iota.
    change (44 =? 44) with true. cbv iota. rewrite parse_members_space. unfold opt_map2.
    rewrite IHd; [reflexivity|exact Hd|discriminate|exact Hod|cbn [fold_right] in *; lia].
Qed.

Theorem parse_dumps : forall v, P v.
Proof.
  induction v as [s| |b|l IHl|d IHd] using jv_ind2; intros fuel rest Hok Hf; (destruct fuel as [|f]; [cbn [cost] in Hf; lia|]).
  - cbn [dumps dump_str app parse_value skip_ws]. change (is_ws 34) with false. cbv iota. change (34 =? 34) with true. cbv iota.
    rewrite <- app_assoc. cbn [app]. rewrite parse_dump_str by exact Hok. reflexivity.
  - reflexivity.
  - destruct b; reflexivity.
  - cbn [dumps]. destruct l as [|x l'].
    + reflexivity.
    + cbn [app parse_value skip_ws]. change (is_ws 91) with false. cbv iota.
      change (91 =? 34) with false. change (91 =? 110) with false. change (91 =? 116) with false. change (91 =? 102) with false. change (91 =? 91) with true. cbv iota.
      rewrite <- app_assoc. cbn [app].
      destruct (dumps_starts x ((match l' with [] => [] | _ => sep_item ++ join sep_item (map dumps l') end) ++ 93 :: rest)) as (c & t & Hc & Hws & H93 & _).
      assert (Hj : join sep_item (map dumps (x :: l')) ++ 93 :: rest = c :: t).
      { rewrite <- Hc. destruct l'; cbn [map join]; rewrite <- ?app_assoc; reflexivity. }
      rewrite Hj. cbn [skip_ws]. rewrite Hws. apply N.eqb_neq in H93. rewrite H93. rewrite <- Hj.
      cbn [jv_ok] in Hok. cbn [cost] in Hf. rewrite (elems_ok (x :: l') IHl ltac:(discriminate) f rest Hok) by lia. reflexivity.
  - cbn [dumps]. destruct d as [|[k x] d'].
    + reflexivity.
    + cbn [app parse_value skip_ws]. change (is_ws 123) with false. cbv iota.
      change (123 =? 34) with false. change (123 =? 110) with false. change (123 =? 116) with false. change (123 =? 102) with false. change (123 =? 91) with false.
      change (123 =? 123) with true. cbv iota. rewrite <- app_assoc. cbn [app].
      change (map (fun kv => match kv with (k0, x0) => dump_str k0 ++ sep_kv ++ dumps x0 end) ((k, x) :: d')) with (map member_text ((k, x) :: d')).
      assert (Hj : exists t, join sep_item (map member_text ((k, x) :: d')) ++ 125 :: rest = 34 :: t).
      { destruct d'; cbn [map join member_text dump_str app]; eexists; reflexivity. }
      destruct Hj as [t Hj]. rewrite Hj. cbn [skip_ws]. change (is_ws 34) with false. cbv iota. change (34 =? 125) with false. cbv iota. rewrite <- Hj.
      cbn [jv_ok] in Hok. cbn [cost] in Hf. rewrite (members_ok ((k, x) :: d') IHd ltac:(discriminate) f rest Hok) by lia. reflexivity.
Qed.

Lemma join_len_bound {A} (f : A -> str) (c : A -> nat) (l : list A) :
  Forall (fun x => (c x <= length (f x))%nat) l ->
  (fold_right (fun x acc => S (c x + acc)) 0%nat l <= length (join sep_item (map f l)) + 1)%nat.
Proof.
  induction l as [|x l IH]; intro H; [simpl; lia|]. inversion H as [|? ? Hx Hl]; subst. cbn [fold_right].
  destruct l as [|y l'].
  - cbn [map join fold_right]. lia.
  - change (join sep_item (map f (x :: y :: l'))) with (f x ++ sep_item ++ join sep_item (map f (y :: l'))).
    rewrite !app_length. specialize (IH Hl). cbn [fold_right] in *. unfold sep_item at 1. simpl length at 2. lia.
Qed.
Lemma cost_le_length : forall v, (cost v <= length (dumps v))%nat.
Proof.
  induction v as [s| |b|l IHl|d IHd] using jv_ind2; cbn [cost dumps].
  - unfold dump_str. simpl. rewrite app_length. simpl. lia.
  - simpl. lia.
  - destruct b; simpl; lia.
  - pose proof (join_len_bound dumps cost l IHl). simpl length. rewrite app_length. simpl. lia.
  - assert (H : Forall (fun kv => (cost (snd kv) <= length (member_text kv))%nat) d).
    { apply Forall_forall. intros [k x] Hin. rewrite Forall_forall in IHd. specialize (IHd _ Hin). cbn [snd] in *.
      unfold member_text. rewrite !app_length. lia. }
    pose proof (join_len_bound member_text (fun kv => cost (snd kv)) d H) as Hb.
    change (map (fun kv => match kv with (k, x) => dump_str k ++ sep_kv ++ dumps x end) d) with (map member_text d).
    simpl length. rewrite app_length. simpl. lia.
Qed.
Theorem loads_dumps v : jv_ok v = true -> loads (dumps v) = Some v.
Proof.
  intro H. unfold loads. pose proof (parse_dumps v (S (2 * length (dumps v))) [] H) as Hp. rewrite app_nil_r in Hp.
  rewrite Hp; [reflexivity|]. pose proof (cost_le_length v). lia.
Qed.
