(* Proofs/Layout.v — the canonical images of the pretty and the compact writer differ by layout only. *)
Require Import PX.Base.Str PX.Model.Dom PX.Spec.XmlParse PX.Spec.WsEquiv PX.Spec.LayoutEquiv PX.Proofs.Esc PX.Proofs.RT PX.Proofs.Ws PX.Spec.XmlName PX.Proofs.Doc.

Lemma has_nl_app a b : has_nl (a ++ b) = has_nl a || has_nl b.
Proof. apply existsb_app. Qed.
Lemma layout_ws s : layout s = true -> ws_only s = true.
Proof. destruct s as [|c s]; [reflexivity|]. unfold layout. intro H. apply andb_true_iff in H. exact (proj1 H). Qed.
(* a layout text followed by white space is layout, provided the result is empty or the layout text was not *)
Lemma layout_app_ws a b : layout a = true -> a <> [] -> ws_only b = true -> layout (a ++ b) = true.
Proof.
  intros Ha Hne Hb. destruct a as [|c a]; [congruence|]. cbn [app]. unfold layout in *. change (c :: a ++ b) with ((c :: a) ++ b).
  apply andb_true_iff in Ha as [Hw Hn]. rewrite ws_only_app, has_nl_app, Hw, Hn, Hb. reflexivity.
Qed.

(* runs of text items: a run starts with a layout text; if that text is empty the whole run is empty, otherwise it continues with
   white space *)
Fixpoint runs_ok (st : nat) (l : list item) : bool :=    (* st: 0 = outside a run, 1 = inside an empty run, 2 = inside a non-empty layout run *)
  match l with
  | [] => true
  | ITx s :: r =>
      match st with
      | 0 => layout s && runs_ok (match s with [] => 1 | _ => 2 end) r
      | 1 => match s with [] => runs_ok 1 r | _ => false end
      | _ => ws_only s && runs_ok 2 r
      end
  | IEl x :: r => tx_lay x && runs_ok 0 r
  end.
Lemma lay_mergeA : forall l st acc, runs_ok st l = true ->
  (st = 0 -> acc = []) -> (st = 1 -> acc = []) -> (st = 2 -> layout acc = true /\ acc <> []) -> (st <= 2)%nat ->
  forallb tx_lay (mergeA acc l) = true.
Proof.
  induction l as [|[s|x] l IH]; intros st acc H H0 H1 H2 Hst; cbn [mergeA].
  - destruct acc as [|c acc]; [reflexivity|]. cbn [forallb tx_lay]. destruct st as [|[|[|st]]]; try (specialize (H0 eq_refl) || specialize (H1 eq_refl)); try discriminate; try lia.
    destruct (H2 eq_refl) as [Hl _]. rewrite Hl. reflexivity.
  - cbn [runs_ok] in H. destruct st as [|[|[|st]]]; try lia.
    + rewrite (H0 eq_refl). cbn [app]. apply andb_true_iff in H as [Hs Hr]. destruct s as [|c s].
      * apply (IH 1%nat); try assumption; try discriminate; try reflexivity; lia.
      * apply (IH 2%nat); try assumption; try discriminate; try lia. intros _. split; [exact Hs|discriminate].
    + rewrite (H1 eq_refl). destruct s as [|c s]; [|discriminate]. cbn [app]. apply (IH 1%nat); try assumption; try discriminate; try reflexivity; lia.
    + apply andb_true_iff in H as [Hs Hr]. destruct (H2 eq_refl) as [Hl Hne]. apply (IH 2%nat); try assumption; try discriminate; try lia.
      intros _. split; [apply layout_app_ws; assumption|]. destruct acc; [congruence|discriminate].
  - cbn [runs_ok] in H. apply andb_true_iff in H as [Hx H]. destruct acc as [|c acc].
    + cbn [forallb]. rewrite Hx. cbn [andb]. apply (IH 0%nat); try assumption; try reflexivity; try discriminate; lia.
    + assert (Hl : layout (c :: acc) = true).
      { destruct st as [|[|[|st]]]; try lia; try (specialize (H0 eq_refl); discriminate); try (specialize (H1 eq_refl); discriminate). exact (proj1 (H2 eq_refl)). }
      cbn [forallb]. change (tx_lay (Tx (c :: acc))) with (layout (c :: acc)). rewrite Hl, Hx. cbn [andb].
      apply (IH 0%nat); try assumption; try reflexivity; try discriminate; lia.
Qed.

Lemma filter_map_lnorm l : filter is_el (map lnorm l) = map lnorm (filter is_el l).
Proof.
  induction l as [|x l IH]; [reflexivity|]. destruct x as [t a k|s]; simpl.
  - destruct (existsb is_el k && forallb tx_lay k); simpl; rewrite IH; reflexivity.
  - exact IH.
Qed.

(* the items of element-only kids, continued by the closing indentation, are well-formed runs when entered inside a run *)
Lemma runs_items_elems ind add nl kids tail_ind : existsb is_text kids = false ->
  ws_only ind = true -> layout nl = true -> ws_only tail_ind = true ->
  (nl = [] -> ind = [] /\ tail_ind = []) ->
  runs_ok (match nl with [] => 1 | _ => 2 end) (flat_map (items ind add nl) kids ++ [ITx tail_ind]) = true.
Proof.
  intros H Hi Hn Ht Hz. induction kids as [|k kids IH].
  - cbn [flat_map app runs_ok]. destruct nl as [|c nl]; [destruct (Hz eq_refl) as [_ ->]; reflexivity|]. rewrite Ht. reflexivity.
  - simpl in H. apply orb_false_iff in H as [Hk H]. specialize (IH H).
    assert (E : exists t a ks', items ind add nl k = [ITx ind; IEl (El t a ks'); ITx nl]).
    { destruct k as [tag attrs ks|tag attrs|d|d]; try discriminate; [rewrite items_DE; cbn [canon_el]|cbn [items]]; do 3 eexists; reflexivity. }
    destruct E as [t [a [ks' E]]]. cbn [flat_map]. rewrite E. cbn [app].
    destruct nl as [|c nl].
    + destruct (Hz eq_refl) as [-> _]. cbn [runs_ok layout tx_lay andb]. exact IH.
    + cbn [runs_ok tx_lay]. rewrite Hi, Hn. cbn [andb]. exact IH.
Qed.

Lemma lnorm_elem_only ind add nl tag attrs kids :
  kids <> [] -> existsb is_text kids = false ->
  ws_only ind = true -> ws_only add = true -> layout nl = true -> (nl = [] -> ind = [] /\ add = []) ->
  lnorm (canon_el ind add nl (DE tag attrs kids))
  = El tag attrs (map (fun k => lnorm (canon_el (ind ++ add) add nl k)) kids).
Proof.
  intros Hne Ht Hi Ha Hn Hz.
  destruct kids as [|k0 kids'] eqn:Ek; [congruence|]. rewrite <- Ek in *.
  assert (E : canon_el ind add nl (DE tag attrs kids) =
              El tag attrs (mergeA [] ([ITx nl] ++ flat_map (items (ind ++ add) add nl) kids ++ [ITx ind]))).
  { rewrite Ek. cbn [canon_el kids_canon]. rewrite <- Ek, Ht. reflexivity. }
  rewrite E. cbn [lnorm].
  rewrite exists_mergeA.
  assert (Hex : existsb it_el ([ITx nl] ++ flat_map (items (ind ++ add) add nl) kids ++ [ITx ind]) = true).
  { rewrite !existsb_app, has_el_items by assumption. simpl. reflexivity. }
  rewrite Hex.
  assert (Hws : forallb tx_lay (mergeA [] ([ITx nl] ++ flat_map (items (ind ++ add) add nl) kids ++ [ITx ind])) = true).
  { apply (lay_mergeA _ 0%nat); try reflexivity; try discriminate; try lia.
    cbn [app runs_ok]. rewrite Hn. cbn [andb].
    apply runs_items_elems; try assumption.
    - rewrite ws_only_app, Hi, Ha. reflexivity.
    - intro Hnl. destruct (Hz Hnl) as [-> ->]. split; reflexivity. }
  rewrite Hws. cbn [andb].
  rewrite filter_map_lnorm, filter_mergeA.
  assert (Hels : els ([ITx nl] ++ flat_map (items (ind ++ add) add nl) kids ++ [ITx ind])
                 = map (canon_el (ind ++ add) add nl) kids).
  { cbn [app els].
    assert (forall a b, els (a ++ b) = els a ++ els b) as Happ.
    { induction a as [|[s|x] a IHa]; intro b; simpl; rewrite ?IHa; [reflexivity|reflexivity|destruct (is_el x); reflexivity]. }
    rewrite Happ, els_items_elems by assumption. simpl. rewrite app_nil_r. reflexivity. }
  rewrite Hels, map_map. reflexivity.
Qed.

Lemma layout_canon : forall n ind add nl,
  ws_only ind = true -> ws_only add = true -> layout nl = true -> nl <> [] ->
  lnorm (canon_el ind add nl n) = lnorm (canon_el [] [] [] n).
Proof.
  fix IHn 1. intros n ind add nl Hi Ha Hn Hnz.
  destruct n as [tag attrs kids|tag attrs|d|d]; try reflexivity.
  destruct (existsb is_text kids) eqn:Ht.
  - rewrite canon_mixed by exact Ht. reflexivity.
  - destruct kids as [|k0 kids'] eqn:Ek; [reflexivity|]. rewrite <- Ek in *.
    assert (Hne : kids <> []) by (rewrite Ek; discriminate).
    rewrite (lnorm_elem_only ind add nl) by (assumption || (intro; congruence)).
    rewrite (lnorm_elem_only [] [] []) by (assumption || reflexivity || (intro; split; reflexivity)).
    f_equal. clear Ek Hne Ht. induction kids as [|k ks IHk]; [reflexivity|].
    simpl. f_equal; [|exact IHk].
    apply IHn; try assumption. rewrite ws_only_app, Hi, Ha. reflexivity.
Qed.

Theorem pretty_compact_layout_equiv n : wf_dom n ->
  exists a b, parse (to_pretty n) = Some a /\ parse (to_ugly n) = Some b /\ layout_equiv a b.
Proof.
  intro H. exists (canon_el [] [SP; SP] [NL] n), (canon_el [] [] [] n).
  split; [apply parse_pretty; exact H|]. split; [apply parse_ugly; exact H|].
  apply layout_canon; try reflexivity. discriminate.
Qed.
(* the finer relation sees what ws_equiv cannot: the space between two elements of a label is content *)
Definition two_outputs (sep : list xn) : xn := El [108%N] [] ([El [111%N] [] []] ++ sep ++ [El [111%N] [] []]).
Lemma space_between_elements_is_content :
  ws_equiv (two_outputs [Tx [SP]]) (two_outputs []) /\ ~ layout_equiv (two_outputs [Tx [SP]]) (two_outputs [])
  /\ layout_equiv (two_outputs [Tx [NL; SP; SP]]) (two_outputs []).
Proof. split; [reflexivity|]. split; [|reflexivity]. unfold layout_equiv. cbv. discriminate. Qed.
