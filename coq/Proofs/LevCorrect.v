(* Proofs/LevCorrect.v — the two-row algorithm computes the edit distance, for all strings. *)
Require Import PX.Base.Str PX.Spec.EditDistance PX.Model.Lev.

(* the row of the full matrix for the consumed part ra (reversed prefix of a):
   entries d(ra, acc) for acc ranging over the reversed prefixes of b *)
Fixpoint spec_row (ra acc b : str) : list nat :=
  edit ra acc :: match b with [] => [] | y :: b' => spec_row ra (y :: acc) b' end.

Lemma spec_row_length ra acc b : length (spec_row ra acc b) = S (length b).
Proof. revert acc; induction b as [|y b IH]; intro acc; simpl; [reflexivity|]. rewrite IH. reflexivity. Qed.

Lemma fill_row_spec x ra : forall b acc,
  fill_row x b (spec_row ra acc b) (edit (x :: ra) acc) = tl (spec_row (x :: ra) acc b).
Proof.
  induction b as [|y b IH]; intro acc; [reflexivity|].
  cbn [spec_row tl fill_row].
  destruct b as [|y' b'] eqn:Eb.
  - cbn [spec_row fill_row]. f_equal. rewrite edit_cons. unfold min3.
    destruct (ceq x y); simpl; rewrite ?Nat.add_1_r; reflexivity.
  - rewrite <- Eb in *. assert (Hs : spec_row ra (y :: acc) b = edit ra (y :: acc) :: tl (spec_row ra (y :: acc) b)).
    { rewrite Eb. reflexivity. }
    rewrite Hs. cbn [fill_row]. rewrite <- Hs.
    assert (Hc : min3 (edit ra (y :: acc) + 1) (edit (x :: ra) acc + 1) (if ceq x y then edit ra acc else edit ra acc + 1)
                 = edit (x :: ra) (y :: acc)).
    { rewrite edit_cons. unfold min3. destruct (ceq x y); simpl; rewrite ?Nat.add_1_r; reflexivity. }
    rewrite Hc. f_equal.
    rewrite IH. rewrite Eb. reflexivity.
Qed.

Lemma next_row_spec x ra b : next_row x b (spec_row ra [] b) (length ra) = spec_row (x :: ra) [] b.
Proof.
  unfold next_row.
  assert (H0 : length ra + 1 = edit (x :: ra) []) by (rewrite edit_nil_r; simpl; lia).
  rewrite H0, fill_row_spec.
  destruct b; reflexivity.
Qed.

Lemma rows_spec : forall a ra b, rows a b (spec_row ra [] b) (length ra) = spec_row (rev a ++ ra) [] b.
Proof.
  induction a as [|x a IH]; intros ra b; [reflexivity|].
  cbn [rows]. rewrite next_row_spec. change (S (length ra)) with (length (x :: ra)). rewrite IH.
  simpl rev. rewrite <- app_assoc. reflexivity.
Qed.

Lemma spec_row_nil : forall b acc, spec_row [] acc b = seq (length acc) (S (length b)).
Proof. induction b as [|y b IH]; intro acc; [reflexivity|]. cbn [spec_row]. rewrite IH. reflexivity. Qed.

Lemma spec_row_last ra : forall b acc, nth (length b) (spec_row ra acc b) 0 = edit ra (rev b ++ acc).
Proof.
  induction b as [|y b IH]; intro acc; [reflexivity|].
  cbn [spec_row length nth]. rewrite IH. simpl rev. rewrite <- app_assoc. reflexivity.
Qed.

Theorem levenshtein_is_edit_distance a b : levenshtein a b = edit (rev a) (rev b).
Proof.
  unfold levenshtein.
  change (seq 0 (S (length b))) with (seq (length (@nil N)) (S (length b))).
  rewrite <- (spec_row_nil b []).
  pose proof (rows_spec a [] b) as H. cbn [length] in H. rewrite H, spec_row_last, !app_nil_r. reflexivity.
Qed.
