(* Proofs/Md.v — reading back a rendered Markdown table gives the grid that was rendered *)
Require Import PX.Base.Str PX.Base.PyStr PX.Model.Md.
From Coq Require Import Lia.
Local Open Scope N_scope.

Definition SP : N := 32.
(* a cell that Markdown can carry: no pipe, line break, hash or backslash; no white space at either end; empty allowed *)
Definition cell_ok (c : str) : Prop :=
  forallb (fun x => negb (x =? PIPE) && negb (x =? 10) && negb (x =? HASH) && negb (x =? BSL)) c = true /\
  match c with [] => True | x :: _ => py_space x = false end /\ match rev c with [] => True | x :: _ => py_space x = false end.
Definition pad (c : str) : str := [SP] ++ c ++ [SP].
Definition cellopt (c : str) : option str := match c with [] => None | _ => Some c end.

Lemma lstrip_head c s : py_space c = false -> lstrip (c :: s) = c :: s.
Proof. intro H. cbn [lstrip]. rewrite H. reflexivity. Qed.
Lemma py_strip_pad c : c <> [] -> cell_ok c -> py_strip (pad c) = c.
Proof.
  intros Hne [_ [Hh Ht]]. unfold py_strip, pad. cbn [app lstrip]. change (py_space SP) with true. cbv iota.
  destruct c as [|x r]; [congruence|]. cbn [app]. rewrite (lstrip_head x _ Hh).
  change (x :: r ++ [SP]) with ((x :: r) ++ [SP]). rewrite rev_app_distr. cbn [rev app lstrip]. change (py_space SP) with true. cbv iota.
  destruct (rev r ++ [x]) as [|y t] eqn:E.
  - destruct (rev r); discriminate.
  - cbn [rev] in Ht. rewrite E in Ht. rewrite (lstrip_head y t Ht). rewrite <- E. rewrite rev_app_distr, rev_involutive. reflexivity.
Qed.
Lemma unescape_noop s : forallb (fun x => negb (x =? BSL)) s = true -> unescape_pipes s = s.
Proof.
  induction s as [|a t IH]; intro H; [reflexivity|]. cbn [forallb] in H. apply andb_true_iff in H as [Ha Ht]. apply negb_true_iff in Ha.
  destruct t as [|b r]; [reflexivity|]. cbn [unescape_pipes]. rewrite Ha. cbn [andb]. f_equal. exact (IH Ht).
Qed.
Lemma cell_ok_nobsl c : cell_ok c -> forallb (fun x => negb (x =? BSL)) c = true.
Proof. intros [H _]. induction c as [|x r IH]; [reflexivity|]. cbn [forallb] in *. apply andb_true_iff in H as [Hx Hr]. rewrite (IH Hr), andb_true_r. apply andb_true_iff in Hx as [_ Hb]. exact Hb. Qed.
Lemma isspace_pad_nonempty c : c <> [] -> cell_ok c -> py_isspace (pad c) = false.
Proof.
  intros Hne [_ [Hh _]]. destruct c as [|x r]; [congruence|]. unfold pad, py_isspace. cbn [app forallb]. rewrite Hh. rewrite andb_false_r. reflexivity.
Qed.
Lemma strp_pad c : cell_ok c -> strp_cell (pad c) = cellopt c.
Proof.
  intro H. destruct c as [|x r] eqn:E.
  - reflexivity.
  - rewrite <- E in *. assert (Hne : c <> []) by (rewrite E; discriminate). unfold strp_cell. rewrite (isspace_pad_nonempty c Hne H).
    unfold pad at 1. cbn [app orb]. rewrite (py_strip_pad c Hne H), (unescape_noop c (cell_ok_nobsl c H)). rewrite E. reflexivity.
Qed.

(* ---- one rendered line ---- *)
Definition data_line (cs : list str) : str := [PIPE] ++ join [PIPE] ([SP] :: map pad cs) ++ [PIPE].
Definition sheet_line (n : str) : str := [PIPE] ++ pad n ++ [PIPE].

Lemma split_unesc_plain : forall s cur, forallb (fun x => negb (x =? BSL)) s = true ->
  split_unesc false cur s = match split_on PIPE s with [] => [rev cur] | x :: r => (rev cur ++ x) :: r end.
Proof.
  induction s as [|c r IH]; intros cur H; cbn [split_unesc split_on].
  - rewrite app_nil_r. reflexivity.
  - cbn [forallb] in H. apply andb_true_iff in H as [Hc Hr]. apply negb_true_iff in Hc. cbn [negb]. rewrite andb_true_r. unfold ceq.
    destruct (c =? PIPE) eqn:E.
    + rewrite (IH [] Hr). cbn [rev app]. rewrite app_nil_r. pose proof (split_on_nonnil PIPE r) as Hn. destruct (split_on PIPE r); [congruence|reflexivity].
    + rewrite Hc. rewrite (IH (c :: cur) Hr). cbn [rev]. pose proof (split_on_nonnil PIPE r) as Hn. destruct (split_on PIPE r) as [|x l]; [congruence|]. rewrite <- app_assoc. reflexivity.
Qed.
Lemma cell_ok_nopipe c : cell_ok c -> nochar PIPE c = true.
Proof. intros [H _]. unfold nochar. induction c as [|x r IH]; [reflexivity|]. cbn [forallb] in *. apply andb_true_iff in H as [Hx Hr]. rewrite (IH Hr), andb_true_r.
  apply andb_true_iff in Hx as [Hx _]. apply andb_true_iff in Hx as [Hx _]. apply andb_true_iff in Hx as [Hx _]. unfold ceq. exact Hx. Qed.
Lemma nochar_pad c : nochar PIPE c = true -> nochar PIPE (pad c) = true.
Proof. intro H. unfold pad, nochar in *. rewrite !forallb_app, H. reflexivity. Qed.
Lemma nobsl_app a b : forallb (fun x => negb (x =? BSL)) (a ++ b) = forallb (fun x => negb (x =? BSL)) a && forallb (fun x => negb (x =? BSL)) b.
Proof. apply forallb_app. Qed.
Lemma nobsl_join l : Forall (fun c => forallb (fun x => negb (x =? BSL)) c = true) l -> forallb (fun x => negb (x =? BSL)) (join [PIPE] l) = true.
Proof.
  induction 1 as [|c r Hc _ IH]; [reflexivity|]. destruct r as [|d r']; [exact Hc|].
  change (join [PIPE] (c :: d :: r')) with (c ++ [PIPE] ++ join [PIPE] (d :: r')).
  rewrite !nobsl_app, Hc, IH. reflexivity.
Qed.

(* the cells the reader takes from a rendered line *)
Definition group_cells (g : str) : list (option str) := map strp_cell (split_unesc false [] g).
Lemma group_of_line g : md_cell_group ([PIPE] ++ g ++ [PIPE]) = Some g.
Proof.
  unfold md_cell_group. cbn [app lstrip]. change (py_space PIPE) with false. cbv iota. change (PIPE =? PIPE) with true. cbv iota.
  rewrite rev_app_distr. cbn [rev app drop_to_pipe]. change (PIPE =? PIPE) with true. cbv iota. rewrite rev_involutive. reflexivity.
Qed.
Lemma no_inline_comment g : cut_inline_comment ([PIPE] ++ g ++ [PIPE]) = [PIPE] ++ g ++ [PIPE].
Proof. unfold cut_inline_comment. change ([PIPE] ++ g ++ [PIPE]) with ((PIPE :: g) ++ [PIPE]). rewrite rev_app_distr. cbn [rev app inline_cut_rev]. change (PIPE =? PIPE) with true. reflexivity. Qed.
Lemma not_comment g : is_comment ([PIPE] ++ g ++ [PIPE]) = false.
Proof. reflexivity. Qed.

Lemma data_cells cs : Forall cell_ok cs -> group_cells (join [PIPE] ([SP] :: map pad cs)) = None :: map cellopt cs.
Proof.
  intro H. unfold group_cells.
  assert (Hp : Forall (fun x => nochar PIPE x = true) ([SP] :: map pad cs)).
  { constructor; [reflexivity|]. apply Forall_map. eapply Forall_impl; [|exact H]. intros c Hc. apply nochar_pad, cell_ok_nopipe, Hc. }
  assert (Hb : forallb (fun x => negb (x =? BSL)) (join [PIPE] ([SP] :: map pad cs)) = true).
  { apply nobsl_join. constructor; [reflexivity|]. apply Forall_map. eapply Forall_impl; [|exact H]. intros c Hc. unfold pad. rewrite !nobsl_app, (cell_ok_nobsl c Hc). reflexivity. }
  rewrite (split_unesc_plain _ [] Hb). rewrite split_join; [|discriminate|exact Hp]. cbn [rev app map]. f_equal.
  rewrite map_map. apply map_ext_in. intros c Hc. apply strp_pad. rewrite Forall_forall in H. apply H, Hc.
Qed.
Lemma sheet_cells n : n <> [] -> cell_ok n -> group_cells (pad n) = [Some n].
Proof.
  intros Hne H. unfold group_cells.
  assert (Hb : forallb (fun x => negb (x =? BSL)) (pad n) = true) by (unfold pad; rewrite !nobsl_app, (cell_ok_nobsl n H); reflexivity).
  rewrite (split_unesc_plain _ [] Hb), (split_on_nochar PIPE (pad n) (nochar_pad n (cell_ok_nopipe n H))). cbn [rev app map].
  rewrite (strp_pad n H). destruct n; [congruence|reflexivity].
Qed.

(* ---- the state machine on rendered lines ---- *)
Definition flush (s : st) := match cur_rows s with Some ((_ :: _) as a) => put (cur_name s) (Some a) (sheets s) | _ => sheets s end.
Lemma step_line g first rw s : is_separator g = false -> group_cells g = first :: rw ->
  step s ([PIPE] ++ g ++ [PIPE]) =
    let '(sheets1, name1, rows1) :=
      match first with
      | Some n => (flush s, Some n, Some [])
      | None => (sheets s, cur_name s, cur_rows s)
      end in
    let blank_kept := match first, rows1 with None, Some (_ :: _) => true | _, _ => false end in
    let rows2 := match name1, rows1 with Some _, Some a => if any_some rw || blank_kept then Some (a ++ [rw]) else rows1 | _, _ => rows1 end in
    {| sheets := put name1 rows2 sheets1; cur_name := name1; cur_rows := rows2 |}.
Proof.
  intros Hs Hc. unfold step. rewrite not_comment, no_inline_comment, group_of_line, Hs. fold (group_cells g). rewrite Hc. destruct first; reflexivity.
Qed.
Lemma sep_pad n : is_separator (pad n) = false. Proof. reflexivity. Qed.
Lemma sep_data cs : is_separator (join [PIPE] ([SP] :: map pad cs)) = false.
Proof. destruct (map pad cs); reflexivity. Qed.

Lemma step_sheet n s : n <> [] -> cell_ok n ->
  step s (sheet_line n) = {| sheets := put (Some n) (Some []) (flush s); cur_name := Some n; cur_rows := Some [] |}.
Proof. intros Hne H. unfold sheet_line. rewrite (step_line (pad n) (Some n) [] s (sep_pad n) (sheet_cells n Hne H)). reflexivity. Qed.
Definition add_row (a : list row) (cs : list str) : list row :=
  if any_some (map cellopt cs) || match a with _ :: _ => true | [] => false end then a ++ [map cellopt cs] else a.
Lemma step_data cs s n a : Forall cell_ok cs -> cur_name s = Some n -> cur_rows s = Some a ->
  step s (data_line cs) = {| sheets := put (Some n) (Some (add_row a cs)) (sheets s); cur_name := Some n; cur_rows := Some (add_row a cs) |}.
Proof.
  intros H Hn Ha. unfold data_line. rewrite (step_line _ None (map cellopt cs) s (sep_data cs) (data_cells cs H)). rewrite Hn, Ha. unfold add_row.
  destruct (any_some (map cellopt cs)); destruct a; reflexivity.
Qed.

(* keys and put *)
Definition keyeq (k k' : option str) : bool := match k, k' with Some a, Some b => seqb a b | None, None => true | _, _ => false end.
Lemma put_last l k v0 v : forallb (fun e => negb (keyeq k (fst e))) l = true -> put k v (l ++ [(k, v0)]) = l ++ [(k, v)].
Proof.
  induction l as [|[k' v'] r IH]; intro H; cbn [app put].
  - assert (E : keyeq k k = true) by (destruct k; [apply seqb_refl|reflexivity]). unfold keyeq in E. rewrite E. reflexivity.
  - cbn [forallb fst] in H. apply andb_true_iff in H as [Hk Hr]. apply negb_true_iff in Hk. unfold keyeq in Hk. rewrite Hk. rewrite (IH Hr). reflexivity.
Qed.
Lemma put_new l k v : forallb (fun e => negb (keyeq k (fst e))) l = true -> put k v l = l ++ [(k, v)].
Proof.
  induction l as [|[k' v'] r IH]; intro H; cbn [app put]; [reflexivity|].
  cbn [forallb fst] in H. apply andb_true_iff in H as [Hk Hr]. apply negb_true_iff in Hk. unfold keyeq in Hk. rewrite Hk, (IH Hr). reflexivity.
Qed.

(* a sheet's lines, started from a state whose current sheet is the last entry *)
Definition rows_of (grid : list (list str)) : list row := fold_left add_row grid [].
Lemma fold_data : forall grid s n a done, Forall (Forall cell_ok) grid ->
  cur_name s = Some n -> cur_rows s = Some a -> sheets s = done ++ [(Some n, Some a)] -> forallb (fun e => negb (keyeq (Some n) (fst e))) done = true ->
  let s' := fold_left step (map data_line grid) s in
  cur_name s' = Some n /\ cur_rows s' = Some (fold_left add_row grid a) /\ sheets s' = done ++ [(Some n, Some (fold_left add_row grid a))].
Proof.
  induction grid as [|cs grid IH]; intros s n a done H Hn Ha Hs Hd; cbn [map fold_left]; [repeat split; assumption|].
  inversion H as [|? ? Hcs Hrest]; subst.
  rewrite (step_data cs s n a Hcs Hn Ha). apply IH; try assumption; try reflexivity.
  cbn [sheets]. rewrite Hs. apply put_last. exact Hd.
Qed.

(* ---- a whole rendered workbook ---- *)
Definition sheetdef := (str * list (list str))%type.
Definition entry (d : sheetdef) : option str * option (list row) := (Some (fst d), Some (rows_of (snd d))).
Definition sheet_lines (d : sheetdef) : list str := sheet_line (fst d) :: map data_line (snd d).
Definition sheet_ok (d : sheetdef) : Prop := fst d <> [] /\ cell_ok (fst d) /\ Forall (Forall cell_ok) (snd d).
Definition Inv (W1 : list sheetdef) (s : st) : Prop :=
  sheets s = map entry W1 /\
  match rev W1 with
  | [] => cur_name s = None /\ cur_rows s = None
  | d :: _ => cur_name s = Some (fst d) /\ cur_rows s = Some (rows_of (snd d))
  end.
Lemma fresh_key n l : ~ In n (map fst l) -> forallb (fun e => negb (keyeq (Some n) (fst e))) (map entry l) = true.
Proof.
  induction l as [|d r IH]; intro H; [reflexivity|]. cbn [map forallb entry fst keyeq]. cbn [map] in H.
  destruct (seqb_spec n (fst d)) as [E|E]; [exfalso; apply H; left; symmetry; exact E|]. cbn [negb andb]. apply IH. intro Hin. apply H. right. exact Hin.
Qed.
Lemma nodup_app_l {A} (a b : list A) : NoDup (a ++ b) -> NoDup a.
Proof. induction a as [|x a IH]; intro H; [constructor|]. cbn [app] in H. inversion H as [|? ? Hn Hr]; subst. constructor; [intro Hin; apply Hn; apply in_or_app; left; exact Hin|apply IH; exact Hr]. Qed.
Lemma flush_inv W1 s : NoDup (map fst W1) -> Inv W1 s -> flush s = sheets s.
Proof.
  intros Hnd [Hs Hc]. unfold flush. unfold sheetdef in *. destruct (rev W1) as [|d r] eqn:E.
  - destruct Hc as [_ Hr]. rewrite Hr. reflexivity.
  - destruct Hc as [Hn Hr]. rewrite Hr. destruct (rows_of (snd d)) as [|x xs] eqn:Er; [reflexivity|].
    assert (EW : W1 = rev r ++ [d]) by (rewrite <- (rev_involutive W1), E; reflexivity).
    assert (Ed : entry d = (Some (fst d), Some (x :: xs))) by (unfold entry; rewrite Er; reflexivity).
    rewrite Hn, Hs, EW, map_app. cbn [map]. rewrite Ed. apply put_last. apply fresh_key.
    rewrite EW, map_app in Hnd. cbn [map] in Hnd. apply NoDup_remove_2 in Hnd. rewrite app_nil_r in Hnd. exact Hnd.
Qed.
Lemma process_sheet W1 d s : NoDup (map fst (W1 ++ [d])) -> sheet_ok d -> Inv W1 s -> Inv (W1 ++ [d]) (fold_left step (sheet_lines d) s).
Proof.
  intros Hnd [Hne [Hok Hg]] HI. unfold sheet_lines. cbn [fold_left]. rewrite (step_sheet (fst d) s Hne Hok).
  assert (Hnd1 : NoDup (map fst W1)) by (rewrite map_app in Hnd; apply nodup_app_l in Hnd; exact Hnd).
  rewrite (flush_inv W1 s Hnd1 HI). destruct HI as [Hs _].
  assert (Hfresh : forallb (fun e => negb (keyeq (Some (fst d)) (fst e))) (map entry W1) = true).
  { apply fresh_key. rewrite map_app in Hnd. cbn [map] in Hnd. apply NoDup_remove_2 in Hnd. rewrite app_nil_r in Hnd. exact Hnd. }
  rewrite Hs, (put_new _ _ _ Hfresh).
  destruct (fold_data (snd d) {| sheets := map entry W1 ++ [(Some (fst d), Some [])]; cur_name := Some (fst d); cur_rows := Some [] |}
             (fst d) [] (map entry W1) Hg eq_refl eq_refl eq_refl Hfresh) as [Hn [Hr Hsh]].
  split.
  - rewrite Hsh, map_app. reflexivity.
  - rewrite rev_app_distr. cbn [rev app]. split; [exact Hn|exact Hr].
Qed.
Theorem md_lines_round_trip : forall W2 W1 s, NoDup (map fst (W1 ++ W2)) -> Forall sheet_ok W2 -> Inv W1 s ->
  sheets (fold_left step (flat_map sheet_lines W2) s) = map entry (W1 ++ W2).
Proof.
  induction W2 as [|d W2 IH]; intros W1 s Hnd Hok HI.
  - rewrite app_nil_r. exact (proj1 HI).
  - cbn [flat_map]. rewrite fold_left_app. inversion Hok as [|? ? Hd Hrest]; subst.
    replace (W1 ++ d :: W2) with ((W1 ++ [d]) ++ W2) in * by (rewrite <- app_assoc; reflexivity).
    apply IH; [exact Hnd|exact Hrest|]. apply process_sheet; [|exact Hd|exact HI].
    rewrite map_app in Hnd. apply nodup_app_l in Hnd. exact Hnd.
Qed.

(* ---- the text: lines joined by line breaks, with a final line break (forms.as_md / any Markdown table file) ---- *)
Definition render (W : list sheetdef) : str := join [10] (flat_map sheet_lines W) ++ [10].
Lemma join_snoc sep (l : list str) x : l <> [] -> join sep (l ++ [x]) = join sep l ++ sep ++ x.
Proof.
  induction l as [|a r IH]; intro H; [congruence|]. destruct r as [|b r'].
  - reflexivity.
  - change ((a :: b :: r') ++ [x]) with (a :: (b :: r') ++ [x]). change (join sep (a :: (b :: r') ++ [x])) with (a ++ sep ++ join sep ((b :: r') ++ [x])).
    rewrite IH by discriminate. change (join sep (a :: b :: r')) with (a ++ sep ++ join sep (b :: r')). rewrite <- !app_assoc. reflexivity.
Qed.
Lemma cell_ok_nonl c : cell_ok c -> nochar 10 c = true.
Proof. intros [H _]. unfold nochar. induction c as [|x r IH]; [reflexivity|]. cbn [forallb] in *. apply andb_true_iff in H as [Hx Hr]. rewrite (IH Hr), andb_true_r.
  apply andb_true_iff in Hx as [Hx _]. apply andb_true_iff in Hx as [Hx _]. apply andb_true_iff in Hx as [_ Hx]. unfold ceq. exact Hx. Qed.
Lemma nonl_join l : Forall (fun c => nochar 10 c = true) l -> nochar 10 (join [PIPE] l) = true.
Proof.
  induction 1 as [|c r Hc _ IH]; [reflexivity|]. destruct r as [|d r']; [exact Hc|].
  change (join [PIPE] (c :: d :: r')) with (c ++ [PIPE] ++ join [PIPE] (d :: r')). unfold nochar in *. rewrite !forallb_app, Hc, IH. reflexivity.
Qed.
Lemma nonl_sheet_lines d : sheet_ok d -> Forall (fun l => nochar 10 l = true) (sheet_lines d).
Proof.
  intros [_ [Hn Hg]]. unfold sheet_lines. constructor.
  - unfold sheet_line, pad, nochar. rewrite !forallb_app. pose proof (cell_ok_nonl _ Hn) as H. unfold nochar in H. rewrite H. reflexivity.
  - apply Forall_map. eapply Forall_impl; [|exact Hg]. intros cs Hcs. unfold data_line, nochar. rewrite !forallb_app.
    assert (J : nochar 10 (join [PIPE] ([SP] :: map pad cs)) = true).
    { apply nonl_join. constructor; [reflexivity|]. apply Forall_map. eapply Forall_impl; [|exact Hcs]. intros c Hc. unfold pad, nochar. rewrite !forallb_app.
      pose proof (cell_ok_nonl _ Hc) as H. unfold nochar in H. rewrite H. reflexivity. }
    unfold nochar in J. rewrite J. reflexivity.
Qed.
Lemma step_empty_line s : step s [] = s.
Proof. reflexivity. Qed.
Theorem md_round_trip W : W <> [] -> NoDup (map fst W) -> Forall sheet_ok W -> md_structure (render W) = map entry W.
Proof.
  intros Hne Hnd Hok. unfold md_structure, render.
  assert (Hl : flat_map sheet_lines W <> []). { destruct W as [|d W']; [congruence|]. discriminate. }
  assert (Ej : join [10] (flat_map sheet_lines W) ++ [10] = join [10] (flat_map sheet_lines W ++ [[]])) by (rewrite (join_snoc [10] _ [] Hl), app_nil_r; reflexivity).
  rewrite Ej.
  rewrite split_join.
  - rewrite fold_left_app. cbn [fold_left]. rewrite step_empty_line.
    apply (md_lines_round_trip W [] _ Hnd Hok). split; [reflexivity|]. split; reflexivity.
  - destruct (flat_map sheet_lines W); discriminate.
  - apply Forall_app. split; [|constructor; [reflexivity|constructor]].
    clear Hne Hnd Hl Ej. induction Hok as [|d W' Hd _ IH]; [constructor|]. cbn [flat_map]. apply Forall_app. split; [apply nonl_sheet_lines; exact Hd|exact IH].
Qed.

(* the hypotheses are satisfiable: a two-sheet workbook with an empty cell, and the reader evaluated on its rendered text *)
Definition ex_workbook : list sheetdef :=
  [([115;117;114;118;101;121], [[[116;121;112;101]; [110;97;109;101]; [108;97;98;101;108]]; [[116;101;120;116]; [113;49]; [72;105;32;116;104;101;114;101]]; [[110;111;116;101]; [110]; []]; [[]; []; []]]);
   ([99;104;111;105;99;101;115], [[[108;105;115;116;95;110;97;109;101]; [110;97;109;101]]; [[121;110]; [121;101;115]]])].
Lemma ex_workbook_ok : ex_workbook <> [] /\ NoDup (map fst ex_workbook) /\ Forall sheet_ok ex_workbook.
Proof.
  split; [discriminate|]. split.
  - repeat constructor; cbn; intuition discriminate.
  - repeat constructor; try discriminate; try reflexivity.
Qed.
Example ex_workbook_read_back : md_structure (render ex_workbook) = map entry ex_workbook /\ length (render ex_workbook) = 145%nat.
Proof. split; vm_compute; reflexivity. Qed.

(* ---- a text without a single table row gives no sheet at all (so the Markdown reader reports a read error and the next reader,
        CSV, gets its turn: defect F11) ---- *)
Lemma step_no_row s l : is_comment l = true \/ md_cell_group (cut_inline_comment l) = None -> step s l = s.
Proof. unfold step. intros [H|H]; [rewrite H; reflexivity|]. destruct (is_comment l); [reflexivity|]. rewrite H. reflexivity. Qed.
Theorem no_rows_no_sheets text :
  (forall l, In l (split_on 10 text) -> is_comment l = true \/ md_cell_group (cut_inline_comment l) = None) -> md_structure text = [].
Proof.
  unfold md_structure. generalize (split_on 10 text) as lines. intros lines H.
  assert (E : forall s, fold_left step lines s = s).
  { induction lines as [|l r IH]; intro s; [reflexivity|]. cbn [fold_left]. rewrite (step_no_row s l (H l (or_introl eq_refl))).
    apply IH. intros l' Hl'. apply H. right. exact Hl'. }
  rewrite E. reflexivity.
Qed.
(* a CSV workbook whose label holds seven pipes: no line is a table row *)
Definition ex_csv_with_pipes : str :=
  [115;117;114;118;101;121;44;44;44;10; 44;116;121;112;101;44;110;97;109;101;44;108;97;98;101;108;10;
   44;116;101;120;116;44;113;44;34;97;32;124;32;98;32;124;32;99;32;124;32;100;32;124;32;101;32;124;32;102;32;124;32;103;32;124;34;10].
Lemma ex_csv_has_no_rows : md_structure ex_csv_with_pipes = [] /\ Nat.le 5 (length (filter (fun c => N.eqb c PIPE) ex_csv_with_pipes)).
Proof. split; [vm_compute; reflexivity|vm_compute]. repeat constructor. Qed.
