(* Proofs/MdBook.v — the two text containers agree: a workbook that both can carry, rendered as a Markdown table and written as CSV,
   is read into the SAME book (sheet names, header rows, every filled cell under its own header, blank rows where they were) by
   md_to_dict (Model/Md.v + Model/MdBook.v) and by csv_to_dict (Spec/Csv.v + Model/CsvBook.v). *)
Require Import PX.Base.Str PX.Base.PyStr PX.Model.Warnings PX.Gen.Warn PX.Spec.Csv PX.Model.Choices PX.Proofs.Choices
  PX.Model.Backends PX.Gen.Backends PX.Model.Md PX.Model.CsvBook PX.Model.MdBook PX.Proofs.Md PX.Proofs.CsvBook.
From Coq Require Import Lia.
Local Open Scope N_scope.

Notation csheet := PX.Proofs.CsvBook.sheetdef.
Notation csheet_ok := PX.Proofs.CsvBook.sheet_ok.
Notation msheet_ok := PX.Proofs.Md.sheet_ok.
Definition to_md (d : csheet) : PX.Proofs.Md.sheetdef := (sname d, shead d :: sgrid d).

Lemma cellopt_opt_cell l : map cellopt l = map opt_cell l.
Proof. induction l as [|c r IH]; [reflexivity|]. cbn [map]. rewrite IH. destruct c; reflexivity. Qed.
Lemma cellopt_some l : Forall (fun h => nonempty h = true) l -> map cellopt l = map Some l.
Proof. induction 1 as [|c r Hc _ IH]; [reflexivity|]. cbn [map]. rewrite IH. destruct c; [discriminate|reflexivity]. Qed.

(* the rows of a rendered sheet: the header row, then every row of the grid (blank ones included: they come below the header row) *)
Lemma rows_of_all hs grid : Forall (fun h => nonempty h = true) hs -> hs <> [] ->
  rows_of (hs :: grid) = map (map cellopt) (hs :: grid).
Proof.
  intros Hh Hne. unfold rows_of. cbn [fold_left].
  assert (E0 : add_row [] hs = [map cellopt hs]).
  { unfold add_row. destruct hs as [|h r]; [congruence|]. inversion Hh as [|? ? H1 _]; subst. destruct h; [discriminate|]. reflexivity. }
  rewrite E0. cbn [map]. generalize (map cellopt hs). intro r0.
  assert (G : forall g a, a <> [] -> fold_left add_row g a = a ++ map (map cellopt) g).
  { induction g as [|cs g IH]; intros a Ha; [rewrite app_nil_r; reflexivity|]. cbn [fold_left map].
    assert (E : add_row a cs = a ++ [map cellopt cs]) by (unfold add_row; destruct a; [congruence|]; rewrite orb_true_r; reflexivity).
    rewrite E, IH by (destruct a; discriminate). rewrite <- app_assoc. reflexivity. }
  rewrite (G grid [r0]) by discriminate. reflexivity.
Qed.

(* one row: the md dict of a row is the csv dict of the same cells *)
Lemma md_zip_is_zip hs : forall cs acc, md_zip_acc acc (map Some hs) (map cellopt cs) = zip_filled_acc acc (map Some hs) cs.
Proof.
  induction hs as [|h hs IH]; intros cs acc; [destruct cs; reflexivity|]. destruct cs as [|c cs]; [reflexivity|].
  cbn [map md_zip_acc zip_filled_acc key_of]. rewrite <- IH. destruct c; reflexivity.
Qed.
Lemma zip_no_content : forall hs cs acc, has_content cs = false -> zip_filled_acc acc hs cs = acc.
Proof.
  induction hs as [|h hs IH]; intros cs acc H; [destruct cs; reflexivity|]. destruct cs as [|c cs]; [reflexivity|].
  unfold has_content in H. cbn [existsb] in H. apply orb_false_iff in H as [H1 H2]. cbn [zip_filled_acc]. rewrite H1.
  destruct h; apply IH; exact H2.
Qed.
Lemma row_of_is_zip hs cs : row_of hs cs = zip_filled (map Some hs) cs.
Proof. unfold row_of. destruct (has_content cs) eqn:E; [reflexivity|]. unfold zip_filled. rewrite zip_no_content by exact E. reflexivity. Qed.
Lemma takewhile_nil {A} (p : A -> bool) : takewhile p [] = []. Proof. reflexivity. Qed.
Lemma md_rows_are_csv_rows (d : csheet) : Forall (fun h => nonempty h = true) (shead d) ->
  md_sheet_rows (map (map cellopt) (shead d :: sgrid d)) (map Some (shead d)) = data_rows d.
Proof.
  intro Hh. unfold md_sheet_rows, data_rows, raw_rows. cbn [map]. f_equal.
  unfold md_keys. rewrite map_length. rewrite <- (map_length cellopt (shead d)). rewrite skipn_all. cbn [takewhile]. rewrite app_nil_r.
  rewrite map_map. apply map_ext. intro cs. rewrite row_of_is_zip. unfold zip_filled. apply md_zip_is_zip.
Qed.

(* ---- the book ---- *)
Definition MInv (W1 : list csheet) (s : mst) : Prop :=
  mbk s = (k_sheet_names, VNames (map sname W1)) :: flat_map final_entries W1 /\ merr s = None.
Lemma keys_final W : keys (flat_map final_entries W) = flat_map (fun d => [sname d; header_key (sname d)]) W.
Proof. induction W as [|d r IH]; [reflexivity|]. cbn [flat_map final_entries app keys map fst]. f_equal. f_equal. exact IH. Qed.

Lemma md_process_sheet oo W1 (d : csheet) s : NoDup (all_keys (W1 ++ [d])) -> csheet_ok d -> MInv W1 s ->
  MInv (W1 ++ [d]) (md_step oo s (entry (to_md d))).
Proof.
  intros Hnd [Hne [Hsup [Hlow [Hstr [Hhne [Hhs [Hhnd Hg]]]]]]] [HI He]. unfold MInv in *.
  assert (Hkeys : keys (mbk s) = all_keys W1) by (rewrite HI; unfold all_keys; cbn [keys map fst]; rewrite keys_final; reflexivity).
  assert (Hfresh : ~ In (sname d) (all_keys W1) /\ ~ In (header_key (sname d)) (all_keys W1 ++ [sname d])).
  { unfold all_keys in Hnd. rewrite flat_map_app in Hnd. cbn [flat_map app] in Hnd.
    change (k_sheet_names :: flat_map (fun d0 => [sname d0; header_key (sname d0)]) W1 ++ [sname d; header_key (sname d)])
      with ((k_sheet_names :: flat_map (fun d0 => [sname d0; header_key (sname d0)]) W1) ++ [sname d; header_key (sname d)]) in Hnd.
    fold (all_keys W1) in Hnd. split.
    - intro Hin. apply NoDup_remove_2 in Hnd. apply Hnd. apply in_or_app. left. exact Hin.
    - change (all_keys W1 ++ [sname d; header_key (sname d)]) with (all_keys W1 ++ [sname d] ++ [header_key (sname d)]) in Hnd. rewrite app_assoc in Hnd.
      apply NoDup_remove_2 in Hnd. rewrite app_nil_r in Hnd. exact Hnd. }
  destruct Hfresh as [Hf1 Hf2].
  assert (Hnonempty : Forall (fun h => nonempty h = true) (shead d)) by (eapply Forall_impl; [|exact Hhs]; intros h [H1 _]; exact H1).
  unfold md_step, entry, to_md. cbn [fst snd]. rewrite He.
  rewrite (rows_of_all (shead d) (sgrid d) Hnonempty Hhne). cbn [map hd].
  rewrite HI. cbn [bget]. rewrite seqb_refl. cbn [bput]. rewrite seqb_refl. rewrite Hlow, Hsup. cbn [negb andb].
  rewrite (cellopt_opt_cell (shead d)).
  rewrite headers_good; [|eapply Forall_impl; [|exact Hhs]; intros h [H1 [H2 H3]]; split; [exact H1|unfold clean_header; rewrite H2; exact H3]|exact Hhnd].
  rewrite somes_map_Some. rewrite (dedup_nodup _ [] Hhnd) by (intros x _ []).
  change (map cellopt (shead d) :: map (map cellopt) (sgrid d)) with (map (map cellopt) (shead d :: sgrid d)).
  rewrite <- (cellopt_opt_cell (shead d)).
  change (map cellopt (shead d) :: map (map cellopt) (sgrid d)) with (map (map cellopt) (shead d :: sgrid d)).
  rewrite (md_rows_are_csv_rows d Hnonempty).
  cbn [mbk merr]. split; [|reflexivity].
  assert (Hk : seqb (sname d) k_sheet_names = false).
  { destruct (seqb_spec (sname d) k_sheet_names) as [E|_]; [|reflexivity]. exfalso. apply Hf1. left. symmetry. exact E. }
  assert (Hk2 : seqb (header_key (sname d)) k_sheet_names = false).
  { destruct (seqb_spec (header_key (sname d)) k_sheet_names) as [E|_]; [|reflexivity]. exfalso. apply Hf2. apply in_or_app. left. left. symmetry. exact E. }
  cbn [bput]. rewrite Hk.
  rewrite (bput_new (flat_map final_entries W1) (sname d)) by (rewrite keys_final; intro Hin; apply Hf1; right; exact Hin).
  cbn [bput]. rewrite Hk2. rewrite map_app. cbn [map]. f_equal.
  rewrite bput_new.
  - rewrite flat_map_app. cbn [flat_map final_entries app]. rewrite <- app_assoc. reflexivity.
  - unfold keys. rewrite map_app. cbn [map fst]. fold (keys (flat_map final_entries W1)). rewrite keys_final.
    intro Hin. apply Hf2. apply in_app_or in Hin as [Hin|Hin]; apply in_or_app; [left; right; exact Hin|right; exact Hin].
Qed.
Theorem md_book_of_entries oo : forall W2 W1 s, NoDup (all_keys (W1 ++ W2)) -> Forall csheet_ok W2 -> MInv W1 s ->
  MInv (W1 ++ W2) (fold_left (md_step oo) (map (fun d => entry (to_md d)) W2) s).
Proof.
  induction W2 as [|d W2 IH]; intros W1 s Hnd Hok HI.
  - rewrite app_nil_r. exact HI.
  - cbn [map fold_left]. inversion Hok as [|? ? Hd Hrest]; subst.
    replace (W1 ++ d :: W2) with ((W1 ++ [d]) ++ W2) in * by (rewrite <- app_assoc; reflexivity).
    apply IH; [exact Hnd|exact Hrest|]. apply md_process_sheet; [|exact Hd|exact HI].
    unfold all_keys in *. rewrite flat_map_app in Hnd. rewrite app_comm_cons in Hnd.
    clear -Hnd. revert Hnd. generalize (k_sheet_names :: flat_map (fun d0 => [sname d0; header_key (sname d0)]) (W1 ++ [d])). intros l H.
    induction l as [|x l IHl]; [constructor|]. cbn [app] in H. inversion H as [|? ? Hx Hr]; subst. constructor; [intro Hin; apply Hx; apply in_or_app; left; exact Hin|apply IHl; exact Hr].
Qed.
Theorem md_book_read W : NoDup (all_keys W) -> Forall csheet_ok W ->
  md_book (map (fun d => entry (to_md d)) W) = Ok ((k_sheet_names, VNames (map sname W)) :: flat_map final_entries W).
Proof.
  intros Hnd Hok. unfold md_book.
  destruct (md_book_of_entries (Nat.eqb (length (map (fun d => entry (to_md d)) W)) 1) W [] {| mbk := [(k_sheet_names, VNames [])]; merr := None |} Hnd Hok) as [Hb He];
    [split; reflexivity|].
  cbn [app] in Hb. rewrite He, Hb. reflexivity.
Qed.

(* ---- through both texts ---- *)
Definition md_ok (d : csheet) : Prop := msheet_ok (to_md d).
Lemma nodup_names W : NoDup (all_keys W) -> NoDup (map sname W).
Proof.
  unfold all_keys. intro H. inversion H as [|? ? _ H']; subst. clear H. induction W as [|d W IH]; [constructor|].
  cbn [flat_map app map] in *. inversion H' as [|? ? Hx Hr]; subst. inversion Hr as [|? ? Hy Hr']; subst. constructor; [|exact (IH Hr')].
  intro Hin. apply Hx. right. clear -Hin. induction W as [|e W IHW]; [destruct Hin|]. cbn [flat_map app map] in *. destruct Hin as [<-|Hin]; [left; reflexivity|right; right; exact (IHW Hin)].
Qed.
Theorem md_and_csv_agree W : W <> [] -> NoDup (all_keys W) -> Forall csheet_ok W -> Forall md_ok W ->
  Some (md_book (md_structure (render (map to_md W)))) = option_map (csv_book lower_ascii) (parse_csv (write_csv (flat_map sheet_rows W))).
Proof.
  intros Hne Hnd Hc Hm.
  rewrite (csv_text_round_trip W Hnd Hc).
  rewrite (md_round_trip (map to_md W)).
  - rewrite map_map. rewrite (md_book_read W Hnd Hc). reflexivity.
  - destruct W; [congruence|discriminate].
  - rewrite map_map. cbn [to_md fst]. exact (nodup_names W Hnd).
  - apply Forall_map. exact Hm.
Qed.
(* the hypotheses are satisfiable: the two-sheet workbook of Proofs/CsvBook.v (an empty cell, a blank row) can be carried by both *)
Lemma ex_both_ok : ex_csv_workbook <> [] /\ NoDup (all_keys ex_csv_workbook) /\ Forall csheet_ok ex_csv_workbook /\ Forall md_ok ex_csv_workbook.
Proof.
  split; [discriminate|]. destruct ex_csv_workbook_ok as [H1 H2]. split; [exact H1|]. split; [exact H2|].
  unfold ex_csv_workbook, md_ok, PX.Proofs.Md.sheet_ok, to_md. cbn [sname shead sgrid fst snd].
  repeat constructor; try discriminate; try (vm_compute; reflexivity).
Qed.
Example ex_both_read : md_book (md_structure (render (map to_md ex_csv_workbook))) = csv_book lower_ascii (flat_map sheet_rows ex_csv_workbook).
Proof. vm_compute. reflexivity. Qed.
