(* Proofs/Mixed.v — escape, substitute, re-parse yields exactly the text pieces and one output per reference. *)
Require Import PX.Base.Str PX.Model.Dom PX.Model.Mixed PX.Spec.XmlParse PX.Spec.XmlName PX.Proofs.Esc PX.Proofs.RT.

Definition safe_path (p : str) : bool := forallb (fun c => notc QUOT c && notc LT c && notc AMP c) p.
Definition item_of (p : piece) : item :=
  match p with PTxt s => ITx s | PRef path => IEl (El t_output [(t_value, path)] []) end.

Lemma unesc_safe p : safe_path p = true -> unesc p = Some p.
Proof.
  induction p as [|c p IH]; simpl; intro H; [reflexivity|].
  apply andb_true_iff in H as [Hc Hp]. apply andb_true_iff in Hc as [Hc Ha]. apply andb_true_iff in Hc as [Hq Hl].
  unfold notc in *. destruct (ceq c AMP); [discriminate|]. destruct (ceq c LT); [discriminate|].
  rewrite IH by exact Hp. reflexivity.
Qed.
Lemma safe_noquot p : safe_path p = true -> forallb (notc QUOT) p = true.
Proof.
  induction p as [|c p IH]; simpl; intro H; [reflexivity|].
  apply andb_true_iff in H as [Hc Hp]. apply andb_true_iff in Hc as [Hc Ha]. apply andb_true_iff in Hc as [Hq Hl].
  rewrite Hq, IH by exact Hp. reflexivity.
Qed.

Definition very_safe (p : str) : bool := safe_path p && forallb (notc GT) p.
Lemma wdata_safe p : very_safe p = true -> wdata p = p.
Proof.
  unfold very_safe, wdata. induction p as [|c p IH]; simpl; intro H; [reflexivity|].
  apply andb_true_iff in H as [H1 H2]. apply andb_true_iff in H1 as [Hc Hp]. apply andb_true_iff in H2 as [Hg Hg2].
  apply andb_true_iff in Hc as [Hc Ha]. apply andb_true_iff in Hc as [Hq Hl].
  unfold esc_char_attr, notc in *.
  destruct (ceq c AMP); [discriminate|]. destruct (ceq c LT); [discriminate|].
  destruct (ceq c QUOT); [discriminate|]. destruct (ceq c GT); [discriminate|].
  simpl. f_equal. apply IH. rewrite Hp, Hg2. reflexivity.
Qed.

Lemma output_elem path rest fuel : very_safe path = true ->
  2 * length (render_piece (PRef path) ++ rest) <= fuel ->
  p_elem xml_namestart xml_namech fuel (render_piece (PRef path) ++ rest)
    = Some (El t_output [(t_value, path)] [], rest).
Proof.
  intros Hs Hf.
  assert (E : render_piece (PRef path) = [LT] ++ t_output ++ wattrs [(t_value, path)] ++ [SP; SLASH; GT]).
  { cbn [render_piece]. unfold wattrs, wattr, s_output_open, s_output_close. cbn [flat_map fst snd].
    rewrite (wdata_safe path Hs). repeat (rewrite <- ?app_assoc; cbn [app]). reflexivity. }
  rewrite E in *.
  apply elem_empty_sp; try exact xml_nc_sp; try exact xml_nc_slash; try exact xml_nc_gt; try exact xml_nc_eq; try assumption.
  - split; reflexivity.
  - constructor; [split; reflexivity|constructor].
Qed.

Lemma concat_map_render ps : concat (map render_piece ps) = render ps.
Proof. unfold render. induction ps as [|p q IHq]; [reflexivity|]. simpl. rewrite IHq. reflexivity. Qed.

(* the children that node(toParseString=True) clones: exactly the interleaving of the cell's pieces *)
Theorem mixed_content_rt (ps : list piece) tag rest fuel :
  Forall (fun p => match p with PRef path => very_safe path = true | PTxt _ => True end) ps ->
  2 * length (render ps ++ LT :: SLASH :: tag ++ GT :: rest) + 1 <= fuel ->
  p_content xml_namestart xml_namech fuel (render ps ++ LT :: SLASH :: tag ++ GT :: rest)
    = Some (mergeA [] (map item_of ps), LT :: SLASH :: tag ++ GT :: rest).
Proof.
  intros Hall Hf.
  assert (HF : Forall2 (wr xml_namestart xml_namech) (map item_of ps) (map render_piece ps)).
  { clear Hf. induction Hall as [|p ps Hp Hps IH]; [constructor|]. simpl. constructor; [|apply IH].
    destruct p as [s|path]; cbn [item_of render_piece].
    - unfold esc_text. apply wr_tx. exact good_text.
    - apply wr_el.
      + exists 111%N. eexists. split; [reflexivity|discriminate].
      + intros r f Hl. apply (output_elem path r f Hp Hl). }
  pose proof (content_rt xml_namestart xml_namech _ _ HF [] [] (tag ++ GT :: rest) fuel) as HC.
  rewrite concat_map_render in HC. cbn [app] in HC. apply HC.
  - intro r. simpl. destruct (unesc r); reflexivity.
  - reflexivity.
  - tauto.
  - exact Hf.
Qed.
