(* Proofs/NamesOk.v — every string is_xml_tag accepts is an XML 1.0 Name (and a QName with at most one colon). *)
Require Import PX.Base.Str PX.Model.Names PX.Spec.XmlName PX.Proofs.Warn.
From Coq Require Import ZifyBool.

Lemma nsc_namestart c : nsc c = true -> xml_namestart c = true.
Proof. unfold nsc, xml_namestart, Names.inr, XmlName.inr. lia. Qed.
Lemma nch_namech c : nch c = true -> xml_namech c = true.
Proof. unfold nch, nsc, nce, xml_namech, xml_namestart, Names.inr, XmlName.inr. lia. Qed.
Lemma forallb_impl (p q : N -> bool) l : (forall c, p c = true -> q c = true) -> forallb p l = true -> forallb q l = true.
Proof. intros H. induction l as [|c l IH]; simpl; [reflexivity|]. intro E. apply andb_true_iff in E as [E1 E2]. rewrite H, IH by assumption. reflexivity. Qed.

Lemma eat_ncname_spec s r : eat_ncname s = Some r ->
  exists c pre, s = c :: pre ++ r /\ nsc c = true /\ forallb nch pre = true.
Proof.
  unfold eat_ncname. destruct s as [|c t]; [discriminate|]. destruct (nsc c) eqn:Ec; [|discriminate].
  intro H. inversion H; subst. exists c, (fst (span nch t)). split; [|split; [exact Ec|apply span_fst_all]].
  f_equal. symmetry. apply span_split.
Qed.

Theorem names_are_xml_names s : is_xml_tag s = true -> xml_name s = true.
Proof.
  unfold is_xml_tag. destruct (eat_ncname s) as [r|] eqn:E; [|discriminate].
  apply eat_ncname_spec in E as (c & pre & -> & Hc & Hpre).
  assert (Hpre' : forallb xml_namech pre = true) by (eapply forallb_impl; [apply nch_namech|exact Hpre]).
  destruct r as [|d r].
  - intros _. unfold xml_name. rewrite app_nil_r. rewrite nsc_namestart by exact Hc. cbn [andb forallb].
    rewrite (nch_namech c) by (unfold nch; rewrite Hc; reflexivity). exact Hpre'.
  - destruct (N.eqb_spec d COLON) as [->|]; [|discriminate].
    destruct (eat_ncname r) as [[|x y]|] eqn:E2; try discriminate. intros _.
    apply eat_ncname_spec in E2 as (c2 & pre2 & -> & Hc2 & Hpre2).
    assert (Hpre2' : forallb xml_namech pre2 = true) by (eapply forallb_impl; [apply nch_namech|exact Hpre2]).
    unfold xml_name. rewrite nsc_namestart by exact Hc. cbn [andb forallb].
    rewrite (nch_namech c) by (unfold nch; rewrite Hc; reflexivity). cbn [andb].
    rewrite forallb_app, Hpre'. cbn [andb forallb]. rewrite app_nil_r.
    replace (xml_namech COLON) with true by reflexivity. cbn [andb].
    rewrite (nch_namech c2) by (unfold nch; rewrite Hc2; reflexivity). exact Hpre2'.
Qed.
