(* Proofs/NsSetting.v — a prefix that the root element declares (the standard map, or an entry of the namespaces setting as
   Survey.get_nsmap reads it: Model/Settings.v nsmap_of) is in scope for the namespace check of the assembled document
   (Model/DomCheck.v), so a column such as bind::ex:y may use it. *)
Require Import PX.Base.Str PX.Model.Dom PX.Model.Bind PX.Model.Warnings PX.Model.Settings PX.Spec.NsCheck PX.Model.DomCheck
  PX.Proofs.Warn PX.Proofs.DomCheck.
Lemma xmlns_attr_is_decl k : py_is_decl (XMLNS_COLON ++ k) = true.
Proof. unfold py_is_decl, starts_with. rewrite prefix_app. reflexivity. Qed.
Lemma skipn6_xmlns k : skipn 6 (XMLNS_COLON ++ k) = k.
Proof. reflexivity. Qed.
Lemma declared_has_key k (d : dict) : has_key (XMLNS_COLON ++ k) d = true -> mem k (py_declared d) = true.
Proof.
  unfold has_key. induction d as [|[a v] r IH]; cbn [dget]; [discriminate|].
  unfold py_declared. cbn [flat_map fst]. fold (py_declared r). unfold mem. rewrite existsb_app.
  destruct (seqb_spec a (XMLNS_COLON ++ k)) as [->|Hne].
  - intros _. rewrite xmlns_attr_is_decl, skipn6_xmlns. cbn [existsb]. rewrite seqb_refl. reflexivity.
  - intro H. fold (mem k (py_declared r)). rewrite (IH H). apply Bool.orb_true_r.
Qed.
(* a prefixed name whose prefix the root declares passes the code's prefix test in the scope of the root (and below it: the scope only grows) *)
Theorem declared_prefix_in_scope (root_attrs : dict) p local rest :
  has_key (XMLNS_COLON ++ p) root_attrs = true -> nochar NsCheck.COLON p = true ->
  py_bound (rest ++ py_declared root_attrs ++ PY_SCOPE0) (p ++ NsCheck.COLON :: local) = true.
Proof.
  intros Hk Hp. unfold py_bound, qprefix.
  rewrite (span_app (fun c => negb (ceq c NsCheck.COLON)) p (NsCheck.COLON :: local)); [|exact Hp|reflexivity].
  unfold mem. rewrite !existsb_app. fold (mem p (py_declared root_attrs)). rewrite (declared_has_key p root_attrs Hk).
  rewrite Bool.orb_true_r. reflexivity.
Qed.
(* in particular: every prefix of the standard map and every prefix the namespaces setting adds *)
Corollary setting_prefix_in_scope root p local rest :
  has_key (XMLNS_COLON ++ p) (nsmap_of root) = true -> nochar NsCheck.COLON p = true ->
  py_bound (rest ++ py_declared (nsmap_of root) ++ PY_SCOPE0) (p ++ NsCheck.COLON :: local) = true.
Proof. apply declared_prefix_in_scope. Qed.

(* ---- every well-formed entry of the namespaces setting is declared on the root ---- *)
Require Import PX.Proofs.Bind PX.Model.Headers PX.Gen.Settings PX.Gen.Top.
Lemma has_key_dset k k' v d : has_key k d = true -> has_key k (dset k' v d) = true.
Proof.
  unfold has_key. destruct (seqb_spec k' k) as [->|Hne]; [rewrite dget_dset_same; reflexivity|].
  rewrite dget_dset_other by congruence. exact (fun H => H).
Qed.
Lemma has_key_dset_same k v d : has_key k (dset k v d) = true.
Proof. unfold has_key. rewrite dget_dset_same. reflexivity. Qed.
Lemma has_key_app_l k a b : has_key k a = true -> has_key k (a ++ b) = true.
Proof. unfold has_key. induction a as [|[x w] r IH]; cbn [dget app]; [discriminate|]. destruct (seqb x k); [reflexivity|exact IH]. Qed.
Lemma has_key_app_r k a b : has_key k b = true -> has_key k (a ++ b) = true.
Proof. unfold has_key. induction a as [|[x w] r IH]; cbn [dget app]; [exact (fun H => H)|]. destruct (seqb x k); [reflexivity|exact IH]. Qed.
Lemma ns_step_keeps acc tok key : has_key key acc = true -> has_key key (ns_step acc tok) = true.
Proof.
  intro H. unfold ns_step. destruct (ns_entry tok) as [[k v]|]; [|exact H].
  destruct (negb _); [apply has_key_dset; exact H|exact H].
Qed.
Lemma fold_keeps toks : forall acc key, has_key key acc = true -> has_key key (fold_left ns_step toks acc) = true.
Proof. induction toks as [|t r IH]; intros acc key H; [exact H|]. cbn [fold_left]. apply IH, ns_step_keeps, H. Qed.
Theorem setting_entry_declared root ns tok k v :
  field root s_namespaces = Some ns -> In tok (py_split_ws ns) -> ns_entry tok = Some (k, v) ->
  has_key (s_xmlns_colon ++ k) (nsmap_of root) = true.
Proof.
  intros Hf Hin Hs. unfold nsmap_of. rewrite Hf.
  destruct (has_key (s_xmlns_colon ++ k) NSMAP) eqn:Estd; [apply has_key_app_l; exact Estd|].
  apply has_key_app_r. unfold ns_decls.
  generalize (@nil (str * str)) as acc. induction (py_split_ws ns) as [|t r IH]; [destruct Hin|]. intro acc. cbn [fold_left].
  destruct Hin as [->|Hin]; [|apply IH; exact Hin].
  apply fold_keeps. unfold ns_step. rewrite Hs, Estd. cbn [negb]. apply has_key_dset_same.
Qed.
(* what an entry is: prefix, "=", URI; the prefix is everything before the FIRST "=", so a URI with a query string is kept whole *)
Theorem ns_entry_shape k v : k <> [] -> nochar 61%N k = true -> ns_entry (k ++ 61%N :: v) = Some (k, v).
Proof.
  intros Hk Hn. unfold ns_entry.
  rewrite (span_app (fun c => negb (ceq c 61%N)) k (61%N :: v)); [|exact Hn|reflexivity].
  destruct k; [congruence|reflexivity].
Qed.
Lemma span_inv p : forall s a r, span p s = (a, r) -> s = a ++ r /\ forallb p a = true /\ starts_not p r.
Proof.
  induction s as [|c s IH]; intros a r H; cbn [span] in H.
  - injection H as <- <-. repeat split.
  - destruct (p c) eqn:Ec.
    + destruct (span p s) as [a' b'] eqn:E. injection H as <- <-. destruct (IH a' b' eq_refl) as [H1 [H2 H3]].
      split; [cbn [app]; f_equal; exact H1|]. split; [cbn [forallb]; rewrite Ec; exact H2|exact H3].
    + injection H as <- <-. split; [reflexivity|]. split; [reflexivity|exact Ec].
Qed.
Theorem ns_entry_inv tok k v : ns_entry tok = Some (k, v) -> tok = k ++ 61%N :: v /\ k <> [] /\ nochar 61%N k = true.
Proof.
  unfold ns_entry. destruct (span (fun c => negb (ceq c 61%N)) tok) as [a r] eqn:E.
  destruct r as [|c r]; [discriminate|]. destruct a as [|a0 a]; [discriminate|]. intro H. injection H as <- <-.
  destruct (span_inv _ _ _ _ E) as [H1 [H2 H3]].
  split; [|split; [discriminate|exact H2]].
  rewrite H1. f_equal. f_equal. cbn [starts_not] in H3. apply negb_false_iff in H3.
  destruct (ceq_spec c 61%N) as [->|]; [reflexivity|discriminate].
Qed.
