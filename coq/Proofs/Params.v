(* Proofs/Params.v — parameters and reference syntax: rejection exactly when malformed, and no partial operation fails (C17) *)
Require Import PX.Base.Str PX.Base.PyStr PX.Model.Warnings PX.Model.Bind PX.Model.Headers PX.Model.Params.
From Coq Require Import Lia.

Lemma split_str_nonempty sep : forall fuel cur s, split_str fuel sep cur s <> [].
Proof.
  induction fuel as [|f IH]; intros cur s; cbn [split_str]; [discriminate|].
  destruct s as [|c r]; [discriminate|]. destruct (prefix sep (c :: r)); [discriminate|apply IH].
Qed.
Lemma contains_nil_sep sep : sep <> [] -> contains sep [] = false.
Proof. intro H. destruct sep; [congruence|reflexivity]. Qed.
Lemma split_str_two sep : sep <> [] -> forall s fuel cur, length s < fuel -> contains sep s = true ->
  exists a b r, split_str fuel sep cur s = a :: b :: r.
Proof.
  intros Hs. induction s as [|c r IH]; intros fuel cur Hf Hc.
  - rewrite contains_nil_sep in Hc by exact Hs. discriminate.
  - destruct fuel as [|f]; [simpl in Hf; lia|]. cbn [split_str]. destruct (prefix sep (c :: r)) as [rest|] eqn:E.
    + pose proof (split_str_nonempty sep f [] rest) as Hn. destruct (split_str f sep [] rest) as [|b t]; [congruence|]. eauto.
    + cbn [contains] in Hc. unfold starts_with in Hc. rewrite E in Hc. cbn [orb] in Hc. apply IH; [simpl in Hf; lia|exact Hc].
Qed.
Lemma span_eq_rest : forall p, contains s_eq p = true -> snd (span (fun c => negb (ceq c 61%N)) p) <> [].
Proof.
  induction p as [|c r IH]; intro H; [discriminate|]. cbn [span]. destruct (ceq c 61%N) eqn:E; cbn [negb]; [discriminate|].
  destruct (span (fun c0 => negb (ceq c0 61%N)) r) as [a b] eqn:Es. cbn [snd] in *. apply IH.
  cbn [contains] in H. unfold starts_with, s_eq in H. cbn [prefix] in H. unfold ceq in *. rewrite N.eqb_sym in E. rewrite E in H. exact H.
Qed.
Theorem unpacking_never_fails p : parse_part p <> inr tt.
Proof.
  unfold parse_part. destruct (contains s_eq p) eqn:E; [|discriminate].
  pose proof (span_eq_rest p E) as H. destruct (span (fun c => negb (ceq c 61%N)) p) as [k [|x v]]; [cbn [snd] in H; congruence|discriminate].
Qed.
Theorem parse_never_crashes raw : parse raw <> PCrash.
Proof.
  unfold parse. generalize (@nil (str * str)). induction (split_parts raw) as [|p ps IH]; intro acc; cbn [parse_parts]; [discriminate|].
  pose proof (unpacking_never_fails p) as Hp. destruct (parse_part p) as [[[k v]|]|[]]; [apply IH|discriminate|congruence].
Qed.
Theorem parse_rejected_iff raw : parse raw = PRejected <-> exists p, In p (split_parts raw) /\ contains s_eq p = false.
Proof.
  unfold parse. generalize (@nil (str * str)). induction (split_parts raw) as [|p ps IH]; intro acc; cbn [parse_parts].
  - split; [discriminate|intros (? & [] & _)].
  - pose proof (unpacking_never_fails p) as Hp. unfold parse_part in *. destruct (contains s_eq p) eqn:E.
    + destruct (span (fun c => negb (ceq c 61%N)) p) as [k [|x v]]; try congruence. rewrite IH. split.
      * intros (q & Hq & Hc). exists q. split; [right; exact Hq|exact Hc].
      * intros (q & [Eq|Hq] & Hc); [subst q; congruence|]. exists q. split; assumption.
    + split; [intros _; exists p; split; [left; reflexivity|exact E]|reflexivity].
Qed.
Theorem validate_rejects_iff params allowed : validate params allowed = false <-> exists k, In k (keys params) /\ mem k allowed = false.
Proof.
  unfold validate. induction (keys params) as [|k ks IH]; cbn [forallb].
  - split; [discriminate|intros (? & [] & _)].
  - destruct (mem k allowed) eqn:E; cbn [andb].
    + rewrite IH. split; intros (q & Hq & Hm); exists q; [split; [right; exact Hq|exact Hm]|]. destruct Hq as [Eq|Hq]; [subst q; congruence|split; assumption].
    + split; [intros _; exists k; split; [left; reflexivity|exact E]|reflexivity].
Qed.

(* reference syntax: accepted exactly when every ${ is followed by names only up to its } *)
Inductive well_formed : list tname -> Prop :=
| wf_nil : well_formed []
| wf_plain t ts : t <> TStart -> well_formed ts -> well_formed (t :: ts)
| wf_ref names ts : Forall (fun t => t = TName) names -> well_formed ts -> well_formed (TStart :: names ++ TEnd :: ts).
Lemma ref_check_open_spec : forall ts, ref_check true ts = true <-> exists names rest, ts = names ++ TEnd :: rest /\ Forall (fun t => t = TName) names /\ ref_check false rest = true.
Proof.
  induction ts as [|t r IH]; cbn [ref_check].
  - split; [discriminate|]. intros (names & rest & H & _). destruct names; discriminate.
  - destruct t; try (split; [discriminate|]; intros (names & rest & H & Hn & _); destruct names as [|n names]; inversion H; subst; inversion Hn; subst; discriminate).
    + (* TEnd *) split.
      * intro H. exists [], r. repeat split; [constructor|exact H].
      * intros (names & rest & H & Hn & Hr). destruct names as [|n names]; inversion H; subst; [exact Hr|]. inversion Hn; subst; discriminate.
    + (* TName *) rewrite IH. split.
      * intros (names & rest & -> & Hn & Hr). exists (TName :: names), rest. repeat split; [constructor; [reflexivity|exact Hn]|exact Hr].
      * intros (names & rest & H & Hn & Hr). destruct names as [|n names]; inversion H; subst. inversion Hn; subst. exists names, rest. tauto.
Qed.
Theorem ref_check_iff : forall ts, ref_check false ts = true <-> well_formed ts.
Proof.
  intro ts. remember (length ts) as n eqn:Hl. revert ts Hl. induction n as [n IHn] using lt_wf_ind. intros ts Hl.
  destruct ts as [|t r]; [split; [constructor|reflexivity]|]. cbn [ref_check].
  destruct t.
  - (* TStart *) rewrite ref_check_open_spec. split.
    + intros (names & rest & -> & Hn & Hr). apply wf_ref; [exact Hn|]. apply (IHn (length rest)); [subst; simpl; rewrite app_length; simpl; lia|reflexivity|exact Hr].
    + intro H. inversion H as [|? ? Hne|names ts' Hn Hw]; subst; [congruence|]. exists names, ts'. repeat split; [exact Hn|].
      apply (IHn (length ts')); [simpl; rewrite app_length; simpl; lia|reflexivity|exact Hw].
  - rewrite (IHn (length r)) by (subst; simpl; lia || reflexivity). split; [intro H; apply wf_plain; [discriminate|exact H]|intro H; inversion H; subst; assumption].
  - rewrite (IHn (length r)) by (subst; simpl; lia || reflexivity). split; [intro H; apply wf_plain; [discriminate|exact H]|intro H; inversion H; subst; assumption].
  - rewrite (IHn (length r)) by (subst; simpl; lia || reflexivity). split; [intro H; apply wf_plain; [discriminate|exact H]|intro H; inversion H; subst; assumption].
  - rewrite (IHn (length r)) by (subst; simpl; lia || reflexivity). split; [intro H; apply wf_plain; [discriminate|exact H]|intro H; inversion H; subst; assumption].
Qed.

(* process_header: the only partial operation is tokens[jr_idx + 1]; jr is looked for in tokens[:-1], so a token follows *)
Lemma index_of_lt x l i : index_of x l = Some i -> i < length l.
Proof.
  revert i; induction l as [|y r IH]; intros i; cbn [index_of]; [discriminate|].
  destruct (seqb x y); [intro H; inversion H; simpl; lia|].
  destruct (index_of x r) as [k|]; [|discriminate]. intro H; inversion H; subst. specialize (IH k eq_refl). simpl; lia.
Qed.
Lemma removelast_length {A} (l : list A) : length (removelast l) = length l - 1.
Proof. induction l as [|a [|b r] IH]; [reflexivity|reflexivity|]. change (removelast (a :: b :: r)) with (a :: removelast (b :: r)). cbn [length] in *. lia. Qed.
Lemma jr_has_successor toks i : index_of s_jr (removelast toks) = Some i -> nth_error toks (S i) <> None.
Proof. intro H. apply index_of_lt in H. rewrite removelast_length in H. apply nth_error_Some. lia. Qed.
Theorem process_header_total aliases columns dc h : process_header aliases columns dc h <> None.
Proof.
  unfold process_header. destruct (mem h columns && negb (is_alias aliases h)); [discriminate|].
  destruct (mem (to_snake_case h) columns && negb (is_alias aliases (to_snake_case h))); [discriminate|].
  destruct (dc || contains COLON2 h).
  - destruct (map py_strip (py_split COLON2 h)) as [|t0 rest]; [discriminate|].
    destruct (alias_get (to_snake_case t0) aliases) as [[|? ?]|]; try discriminate; destruct (mem (to_snake_case t0) columns); discriminate.
  - destruct (index_of s_jr (removelast (map py_strip (py_split [58%N] h)))) as [i|] eqn:Ei.
    + destruct (nth_error (map py_strip (py_split [58%N] h)) (S i)) as [nxt|] eqn:En; [|exfalso; exact (jr_has_successor _ _ Ei En)].
      destruct (firstn i (map py_strip (py_split [58%N] h)) ++ [s_jr ++ [58%N] ++ nxt] ++ skipn (i + 2) (map py_strip (py_split [58%N] h))) as [|t0 rest]; [discriminate|].
      destruct (alias_get (to_snake_case t0) aliases) as [[|? ?]|]; try discriminate; destruct (mem (to_snake_case t0) columns); discriminate.
    + destruct (map py_strip (py_split [58%N] h)) as [|t0 rest]; [discriminate|].
      destruct (alias_get (to_snake_case t0) aliases) as [[|? ?]|]; try discriminate; destruct (mem (to_snake_case t0) columns); discriminate.
Qed.
(* the join happens exactly when a jr token has a successor; a trailing jr (e.g. a column called jr) is left alone *)
Lemma trailing_jr_untouched : forall aliases columns, process_header aliases columns false s_jr = Some [s_jr] \/ mem s_jr columns = true \/ alias_get s_jr aliases <> None.
Proof.
  intros aliases columns. destruct (mem s_jr columns) eqn:Em; [right; left; reflexivity|].
  destruct (alias_get s_jr aliases) eqn:Ea; [right; right; discriminate|]. left.
  unfold process_header. rewrite Em. cbn [andb]. change (to_snake_case s_jr) with s_jr. rewrite Em. cbn [andb orb].
  change (contains COLON2 s_jr) with false. cbv iota. change (map py_strip (py_split [58%N] s_jr)) with [s_jr].
  cbn [removelast index_of]. change (to_snake_case s_jr) with s_jr. rewrite Ea, Em. reflexivity.
Qed.

(* the value of a parameter is everything after the FIRST "=" of its part (nothing is cut off at a second one) *)
Theorem part_value_is_whole k v : nochar 61%N k = true ->
  parse_part (k ++ 61%N :: v) =
  inl (Some (py_strip (lower_ascii k), if mem (py_strip (lower_ascii k)) [s_label; s_value] then py_strip v else py_strip (lower_ascii v))).
Proof.
  intro Hk. unfold parse_part.
  assert (Hc : contains s_eq (k ++ 61%N :: v) = true).
  { clear Hk. induction k as [|c r IH]; [reflexivity|]. cbn [app contains]. rewrite IH. apply orb_true_r. }
  rewrite Hc. rewrite (span_app (fun c => negb (ceq c 61%N)) k (61%N :: v) Hk) by reflexivity. reflexivity.
Qed.
