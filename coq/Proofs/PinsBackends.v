(* Proofs/PinsBackends.v — Tie 1 for the grid readers: the documented limits and the loop shapes the model has. *)
Require Import PX.Base.Str PX.Gen.Backends.
Definition s_Eq : str := [69;113]%N.
Definition s_append : str := [97;112;112;101;110;100]%N.
Definition s_break_test : str := [98;114;101;97;107;45;116;101;115;116]%N.
Definition s_increment : str := [105;110;99;114;101;109;101;110;116]%N.
Lemma backends_constants_pinned :
  MAX_ADJACENT_EMPTY_COLUMNS = 20%N /\ MAX_ADJACENT_EMPTY_ROWS = 60%N
  /\ HEADERS_BREAK_OP = s_Eq /\ ROWS_BREAK_OP = s_Eq
  /\ HEADERS_EMPTY_BRANCH = [s_append; s_break_test; s_increment]
  /\ ROWS_EMPTY_BRANCH = [s_break_test; s_increment]
  /\ RE_WHITESPACE = [40;32;41;43]%N
  /\ MD_MIN_PIPES = 5%N /\ CSV_MIN_COMMAS = 4%N.
Proof. repeat split; reflexivity. Qed.
