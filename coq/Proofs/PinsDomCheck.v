(* Proofs/PinsDomCheck.v — the character class compiled into utils.INVALID_XML_CHAR_REGEX (regenerated from /repo) is the complement of
   the Char production the model uses: [^ TAB LF CR SP-U+D7FF U+E000-U+FFFD U+10000-U+10FFFF] *)
Require Import PX.Base.Str PX.Model.Dom PX.Spec.XmlName PX.Spec.NsCheck PX.Gen.Writer.
Local Open Scope N_scope.
Theorem char_pattern_pinned : INVALID_XML_CHAR_PATTERN = [91;94;9;10;13;32;45;55295;57344;45;65533;65536;45;1114111;93].
Proof. reflexivity. Qed.
(* the ranges named in the pattern are exactly xml_char *)
Theorem char_ranges c : xml_char c = (c =? 9) || (c =? 10) || (c =? 13) || ((32 <=? c) && (c <=? 55295)) || ((57344 <=? c) && (c <=? 65533)) || ((65536 <=? c) && (c <=? 1114111)).
Proof. reflexivity. Qed.
(* the two reserved namespace names the code compares declarations with are those of the recommendation *)
Theorem reserved_namespaces_pinned : XML_NAMESPACE = XML_NS /\ XMLNS_NAMESPACE = XMLNS_NS.
Proof. split; reflexivity. Qed.
