(* Proofs/PinsMd.v — the five patterns Model/Md.v was written from, against the texts regenerated from /repo (Gen/Backends.v);
   the source text of _md_strp_cell and _md_table_to_ss_structure is pinned by the translator itself. *)
Require Import PX.Base.Str PX.Gen.Backends.
Local Open Scope N_scope.
Definition md_patterns_as_modelled : Prop :=
  MD_COMMENT_PATTERN = [94;92;115;42;35] /\
  MD_COMMENT_INLINE_PATTERN = [94;40;46;42;41;40;35;91;94;124;93;43;41;36] /\
  MD_CELL_PATTERN = [92;115;42;92;124;40;46;42;41;92;124;92;115;42] /\
  MD_SEPARATOR_PATTERN = [94;91;92;124;45;93;43;36] /\
  MD_PIPE_OR_ESCAPE_PATTERN = [40;63;60;33;92;92;41;92;124].
Lemma md_patterns_pinned : md_patterns_as_modelled.
Proof. repeat split; reflexivity. Qed.
