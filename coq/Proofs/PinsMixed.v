(* Proofs/PinsMixed.v — Tie 1 for insert_output_values / node(toParseString=True). *)
Require Import PX.Base.Str PX.Model.Dom PX.Model.Mixed PX.Gen.Mixed.
Lemma mixed_constants_pinned :
  OUTPUT_OPEN = s_output_open /\ OUTPUT_CLOSE = s_output_close
  /\ length INSERT_OUTPUT_STEPS = 3
  /\ nth 0 NODE_PARSE_WRAPPER [] = [60;63;120;109;108;32;118;101;114;115;105;111;110;61;34;49;46;48;34;32;63;62;60]%N
  /\ nth 2 NODE_PARSE_WRAPPER [] = [GT] /\ nth 4 NODE_PARSE_WRAPPER [] = [LT; SLASH] /\ nth 6 NODE_PARSE_WRAPPER [] = [GT].
Proof. repeat split; reflexivity. Qed.
