(* Proofs/PinsScanner.v — the 26 patterns Model/Scanner.v was written from, against the patterns regenerated from /repo (Gen/Lexer.v).
   A changed pattern, a reordered, added or removed rule breaks this file; the scanner correspondence then searches for an input. *)
Require Import PX.Base.Str PX.Gen.Lexer PX.Model.Scanner.
Local Open Scope N_scope.

Lemma pin_DATETIME : LEXER_DATETIME = [45;63;92;100;123;52;125;45;92;100;123;50;125;45;92;100;123;50;125;84;92;100;123;50;125;58;92;100;123;50;125;58;92;100;123;50;125;40;92;46;92;100;43;41;63;40;40;40;92;43;124;92;45;41;92;100;123;50;125;58;92;100;123;50;125;41;124;90;41;63]%N.
Proof. reflexivity. Qed.
Lemma pin_DATE : LEXER_DATE = [45;63;92;100;123;52;125;45;92;100;123;50;125;45;92;100;123;50;125]%N.
Proof. reflexivity. Qed.
Lemma pin_TIME : LEXER_TIME = [92;100;123;50;125;58;92;100;123;50;125;58;92;100;123;50;125;40;92;46;92;100;43;41;63;40;40;40;92;43;124;92;45;41;92;100;123;50;125;58;92;100;123;50;125;41;124;90;41;63]%N.
Proof. reflexivity. Qed.
Lemma pin_NUMBER : LEXER_NUMBER = [45;63;92;100;43;92;46;92;100;42;124;45;63;92;46;92;100;43;124;45;63;92;100;43]%N.
Proof. reflexivity. Qed.
Lemma pin_OPS_MATH : LEXER_OPS_MATH = [91;92;42;92;43;92;45;93;124;32;109;111;100;32;124;32;100;105;118;32]%N.
Proof. reflexivity. Qed.
Lemma pin_OPS_COMP : LEXER_OPS_COMP = [92;61;124;92;33;92;61;124;92;60;124;92;62;124;92;60;61;124;62;61]%N.
Proof. reflexivity. Qed.
Lemma pin_OPS_BOOL : LEXER_OPS_BOOL = [32;97;110;100;32;124;32;111;114;32]%N.
Proof. reflexivity. Qed.
Lemma pin_OPS_UNION : LEXER_OPS_UNION = [92;124]%N.
Proof. reflexivity. Qed.
Lemma pin_OPEN_PAREN : LEXER_OPEN_PAREN = [92;40]%N.
Proof. reflexivity. Qed.
Lemma pin_CLOSE_PAREN : LEXER_CLOSE_PAREN = [92;41]%N.
Proof. reflexivity. Qed.
Lemma pin_BRACKET : LEXER_BRACKET = [92;91;92;93;92;123;92;125]%N.
Proof. reflexivity. Qed.
Lemma pin_PARENT_REF : LEXER_PARENT_REF = [92;46;92;46]%N.
Proof. reflexivity. Qed.
Lemma pin_SELF_REF : LEXER_SELF_REF = [92;46]%N.
Proof. reflexivity. Qed.
Lemma pin_PATH_SEP : LEXER_PATH_SEP = [92;47]%N.
Proof. reflexivity. Qed.
Lemma pin_SYSTEM_LITERAL : LEXER_SYSTEM_LITERAL = [34;91;94;34;93;42;34;124;39;91;94;39;93;42;39]%N.
Proof. reflexivity. Qed.
Lemma pin_COMMA : LEXER_COMMA = [44]%N.
Proof. reflexivity. Qed.
Lemma pin_WHITESPACE : LEXER_WHITESPACE = [92;115;43]%N.
Proof. reflexivity. Qed.
Lemma pin_PYXFORM_REF : LEXER_PYXFORM_REF = [92;36;92;123;40;108;97;115;116;45;115;97;118;101;100;35;41;63]%N ++ LEXER_NAME ++ [92;125]%N.
Proof. reflexivity. Qed.
Lemma pin_FUNC_CALL : LEXER_FUNC_CALL = (@nil N) ++ LEXER_NAME ++ [92;40]%N.
Proof. reflexivity. Qed.
Lemma pin_XPATH_PRED_START : LEXER_XPATH_PRED_START = (@nil N) ++ LEXER_NAME ++ [92;91]%N.
Proof. reflexivity. Qed.
Lemma pin_XPATH_PRED_END : LEXER_XPATH_PRED_END = [92;93]%N.
Proof. reflexivity. Qed.
Lemma pin_URI_SCHEME : LEXER_URI_SCHEME = (@nil N) ++ LEXER_NAME ++ [58;47;47]%N.
Proof. reflexivity. Qed.
Lemma pin_PYXFORM_REF_START : LEXER_PYXFORM_REF_START = [92;36;92;123]%N.
Proof. reflexivity. Qed.
Lemma pin_PYXFORM_REF_END : LEXER_PYXFORM_REF_END = [92;125]%N.
Proof. reflexivity. Qed.
Lemma pin_OTHER : LEXER_OTHER = [46;43;63]%N.
Proof. reflexivity. Qed.
Lemma pin_rule_order : map fst RULES = LEXER_RULE_ORDER.
Proof. reflexivity. Qed.
Definition patterns_as_modelled : Prop :=
  (LEXER_DATETIME = [45;63;92;100;123;52;125;45;92;100;123;50;125;45;92;100;123;50;125;84;92;100;123;50;125;58;92;100;123;50;125;58;92;100;123;50;125;40;92;46;92;100;43;41;63;40;40;40;92;43;124;92;45;41;92;100;123;50;125;58;92;100;123;50;125;41;124;90;41;63]%N) /\
  (LEXER_DATE = [45;63;92;100;123;52;125;45;92;100;123;50;125;45;92;100;123;50;125]%N) /\
  (LEXER_TIME = [92;100;123;50;125;58;92;100;123;50;125;58;92;100;123;50;125;40;92;46;92;100;43;41;63;40;40;40;92;43;124;92;45;41;92;100;123;50;125;58;92;100;123;50;125;41;124;90;41;63]%N) /\
  (LEXER_NUMBER = [45;63;92;100;43;92;46;92;100;42;124;45;63;92;46;92;100;43;124;45;63;92;100;43]%N) /\
  (LEXER_OPS_MATH = [91;92;42;92;43;92;45;93;124;32;109;111;100;32;124;32;100;105;118;32]%N) /\
  (LEXER_OPS_COMP = [92;61;124;92;33;92;61;124;92;60;124;92;62;124;92;60;61;124;62;61]%N) /\
  (LEXER_OPS_BOOL = [32;97;110;100;32;124;32;111;114;32]%N) /\
  (LEXER_OPS_UNION = [92;124]%N) /\
  (LEXER_OPEN_PAREN = [92;40]%N) /\
  (LEXER_CLOSE_PAREN = [92;41]%N) /\
  (LEXER_BRACKET = [92;91;92;93;92;123;92;125]%N) /\
  (LEXER_PARENT_REF = [92;46;92;46]%N) /\
  (LEXER_SELF_REF = [92;46]%N) /\
  (LEXER_PATH_SEP = [92;47]%N) /\
  (LEXER_SYSTEM_LITERAL = [34;91;94;34;93;42;34;124;39;91;94;39;93;42;39]%N) /\
  (LEXER_COMMA = [44]%N) /\
  (LEXER_WHITESPACE = [92;115;43]%N) /\
  (LEXER_PYXFORM_REF = [92;36;92;123;40;108;97;115;116;45;115;97;118;101;100;35;41;63]%N ++ LEXER_NAME ++ [92;125]%N) /\
  (LEXER_FUNC_CALL = (@nil N) ++ LEXER_NAME ++ [92;40]%N) /\
  (LEXER_XPATH_PRED_START = (@nil N) ++ LEXER_NAME ++ [92;91]%N) /\
  (LEXER_XPATH_PRED_END = [92;93]%N) /\
  (LEXER_URI_SCHEME = (@nil N) ++ LEXER_NAME ++ [58;47;47]%N) /\
  (LEXER_PYXFORM_REF_START = [92;36;92;123]%N) /\
  (LEXER_PYXFORM_REF_END = [92;125]%N) /\
  (LEXER_OTHER = [46;43;63]%N) /\
  (map fst RULES = LEXER_RULE_ORDER).
Theorem scanner_patterns_pinned : patterns_as_modelled.
Proof. unfold patterns_as_modelled. repeat split; reflexivity. Qed.
