(* Proofs/PinsTop.v — Tie 1 for the document skeleton and the namespace map. *)
Require Import PX.Base.Str PX.Model.Dom PX.Model.Top PX.Spec.NsCheck PX.Spec.DocsNs PX.Spec.Skeleton PX.Gen.Top.

Definition s_model_children : str := [109;111;100;101;108;95;99;104;105;108;100;114;101;110]%N.
Lemma top_constants_pinned :
  TOP_HTML = t_html /\ TOP_HEAD = t_head /\ TOP_TITLE = t_title /\ TOP_BODY = t_body
  /\ MODEL_TAG = t_model /\ MODEL_INSTANCE_TAG = t_instance
  /\ hd [] MODEL_CHILD_ORDER = s_model_children
  /\ nth 1 INSTANCE_ROOT_ATTR_ORDER [] = t_id
  /\ seqb SUBMISSION_TAG t_instance = false.
Proof. repeat split; reflexivity. Qed.

Lemma nsmap_is_documented : NSMAP = docs_nsmap /\ ENTITIES_NS_DECL = docs_entities_decl.
Proof. split; reflexivity. Qed.

(* every prefixed name the generator can emit from a literal is bound by the root's declarations
   (the NSMAP prefixes, plus `entities`, which get_nsmap declares whenever entity features are on) *)
Lemma literal_prefixes_bound :
  forallb (bound (s_entities :: declared NSMAP)) USED_PREFIXED_NAMES = true.
Proof. vm_compute. reflexivity. Qed.
