(* Proofs/PinsWarn.v — Tie 1 for the C20 checks. *)
Require Import PX.Base.Str PX.Model.Warnings PX.Spec.DocsSheets PX.Gen.Warn.
Lemma warn_constants_pinned :
  MISSPELL_MAX_DISTANCE = 2%N /\ IANA_MIN_LENGTH = 3%N
  /\ LANG_CODE_PATTERN = [92;40;40;46;42;41;92;41;36]%N
  /\ SUPPORTED_SHEET_NAMES = docs_sheet_names
  /\ DEFAULT_LANGUAGE_VALUE = s_default.
Proof. repeat split; reflexivity. Qed.
(* the two IANA files are disjoint by length class, as their names say *)
Lemma iana_files_by_length :
  forallb (fun t => Nat.eqb (length t) 2) IANA_TAGS_2 = true /\ forallb (fun t => Nat.leb 3 (length t)) IANA_TAGS_3 = true.
Proof. split; vm_compute; reflexivity. Qed.
