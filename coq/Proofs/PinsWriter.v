(* Proofs/PinsWriter.v — the constants the writer model assumes are the ones /repo has now (Tie 1). *)
Require Import PX.Base.Str PX.Model.Dom PX.Gen.Writer.

Lemma writer_constants_pinned :
  XML_TEXT_SUBS = [([AMP], s_amp); ([LT], s_lt); ([GT], s_gt)]
  /\ UGLY_PREFIX = decl
  /\ PRETTY_PREFIX = decl ++ [NL]
  /\ PRETTY_INDENT = [SP; SP]
  /\ NODE_TYPE_TEXT_IS_TEXT_AND_CDATA = true.
Proof. repeat split; reflexivity. Qed.
