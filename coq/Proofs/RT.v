(* Proofs/RT.v — writer/parser round trip for every DOM tree (both print modes). *)
Require Import PX.Base.Str PX.Model.Dom PX.Spec.XmlParse PX.Proofs.Esc.

Ltac len := simpl in *; rewrite ?app_length in *; simpl in *; rewrite ?app_length in *; simpl in *; rewrite ?app_length in *; simpl in *; lia.

Inductive item := ITx (s : str) | IEl (x : xn).
Fixpoint mergeA (acc : str) (l : list item) : list xn :=
  match l with
  | [] => match acc with [] => [] | _ => [Tx acc] end
  | ITx s :: r => mergeA (acc ++ s) r
  | IEl x :: r => match acc with [] => x :: mergeA [] r | _ => Tx acc :: x :: mergeA [] r end
  end.

(* what the parser returns for a written tree: the canonical image *)
Fixpoint items (ind add nl : str) (n : node) {struct n} : list item :=
  match n with
  | PT d => [ITx (ind ++ d ++ nl)]
  | MT d => [ITx (ind ++ d ++ nl)]
  | ME tag attrs => [ITx ind; IEl (El tag attrs []); ITx nl]
  | DE tag attrs kids =>
      [ITx ind;
       IEl (El tag attrs
         match kids with
         | [] => []
         | k0 :: _ =>
           if existsb is_text kids then
             mergeA [] ((if andb (Nat.ltb 1 (length kids)) (is_text k0) then [ITx [SP]] else []) ++
                        flat_map (items [] [] []) kids ++
                        (if Nat.ltb 1 (length kids) then [ITx [SP]] else []))
           else mergeA [] ([ITx nl] ++ flat_map (items (ind ++ add) add nl) kids ++ [ITx ind])
         end);
       ITx nl]
  end.

Definition kids_canon (ind add nl : str) (kids : list node) : list xn :=
  match kids with
  | [] => []
  | k0 :: _ =>
    if existsb is_text kids then
      mergeA [] ((if andb (Nat.ltb 1 (length kids)) (is_text k0) then [ITx [SP]] else []) ++
                 flat_map (items [] [] []) kids ++
                 (if Nat.ltb 1 (length kids) then [ITx [SP]] else []))
    else mergeA [] ([ITx nl] ++ flat_map (items (ind ++ add) add nl) kids ++ [ITx ind])
  end.

Definition canon_el (ind add nl : str) (n : node) : xn :=
  match n with
  | DE tag attrs kids => El tag attrs (kids_canon ind add nl kids)
  | ME tag attrs => El tag attrs []
  | PT d | MT d => Tx d
  end.

Lemma items_DE ind add nl tag attrs kids :
  items ind add nl (DE tag attrs kids) = [ITx ind; IEl (canon_el ind add nl (DE tag attrs kids)); ITx nl].
Proof. reflexivity. Qed.

(* the element text without the surrounding indent/newline *)
Definition core (ind add nl : str) (n : node) : str :=
  match n with
  | ME tag attrs => [LT] ++ tag ++ wattrs attrs ++ [SLASH; GT]
  | DE tag attrs kids =>
      [LT] ++ tag ++ wattrs attrs ++
      match kids with
      | [] => [SLASH; GT]
      | k0 :: _ =>
          [GT] ++
          (if existsb is_text kids then
             (if andb (Nat.ltb 1 (length kids)) (is_text k0) then [SP] else []) ++
             flat_map (w [] [] []) kids ++
             (if Nat.ltb 1 (length kids) then [SP] else [])
           else nl ++ flat_map (w (ind ++ add) add nl) kids ++ ind)
          ++ [LT; SLASH] ++ tag ++ [GT]
      end
  | _ => []
  end.

Definition is_elem (n : node) : bool := negb (is_text n).

Lemma w_core ind add nl n : is_elem n = true -> w ind add nl n = ind ++ core ind add nl n ++ nl.
Proof.
  destruct n as [tag attrs kids|tag attrs|d|d]; intro H; try discriminate.
  - cbn [w core]. destruct kids as [|k0 kids]; repeat (rewrite <- ?app_assoc; cbn [app]); reflexivity.
  - cbn [w core]. repeat (rewrite <- ?app_assoc; cbn [app]). reflexivity.
Qed.

Section RT.
Variable namestart namech : char -> bool.
Hypothesis nc_sp : namech SP = false.
Hypothesis nc_slash : namech SLASH = false.
Hypothesis nc_gt : namech GT = false.
Hypothesis nc_eq : namech EQ = false.

Definition okname (n : str) : Prop := name_ok namestart n = true /\ forallb namech n = true.

Lemma wattr_eq n v rest :
  wattr (n, v) ++ rest = SP :: n ++ EQ :: QUOT :: wdata v ++ QUOT :: rest.
Proof. unfold wattr. simpl. rewrite <- !app_assoc. simpl. rewrite <- app_assoc. reflexivity. Qed.

Lemma attrs_rt_gen : forall attrs rest rest' fuel,
  Forall (fun a => okname (fst a)) attrs ->
  (forall f, length rest < f -> p_attrs namestart namech f rest = Some ([], rest')) ->
  length (wattrs attrs ++ rest) < fuel ->
  p_attrs namestart namech fuel (wattrs attrs ++ rest) = Some (attrs, rest').
Proof.
  induction attrs as [|[n v] attrs IH]; intros rest rest' fuel Hok Hrest Hf.
  - simpl in *. apply Hrest. exact Hf.
  - inversion Hok as [|? ? [Hne Hnm] Hok']; subst. simpl in Hne, Hnm.
    unfold wattrs in *. change (flat_map wattr ((n, v) :: attrs)) with (wattr (n, v) ++ flat_map wattr attrs) in *.
    rewrite <- app_assoc in *. rewrite wattr_eq in *.
    destruct fuel as [|f]; [simpl in Hf; lia|].
    cbn [p_attrs]. replace (ceq SP SP) with true by reflexivity.
    rewrite (span_app namech n) by (assumption || exact nc_eq).
    destruct n as [|n0 n']; [discriminate|].
    rewrite Hne.
    replace (true && ceq EQ EQ && ceq QUOT QUOT) with true by reflexivity.
    rewrite (span_app (notc QUOT) (wdata v)) by (apply wdata_no_quot || reflexivity).
    rewrite (unesc_esc esc_char_attr v good_attr : unesc (wdata v) = Some v). cbn [obind].
    rewrite (IH rest rest'); [reflexivity|assumption|assumption|].
    simpl in Hf. rewrite !app_length in Hf. simpl in Hf. rewrite !app_length in Hf. simpl in Hf. lia.
Qed.

Lemma attrs_rt : forall attrs rest fuel,
  Forall (fun a => okname (fst a)) attrs ->
  (match rest with c :: _ => c <> SP | [] => True end) ->
  length (wattrs attrs ++ rest) < fuel ->
  p_attrs namestart namech fuel (wattrs attrs ++ rest) = Some (attrs, rest).
Proof.
  intros attrs rest fuel Hok Hrest Hf. apply attrs_rt_gen; try assumption.
  intros f Hl. destruct f; [lia|]. simpl. destruct rest as [|c r]; [reflexivity|].
  destruct (ceq_spec c SP); [contradiction|reflexivity].
Qed.

(* a start tag closed by " />" (the form insert_output_values writes for output elements) *)
Lemma elem_empty_sp tag attrs rest fuel :
  okname tag -> Forall (fun a => okname (fst a)) attrs ->
  2 * length (([LT] ++ tag ++ wattrs attrs ++ [SP; SLASH; GT]) ++ rest) <= fuel ->
  p_elem namestart namech fuel (([LT] ++ tag ++ wattrs attrs ++ [SP; SLASH; GT]) ++ rest) = Some (El tag attrs [], rest).
Proof.
  intros [Hn1 Hn2] Hattrs Hf.
  destruct fuel as [|f]; [simpl in Hf; lia|].
  repeat (rewrite <- ?app_assoc; cbn [app]).
  cbn [p_elem]. replace (ceq LT LT) with true by reflexivity.
  assert (Hsp : span namech (tag ++ wattrs attrs ++ SP :: SLASH :: GT :: rest)
                = (tag, wattrs attrs ++ SP :: SLASH :: GT :: rest)).
  { apply span_app; [exact Hn2|].
    destruct attrs as [|[an av] attrs]; simpl; exact nc_sp. }
  rewrite Hsp, Hn1.
  rewrite (attrs_rt_gen attrs (SP :: SLASH :: GT :: rest) (SLASH :: GT :: rest)); [|exact Hattrs| |].
  - cbn [obind fst snd]. replace (ceq SLASH SLASH) with true by reflexivity. replace (ceq GT GT) with true by reflexivity.
    reflexivity.
  - intros f0 Hl. destruct f0 as [|[|f1]]; [simpl in Hl; lia|simpl in Hl; lia|].
    cbn [p_attrs]. replace (ceq SP SP) with true by reflexivity.
    assert (Hs0 : span namech (SLASH :: GT :: rest) = ([], SLASH :: GT :: rest)) by (simpl; rewrite nc_slash; reflexivity).
    rewrite Hs0. replace (ceq SLASH SP) with false by reflexivity. reflexivity.
  - repeat (rewrite <- ?app_assoc in Hf; cbn [app] in Hf). simpl in Hf. rewrite ?app_length in *. simpl in *. rewrite ?app_length in *. simpl in *. lia.
Qed.

Inductive wr : item -> str -> Prop :=
| wr_tx e s : good_esc e -> wr (ITx s) (flat_map e s)
| wr_el x w : (exists c w', w = LT :: c :: w' /\ c <> SLASH) ->
    (forall rest fuel, 2 * length (w ++ rest) <= fuel -> p_elem namestart namech fuel (w ++ rest) = Some (x, rest)) ->
    wr (IEl x) w.

Lemma fm_nil e s : good_esc e -> flat_map e s = [] -> s = [].
Proof.
  intros He. destruct s as [|c s]; [reflexivity|]. change (flat_map e (c :: s)) with (e c ++ flat_map e s).
  destruct (He c) as [[-> E]|[[-> E]|[[-> E]|[[-> E]|(Hn1 & Hn2 & E)]]]]; rewrite E; discriminate.
Qed.

Lemma content_rt : forall its ws, Forall2 wr its ws ->
  forall accS accT rest' fuel,
    (forall r, unesc (accS ++ r) = option_map (app accT) (unesc r)) ->
    forallb (notc LT) accS = true ->
    (accS = [] <-> accT = []) ->
    2 * length (accS ++ concat ws ++ LT :: SLASH :: rest') + 1 <= fuel ->
    p_content namestart namech fuel (accS ++ concat ws ++ LT :: SLASH :: rest')
      = Some (mergeA accT its, LT :: SLASH :: rest').
Proof.
  intros its ws H. induction H as [|it w its ws Hw Hrest IH]; intros accS accT rest' fuel Hun Hnl Hemp Hf.
  - simpl concat in *. cbn [app] in *. destruct fuel as [|f]; [lia|].
    destruct accS as [|c accS].
    + assert (accT = []) by (apply Hemp; reflexivity). subst. reflexivity.
    + assert (HT : accT <> []) by (intro E; apply Hemp in E; discriminate).
      simpl in Hnl. apply andb_true_iff in Hnl as [Hc Hnl].
      cbn [p_content app]. unfold notc in Hc. destruct (ceq_spec c LT); [discriminate|].
      change (c :: accS ++ LT :: SLASH :: rest') with ((c :: accS) ++ LT :: SLASH :: rest').
      rewrite (span_app (notc LT) (c :: accS)); [|simpl; unfold notc; destruct (ceq_spec c LT); [contradiction|exact Hnl]|reflexivity].
      specialize (Hun []). rewrite app_nil_r in Hun. rewrite Hun. simpl. rewrite app_nil_r.
      destruct f as [|f]; [simpl in Hf; lia|]. simpl.
      destruct accT; [contradiction|reflexivity].
  - destruct Hw as [e s He | x w [c [w' [Ew Hc]]] Hel].
    + (* text item *)
      simpl concat. rewrite <- app_assoc. rewrite app_assoc. cbn [mergeA].
      apply IH.
      * intro r. rewrite <- app_assoc, Hun, unesc_esc_app by assumption.
        destruct (unesc r); simpl; [rewrite app_assoc|]; reflexivity.
      * rewrite forallb_app. apply andb_true_intro; split; [exact Hnl|apply esc_no_lt; assumption].
      * split; intro E.
        -- apply app_eq_nil in E as [E1 E2]. apply Hemp in E1. apply fm_nil in E2; [|assumption]. subst. reflexivity.
        -- apply app_eq_nil in E as [E1 E2]. apply Hemp in E1. subst. reflexivity.
      * rewrite <- app_assoc. simpl concat in Hf. rewrite <- app_assoc in Hf. exact Hf.
    + (* element item *)
      simpl concat. rewrite <- app_assoc. subst w.
      destruct fuel as [|f]; [lia|].
      destruct accS as [|a accS].
      * assert (accT = []) by (apply Hemp; reflexivity). subst accT.
        cbn [app p_content mergeA]. replace (ceq LT LT) with true by reflexivity.
        destruct (ceq_spec c SLASH); [contradiction|].
        change (LT :: c :: w' ++ concat ws ++ LT :: SLASH :: rest') with ((LT :: c :: w') ++ concat ws ++ LT :: SLASH :: rest').
        rewrite Hel by len. cbn [obind fst snd].
        change (concat ws ++ LT :: SLASH :: rest') with ([] ++ concat ws ++ LT :: SLASH :: rest').
        rewrite (IH [] [] rest' f); [reflexivity|intro r; simpl; destruct (unesc r); reflexivity|reflexivity|tauto|].
        len.
      * assert (HT : accT <> []) by (intro E; apply Hemp in E; discriminate).
        simpl in Hnl. apply andb_true_iff in Hnl as [Ha Hnl].
        cbn [p_content app]. unfold notc in Ha. destruct (ceq_spec a LT); [discriminate|].
        assert (Hsp : span (notc LT) (a :: accS ++ LT :: c :: w' ++ concat ws ++ LT :: SLASH :: rest')
                      = (a :: accS, LT :: c :: w' ++ concat ws ++ LT :: SLASH :: rest')).
        { apply (span_app (notc LT) (a :: accS)); [|reflexivity].
          simpl; unfold notc; destruct (ceq_spec a LT); [contradiction|exact Hnl]. }
        rewrite Hsp.
        pose proof (Hun []) as Hu. rewrite app_nil_r in Hu. rewrite Hu. simpl unesc. cbn [option_map obind]. rewrite app_nil_r.
        destruct f as [|f]; [simpl in Hf; lia|].
        cbn [p_content]. replace (ceq LT LT) with true by reflexivity.
        destruct (ceq_spec c SLASH); [contradiction|].
        change (LT :: c :: w' ++ concat ws ++ LT :: SLASH :: rest') with ((LT :: c :: w') ++ concat ws ++ LT :: SLASH :: rest').
        rewrite Hel by len.
        cbn [obind fst snd].
        change (concat ws ++ LT :: SLASH :: rest') with ([] ++ concat ws ++ LT :: SLASH :: rest').
        rewrite (IH [] [] rest' f); [|intro r; simpl; destruct (unesc r); reflexivity|reflexivity|tauto|].
        -- cbn [obind fst snd mergeA]. destruct accT; [contradiction|reflexivity].
        -- len.
Qed.

(* ---- well-formed DOM trees ---- *)
Fixpoint wf (n : node) : Prop :=
  match n with
  | DE tag attrs kids =>
      okname tag /\ Forall (fun a => okname (fst a)) attrs /\
      (fix wfl (l : list node) : Prop := match l with [] => True | k :: r => wf k /\ wfl r end) kids
  | ME tag attrs => okname tag /\ Forall (fun a => okname (fst a)) attrs
  | PT _ | MT _ => True
  end.
Fixpoint wfl (l : list node) : Prop := match l with [] => True | k :: r => wf k /\ wfl r end.
Lemma wf_DE tag attrs kids : wf (DE tag attrs kids) <-> okname tag /\ Forall (fun a => okname (fst a)) attrs /\ wfl kids.
Proof.
  simpl. assert (E : forall l, (fix wfl (l : list node) : Prop := match l with [] => True | k :: r => wf k /\ wfl r end) l = wfl l).
  { induction l as [|k r IH]; simpl; [reflexivity|]. rewrite IH. reflexivity. }
  rewrite E. tauto.
Qed.

(* strings the writers pass through unescaped (indentation and newline) *)
Definition plain (s : str) : Prop := flat_map esc_char_text s = s /\ flat_map esc_char_attr s = s.
Lemma plain_nil : plain []. Proof. split; reflexivity. Qed.
Lemma plain_app a b : plain a -> plain b -> plain (a ++ b).
Proof. intros [A1 A2] [B1 B2]. split; rewrite flat_map_app; congruence. Qed.

(* pieces: how a child node's text splits into the strings matching its items *)
Definition pieces (ind add nl : str) (n : node) : list str :=
  match n with
  | PT d => [esc_text (ind ++ d ++ nl)]
  | MT d => [wdata (ind ++ d ++ nl)]
  | _ => [ind; core ind add nl n; nl]
  end.

Lemma concat_pieces ind add nl n : concat (pieces ind add nl n) = w ind add nl n.
Proof.
  destruct n as [tag attrs kids|tag attrs|d|d].
  - rewrite w_core by reflexivity. simpl. rewrite app_nil_r. reflexivity.
  - rewrite w_core by reflexivity. simpl. rewrite app_nil_r. reflexivity.
  - simpl. rewrite app_nil_r. reflexivity.
  - simpl. rewrite app_nil_r. reflexivity.
Qed.

Lemma concat_flat_pieces ind add nl kids :
  concat (flat_map (pieces ind add nl) kids) = flat_map (w ind add nl) kids.
Proof.
  induction kids as [|k kids IH]; [reflexivity|].
  simpl. rewrite concat_app, IH, concat_pieces. reflexivity.
Qed.

Lemma wr_plain s : plain s -> wr (ITx s) s.
Proof. intros [H _]. rewrite <- H at 2. apply wr_tx, good_text. Qed.

(* element round trip, given the children's content round trip *)
Lemma elem_of_content tag attrs inner kidsx rest fuel :
  okname tag -> Forall (fun a => okname (fst a)) attrs ->
  (forall rest' fuel', 2 * length (inner ++ LT :: SLASH :: rest') + 1 <= fuel' ->
     p_content namestart namech fuel' (inner ++ LT :: SLASH :: rest') = Some (kidsx, LT :: SLASH :: rest')) ->
  2 * length (([LT] ++ tag ++ wattrs attrs ++ [GT] ++ inner ++ [LT; SLASH] ++ tag ++ [GT]) ++ rest) <= fuel ->
  p_elem namestart namech fuel (([LT] ++ tag ++ wattrs attrs ++ [GT] ++ inner ++ [LT; SLASH] ++ tag ++ [GT]) ++ rest)
    = Some (El tag attrs kidsx, rest).
Proof.
  intros [Hn1 Hn2] Hattrs Hc Hf.
  destruct fuel as [|f]; [len|].
  repeat (rewrite <- ?app_assoc; cbn [app]).
  cbn [p_elem]. replace (ceq LT LT) with true by reflexivity.
  assert (Hsp : span namech (tag ++ wattrs attrs ++ GT :: inner ++ LT :: SLASH :: tag ++ GT :: rest)
                = (tag, wattrs attrs ++ GT :: inner ++ LT :: SLASH :: tag ++ GT :: rest)).
  { apply span_app; [exact Hn2|].
    destruct attrs as [|[an av] attrs]; simpl; [exact nc_gt|exact nc_sp]. }
  rewrite Hsp, Hn1.
  rewrite attrs_rt; [|exact Hattrs|intro E; discriminate|len].
  cbn [obind fst snd]. replace (ceq GT SLASH) with false by reflexivity. replace (ceq GT GT) with true by reflexivity.
  rewrite Hc.
  - cbn [obind fst snd]. change (LT :: SLASH :: tag ++ GT :: rest) with ([LT; SLASH] ++ tag ++ GT :: rest).
    replace ([LT; SLASH] ++ tag ++ GT :: rest) with (([LT; SLASH] ++ tag ++ [GT]) ++ rest)
      by (repeat (rewrite <- ?app_assoc; cbn [app]); reflexivity).
    rewrite prefix_app. reflexivity.
  - repeat (rewrite <- ?app_assoc in Hf; cbn [app] in Hf). len.
Qed.

Lemma elem_empty tag attrs rest fuel :
  okname tag -> Forall (fun a => okname (fst a)) attrs ->
  2 * length (([LT] ++ tag ++ wattrs attrs ++ [SLASH; GT]) ++ rest) <= fuel ->
  p_elem namestart namech fuel (([LT] ++ tag ++ wattrs attrs ++ [SLASH; GT]) ++ rest) = Some (El tag attrs [], rest).
Proof.
  intros [Hn1 Hn2] Hattrs Hf.
  destruct fuel as [|f]; [len|].
  repeat (rewrite <- ?app_assoc; cbn [app]).
  cbn [p_elem]. replace (ceq LT LT) with true by reflexivity.
  assert (Hsp : span namech (tag ++ wattrs attrs ++ SLASH :: GT :: rest)
                = (tag, wattrs attrs ++ SLASH :: GT :: rest)).
  { apply span_app; [exact Hn2|].
    destruct attrs as [|[an av] attrs]; simpl; [exact nc_slash|exact nc_sp]. }
  rewrite Hsp, Hn1.
  rewrite attrs_rt; [|exact Hattrs|intro E; discriminate|len].
  cbn [obind fst snd]. replace (ceq SLASH SLASH) with true by reflexivity. replace (ceq GT GT) with true by reflexivity.
  reflexivity.
Qed.

Lemma core_starts ind add nl n : is_elem n = true -> wf n ->
  exists c w', core ind add nl n = LT :: c :: w' /\ c <> SLASH.
Proof.
  destruct n as [tag attrs kids|tag attrs|d|d]; intros He Hwf; try discriminate.
  - apply wf_DE in Hwf as [[Hn1 Hn2] _]. destruct tag as [|c tag]; [discriminate|].
    exists c. eexists. split; [cbn [core app]; reflexivity|].
    intro E; subst. simpl in Hn2. rewrite nc_slash in Hn2. discriminate.
  - destruct Hwf as [[Hn1 Hn2] _]. destruct tag as [|c tag]; [discriminate|].
    exists c. eexists. split; [cbn [core app]; reflexivity|].
    intro E; subst. simpl in Hn2. rewrite nc_slash in Hn2. discriminate.
Qed.

(* main lemma: every child list is written as the pieces matching its items *)
Lemma node_rt : forall n, wf n -> forall ind add nl, plain ind -> plain add -> plain nl ->
  Forall2 wr (items ind add nl n) (pieces ind add nl n).
Proof.
  fix IHn 1. intros n Hwf ind add nl Pi Pa Pn.
  destruct n as [tag attrs kids|tag attrs|d|d].
  - (* DE *)
    pose proof Hwf as Hwf0. apply wf_DE in Hwf as (Htag & Hattrs & Hkids).
    rewrite items_DE. cbn [pieces].
    constructor; [apply wr_plain; exact Pi|]. constructor; [|constructor; [apply wr_plain; exact Pn|constructor]].
    apply wr_el; [apply core_starts; [reflexivity|exact Hwf0]|].
    intros rest fuel Hf.
    (* children lists *)
    assert (Hall : forall i a l, plain i -> plain a -> plain l ->
              Forall2 wr (flat_map (items i a l) kids) (flat_map (pieces i a l) kids)).
    { intros i a l Hi Ha Hl. clear Hf Hwf0. revert Hkids. generalize kids as ks.
      induction ks as [|k ks IHk]; intro Hks; [constructor|].
      destruct Hks as [Hk Hks]. simpl. apply Forall2_app; [apply IHn; assumption|apply IHk; assumption]. }
    destruct kids as [|k0 kids'] eqn:Ek.
    + cbn [core canon_el kids_canon]. apply elem_empty; assumption.
    + rewrite <- Ek in *. cbn [canon_el].
      assert (Ecore : core ind add nl (DE tag attrs kids) =
        [LT] ++ tag ++ wattrs attrs ++ [GT] ++
          (if existsb is_text kids then
             (if andb (Nat.ltb 1 (length kids)) (is_text k0) then [SP] else []) ++
             flat_map (w [] [] []) kids ++
             (if Nat.ltb 1 (length kids) then [SP] else [])
           else nl ++ flat_map (w (ind ++ add) add nl) kids ++ ind) ++ [LT; SLASH] ++ tag ++ [GT]).
      { rewrite Ek. cbn [core]. repeat (rewrite <- ?app_assoc; cbn [app]). reflexivity. }
      rewrite Ecore in *.
      assert (Ecan : kids_canon ind add nl kids =
        if existsb is_text kids then
          mergeA [] ((if andb (Nat.ltb 1 (length kids)) (is_text k0) then [ITx [SP]] else []) ++
                     flat_map (items [] [] []) kids ++
                     (if Nat.ltb 1 (length kids) then [ITx [SP]] else []))
        else mergeA [] ([ITx nl] ++ flat_map (items (ind ++ add) add nl) kids ++ [ITx ind])).
      { rewrite Ek. reflexivity. }
      rewrite Ecan.
      apply elem_of_content; [assumption|assumption| |exact Hf].
      intros rest' fuel' Hf'.
      destruct (existsb is_text kids).
      * (* text or mixed content *)
        set (pre := if (1 <? length kids) && is_text k0 then [SP] else []).
        set (post := if 1 <? length kids then [SP] else []).
        set (ipre := if (1 <? length kids) && is_text k0 then [ITx [SP]] else []).
        set (ipost := if 1 <? length kids then [ITx [SP]] else []).
        assert (Hpre : Forall2 wr ipre (match pre with [] => [] | _ => [pre] end)).
        { unfold ipre, pre. destruct ((1 <? length kids) && is_text k0); [|constructor].
          constructor; [|constructor]. apply (wr_tx esc_char_text [SP]), good_text. }
        assert (Hpost : Forall2 wr ipost (match post with [] => [] | _ => [post] end)).
        { unfold ipost, post. destruct (1 <? length kids); [|constructor].
          constructor; [|constructor]. apply (wr_tx esc_char_text [SP]), good_text. }
        pose proof (Forall2_app Hpre (Forall2_app (Hall [] [] [] plain_nil plain_nil plain_nil) Hpost)) as HF.
        pose proof (content_rt _ _ HF [] [] rest' fuel') as HC.
        assert (Econc : concat ((match pre with [] => [] | _ => [pre] end) ++ flat_map (pieces [] [] []) kids ++
                                 (match post with [] => [] | _ => [post] end))
                        = pre ++ flat_map (w [] [] []) kids ++ post).
        { rewrite !concat_app, concat_flat_pieces.
          assert (forall s : str, concat (match s with [] => [] | _ => [s] end) = s) as Hs
            by (intros [|? ?]; simpl; rewrite ?app_nil_r; reflexivity).
          rewrite !Hs. reflexivity. }
        rewrite Econc in HC. cbn [app] in HC.
        rewrite <- !app_assoc. rewrite <- !app_assoc in HC. apply HC.
        -- intro r. simpl. destruct (unesc r); reflexivity.
        -- reflexivity.
        -- tauto.
        -- rewrite <- !app_assoc in Hf'. exact Hf'.
      * (* element-only content *)
        assert (Pia : plain (ind ++ add)) by (apply plain_app; assumption).
        pose proof (Forall2_app (Forall2_cons _ _ (wr_plain nl Pn) (Forall2_nil _))
                     (Forall2_app (Hall (ind ++ add) add nl Pia Pa Pn)
                        (Forall2_cons _ _ (wr_plain ind Pi) (Forall2_nil _)))) as HF.
        pose proof (content_rt _ _ HF [] [] rest' fuel') as HC.
        rewrite !concat_app, concat_flat_pieces in HC. simpl concat in HC. rewrite !app_nil_r in HC.
        cbn [app] in HC. rewrite <- !app_assoc. rewrite <- !app_assoc in HC. apply HC.
        -- intro r. simpl. destruct (unesc r); reflexivity.
        -- reflexivity.
        -- tauto.
        -- rewrite <- !app_assoc in Hf'. exact Hf'.
  - (* ME *)
    destruct Hwf as [Htag Hattrs]. cbn [items pieces].
    constructor; [apply wr_plain; exact Pi|]. constructor; [|constructor; [apply wr_plain; exact Pn|constructor]].
    apply wr_el; [apply core_starts; [reflexivity|split; assumption]|].
    intros rest fuel Hf. cbn [core]. apply elem_empty; assumption.
  - cbn [items pieces]. constructor; [|constructor]. apply wr_tx, good_text.
  - cbn [items pieces]. constructor; [|constructor]. apply wr_tx, good_attr.
Qed.

Theorem elem_rt n ind add nl : wf n -> is_elem n = true -> plain ind -> plain add -> plain nl ->
  forall rest fuel, 2 * length (core ind add nl n ++ rest) <= fuel ->
  p_elem namestart namech fuel (core ind add nl n ++ rest) = Some (canon_el ind add nl n, rest).
Proof.
  intros Hwf He Pi Pa Pn rest fuel Hf.
  pose proof (node_rt n Hwf ind add nl Pi Pa Pn) as H.
  destruct n as [tag attrs kids|tag attrs|d|d]; try discriminate.
  - rewrite items_DE in H. cbn [pieces] in H.
    inversion H as [|? ? ? ? _ H2]; subst. inversion H2 as [|? ? ? ? Hel _]; subst.
    inversion Hel as [|? ? _ Hp]; subst. apply Hp. exact Hf.
  - cbn [items pieces] in H.
    inversion H as [|? ? ? ? _ H2]; subst. inversion H2 as [|? ? ? ? Hel _]; subst.
    inversion Hel as [|? ? _ Hp]; subst. apply Hp. exact Hf.
Qed.

End RT.
