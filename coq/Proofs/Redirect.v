(* Proofs/Redirect.v — every select with the search() appearance is either given in-line items or rejected by name; never skipped *)
Require Import PX.Base.Str PX.Model.Warnings PX.Model.Search PX.Model.Choices PX.Gen.Choices PX.Model.Redirect.
Theorem redirect_inline_iff ap its copy lists b :
  redirect ap its copy lists = RInline b <->
  exists a, ap = Some a /\ is_search a = true /\ from_file its = false /\ (if copy then b = false else b = true /\ mem its lists = true).
Proof.
  unfold redirect. destruct ap as [a|]; [|split; [discriminate|intros (a & H & _); discriminate]].
  destruct (is_search a) eqn:Es; cbn [negb].
  - destruct (from_file its) eqn:Ef.
    + split; [discriminate|intros (a' & Ha & _ & Hf & _); discriminate].
    + destruct copy.
      * split; [intro H; inversion H; exists a; repeat split; (reflexivity || assumption)|intros (a' & _ & _ & _ & ->); reflexivity].
      * destruct (mem its lists) eqn:Em.
        -- split; [intro H; inversion H; exists a; repeat split; (reflexivity || assumption)|intros (a' & _ & _ & _ & -> & _); reflexivity].
        -- split; [discriminate|intros (a' & _ & _ & _ & _ & H); discriminate].
  - split; [discriminate|intros (a' & Ha & Hs & _); inversion Ha; subst; congruence].
Qed.
Theorem search_select_decided a its copy lists : is_search a = true -> redirect (Some a) its copy lists <> RNotSearch.
Proof.
  intro Hs. unfold redirect. rewrite Hs. cbn [negb]. destruct (from_file its); [discriminate|]. destruct copy; [discriminate|].
  destruct (mem its lists); discriminate.
Qed.
(* a select whose list is on the choices sheet gets its in-line items whether or not it keeps its own copy (randomized selects keep none) *)
Theorem listed_select_gets_items a its copy lists : is_search a = true -> from_file its = false -> mem its lists = true ->
  redirect (Some a) its copy lists = RInline (negb copy).
Proof. intros Hs Hf Hm. unfold redirect. rewrite Hs, Hf, Hm. destruct copy; reflexivity. Qed.
Theorem unlisted_select_rejected a its lists : is_search a = true -> from_file its = false -> mem its lists = false ->
  redirect (Some a) its false lists = RErrNoList.
Proof. intros Hs Hf Hm. unfold redirect. rewrite Hs, Hf, Hm. reflexivity. Qed.
Theorem not_search_untouched ap its copy lists : (forall a, ap = Some a -> is_search a = false) -> redirect ap its copy lists = RNotSearch.
Proof. intro H. unfold redirect. destruct ap as [a|]; [|reflexivity]. rewrite (H a eq_refl). reflexivity. Qed.
Theorem redirect_checks_pinned :
  REDIRECT_CHECK_ORDER = [ [101;120;116;32;97;110;100;32;101;120;116;32;105;110;32;69;88;84;69;82;78;65;76;95;73;78;83;84;65;78;67;69;95;69;88;84;69;78;83;73;79;78;83]%N;
                           [105;116;101;109;115;101;116;32;105;115;32;78;111;110;101;32;97;110;100;32;115;101;108;102;46;99;104;111;105;99;101;115]%N;
                           [105;116;101;109;115;101;116;32;105;115;32;78;111;110;101]%N;
                           [110;111;116;32;105;116;101;109;115;101;116;46;117;115;101;100;95;98;121;95;115;101;97;114;99;104]%N ].
Proof. reflexivity. Qed.
