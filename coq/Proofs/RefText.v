(* Proofs/RefText.v — a well-formed ${name} / ${last-saved#name} is scanned as ONE PYXFORM_REF token, for every NCName, and passes the reference-syntax check *)
Require Import PX.Base.Str PX.Base.PyStr PX.Model.Names PX.Model.Scanner PX.Model.Params PX.Model.RefText PX.Proofs.Scanner.
From Coq Require Import Lia.
Local Open Scope N_scope.

Definition DOLLAR : N := 36. Definition LBRACE : N := 123. Definition RBRACE : N := 125.
Lemma span_all (p : N -> bool) a x t : forallb p a = true -> p x = false -> span p (a ++ x :: t) = (a, x :: t).
Proof.
  induction a as [|c a IH]; intros Ha Hx; cbn [app span].
  - rewrite Hx. reflexivity.
  - cbn [forallb] in Ha. apply andb_true_iff in Ha as [Hc Ha]. rewrite Hc, (IH Ha Hx). reflexivity.
Qed.
(* no rule before PYXFORM_REF matches at a dollar sign *)
Lemma before_ref_none t : first_rule (firstn 17 RULES) (36 :: t) = None.
Proof. reflexivity. Qed.

Definition ncname_plain (name : str) : Prop := exists c rest, name = c :: rest /\ nsc c = true /\ forallb nch rest = true.
Lemma nch_rbrace : nch 125 = false. Proof. reflexivity. Qed.
Lemma nch_hash : nch 35 = false. Proof. reflexivity. Qed.
Lemma nsc_nch c : nsc c = true -> nch c = true. Proof. intro H. unfold nch. rewrite H. reflexivity. Qed.

Lemma nc1_name c rest t : nsc c = true -> forallb nch rest = true -> r_nc1 (c :: rest ++ 125 :: t) = Some (c :: rest, 125 :: t).
Proof.
  intros Hc Hr. unfold r_nc1, seq, one. rewrite Hc. unfold many. rewrite (span_all nch rest 125 t Hr nch_rbrace). reflexivity.
Qed.
Lemma nc_then_name c rest t : nsc c = true -> forallb nch rest = true -> nc_then [125] (c :: rest ++ 125 :: t) = Some (c :: rest ++ [125], t).
Proof.
  intros Hc Hr. unfold nc_then, alt. unfold seq at 1. unfold r_ncname. unfold seq at 1. rewrite (nc1_name c rest t Hc Hr).
  unfold opt. unfold seq at 1. unfold ch, one. change (58 =? 125) with false. cbv iota.
  unfold lit. cbn [prefix]. change (125 =? 125) with true. cbv iota. cbn [prefix]. rewrite !app_nil_r. reflexivity.
Qed.

(* a literal holding a character outside class p (and not the terminator x) cannot be a prefix of  a ++ x :: t  when a is in p *)
Lemma prefix_blocked (p : N -> bool) : forall l a x t, forallb p a = true -> forallb (fun y => negb (y =? x)) l = true ->
  existsb (fun y => negb (p y)) l = true -> prefix l (a ++ x :: t) = None.
Proof.
  induction l as [|y l IH]; intros a x t Ha Hx He; [discriminate|].
  cbn [forallb existsb] in *. apply andb_true_iff in Hx as [Hy Hx].
  destruct a as [|c a]; cbn [app prefix].
  - unfold ceq. destruct (y =? x); [discriminate|reflexivity].
  - cbn [forallb] in Ha. apply andb_true_iff in Ha as [Hc Ha]. unfold ceq. destruct (y =? c) eqn:E; [|reflexivity].
    apply N.eqb_eq in E. subst c. rewrite Hc in He. cbn [negb orb] in He. apply IH; assumption.
Qed.

Lemma ref_rule_name c rest t : nsc c = true -> forallb nch rest = true ->
  r_pyxform_ref (36 :: 123 :: c :: rest ++ 125 :: t) = Some (36 :: 123 :: c :: rest ++ [125], t).
Proof.
  intros Hc Hr. unfold r_pyxform_ref. unfold seq at 1. unfold lit at 1. cbn [prefix]. change (ceq 36 36) with true. change (ceq 123 123) with true. cbv iota. cbn [prefix].
  unfold alt. unfold seq at 1. unfold lit at 1.
  change (c :: rest ++ 125 :: t) with ((c :: rest) ++ 125 :: t).
  rewrite (prefix_blocked nch [108;97;115;116;45;115;97;118;101;100;35] (c :: rest) 125 t); [| |reflexivity|reflexivity].
  - cbn [app]. rewrite (nc_then_name c rest t Hc Hr). reflexivity.
  - cbn [forallb]. rewrite (nsc_nch c Hc), Hr. reflexivity.
Qed.

Theorem reference_is_one_token name : ncname_plain name ->
  scan ([36;123] ++ name ++ [125]) = ([(n_ref, [36;123] ++ name ++ [125])], []).
Proof.
  intros [c [rest [-> [Hc Hr]]]]. unfold scan. cbn [app length]. cbn [scan_fuel].
  change RULES with (firstn 17 RULES ++ [(n_ref, r_pyxform_ref)] ++ skipn 18 RULES). rewrite first_rule_app, before_ref_none. cbn [app first_rule].
  change (rest ++ [125]) with (rest ++ 125 :: []). rewrite (ref_rule_name c rest [] Hc Hr).
  destruct (length (rest ++ [125])); reflexivity.
Qed.
Theorem reference_accepted name : ncname_plain name -> ref_syntax_ok ([36;123] ++ name ++ [125]) = true.
Proof.
  intro H. unfold ref_syntax_ok, tokens. rewrite (reference_is_one_token name H). destruct (_ || _); reflexivity.
Qed.

Definition LAST_SAVED : str := [108;97;115;116;45;115;97;118;101;100;35].     (* last-saved# *)
Lemma ref_rule_last_saved c rest t : nsc c = true -> forallb nch rest = true ->
  r_pyxform_ref (36 :: 123 :: LAST_SAVED ++ c :: rest ++ 125 :: t) = Some (36 :: 123 :: LAST_SAVED ++ c :: rest ++ [125], t).
Proof.
  intros Hc Hr. unfold r_pyxform_ref. unfold seq at 1. unfold lit at 1. cbn [prefix]. change (ceq 36 36) with true. change (ceq 123 123) with true. cbv iota. cbn [prefix].
  unfold alt. unfold seq at 1. unfold lit at 1. change [108;97;115;116;45;115;97;118;101;100;35] with LAST_SAVED. rewrite prefix_app.
  rewrite (nc_then_name c rest t Hc Hr). unfold LAST_SAVED. reflexivity.
Qed.
Theorem last_saved_reference_is_one_token name : ncname_plain name ->
  scan ([36;123] ++ LAST_SAVED ++ name ++ [125]) = ([(n_ref, [36;123] ++ LAST_SAVED ++ name ++ [125])], []).
Proof.
  intros [c [rest [-> [Hc Hr]]]]. unfold scan. cbn [app length LAST_SAVED]. cbn [scan_fuel].
  change RULES with (firstn 17 RULES ++ [(n_ref, r_pyxform_ref)] ++ skipn 18 RULES). rewrite first_rule_app, before_ref_none. cbn [app first_rule].
  change (rest ++ [125]) with (rest ++ 125 :: []).
  pose proof (ref_rule_last_saved c rest [] Hc Hr) as E. unfold LAST_SAVED in E. cbn [app] in E. rewrite E.
  destruct (length (rest ++ [125])); reflexivity.
Qed.
Theorem last_saved_reference_accepted name : ncname_plain name -> ref_syntax_ok ([36;123] ++ LAST_SAVED ++ name ++ [125]) = true.
Proof.
  intro H. unfold ref_syntax_ok, tokens. rewrite (last_saved_reference_is_one_token name H). destruct (_ || _); reflexivity.
Qed.
(* an opened reference that is never closed is refused, whatever follows (here: nothing) *)
Example unclosed_refused : ref_syntax_ok [36;123;113] = false /\ ref_syntax_ok [36;123;113;32;125] = false /\ ref_syntax_ok [36;123;36;123;113;125;125] = false.
Proof. vm_compute. repeat split. Qed.

Theorem is_reference_wellformed name : ncname_plain name -> is_pyxform_reference ([36;123] ++ name ++ [125]) = true.
Proof.
  intros [c [rest [-> [Hc Hr]]]]. unfold is_pyxform_reference. cbn [app]. change (rest ++ [125]) with (rest ++ 125 :: []).
  rewrite (ref_rule_name c rest [] Hc Hr). rewrite andb_true_r. apply Nat.ltb_lt. cbn [length]. rewrite app_length. cbn [length]. lia.
Qed.
(* anything after the closing brace (other than one final newline) makes the cell an expression, not a single reference *)
Theorem is_reference_rejects_continuation name t : ncname_plain name -> t <> [] -> t <> [10] ->
  is_pyxform_reference ([36;123] ++ name ++ [125] ++ t) = false.
Proof.
  intros [c [rest [-> [Hc Hr]]]] H1 H2. unfold is_pyxform_reference. cbn [app].
  rewrite (ref_rule_name c rest t Hc Hr). apply andb_false_iff. right.
  destruct t as [|x [|y t']]; [congruence| |].
  - destruct (N.eq_dec x 10) as [->|Hx]; [congruence|].
    destruct x as [|p]; [reflexivity|]. do 4 (destruct p; try reflexivity). congruence.
  - destruct x as [|p]; [reflexivity|]. do 4 (destruct p; try reflexivity).
Qed.

Require Import PX.Model.Warnings PX.Gen.Defaults PX.Model.Defaults.
(* a default that is a reference — to the live form or to the last saved one — is dynamic for EVERY question type *)
Theorem reference_default_is_dynamic name ty : ncname_plain name ->
  default_is_dynamic tokens ([36;123] ++ name ++ [125]) ty = true /\
  default_is_dynamic tokens ([36;123] ++ LAST_SAVED ++ name ++ [125]) ty = true.
Proof.
  intro H. unfold default_is_dynamic, tokens.
  rewrite (reference_is_one_token name H), (last_saved_reference_is_one_token name H). cbn [fst dyn_tokens].
  assert (E : seqb n_ref PX.Model.Defaults.s_ops_math = false) by reflexivity. rewrite E, !andb_false_r.
  assert (M : mem n_ref DYNAMIC_TOKEN_NAMES = true) by reflexivity. rewrite M. split; reflexivity.
Qed.
