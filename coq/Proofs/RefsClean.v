(* Proofs/RefsClean.v — the resolved relative path, evaluated from the referrer's node, is the target's node. *)
Require Import PX.Base.Str PX.Model.Warnings PX.Model.Tree PX.Model.Refs PX.Model.RefsClean.

Lemma is_prefix_app : forall a b, is_prefix a b = true -> b = a ++ skipn (length a) b.
Proof.
  induction a as [|x a IH]; intros [|y b] H; simpl in *; try reflexivity; try discriminate.
  apply andb_true_iff in H as [Hx H]. apply seqb_eq in Hx. subst. f_equal. apply IH. exact H.
Qed.
Lemma is_prefix_len a b : is_prefix a b = true -> length a <= length b.
Proof. intro H. pose proof (is_prefix_app a b H) as E. apply (f_equal (@length str)) in E. rewrite app_length in E. lia. Qed.
Lemma is_prefix_of_app a r : is_prefix a (a ++ r) = true.
Proof. induction a as [|x a IH]; simpl; [reflexivity|]. rewrite seqb_refl. exact IH. Qed.
Lemma is_prefix_trans a b c : is_prefix a b = true -> is_prefix b c = true -> is_prefix a c = true.
Proof.
  intros H1 H2. rewrite (is_prefix_app b c H2), (is_prefix_app a b H1), <- app_assoc. apply is_prefix_of_app.
Qed.
Lemma path_eqb_eq a b : path_eqb a b = true -> a = b.
Proof.
  revert b; induction a as [|x a IH]; intros [|y b] H; simpl in *; try reflexivity; try discriminate.
  apply andb_true_iff in H as [Hx H]. apply seqb_eq in Hx. subst. f_equal. apply IH. exact H.
Qed.

Lemma best_repeat_spec reps p : forall acc r,
  (forall a, acc = Some a -> is_prefix a p = true /\ length a < length p) ->
  best_repeat reps p acc = Some r -> is_prefix r p = true /\ length r < length p.
Proof.
  induction reps as [|q rs IH]; intros acc r Hacc H; simpl in H.
  - apply Hacc. exact H.
  - destruct (is_prefix q p && (length q <? length p) && match acc with None => true | Some a => length a <? length q end) eqn:E.
    + apply (IH (Some q) r); [|exact H]. intros a Ha. inversion Ha; subst.
      apply andb_true_iff in E as [E _]. apply andb_true_iff in E as [E1 E2]. split; [exact E1|apply Nat.ltb_lt; exact E2].
    + apply (IH acc r); assumption.
Qed.
Lemma nearest_repeat_spec reps p r : nearest_repeat reps p = Some r -> is_prefix r p = true /\ length r < length p.
Proof. apply best_repeat_spec. intros a H. discriminate. Qed.

Lemma lcp_firstn : forall a b, firstn (lcp a b) a = firstn (lcp a b) b.
Proof.
  induction a as [|x a IH]; intros [|y b]; simpl; try reflexivity.
  destruct (seqb_spec x y); [|reflexivity]. subst. simpl. f_equal. apply IH.
Qed.
Lemma lcp_le_l : forall a b, lcp a b <= length a.
Proof. induction a as [|x a IH]; intros [|y b]; simpl; try lia. destruct (seqb x y); [specialize (IH b)|]; lia. Qed.
Lemma lcp_le_r : forall a b, lcp a b <= length b.
Proof. induction a as [|x a IH]; intros [|y b]; simpl; try lia. destruct (seqb x y); [specialize (IH b)|]; lia. Qed.

Lemma is_prefix_snoc : forall (X C' : path) q, is_prefix X (C' ++ [q]) = true -> length X <= length C' -> is_prefix X C' = true.
Proof.
  induction X as [|x X IH]; intros C' q H Hl; [reflexivity|].
  destruct C' as [|c C']; [simpl in Hl; lia|]. simpl in *. apply andb_true_iff in H as [Hx H]. rewrite Hx. simpl.
  apply (IH C' q H). lia.
Qed.
Lemma removelast_prefix (X C : path) : is_prefix X C = true -> length X < length C ->
  removelast C = X ++ skipn (length X) (removelast C) /\ exists q, C = removelast C ++ [q].
Proof.
  intros Hp Hl. assert (Hne : C <> []) by (destruct C; [simpl in Hl; lia|discriminate]).
  destruct (exists_last Hne) as (C' & q & ->). rewrite removelast_last. split; [|exists q; reflexivity].
  apply is_prefix_app. apply (is_prefix_snoc X C' q Hp). rewrite app_length in Hl. simpl in Hl. lia.
Qed.

(* the core: from C = X ++ a ++ [q] and T = X ++ b, steps_down leads to T unless T is an ancestor-or-self of C *)
Lemma steps_down_reaches (X a b : path) (q : str) direct steps down :
  steps_down direct a b = (steps, down) -> is_prefix (X ++ b) (X ++ a ++ [q]) = false ->
  go (X ++ a ++ [q]) steps down = X ++ b.
Proof.
  unfold steps_down, go. intros H Hnp. rewrite !app_length. cbn [length].
  destruct direct.
  - pose proof (lcp_firstn a b) as Hk. pose proof (lcp_le_l a b) as Hl. pose proof (lcp_le_r a b) as Hr.
    destruct (Nat.ltb_spec (lcp a b) (length a)) as [Hka|Hka].
    + destruct (Nat.ltb_spec (lcp a b) (length b)) as [Hkb|Hkb].
      * inversion H; subst. replace (length X + (length a + 1) - (length a + 1 - lcp a b)) with (length X + lcp a b) by lia.
        rewrite firstn_app. replace (length X + lcp a b - length X) with (lcp a b) by lia.
        rewrite (firstn_all2 (n := length X + lcp a b)) by lia.
        rewrite firstn_app. replace (lcp a b - length a) with 0 by lia. simpl. rewrite app_nil_r, Hk, <- app_assoc, firstn_skipn. reflexivity.
      * (* b is a prefix of a: T is an ancestor of C — excluded *)
        exfalso. assert (Eb : lcp a b = length b) by lia. rewrite Eb in Hk. rewrite firstn_all in Hk.
        assert (Hp : is_prefix (X ++ b) (X ++ a ++ [q]) = true).
        { rewrite <- Hk. rewrite <- (firstn_skipn (length b) a) at 2. rewrite <- !app_assoc. rewrite app_assoc. apply is_prefix_of_app. }
        congruence.
    + assert (Ea : lcp a b = length a) by lia. rewrite Ea in Hk. rewrite firstn_all in Hk.
      destruct (Nat.ltb_spec (length a) (length b)) as [Hab|Hab].
      * inversion H; subst. replace (length X + (length a + 1) - 1) with (length X + length a) by lia.
        rewrite app_assoc, firstn_app. rewrite app_length. replace (length X + length a - (length X + length a)) with 0 by lia.
        simpl. rewrite app_nil_r. rewrite firstn_all2 by (rewrite app_length; lia).
        rewrite Hk at 1. rewrite <- app_assoc, firstn_skipn. reflexivity.
      * (* a = b: T is the parent of C — excluded *)
        exfalso. assert (Eb : firstn (length a) b = b) by (apply firstn_all2; lia). rewrite Eb in Hk.
        assert (Hp : is_prefix (X ++ b) (X ++ a ++ [q]) = true) by (rewrite Hk, app_assoc; apply is_prefix_of_app).
        congruence.
  - inversion H; subst. replace (length X + (length a + 1) - (length a + 1)) with (length X) by lia.
    rewrite firstn_app, Nat.sub_diag, firstn_all. simpl. rewrite app_nil_r. reflexivity.
Qed.

Lemma decompose (X C T : path) : is_prefix X C = true -> length X < length C -> is_prefix X T = true ->
  exists q, C = X ++ skipn (length X) (removelast C) ++ [q] /\ T = X ++ skipn (length X) T.
Proof.
  intros HC Hl HT. destruct (removelast_prefix X C HC Hl) as [E (q & Eq)].
  exists q. split; [|apply is_prefix_app; exact HT]. rewrite Eq at 1. rewrite E at 1. rewrite <- app_assoc. reflexivity.
Qed.

Theorem clean_reaches (reps : list path) (C T : path) steps down :
  clean_resolve reps C T = Some (steps, down) -> is_prefix T C = false -> go C steps down = T.
Proof.
  unfold clean_resolve. intros H Hnp.
  destruct ((1 <? length C) && (1 <? length T) && seqb (nth 1 C []) (nth 1 T []) && negb (unrelated reps C T)); [|discriminate].
  destruct (nearest_repeat reps C) as [cp|] eqn:Ecp; [|discriminate].
  destruct (nearest_repeat reps T) as [xp|] eqn:Exp; [|discriminate].
  destruct (nearest_repeat_spec _ _ _ Ecp) as [Hcp Hcpl]. destruct (nearest_repeat_spec _ _ _ Exp) as [Hxp Hxpl].
  destruct (is_prefix xp cp) eqn:Exc.
  - inversion H as [H1]. clear H.
    assert (HxC : is_prefix xp C = true) by (exact (is_prefix_trans xp cp C Exc Hcp)).
    assert (Hl : length xp < length C) by (pose proof (is_prefix_len _ _ Exc); lia).
    destruct (decompose xp C T HxC Hl Hxp) as (q & EC & ET).
    rewrite EC, ET. rewrite EC, ET in Hnp. eapply steps_down_reaches; eassumption.
  - destruct (nearest_repeat reps cp) as [csa|] eqn:Ecsa; [|discriminate].
    destruct (nearest_repeat reps xp) as [xsa|] eqn:Exsa; [|discriminate].
    destruct (path_eqb csa xsa) eqn:Eeq; [|discriminate]. apply path_eqb_eq in Eeq. subst xsa.
    inversion H as [H1]. clear H.
    destruct (nearest_repeat_spec _ _ _ Ecsa) as [Hc1 Hc1l]. destruct (nearest_repeat_spec _ _ _ Exsa) as [Hx1 Hx1l].
    assert (HxC : is_prefix csa C = true) by (exact (is_prefix_trans csa cp C Hc1 Hcp)).
    assert (HxT : is_prefix csa T = true) by (exact (is_prefix_trans csa xp T Hx1 Hxp)).
    assert (Hl : length csa < length C) by lia.
    destruct (decompose csa C T HxC Hl HxT) as (q & EC & ET).
    rewrite EC, ET. rewrite EC, ET in Hnp.
    exact (steps_down_reaches csa _ _ q true steps down H1 Hnp).
Qed.

(* ---- relative whenever the target's innermost enclosing repeat also encloses the referrer ---- *)
Lemma best_repeat_in reps p : forall acc r, (forall a, acc = Some a -> In a reps \/ False -> True) ->
  best_repeat reps p acc = Some r -> acc = Some r \/ In r reps.
Proof.
  induction reps as [|q rs IH]; intros acc r _ H; simpl in H; [left; exact H|].
  destruct (is_prefix q p && (length q <? length p) && match acc with None => true | Some a => length a <? length q end).
  - destruct (IH (Some q) r (fun _ _ _ => I) H) as [E|Hin]; [inversion E; right; left; reflexivity|right; right; exact Hin].
  - destruct (IH acc r (fun _ _ _ => I) H) as [E|Hin]; [left; exact E|right; right; exact Hin].
Qed.
Lemma nearest_repeat_in reps p r : nearest_repeat reps p = Some r -> In r reps.
Proof. intro H. destruct (best_repeat_in reps p None r (fun _ _ _ => I) H) as [E|Hin]; [discriminate|exact Hin]. Qed.

(* the accumulator only ever grows, and every qualifying repeat is no longer than the result *)
Lemma best_repeat_max reps p : forall acc,
  (forall q, In q reps -> is_prefix q p = true -> length q < length p ->
     exists r, best_repeat reps p acc = Some r /\ length q <= length r) /\
  (forall a, acc = Some a -> exists r, best_repeat reps p acc = Some r /\ length a <= length r).
Proof.
  induction reps as [|q0 rs IH]; intro acc; simpl.
  - split; [intros q []|]. intros a ->. exists a. split; [reflexivity|lia].
  - destruct (is_prefix q0 p && (length q0 <? length p) && match acc with None => true | Some a => length a <? length q0 end) eqn:E.
    + destruct (IH (Some q0)) as [IH1 IH2]. split.
      * intros q [<-|Hin] Hp Hl; [apply IH2; reflexivity|apply IH1; assumption].
      * intros a ->. destruct (IH2 q0 eq_refl) as (r & Hr & Hle). exists r. split; [exact Hr|].
        apply andb_true_iff in E as [_ E]. apply Nat.ltb_lt in E. lia.
    + destruct (IH acc) as [IH1 IH2]. split; [|exact IH2].
      intros q [<-|Hin] Hp Hl; [|apply IH1; assumption].
      rewrite Hp in E. apply Nat.ltb_lt in Hl. rewrite Hl in E. simpl in E.
      destruct acc as [a|]; [|discriminate]. apply Nat.ltb_ge in E.
      destruct (IH2 a eq_refl) as (r & Hr & Hle). exists r. split; [exact Hr|lia].
Qed.

Lemma prefix_of_same : forall (a b c : path), is_prefix a c = true -> is_prefix b c = true -> length a <= length b -> is_prefix a b = true.
Proof.
  induction a as [|x a IH]; intros b c Ha Hb Hl; [reflexivity|].
  destruct b as [|y b]; [simpl in Hl; lia|]. destruct c as [|z c]; [discriminate|]. simpl in *.
  apply andb_true_iff in Ha as [Hx Ha]. apply andb_true_iff in Hb as [Hy Hb].
  apply seqb_eq in Hx. apply seqb_eq in Hy. subst. rewrite seqb_refl. simpl. apply (IH b c); [assumption|assumption|lia].
Qed.
Lemma nth1_prefix (xp p : path) : is_prefix xp p = true -> 2 <= length xp -> nth 1 p [] = nth 1 xp [].
Proof.
  intros H Hl. rewrite (is_prefix_app xp p H). destruct xp as [|a [|b xp]]; simpl in Hl; try lia. reflexivity.
Qed.

Theorem clean_relative_when_required (reps : list path) (C T xp : path) :
  nearest_repeat reps T = Some xp -> is_prefix xp C = true -> length xp < length C -> 2 <= length xp ->
  exists r, clean_resolve reps C T = Some r.
Proof.
  intros HT HC Hl H2.
  destruct (nearest_repeat_spec _ _ _ HT) as [HxT HxTl]. pose proof (nearest_repeat_in _ _ _ HT) as Hin.
  unfold clean_resolve.
  assert (E1 : (1 <? length C) = true) by (apply Nat.ltb_lt; lia).
  assert (E2 : (1 <? length T) = true) by (apply Nat.ltb_lt; lia).
  assert (E3 : seqb (nth 1 C []) (nth 1 T []) = true).
  { rewrite (nth1_prefix xp C HC H2), (nth1_prefix xp T HxT H2). apply seqb_refl. }
  assert (E4 : unrelated reps C T = false).
  { unfold unrelated. apply negb_false_iff. apply orb_true_iff. right. apply existsb_exists. exists xp. split; [exact Hin|].
    rewrite HC, HxT. simpl. apply andb_true_iff. split; apply Nat.ltb_lt; lia. }
  rewrite E1, E2, E3, E4. cbn [andb negb].
  destruct (best_repeat_max reps C None) as [Hmax _].
  destruct (Hmax xp Hin HC Hl) as (cp & Hcp & Hle). unfold nearest_repeat. rewrite Hcp. fold (nearest_repeat reps T). rewrite HT.
  destruct (nearest_repeat_spec reps C cp Hcp) as [HcpC _].
  rewrite (prefix_of_same xp cp C HC HcpC Hle). eexists. reflexivity.
Qed.
