(* Proofs/RefsEq.v — the string-faithful reference model (Model/Refs.v: survey.py after fixes 03277b0 and b68def5) equals the
   component-list resolution (Model/RefsClean.v) for every tree whose names are non-empty and slash-free (C03) *)
Require Import PX.Base.Str PX.Model.Warnings PX.Model.Tree PX.Proofs.Tree PX.Model.Refs PX.Model.RefsClean PX.Proofs.RefsClean.
From Coq Require Import Lia.

Definition gname (n : str) : Prop := nochar SL n = true /\ n <> [].
Definition gpath (p : path) : Prop := Forall gname p.

Lemma gpath_nochar p : gpath p -> Forall (fun x => nochar SL x = true) p.
Proof. intro H. eapply Forall_impl; [|exact H]. intros a [Ha _]. exact Ha. Qed.

(* ---- text of a path and its pieces ---- *)
Lemma split_text p : gpath p -> p <> [] -> split_sl (path_text p) = [] :: p.
Proof.
  intros Hg Hne. unfold split_sl, path_text. cbn [app split_on]. unfold SL. rewrite ceq_refl.
  f_equal. apply split_join; [exact Hne|apply gpath_nochar; exact Hg].
Qed.
Lemma join_app_text (a b : path) : b <> [] -> join [SL] (a ++ b) = match a with [] => join [SL] b | _ => join [SL] a ++ SL :: join [SL] b end.
Proof.
  intro Hb. induction a as [|x a IH]; [reflexivity|]. destruct a as [|y a'].
  - cbn [app]. destruct b as [|z b']; [congruence|]. reflexivity.
  - change ((x :: y :: a') ++ b) with (x :: (y :: a') ++ b). cbn [app] in *.
    change (join [SL] (x :: y :: a' ++ b)) with (x ++ [SL] ++ join [SL] (y :: a' ++ b)). rewrite IH.
    change (join [SL] (x :: y :: a')) with (x ++ [SL] ++ join [SL] (y :: a')). rewrite <- app_assoc. cbn [app]. reflexivity.
Qed.
Lemma text_app (a b : path) : b <> [] -> path_text (a ++ b) = match a with [] => path_text b | _ => path_text a ++ path_text b end.
Proof.
  intro Hb. unfold path_text. rewrite join_app_text by exact Hb. destruct a; [reflexivity|]. cbn [app]. reflexivity.
Qed.
Lemma skipn_app_len {A} (a b : list A) : skipn (length a) (a ++ b) = b.
Proof. induction a; [reflexivity|assumption]. Qed.
(* x[len(xp):] and x[len(xp)+1:] for a path below xp *)
Lemma text_below (xp r : path) : xp <> [] -> r <> [] ->
  skipn (length (path_text xp)) (path_text (xp ++ r)) = path_text r /\
  skipn (length (path_text xp) + 1) (path_text (xp ++ r)) = join [SL] r.
Proof.
  intros Hx Hr. rewrite text_app by exact Hr. destruct xp as [|x0 xp']; [congruence|]. split.
  - apply skipn_app_len.
  - replace (length (path_text (x0 :: xp')) + 1) with (length (path_text (x0 :: xp') ++ [SL])) by (rewrite app_length; reflexivity).
    assert (E : path_text (x0 :: xp') ++ path_text r = (path_text (x0 :: xp') ++ [SL]) ++ join [SL] r).
    { unfold path_text at 2. rewrite <- app_assoc. reflexivity. }
    rewrite E. apply skipn_app_len.
Qed.

Lemma removelast_snoc {A} (l : list A) x : removelast (l ++ [x]) = l.
Proof. apply removelast_last. Qed.
Lemma gpath_app a b : gpath (a ++ b) <-> gpath a /\ gpath b.
Proof. unfold gpath. apply Forall_app. Qed.
Lemma parent_text (q : path) (x : str) : gpath (q ++ [x]) ->
  parent_of (path_text (q ++ [x])) = match q with [] => [] | _ => path_text q end.
Proof.
  intro Hg. unfold parent_of. rewrite split_text by (exact Hg || (destruct q; discriminate)).
  change ([] :: q ++ [x]) with (([] :: q) ++ [x]). rewrite removelast_snoc. destruct q as [|y q']; [reflexivity|]. reflexivity.
Qed.
Lemma text_inj p q : gpath p -> gpath q -> p <> [] -> q <> [] -> path_text p = path_text q -> p = q.
Proof.
  intros Hp Hq Np Nq H. apply (f_equal split_sl) in H. rewrite !split_text in H by assumption. congruence.
Qed.
Lemma path_eqb_refl p : path_eqb p p = true.
Proof. induction p as [|x p IH]; [reflexivity|]. cbn. rewrite seqb_refl. exact IH. Qed.
Lemma path_eqb_iff a b : path_eqb a b = true <-> a = b.
Proof. split; [apply path_eqb_eq|intros ->; apply path_eqb_refl]. Qed.
Definition greps (reps : list path) : Prop := Forall (fun r => gpath r /\ r <> []) reps.
Lemma mem_text p reps : gpath p -> p <> [] -> greps reps ->
  mem (path_text p) (map path_text reps) = existsb (path_eqb p) reps.
Proof.
  intros Hp Np Hr. induction reps as [|r rs IH]; [reflexivity|]. inversion Hr as [|? ? [Hgr Nr] Hrs]; subst.
  unfold mem in *. cbn [map existsb]. rewrite IH by exact Hrs. f_equal.
  destruct (seqb_spec (path_text p) (path_text r)) as [E|E].
  - apply text_inj in E; try assumption. subst. symmetry. apply path_eqb_refl.
  - destruct (path_eqb p r) eqn:Ep; [|reflexivity]. apply path_eqb_eq in Ep. subst. congruence.
Qed.

(* ---- walking up to the first enclosing repeat ---- *)
Fixpoint up (fuel : nat) (reps : list path) (p : path) : option path :=
  match fuel with
  | O => None
  | S f => let q := removelast p in
           match q with
           | [] => None
           | _ => if existsb (path_eqb q) reps then Some q else up f reps q
           end
  end.
Lemma gpath_removelast p : gpath p -> gpath (removelast p).
Proof.
  intro H. destruct p as [|x p] using rev_ind; [exact H|]. rewrite removelast_snoc. apply gpath_app in H. tauto.
Qed.
Lemma ipr_text reps : greps reps -> forall fuel p, gpath p -> p <> [] ->
  is_parent_a_repeat fuel (map path_text reps) (path_text p) = option_map path_text (up fuel reps p).
Proof.
  intros Hr. induction fuel as [|f IH]; intros p Hp Np; [reflexivity|].
  destruct p as [|x q _] using rev_ind; [congruence|]. cbn [is_parent_a_repeat up]. rewrite parent_text by exact Hp. rewrite removelast_snoc.
  destruct q as [|y q']; [reflexivity|].
  assert (Hq : gpath (y :: q')) by (apply gpath_app in Hp; tauto).
  assert (Et : path_text (y :: q') <> []) by (unfold path_text; discriminate).
  destruct (path_text (y :: q')) as [|c0 t0] eqn:Etx; [congruence|]. rewrite <- Etx.
  rewrite mem_text by (assumption || discriminate). destruct (existsb (path_eqb (y :: q')) reps); [reflexivity|].
  apply IH; [exact Hq|discriminate].
Qed.

Definition qualifies (p q : path) : Prop := is_prefix q p = true /\ length q < length p.
Definition Spec (reps : list path) (p r : path) : Prop :=
  In r reps /\ qualifies p r /\ forall q, In q reps -> qualifies p q -> length q <= length r.
Lemma prefix_same_len (a b c : path) : is_prefix a c = true -> is_prefix b c = true -> length a = length b -> a = b.
Proof.
  intros Ha Hb Hl. rewrite (is_prefix_app a c Ha) in Hb.
  assert (H : is_prefix a b = true) by (eapply prefix_of_same; [apply is_prefix_of_app|exact Hb|lia]).
  pose proof (is_prefix_app a b H) as E. assert (skipn (length a) b = []) by (apply length_zero_iff_nil; rewrite skipn_length; lia).
  rewrite H0, app_nil_r in E. congruence.
Qed.
Lemma spec_unique reps p r1 r2 : Spec reps p r1 -> Spec reps p r2 -> r1 = r2.
Proof.
  intros (I1 & Q1 & M1) (I2 & Q2 & M2). apply (prefix_same_len r1 r2 p); [apply Q1|apply Q2|].
  pose proof (M1 r2 I2 Q2). pose proof (M2 r1 I1 Q1). lia.
Qed.
Lemma nearest_some reps p r : nearest_repeat reps p = Some r -> Spec reps p r.
Proof.
  intro H. split; [eapply nearest_repeat_in; exact H|]. split; [apply (nearest_repeat_spec reps p r H)|].
  intros q Hq [Hp Hl]. destruct (best_repeat_max reps p None) as [Hmax _]. destruct (Hmax q Hq Hp Hl) as (r' & Hr' & Hle).
  unfold nearest_repeat in H. rewrite H in Hr'. inversion Hr'; subst. exact Hle.
Qed.
Lemma nearest_none reps p : nearest_repeat reps p = None -> forall q, In q reps -> ~ qualifies p q.
Proof.
  intros H q Hq [Hp Hl]. destruct (best_repeat_max reps p None) as [Hmax _]. destruct (Hmax q Hq Hp Hl) as (r' & Hr' & _).
  unfold nearest_repeat in H. congruence.
Qed.
Lemma nearest_of_spec reps p r : Spec reps p r -> nearest_repeat reps p = Some r.
Proof.
  intros S. destruct (nearest_repeat reps p) as [r'|] eqn:E.
  - f_equal. eapply spec_unique; [apply nearest_some; exact E|exact S].
  - exfalso. destruct S as (I & Q & _). exact (nearest_none reps p E r I Q).
Qed.
Lemma nearest_none_of reps p : (forall q, In q reps -> ~ qualifies p q) -> nearest_repeat reps p = None.
Proof.
  intro H. destruct (nearest_repeat reps p) as [r|] eqn:E; [|reflexivity]. exfalso. destruct (nearest_some reps p r E) as (I & Q & _). exact (H r I Q).
Qed.

Lemma existsb_path_in q reps : existsb (path_eqb q) reps = true <-> In q reps.
Proof.
  rewrite existsb_exists. split; [intros (x & Hx & E); apply path_eqb_eq in E; subst; exact Hx|intro H; exists q; split; [exact H|apply path_eqb_refl]].
Qed.
Lemma is_prefix_refl p : is_prefix p p = true.
Proof. induction p as [|x p IH]; [reflexivity|]. cbn. rewrite seqb_refl. exact IH. Qed.
Lemma qualifies_snoc (q : path) x r : qualifies (q ++ [x]) r <-> (r = q \/ qualifies q r).
Proof.
  unfold qualifies. rewrite app_length. cbn [length]. split.
  - intros [Hp Hl]. assert (Hle : length r <= length q) by lia. pose proof (is_prefix_snoc r q x Hp Hle) as Hq.
    destruct (Nat.eq_dec (length r) (length q)) as [E|E]; [left; apply (prefix_same_len r q q); [exact Hq|apply is_prefix_refl|exact E]|right; split; [exact Hq|lia]].
  - intros [->|[Hp Hl]]; (split; [|lia]).
    + apply is_prefix_of_app.
    + eapply is_prefix_trans; [exact Hp|apply is_prefix_of_app].
Qed.
Lemma up_nearest reps : greps reps -> forall fuel p, length p <= fuel -> up fuel reps p = nearest_repeat reps p.
Proof.
  intros Hr. induction fuel as [|f IH]; intros p Hf.
  - destruct p; [|simpl in Hf; lia]. symmetry. apply nearest_none_of. intros q _ [_ Hl]. simpl in Hl. lia.
  - destruct p as [|x q _] using rev_ind.
    + cbn. symmetry. apply nearest_none_of. intros q _ [_ Hl]. simpl in Hl. lia.
    + cbn [up]. rewrite removelast_snoc. destruct q as [|y q'].
      * symmetry. apply nearest_none_of. intros r Hin Hq. apply qualifies_snoc in Hq as [->|[_ Hl]]; [|simpl in Hl; lia].
        unfold greps in Hr. rewrite Forall_forall in Hr. destruct (Hr [] Hin) as [_ Hne]. congruence.
      * destruct (existsb (path_eqb (y :: q')) reps) eqn:E.
        -- symmetry. apply nearest_of_spec. apply existsb_path_in in E. split; [exact E|]. split; [apply qualifies_snoc; left; reflexivity|].
           intros r _ Hq. apply qualifies_snoc in Hq as [->|[_ Hl]]; lia.
        -- rewrite IH by (rewrite app_length in Hf; simpl in *; lia).
           destruct (nearest_repeat reps (y :: q')) as [r|] eqn:En.
           ++ symmetry. apply nearest_of_spec. destruct (nearest_some _ _ _ En) as (I & Q & M). split; [exact I|]. split; [apply qualifies_snoc; right; exact Q|].
              intros r' I' Q'. apply qualifies_snoc in Q' as [->|Q']; [apply existsb_path_in in I'; congruence|apply M; assumption].
           ++ symmetry. apply nearest_none_of. intros r I Q. apply qualifies_snoc in Q as [->|Q]; [apply existsb_path_in in I; congruence|].
              exact (nearest_none _ _ En r I Q).
Qed.

Lemma text_len p : length p <= length (path_text p).
Proof.
  unfold path_text. cbn [app length]. induction p as [|x p IH]; [simpl; lia|]. destruct p as [|y p']; [simpl; lia|].
  change (join [47%N] (x :: y :: p')) with (x ++ [47%N] ++ join [47%N] (y :: p')). rewrite !app_length. cbn [length] in *. lia.
Qed.
Lemma ipr_nearest reps p : greps reps -> gpath p -> p <> [] ->
  ipr (map path_text reps) (path_text p) = option_map path_text (nearest_repeat reps p).
Proof.
  intros Hr Hp Np. unfold ipr. rewrite ipr_text by assumption. rewrite up_nearest; [reflexivity|exact Hr|]. pose proof (text_len p). lia.
Qed.

(* ---- text prefix with a slash boundary = proper component prefix ---- *)
Lemma split_on_sep c u v : split_on c (u ++ c :: v) = split_on c u ++ split_on c v.
Proof.
  induction u as [|x u IH]; cbn [app split_on].
  - rewrite ceq_refl. reflexivity.
  - destruct (ceq x c); [rewrite IH; reflexivity|]. rewrite IH. pose proof (split_on_nonnil c u) as Hn.
    destruct (split_on c u) as [|h t]; [congruence|]. reflexivity.
Qed.
Lemma starts_with_app a r : starts_with a (a ++ r) = true.
Proof. unfold starts_with. rewrite prefix_app. reflexivity. Qed.
Lemma starts_with_some a s : starts_with a s = true -> exists r, s = a ++ r.
Proof. unfold starts_with. destruct (prefix a s) as [r|] eqn:E; [|discriminate]. intros _. exists r. apply prefix_some. exact E. Qed.
Lemma text_prefix a b : gpath a -> gpath b -> a <> [] -> b <> [] ->
  starts_with (path_text a ++ [SL]) (path_text b) = is_prefix a b && (length a <? length b).
Proof.
  intros Ha Hb Na Nb. destruct (is_prefix a b && (length a <? length b)) eqn:E.
  - apply andb_true_iff in E as [Hp Hl]. apply Nat.ltb_lt in Hl. rewrite (is_prefix_app a b Hp).
    assert (Hr : skipn (length a) b <> []) by (intro H0; apply (f_equal (@length _)) in H0; rewrite skipn_length in H0; simpl in H0; lia).
    rewrite text_app by exact Hr. destruct a as [|a0 a']; [congruence|].
    assert (E : path_text (a0 :: a') ++ path_text (skipn (length (a0 :: a')) b) = (path_text (a0 :: a') ++ [SL]) ++ join [SL] (skipn (length (a0 :: a')) b)).
    { unfold path_text at 2. rewrite <- app_assoc. reflexivity. }
    rewrite E. apply starts_with_app.
  - destruct (starts_with (path_text a ++ [SL]) (path_text b)) eqn:S; [|reflexivity]. exfalso.
    apply starts_with_some in S as [r S]. apply (f_equal split_sl) in S. rewrite split_text in S by assumption.
    rewrite <- app_assoc in S. cbn [app] in S. unfold split_sl in S. rewrite split_on_sep in S. fold (split_sl (path_text a)) in S. rewrite split_text in S by assumption.
    cbn [app] in S. inversion S as [S']. pose proof (split_on_nonnil SL r) as Hn.
    assert (Hp : is_prefix a b = true) by (rewrite S'; apply is_prefix_of_app).
    assert (Hl : length a < length b) by (rewrite S', app_length; destruct (split_on SL r); [congruence|simpl; lia]).
    rewrite Hp in E. apply Nat.ltb_lt in Hl. rewrite Hl in E. discriminate.
Qed.
Lemma seqb_sym a b : seqb a b = seqb b a.
Proof. destruct (seqb_spec a b), (seqb_spec b a); congruence. Qed.

(* ---- the comparison loop, when the probe is the target's own steps ---- *)
Lemma nth_error_skipn {A} (l : list A) i : nth_error l i = match skipn i l with [] => None | v :: _ => Some v end.
Proof. revert l; induction i as [|i IH]; intros [|x l]; try reflexivity. cbn [nth_error skipn]. apply IH. Qed.
Lemma skipn_S_tail {A} (l : list A) i v t : skipn i l = v :: t -> skipn (S i) l = t.
Proof. revert l; induction i as [|i IH]; intros [|x l] H; cbn [skipn] in *; try discriminate; [inversion H; reflexivity|apply IH; exact H]. Qed.
Lemma loop_spec (b cparts rem_parts : list str) : forall items i acc,
  steps_loop true b cparts b rem_parts i items acc =
    let k := lcp items (skipn i b) in
    if k <? length items then
      if i + k <? length b then (length (skipn (i + k) cparts), skipn (i + k) b)
      else (length (py_from_pred (i + k) cparts), py_from_pred (i + k) b)
    else match items with [] => acc | _ => (fst acc, skipn (i + length items - 1 + 2) rem_parts) end.
Proof.
  induction items as [|item rest IH]; intros i acc; [reflexivity|].
  cbn [steps_loop negb]. rewrite nth_error_skipn. destruct (skipn i b) as [|v t] eqn:Es.
  - cbn [lcp]. change (0 <? length (item :: rest)) with true. cbv iota. rewrite Nat.add_0_r.
    assert (Hl : i <? length b = false). { apply Nat.ltb_ge. apply (f_equal (@length _)) in Es. rewrite skipn_length in Es. simpl in Es. lia. }
    rewrite Hl. reflexivity.
  - cbn [lcp]. rewrite (seqb_sym item v). destruct (seqb v item) eqn:Ev.
    + rewrite IH. rewrite (skipn_S_tail b i v t Es). cbn zeta.
      set (k' := lcp rest t). cbn [length]. replace (S k' <? S (length rest)) with (k' <? length rest) by reflexivity.
      replace (i + S k') with (S i + k') by lia. destruct (k' <? length rest); [reflexivity|].
      cbn [fst]. destruct rest as [|r1 rest']; cbn [length]; f_equal; f_equal; lia.
    + change (0 <? length (item :: rest)) with true. cbv iota. rewrite Nat.add_0_r.
      assert (Hl : i <? length b = true). { apply Nat.ltb_lt. apply (f_equal (@length _)) in Es. rewrite skipn_length in Es. simpl in Es. lia. }
      rewrite Hl, ?Es. reflexivity.
Qed.
Lemma loop_unaligned (probe cparts xparts rem_parts : list str) items acc :
  steps_loop false probe cparts xparts rem_parts 0 items acc = match items with [] => acc | _ => (length cparts, xparts) end.
Proof. destruct items; reflexivity. Qed.

Definition text_result (r : nat * path) : nat * str := (fst r, SL :: join_sl (snd r)).
Lemma split_join_g r : gpath r -> r <> [] -> split_sl (join [SL] r) = r.
Proof. intros Hg Hn. apply split_join; [exact Hn|apply gpath_nochar; exact Hg]. Qed.
Lemma lcp_le_both a b : lcp a b <= length a /\ lcp a b <= length b.
Proof. split; [apply lcp_le_l|apply lcp_le_r]. Qed.
Lemma skipn_all_nil {A} (l : list A) n : length l <= n -> skipn n l = [].
Proof. intro H. apply length_zero_iff_nil. rewrite skipn_length. lia. Qed.
Lemma last_via_skipn {A} (l : list A) : l <> [] -> skipn (length l - 1) l = match rev l with [] => [] | x :: _ => [x] end.
Proof.
  intro H. destruct l as [|x l] using rev_ind; [congruence|]. rewrite rev_app_distr. cbn [rev app]. rewrite app_length. cbn [length].
  replace (length l + 1 - 1) with (length l) by lia. apply skipn_app_len.
Qed.

Lemma get_steps_direct (xp a b : path) (cl : str) :
  gpath xp -> xp <> [] -> gpath (a ++ [cl]) -> gpath b -> b <> [] ->
  get_steps_and_target_xpath (path_text (xp ++ b)) (path_text (xp ++ a ++ [cl])) (path_text xp) (path_text xp) false
  = text_result (steps_down true a b).
Proof.
  intros Hxp Nxp Hc Hb Nb. unfold get_steps_and_target_xpath. cbn [negb].
  assert (Nc : a ++ [cl] <> []) by (destruct a; discriminate).
  destruct (text_below xp b Nxp Nb) as [R1 R2]. destruct (text_below xp (a ++ [cl]) Nxp Nc) as [_ C2].
  rewrite R1, R2, C2. rewrite !split_join_g by assumption. rewrite removelast_snoc.
  assert (Al : starts_with (path_text xp ++ [SL]) (path_text (xp ++ b)) = true).
  { rewrite text_prefix; [|exact Hxp|apply gpath_app; tauto|exact Nxp|intro H0; apply app_eq_nil in H0; tauto].
    rewrite is_prefix_of_app, app_length. cbn [andb]. apply Nat.ltb_lt. destruct b; [congruence|simpl; lia]. }
  rewrite Al. rewrite split_text by assumption. rewrite loop_spec. cbn zeta. cbn [skipn]. rewrite !Nat.add_0_l.
  unfold steps_down, text_result. set (k := lcp a b). destruct (lcp_le_both a b) as [Ka Kb]. fold k in Ka, Kb.
  destruct (k <? length a) eqn:E1.
  - destruct (k <? length b) eqn:E2.
    + cbn [fst snd]. rewrite skipn_length, app_length. cbn [length]. apply Nat.ltb_lt in E1, E2.
      assert (Hs : skipn k b <> []) by (intro H0; apply (f_equal (@length _)) in H0; rewrite skipn_length in H0; simpl in H0; lia).
      destruct (skipn k b) eqn:Es; [congruence|]. f_equal; try lia; reflexivity.
    + apply Nat.ltb_ge in E2. assert (Ek : k = length b) by lia. rewrite Ek.
      destruct (length b) as [|n] eqn:El; [destruct b; [congruence|discriminate]|].
      cbn [py_from_pred fst snd]. rewrite skipn_length, app_length. cbn [length].
      assert (El' : n = length b - 1) by lia. rewrite El'. rewrite last_via_skipn by exact Nb.
      apply Nat.ltb_lt in E1. destruct (rev b) as [|x rb] eqn:Er; [apply (f_equal (@length _)) in Er; rewrite rev_length in Er; simpl in Er; lia|].
      f_equal; try lia; reflexivity.
  - apply Nat.ltb_ge in E1. assert (Ek : k = length a) by lia. destruct a as [|a0 a'].
    + cbn [fst snd length]. assert (H0 : 0 <? length b = true) by (apply Nat.ltb_lt; destruct b; [congruence|simpl; lia]). rewrite H0. cbn [skipn]. reflexivity.
    + cbn [fst snd]. replace (length (a0 :: a') - 1 + 2) with (S (length (a0 :: a'))) by (simpl; lia). cbn [skipn].
      destruct (length (a0 :: a') <? length b) eqn:E3.
      * apply Nat.ltb_lt in E3. assert (Hs : skipn (length (a0 :: a')) b <> []) by (intro H0; apply (f_equal (@length _)) in H0; rewrite skipn_length in H0; simpl in *; lia).
        destruct (skipn (length (a0 :: a')) b) eqn:Es; [congruence|]. reflexivity.
      * apply Nat.ltb_ge in E3. rewrite skipn_all_nil by exact E3. reflexivity.
Qed.

Lemma get_steps_unaligned (xp a b : path) (cl : str) (cpt : str) :
  gpath xp -> xp <> [] -> gpath (a ++ [cl]) -> a <> [] -> gpath b -> b <> [] ->
  starts_with (cpt ++ [SL]) (path_text (xp ++ b)) = false ->
  get_steps_and_target_xpath (path_text (xp ++ b)) (path_text (xp ++ a ++ [cl])) cpt (path_text xp) false
  = text_result (steps_down false a b).
Proof.
  intros Hxp Nxp Hc Na Hb Nb Hun. unfold get_steps_and_target_xpath. cbn [negb].
  assert (Nc : a ++ [cl] <> []) by (destruct a; discriminate).
  destruct (text_below xp b Nxp Nb) as [R1 R2]. destruct (text_below xp (a ++ [cl]) Nxp Nc) as [_ C2].
  rewrite R1, R2, C2. rewrite !split_join_g by assumption. rewrite removelast_snoc, Hun, loop_unaligned.
  destruct a as [|a0 a']; [congruence|]. unfold steps_down, text_result. cbn [fst snd]. rewrite app_length. cbn [length].
  destruct b as [|b0 b']; [congruence|]. f_equal; try lia; reflexivity.
Qed.

(* every result of steps_down takes at least one step and ends at the target's own name *)
Lemma steps_down_pos direct a b : 1 <= fst (steps_down direct a b).
Proof.
  unfold steps_down. destruct direct; [|cbn; lia]. pose proof (lcp_le_l a b). pose proof (lcp_le_r a b).
  destruct (lcp a b <? length a) eqn:E1; [|cbn; lia]. apply Nat.ltb_lt in E1. destruct (lcp a b <? length b); cbn; lia.
Qed.
Lemma last_skipn {A} (l : list A) k d : k < length l -> last (skipn k l) d = last l d.
Proof.
  revert k; induction l as [|x l IH]; intros k H; [simpl in H; lia|]. destruct k as [|k]; [reflexivity|]. cbn [skipn].
  rewrite IH by (simpl in H; lia). destruct l; [simpl in H; lia|reflexivity].
Qed.
Lemma steps_down_last direct a b : b <> [] -> snd (steps_down direct a b) <> [] /\ last (snd (steps_down direct a b)) [] = last b [].
Proof.
  intro Nb. unfold steps_down. destruct direct; [|cbn; tauto].
  destruct (lcp a b <? length a) eqn:E1.
  - destruct (lcp a b <? length b) eqn:E2; cbn [snd].
    + apply Nat.ltb_lt in E2. split; [intro H0; apply (f_equal (@length _)) in H0; rewrite skipn_length in H0; simpl in H0; lia|apply last_skipn; exact E2].
    + destruct b as [|x b] using rev_ind; [congruence|]. rewrite rev_app_distr. cbn [rev app]. split; [discriminate|]. rewrite last_last. reflexivity.
  - cbn [snd]. destruct (length a <? length b) eqn:E3; [|tauto]. apply Nat.ltb_lt in E3.
    split; [intro H0; apply (f_equal (@length _)) in H0; rewrite skipn_length in H0; simpl in H0; lia|apply last_skipn; exact E3].
Qed.
Lemma ends_with_last (d : path) : d <> [] -> ends_with_s (last d []) (SL :: join_sl d) = true.
Proof.
  intro Hd. destruct d as [|x d] using rev_ind; [congruence|]. rewrite last_last. unfold ends_with_s, join_sl.
  assert (E : SL :: join [SL] (d ++ [x]) = (match d with [] => [SL] | _ => SL :: join [SL] d ++ [SL] end) ++ x).
  { rewrite join_app_text by discriminate. destruct d; [reflexivity|]. cbn [app join]. rewrite <- app_assoc. reflexivity. }
  rewrite E, rev_app_distr. apply starts_with_app.
Qed.

(* ---- assembly ---- *)
Lemma greps_in reps r : greps reps -> In r reps -> gpath r /\ r <> [].
Proof. unfold greps. rewrite Forall_forall. intros H Hin. apply H. exact Hin. Qed.
Lemma is_prefix_iff_eq_or_proper a b : is_prefix a b = path_eqb b a || (is_prefix a b && (length a <? length b)).
Proof.
  destruct (is_prefix a b) eqn:Hp; cbn [andb].
  - destruct (length a <? length b) eqn:Hl; [symmetry; apply orb_true_r|]. rewrite orb_false_r. symmetry. apply path_eqb_iff.
    apply Nat.ltb_ge in Hl. pose proof (is_prefix_len a b Hp). symmetry. apply (prefix_same_len a b b); [exact Hp|apply is_prefix_refl|lia].
  - rewrite orb_false_r. destruct (path_eqb b a) eqn:E; [|reflexivity]. apply path_eqb_eq in E. subst. rewrite is_prefix_refl in Hp. discriminate.
Qed.
Lemma seqb_text a b : gpath a -> gpath b -> a <> [] -> b <> [] -> seqb (path_text a) (path_text b) = path_eqb a b.
Proof.
  intros. destruct (seqb_spec (path_text a) (path_text b)) as [E|E].
  - apply text_inj in E; try assumption. subst. symmetry. apply path_eqb_refl.
  - destruct (path_eqb a b) eqn:Ep; [|reflexivity]. apply path_eqb_eq in Ep. subst. congruence.
Qed.
Lemma anc_text xp cp : gpath xp -> gpath cp -> xp <> [] -> cp <> [] -> is_ancestor_or_self_text (path_text xp) (path_text cp) = is_prefix xp cp.
Proof.
  intros. unfold is_ancestor_or_self_text. rewrite seqb_text, text_prefix by assumption. symmetry. apply is_prefix_iff_eq_or_proper.
Qed.

Definition clean_core (reps : list path) (C T : path) : option (nat * path) :=
  match nearest_repeat reps C, nearest_repeat reps T with
  | Some cp, Some xp =>
      if is_prefix xp cp then
        let direct := path_eqb cp xp || match nearest_repeat reps cp with Some c => path_eqb c xp | None => false end in
        Some (steps_down direct (skipn (length xp) (removelast C)) (skipn (length xp) T))
      else
        match nearest_repeat reps cp, nearest_repeat reps xp with
        | Some csa, Some xsa =>
            if path_eqb csa xsa then Some (steps_down true (skipn (length csa) (removelast C)) (skipn (length csa) T)) else None
        | _, _ => None
        end
  | _, _ => None
  end.

Lemma share_clean reps C T : greps reps -> gpath C -> gpath T -> C <> [] -> T <> [] ->
  share_same_repeat_parent (map path_text reps) (path_text T) (path_text C) false = option_map text_result (clean_core reps C T).
Proof.
  intros Hr HC HT NC NT. unfold share_same_repeat_parent, clean_core. rewrite !ipr_nearest by assumption.
  destruct (nearest_repeat reps C) as [cp|] eqn:EC; [|reflexivity]. destruct (nearest_repeat reps T) as [xp|] eqn:ET; [|reflexivity]. cbn [option_map].
  destruct (nearest_some _ _ _ EC) as (Icp & [Pcp Lcp] & _). destruct (nearest_some _ _ _ ET) as (Ixp & [Pxp Lxp] & Mxp).
  destruct (greps_in _ _ Hr Icp) as [Gcp Ncp]. destruct (greps_in _ _ Hr Ixp) as [Gxp Nxp].
  rewrite anc_text by assumption. destruct (is_prefix xp cp) eqn:Hpc.
  - (* the target's repeat encloses the referrer's *)
    assert (PxC : is_prefix xp C = true) by (apply (is_prefix_trans xp cp C Hpc Pcp)).
    assert (LxC : length xp < length C) by (pose proof (is_prefix_len _ _ Hpc); lia).
    destruct (decompose xp C T PxC LxC Pxp) as (cl & EC' & ET').
    remember (skipn (length xp) (removelast C)) as a eqn:Ea. remember (skipn (length xp) T) as b eqn:Eb.
    assert (Nb : b <> []) by (intro H0; apply (f_equal (@length _)) in H0; rewrite Eb in H0; rewrite skipn_length in H0; simpl in H0; lia).
    assert (Gb : gpath b) by (rewrite ET' in HT; apply gpath_app in HT; tauto).
    assert (Gac : gpath (a ++ [cl])) by (rewrite EC' in HC; apply gpath_app in HC; tauto).
    rewrite ipr_nearest by assumption. cbn [andb orb negb].
    assert (Sel : forall csa : option path,
              (let '(cp', rp') :=
                 if (negb (seqb (path_text cp) (path_text xp)) && false) || match option_map path_text csa with Some _ => true | None => false end
                 then match option_map path_text csa with
                      | Some c => if seqb c (path_text xp) then (c, false) else if seqb (path_text cp) (path_text xp) then (path_text cp, false) else (path_text cp, false)
                      | None => (path_text cp, false) end
                 else (path_text cp, false) in
               Some (get_steps_and_target_xpath (path_text T) (path_text C) cp' (path_text xp) rp'))
              = Some (get_steps_and_target_xpath (path_text T) (path_text C)
                        (match csa with Some c => if seqb (path_text c) (path_text xp) then path_text xp else path_text cp | None => path_text cp end) (path_text xp) false)).
    { intros [c|]; cbn [option_map]; rewrite andb_false_r; cbn [orb]; [|reflexivity].
      destruct (seqb_spec (path_text c) (path_text xp)) as [E|E]; [rewrite E; reflexivity|]. destruct (seqb (path_text cp) (path_text xp)); reflexivity. }
    rewrite Sel. clear Sel. cbn [option_map]. f_equal.
    set (direct := path_eqb cp xp || match nearest_repeat reps cp with Some c => path_eqb c xp | None => false end).
    rewrite EC' at 1. rewrite ET' at 1.
    assert (Hdir : direct = true -> (match nearest_repeat reps cp with Some c => if seqb (path_text c) (path_text xp) then path_text xp else path_text cp | None => path_text cp end) = path_text xp).
    { unfold direct. intro Hd. destruct (nearest_repeat reps cp) as [c|] eqn:Ecsa.
      - destruct (nearest_some _ _ _ Ecsa) as (Ic & _ & _). destruct (greps_in _ _ Hr Ic) as [Gc Nc].
        rewrite seqb_text by assumption. destruct (path_eqb c xp); [reflexivity|]. rewrite orb_false_r in Hd. apply path_eqb_eq in Hd. subst. reflexivity.
      - rewrite orb_false_r in Hd. apply path_eqb_eq in Hd. subst. reflexivity. }
    destruct direct eqn:Ed.
    + rewrite (Hdir eq_refl). apply get_steps_direct; assumption.
    + assert (Hsel : (match nearest_repeat reps cp with Some c => if seqb (path_text c) (path_text xp) then path_text xp else path_text cp | None => path_text cp end) = path_text cp).
      { unfold direct in Ed. apply orb_false_iff in Ed as [_ Ed]. destruct (nearest_repeat reps cp) as [c|] eqn:Ecsa; [|reflexivity].
        destruct (nearest_some _ _ _ Ecsa) as (Ic & _ & _). destruct (greps_in _ _ Hr Ic) as [Gc Nc]. rewrite seqb_text by assumption. rewrite Ed. reflexivity. }
      rewrite Hsel. assert (Hne : path_eqb cp xp = false) by (unfold direct in Ed; apply orb_false_iff in Ed; tauto).
      assert (Na : a <> []).
      { intro Ha. (* then C = xp ++ [cl], so cp, a proper prefix of C containing xp, equals xp *)
        assert (length C = S (length xp)) by (rewrite EC', Ha, !app_length; simpl; lia).
        pose proof (is_prefix_len _ _ Hpc). assert (length cp = length xp) by lia.
        assert (cp = xp) by (apply (prefix_same_len cp xp C); [exact Pcp|exact PxC|assumption]). subst. rewrite path_eqb_refl in Hne. discriminate. }
      apply get_steps_unaligned; try assumption.
      rewrite <- ET'. rewrite text_prefix by assumption.
      destruct (is_prefix cp T && (length cp <? length T)) eqn:Eq; [|reflexivity]. exfalso.
      apply andb_true_iff in Eq as [Q1 Q2]. apply Nat.ltb_lt in Q2. pose proof (Mxp cp Icp (conj Q1 Q2)) as Hle. pose proof (is_prefix_len _ _ Hpc).
      assert (cp = xp) by (apply (prefix_same_len cp xp T); [exact Q1|exact Pxp|lia]). subst. rewrite path_eqb_refl in Hne. discriminate.
  - (* different repeats under a common one *)
    rewrite !ipr_nearest by assumption.
    destruct (nearest_repeat reps cp) as [csa|] eqn:Ecsa; [|reflexivity]. destruct (nearest_repeat reps xp) as [xsa|] eqn:Exsa; [|reflexivity]. cbn [option_map].
    destruct (nearest_some _ _ _ Ecsa) as (Ic & [Pc Lc] & _). destruct (nearest_some _ _ _ Exsa) as (Ix & [Px Lx] & _).
    destruct (greps_in _ _ Hr Ic) as [Gc Nc]. destruct (greps_in _ _ Hr Ix) as [Gx Nx].
    rewrite seqb_text by assumption. destruct (path_eqb csa xsa) eqn:Ee.
    + apply path_eqb_eq in Ee. subst xsa. rewrite path_eqb_refl. cbn [option_map]. f_equal.
      assert (PsC : is_prefix csa C = true) by (apply (is_prefix_trans csa cp C Pc Pcp)).
      assert (PsT : is_prefix csa T = true) by (apply (is_prefix_trans csa xp T Px Pxp)).
      assert (LsC : length csa < length C) by lia.
      destruct (decompose csa C T PsC LsC PsT) as (cl & EC' & ET').
      remember (skipn (length csa) (removelast C)) as a eqn:Ea. remember (skipn (length csa) T) as b eqn:Eb.
      assert (Nb : b <> []) by (intro H0; apply (f_equal (@length _)) in H0; rewrite Eb in H0; rewrite skipn_length in H0; simpl in H0; lia).
      assert (Gb : gpath b) by (rewrite ET' in HT; apply gpath_app in HT; tauto).
      assert (Gac : gpath (a ++ [cl])) by (rewrite EC' in HC; apply gpath_app in HC; tauto).
      rewrite EC' at 1. rewrite ET' at 1. apply get_steps_direct; assumption.
    + assert (E2 : path_eqb xsa csa = false). { destruct (path_eqb xsa csa) eqn:E3; [|reflexivity]. apply path_eqb_eq in E3. subst. rewrite path_eqb_refl in Ee. discriminate. }
      rewrite E2. reflexivity.
Qed.

Definition render_clean (T : path) (r : option (nat * path)) : str :=
  match r with
  | Some (steps, down) => [32%N] ++ join_sl (repeat dotdot steps) ++ [SL] ++ join_sl down ++ [32%N]
  | None => [32%N] ++ path_text T ++ [32%N]
  end.
Lemma clean_resolve_unfold reps C T : clean_resolve reps C T =
  if (1 <? length C) && (1 <? length T) && seqb (nth 1 C []) (nth 1 T []) && negb (unrelated reps C T) then clean_core reps C T else None.
Proof. reflexivity. Qed.
Lemma clean_core_shape reps C T r : T <> [] -> clean_core reps C T = Some r ->
  1 <= fst r /\ snd r <> [] /\ last (snd r) [] = last T [].
Proof.
  intros NT H. unfold clean_core in H.
  destruct (nearest_repeat reps C) as [cp|]; [|discriminate]. destruct (nearest_repeat reps T) as [xp|] eqn:ET; [|discriminate].
  destruct (nearest_some _ _ _ ET) as (_ & [Pxp Lxp] & _).
  assert (Aux : forall X direct a, is_prefix X T = true -> length X < length T ->
            1 <= fst (steps_down direct a (skipn (length X) T)) /\ snd (steps_down direct a (skipn (length X) T)) <> [] /\
            last (snd (steps_down direct a (skipn (length X) T))) [] = last T []).
  { intros X direct a PX LX. assert (Nb : skipn (length X) T <> []) by (intro H0; apply (f_equal (@length _)) in H0; rewrite skipn_length in H0; simpl in H0; lia).
    split; [apply steps_down_pos|]. destruct (steps_down_last direct a _ Nb) as [H1 H2]. split; [exact H1|]. rewrite H2. apply last_skipn. exact LX. }
  destruct (is_prefix xp cp).
  - injection H as <-. apply (Aux xp _ (skipn (length xp) (removelast C))); assumption.
  - destruct (nearest_repeat reps cp) as [csa|]; [|discriminate]. destruct (nearest_repeat reps xp) as [xsa|] eqn:Ex; [|discriminate].
    destruct (path_eqb csa xsa) eqn:Ee; [|discriminate]. apply path_eqb_eq in Ee. subst csa. injection H as <-.
    destruct (nearest_some _ _ _ Ex) as (_ & [Px Lx] & _). apply (Aux xsa true (skipn (length xsa) (removelast C))); [apply (is_prefix_trans xsa xp T Px Pxp)|lia].
Qed.

Theorem var_repl_is_clean reps C T : greps reps -> gpath C -> gpath T -> C <> [] -> T <> [] ->
  var_repl (map path_text reps) (path_text T) (path_text C) (last T []) (unrelated reps C T) false false false
  = render_clean T (clean_resolve reps C T).
Proof.
  intros Hr HC HT NC NT. unfold var_repl, relative_path. rewrite !split_text by assumption. rewrite clean_resolve_unfold.
  cbn [length nth]. change (2 <? S (length C)) with (1 <? length C). change (2 <? S (length T)) with (1 <? length T).
  rewrite (seqb_sym (nth 1 T []) (nth 1 C [])).
  destruct ((1 <? length C) && (1 <? length T) && seqb (nth 1 C []) (nth 1 T [])); cbn [andb]; [|reflexivity].
  destruct (unrelated reps C T); cbn [negb]; [reflexivity|].
  rewrite share_clean by assumption. destruct (clean_core reps C T) as [[steps down]|] eqn:Ecc; cbn [option_map text_result fst snd render_clean]; [|reflexivity].
  destruct (clean_core_shape reps C T _ NT Ecc) as (Hs & Hd & Hl). cbn [fst snd] in *.
  destruct steps as [|n]; [lia|]. rewrite <- Hl, ends_with_last by exact Hd. cbn [app]. reflexivity.
Qed.

(* ---- on the element tree ---- *)
Fixpoint names_ok (e : elem) : Prop :=
  match e with
  | Q n _ _ => gname n
  | G n _ _ kids => gname n /\ (fix all (l : list elem) : Prop := match l with [] => True | k :: r => names_ok k /\ all r end) kids
  | R n _ kids => gname n /\ (fix all (l : list elem) : Prop := match l with [] => True | k :: r => names_ok k /\ all r end) kids
  end.
Fixpoint all_ok (l : list elem) : Prop := match l with [] => True | k :: r => names_ok k /\ all_ok r end.
Lemma names_ok_G n b bl kids : names_ok (G n b bl kids) <-> gname n /\ all_ok kids.
Proof. cbn [names_ok]. induction kids as [|k r IH]; cbn [all_ok]; tauto. Qed.
Lemma names_ok_R n b kids : names_ok (R n b kids) <-> gname n /\ all_ok kids.
Proof. cbn [names_ok]. induction kids as [|k r IH]; cbn [all_ok]; tauto. Qed.
Lemma all_ok_in kids k : all_ok kids -> In k kids -> names_ok k.
Proof. induction kids as [|x r IH]; intros H Hin; [destruct Hin|]. destruct Hin as [<-|Hin]; cbn [all_ok] in H; [tauto|apply IH; tauto]. Qed.
Lemma gpath_snoc pre n : gpath pre -> gname n -> gpath (pre ++ [n]).
Proof. intros Hp Hn. apply gpath_app. split; [exact Hp|constructor; [exact Hn|constructor]]. Qed.

Lemma find_paths_ok name : forall e pre p, names_ok e -> gpath pre -> In p (find_paths name pre e) ->
  gpath p /\ p <> [] /\ last p [] = name.
Proof.
  induction e as [n b c|n b bl kids IHk|n b kids IHk] using elem_ind2; intros pre p Hok Hpre Hin; cbn [find_paths] in Hin.
  - destruct (seqb_spec n name) as [->|]; [|destruct Hin]. destruct Hin as [<-|[]]. cbn [names_ok] in Hok.
    split; [apply gpath_snoc; assumption|]. split; [destruct pre; discriminate|apply last_last].
  - destruct (proj1 (names_ok_G _ _ _ _) Hok) as [Hn Hk]. apply in_app_or in Hin as [Hin|Hin].
    + destruct (seqb_spec n name) as [->|]; [|destruct Hin]. destruct Hin as [<-|[]].
      split; [apply gpath_snoc; assumption|]. split; [destruct pre; discriminate|apply last_last].
    + apply in_flat_map in Hin as (k & Hkin & Hp). rewrite Forall_forall in IHk. apply (IHk k Hkin (pre ++ [n]) p); [eapply all_ok_in; eassumption|apply gpath_snoc; assumption|exact Hp].
  - destruct (proj1 (names_ok_R _ _ _) Hok) as [Hn Hk]. apply in_app_or in Hin as [Hin|Hin].
    + destruct (seqb_spec n name) as [->|]; [|destruct Hin]. destruct Hin as [<-|[]].
      split; [apply gpath_snoc; assumption|]. split; [destruct pre; discriminate|apply last_last].
    + apply in_flat_map in Hin as (k & Hkin & Hp). rewrite Forall_forall in IHk. apply (IHk k Hkin (pre ++ [n]) p); [eapply all_ok_in; eassumption|apply gpath_snoc; assumption|exact Hp].
Qed.
Lemma repeat_paths_ok : forall e pre p, names_ok e -> gpath pre -> In p (repeat_paths pre e) -> gpath p /\ p <> [].
Proof.
  induction e as [n b c|n b bl kids IHk|n b kids IHk] using elem_ind2; intros pre p Hok Hpre Hin; cbn [repeat_paths] in Hin.
  - destruct Hin.
  - destruct (proj1 (names_ok_G _ _ _ _) Hok) as [Hn Hk]. apply in_flat_map in Hin as (k & Hkin & Hp). rewrite Forall_forall in IHk.
    apply (IHk k Hkin (pre ++ [n]) p); [eapply all_ok_in; eassumption|apply gpath_snoc; assumption|exact Hp].
  - destruct (proj1 (names_ok_R _ _ _) Hok) as [Hn Hk]. destruct Hin as [<-|Hin].
    + split; [apply gpath_snoc; assumption|destruct pre; discriminate].
    + apply in_flat_map in Hin as (k & Hkin & Hp). rewrite Forall_forall in IHk.
      apply (IHk k Hkin (pre ++ [n]) p); [eapply all_ok_in; eassumption|apply gpath_snoc; assumption|exact Hp].
Qed.

(* the string-faithful model of survey.py's reference resolution IS the component-list resolution, for every tree whose names are
   non-empty and slash-free, every referrer and every target *)
Theorem resolve_is_clean root c t : names_ok root ->
  resolve_in_tree root c t false false false = clean_resolve_text root c t.
Proof.
  intro Hok. unfold resolve_in_tree, clean_resolve_text.
  destruct (find_paths c [] root) as [|C [|? ?]] eqn:EC; try reflexivity.
  destruct (find_paths t [] root) as [|T [|? ?]] eqn:ET; try reflexivity.
  assert (HC : In C (find_paths c [] root)) by (rewrite EC; left; reflexivity).
  assert (HT : In T (find_paths t [] root)) by (rewrite ET; left; reflexivity).
  destruct (find_paths_ok c root [] C Hok (Forall_nil _) HC) as (GC & NC & _).
  destruct (find_paths_ok t root [] T Hok (Forall_nil _) HT) as (GT & NT & LT).
  assert (Hr : greps (repeat_paths [] root)).
  { apply Forall_forall. intros r Hin. apply (repeat_paths_ok root [] r Hok (Forall_nil _) Hin). }
  rewrite <- LT. rewrite var_repl_is_clean by assumption. unfold render_clean.
  destruct (clean_resolve (repeat_paths [] root) C T) as [[steps down]|]; reflexivity.
Qed.
