(* Proofs/RowMerge.v — what a language is shown does not depend on the order of the columns. *)
Require Import PX.Base.Str PX.Model.Warnings PX.Model.Itext PX.Model.RowMerge PX.Proofs.Itext.
From Coq Require Import Permutation.

Section Spec.
Variable dl : str.
(* the documented meaning of a column family: a suffixed cell speaks for its language; the unsuffixed cell speaks
   for the default language unless that language has its own suffixed cell *)
Definition has_suffixed (cells : list (option str * str)) : bool := existsb (fun c => match fst c with Some _ => true | None => false end) cells.
Fixpoint suffixed_text (l : str) (cells : list (option str * str)) : option str :=
  match cells with
  | [] => None
  | (Some l', t) :: r => match suffixed_text l r with Some x => Some x | None => if seqb l' l then Some t else None end
  | (None, _) :: r => suffixed_text l r
  end.
Fixpoint unsuffixed_text (cells : list (option str * str)) : option str :=
  match cells with
  | [] => None
  | (None, u) :: r => match unsuffixed_text r with Some x => Some x | None => Some u end
  | _ :: r => unsuffixed_text r
  end.
Definition family_spec (cells : list (option str * str)) (l : str) : option str :=
  match suffixed_text l cells with
  | Some t => Some t
  | None => if seqb l dl then unsuffixed_text cells else None
  end.

Definition vlookup (v : option cellval) (l : str) : option str :=
  match v with Some (VDict d) => fget l d | _ => None end.

Lemma fget_app_single (d : list (str * str)) k v l : fget l (d ++ [(k, v)]) = match fget l d with Some x => Some x | None => if seqb k l then Some v else None end.
Proof. induction d as [|[a w] d IH]; simpl; [reflexivity|]. destruct (seqb a l); [reflexivity|exact IH]. Qed.

(* processing cells left to right: invariant relating the accumulator to the specification of the prefix *)
Definition Inv (acc : option cellval) (pre : list (option str * str)) : Prop :=
  match acc with
  | None => pre = []
  | Some (VStr u) => has_suffixed pre = false /\ unsuffixed_text pre = Some u
  | Some (VDict d) => has_suffixed pre = true /\ forall l, fget l d = family_spec pre l
  end.

Lemma has_suffixed_snoc pre c : has_suffixed (pre ++ [c]) = has_suffixed pre || match fst c with Some _ => true | None => false end.
Proof. unfold has_suffixed. rewrite existsb_app. simpl. rewrite orb_false_r. reflexivity. Qed.
Lemma suffixed_snoc l pre c : suffixed_text l (pre ++ [c]) =
  match c with (Some l', t) => if seqb l' l then Some t else suffixed_text l pre | (None, _) => suffixed_text l pre end.
Proof.
  induction pre as [|[[l0|] t0] pre IH]; simpl.
  - destruct c as [[l'|] t]; simpl; [destruct (seqb l' l); reflexivity|reflexivity].
  - rewrite IH. destruct c as [[l'|] t]; [destruct (seqb l' l); [reflexivity|]|]; reflexivity.
  - exact IH.
Qed.
Lemma unsuffixed_snoc pre c : unsuffixed_text (pre ++ [c]) = match c with (None, u) => Some u | _ => unsuffixed_text pre end.
Proof.
  induction pre as [|[[l0|] t0] pre IH]; simpl.
  - destruct c as [[l'|] t]; reflexivity.
  - exact IH.
  - rewrite IH. destruct c as [[l'|] t]; [reflexivity|reflexivity].
Qed.
Lemma no_suffixed_none l pre : has_suffixed pre = false -> suffixed_text l pre = None.
Proof.
  induction pre as [|[[l0|] t0] pre IH]; simpl; intro H; [reflexivity|discriminate|apply IH; exact H].
Qed.

Lemma unsuffixed_none pre : ~ In None (map fst pre) -> unsuffixed_text pre = None.
Proof.
  induction pre as [|[[l0|] t0] pre IH]; simpl; intro H; [reflexivity| |exfalso; apply H; left; reflexivity].
  apply IH. intro Hin. apply H. right. exact Hin.
Qed.

Lemma step_inv acc pre c : (fst c = None -> ~ In None (map fst pre)) -> Inv acc pre -> Inv (merge_cell dl acc c) (pre ++ [c]).
Proof.
  intro Huniq. destruct c as [[l|] t]; destruct acc as [[u|d]|]; unfold Inv; cbn [merge_cell].
  - (* VStr u, suffixed *) intros [Hs Hu]. destruct (seqb_spec l dl) as [->|Hne].
    + split; [rewrite has_suffixed_snoc, Hs; reflexivity|]. intro l0. unfold family_spec. rewrite suffixed_snoc, unsuffixed_snoc.
      cbn [fget]. destruct (seqb_spec dl l0) as [->|H0]; [reflexivity|].
      rewrite (no_suffixed_none l0 pre Hs). destruct (seqb_spec l0 dl); [congruence|reflexivity].
    + split; [rewrite has_suffixed_snoc, Hs; reflexivity|]. intro l0. unfold family_spec. rewrite suffixed_snoc, unsuffixed_snoc.
      cbn [fget]. rewrite (no_suffixed_none l0 pre Hs).
      destruct (seqb_spec dl l0) as [<-|H0].
      * destruct (seqb_spec l dl); [congruence|]. rewrite seqb_refl. exact (eq_sym Hu).
      * destruct (seqb_spec l l0); [reflexivity|]. destruct (seqb_spec l0 dl); [congruence|reflexivity].
  - (* VDict d, suffixed *) intros [Hs Hd]. split; [rewrite has_suffixed_snoc, Hs; reflexivity|]. intro l0.
    rewrite fget_fset. unfold family_spec. rewrite suffixed_snoc, unsuffixed_snoc.
    destruct (seqb_spec l l0) as [->|Hne]; [reflexivity|]. rewrite Hd. reflexivity.
  - (* None, suffixed *) intros ->. split; [reflexivity|]. intro l0. unfold family_spec. cbn [app suffixed_text unsuffixed_text fget].
    destruct (seqb l l0); [reflexivity|]. destruct (seqb l0 dl); reflexivity.
  - (* VStr u, unsuffixed *) intros [Hs Hu]. split; [rewrite has_suffixed_snoc, Hs; reflexivity|]. rewrite unsuffixed_snoc. reflexivity.
  - (* VDict d, unsuffixed *) intros [Hs Hd]. pose proof (Hd dl) as Hdl. unfold family_spec in Hdl. rewrite seqb_refl in Hdl.
    destruct (fget dl d) as [x|] eqn:E.
    + split; [rewrite has_suffixed_snoc, Hs; reflexivity|]. intro l0. rewrite Hd. unfold family_spec. rewrite suffixed_snoc, unsuffixed_snoc.
      destruct (suffixed_text l0 pre) eqn:El0; [reflexivity|]. destruct (seqb_spec l0 dl) as [->|]; [|reflexivity].
      (* the default language already has a text: it must be a suffixed one or an earlier unsuffixed one *)
      rewrite El0 in Hdl. rewrite (unsuffixed_none pre (Huniq eq_refl)) in Hdl. discriminate.
    + split; [rewrite has_suffixed_snoc, Hs; reflexivity|]. intro l0. rewrite fget_app_single, Hd. unfold family_spec. rewrite suffixed_snoc, unsuffixed_snoc.
      destruct (suffixed_text l0 pre) eqn:El0; [reflexivity|]. destruct (seqb_spec l0 dl) as [->|Hne].
      * rewrite El0 in Hdl. rewrite <- Hdl. rewrite seqb_refl. reflexivity.
      * destruct (seqb_spec dl l0); [congruence|reflexivity].
  - (* None, unsuffixed *) intros ->. split; reflexivity.
Qed.
End Spec.

Section Final.
Variable dl : str.
Lemma nodup_prefix {A} (pre : list A) c : NoDup (pre ++ [c]) -> NoDup pre /\ ~ In c pre.
Proof.
  intro H. apply NoDup_remove in H. rewrite app_nil_r in H. exact H.
Qed.

(* for every row whose headers are distinct: the value under the column is exactly the documented reading *)
Theorem family_value (cells : list (option str * str)) : NoDup (map fst cells) -> Inv dl (process_family dl cells) cells.
Proof.
  unfold process_family. induction cells as [|c pre IH] using rev_ind; intro Hnd; [reflexivity|].
  rewrite fold_left_app. cbn [fold_left]. rewrite map_app in Hnd. cbn [map] in Hnd.
  destruct (nodup_prefix _ _ Hnd) as [Hpre Hnotin].
  apply step_inv; [intro E; rewrite E in Hnotin; exact Hnotin|apply IH; exact Hpre].
Qed.

Lemma suffixed_in l cells : NoDup (map fst cells) -> forall t, (suffixed_text l cells = Some t <-> In (Some l, t) cells).
Proof.
  induction cells as [|[[l0|] t0] cells IH]; cbn [map suffixed_text]; intros H t.
  - split; [discriminate|intros []].
  - inversion H as [|? ? Hnotin H']; subst. specialize (IH H'). destruct (suffixed_text l cells) as [x|] eqn:E.
    + split.
      * intro Hx. inversion Hx; subst. right. apply IH. reflexivity.
      * intros [Heq|Hin]; [|apply IH in Hin; congruence].
        inversion Heq; subst. exfalso. apply Hnotin. apply in_map_iff. exists (Some l, x). split; [reflexivity|apply IH; reflexivity].
    + destruct (seqb_spec l0 l) as [->|Hne].
      * split; [intro Hx; inversion Hx; subst; left; reflexivity|].
        intros [Heq|Hin]; [inversion Heq; reflexivity|apply IH in Hin; discriminate].
      * split; [discriminate|]. intros [Heq|Hin]; [inversion Heq; congruence|apply IH in Hin; discriminate].
  - inversion H as [|? ? Hnotin H']; subst. specialize (IH H' t). rewrite IH. split; [intro Hin; right; exact Hin|intros [Heq|Hin]; [discriminate|exact Hin]].
Qed.
Lemma unsuffixed_in u cells : NoDup (map fst cells) -> (unsuffixed_text cells = Some u <-> In (None, u) cells).
Proof.
  induction cells as [|[[l0|] t0] cells IH]; cbn [map unsuffixed_text]; intro H.
  - split; [discriminate|intros []].
  - inversion H as [|? ? Hnotin H']; subst. specialize (IH H'). rewrite IH. split; [intro Hin; right; exact Hin|intros [Heq|Hin]; [discriminate|exact Hin]].
  - inversion H as [|? ? Hnotin H']; subst. rewrite (unsuffixed_none cells Hnotin). split.
    + intro Hx. inversion Hx; subst. left. reflexivity.
    + intros [Heq|Hin]; [inversion Heq; reflexivity|]. exfalso. apply Hnotin. apply in_map_iff. exists (None, u). split; [reflexivity|exact Hin].
Qed.

Lemma option_ext (a b : option str) : (forall t, a = Some t <-> b = Some t) -> a = b.
Proof. intro H. destruct a as [x|]; [symmetry; apply H; reflexivity|]. destruct b as [y|]; [apply H; reflexivity|reflexivity]. Qed.

Theorem family_spec_perm (cells cells' : list (option str * str)) l :
  NoDup (map fst cells) -> Permutation cells cells' -> family_spec dl cells l = family_spec dl cells' l.
Proof.
  intros Hnd Hp.
  assert (Hnd' : NoDup (map fst cells')) by (eapply Permutation_NoDup; [apply Permutation_map; exact Hp|exact Hnd]).
  unfold family_spec.
  assert (Es : suffixed_text l cells = suffixed_text l cells').
  { apply option_ext. intro t. rewrite (suffixed_in l cells Hnd t), (suffixed_in l cells' Hnd' t). split; intro H; [eapply Permutation_in; eassumption|eapply Permutation_in; [apply Permutation_sym; eassumption|exact H]]. }
  assert (Eu : unsuffixed_text cells = unsuffixed_text cells').
  { apply option_ext. intro t. rewrite (unsuffixed_in t cells Hnd), (unsuffixed_in t cells' Hnd'). split; intro H; [eapply Permutation_in; eassumption|eapply Permutation_in; [apply Permutation_sym; eassumption|exact H]]. }
  rewrite Es, Eu. reflexivity.
Qed.

(* column order is irrelevant to what each language is shown *)
Theorem column_order_irrelevant (cells cells' : list (option str * str)) l :
  NoDup (map fst cells) -> Permutation cells cells' -> has_suffixed cells = true ->
  vlookup (process_family dl cells) l = vlookup (process_family dl cells') l.
Proof.
  intros Hnd Hp Hs.
  assert (Hnd' : NoDup (map fst cells')) by (eapply Permutation_NoDup; [apply Permutation_map; exact Hp|exact Hnd]).
  assert (Hs' : has_suffixed cells' = true).
  { unfold has_suffixed in *. apply existsb_exists in Hs as (c & Hc & Hv). apply existsb_exists. exists c. split; [eapply Permutation_in; eassumption|exact Hv]. }
  pose proof (family_value cells Hnd) as I1. pose proof (family_value cells' Hnd') as I2. unfold Inv in I1, I2.
  destruct (process_family dl cells) as [[u|d]|]; [destruct I1 as [E _]; congruence| |subst cells; discriminate].
  destruct (process_family dl cells') as [[u'|d']|]; [destruct I2 as [E _]; congruence| |subst cells'; discriminate].
  cbn [vlookup]. destruct I1 as [_ I1]. destruct I2 as [_ I2]. rewrite I1, I2. apply family_spec_perm; assumption.
Qed.
End Final.
