(* Proofs/Rows.v — the stack parser implements the nesting grammar: sound, complete, errors located. *)
Require Import PX.Base.Str PX.Spec.Nest PX.Model.Rows.

Lemma ckind_eqb_refl k : ckind_eqb k k = true. Proof. destruct k; reflexivity. Qed.
Lemma ckind_eqb_eq a b : ckind_eqb a b = true -> a = b. Proof. destruct a, b; simpl; congruence. Qed.

(* completeness, generalised over what is already open *)
Lemma go_nest : forall rows ts, Nest rows ts -> forall rest n cur stack,
  go (rows ++ rest) n cur stack = go rest (n + length rows) (cur ++ ts) stack.
Proof.
  induction 1 as [|nm rs ts _ IH|rs ts _ IH|k nm inner kids rs ts _ IHi _ IHr]; intros rest n cur stack.
  - simpl. rewrite Nat.add_0_r, app_nil_r. reflexivity.
  - cbn [app go length]. rewrite IH. rewrite <- app_assoc. cbn [app]. f_equal. lia.
  - cbn [app go length]. rewrite IH. f_equal. lia.
  - cbn [app go]. rewrite <- app_assoc. rewrite IHi. cbn [app go]. rewrite ckind_eqb_refl.
    rewrite IHr. rewrite <- app_assoc. cbn [app]. f_equal.
    cbn [length]. rewrite app_length. cbn [length]. lia.
Qed.

Theorem parse_complete rows ts : Nest rows ts -> parse_rows rows = POk ts.
Proof.
  intro H. unfold parse_rows. rewrite <- (app_nil_r rows). rewrite (go_nest rows ts H [] 2 [] []). reflexivity.
Qed.

(* soundness: the result, read back in document order, is exactly the effective rows *)
Fixpoint prefix_rows (stack : list frame) (cur : list rtree) : list row :=
  match stack with
  | [] => flat_map flatten cur
  | (k, nm, pc) :: st => prefix_rows st pc ++ [RowBegin k nm] ++ flat_map flatten cur
  end.
Lemma prefix_rows_app stack cur x : prefix_rows stack (cur ++ x) = prefix_rows stack cur ++ flat_map flatten x.
Proof. destruct stack as [|[[k nm] pc] st]; simpl; rewrite flat_map_app; [reflexivity|]. rewrite <- app_assoc. reflexivity. Qed.

Lemma go_sound : forall rows n cur stack res, go rows n cur stack = POk res ->
  flat_map flatten res = prefix_rows stack cur ++ strip rows.
Proof.
  induction rows as [|r rs IH]; intros n cur stack res H.
  - simpl in H. destruct stack as [|[[k nm] pc] st]; [|discriminate]. inversion H; subst. simpl. rewrite app_nil_r. reflexivity.
  - destruct r as [nm|k nm|k|]; cbn [go] in H.
    + rewrite (IH _ _ _ _ H), prefix_rows_app. unfold strip. cbn [flat_map flatten filter app].
      rewrite ?app_nil_r. repeat rewrite <- app_assoc. reflexivity.
    + rewrite (IH _ _ _ _ H). unfold strip. cbn [prefix_rows flat_map filter app].
      rewrite ?app_nil_r. repeat rewrite <- app_assoc. reflexivity.
    + destruct stack as [|[[k' nm] pc] st]; [discriminate|]. destruct (ckind_eqb k' k) eqn:E; [|discriminate].
      apply ckind_eqb_eq in E. subst k'. rewrite (IH _ _ _ _ H), prefix_rows_app.
      unfold strip. cbn [prefix_rows flat_map flatten filter app].
      rewrite ?app_nil_r. rewrite <- !app_assoc. cbn [app].
      apply (f_equal (app (prefix_rows st pc))). apply (f_equal (cons (RowBegin k nm))).
      rewrite <- app_assoc. reflexivity.
    + rewrite (IH _ _ _ _ H). reflexivity.
Qed.

Theorem parse_sound rows ts : parse_rows rows = POk ts -> flat_map flatten ts = strip rows.
Proof. intro H. apply go_sound in H. exact H. Qed.

(* the two specifications agree *)
Lemma nest_flatten rows ts : Nest rows ts -> flat_map flatten ts = strip rows.
Proof. intro H. apply parse_sound. apply parse_complete. exact H. Qed.

(* errors carry the right row number (2 + number of rows above, counting skipped rows too) *)
Theorem unmatched_end_located pre ts k rest : Nest pre ts ->
  parse_rows (pre ++ RowEnd k :: rest) = PErr (UnmatchedEnd (2 + length pre)).
Proof. intro H. unfold parse_rows. rewrite (go_nest pre ts H). reflexivity. Qed.

Theorem mismatched_end_located pre ts k k' nm inner kids rest : Nest pre ts -> Nest inner kids -> ckind_eqb k k' = false ->
  parse_rows (pre ++ RowBegin k nm :: inner ++ RowEnd k' :: rest) = PErr (UnmatchedEnd (2 + length pre + 1 + length inner)).
Proof.
  intros Hp Hi Hk. unfold parse_rows. rewrite (go_nest pre ts Hp). cbn [go]. rewrite (go_nest inner kids Hi). cbn [go].
  rewrite Hk. f_equal. f_equal. lia.
Qed.

Theorem unmatched_begin_named pre ts k nm inner kids : Nest pre ts -> Nest inner kids ->
  parse_rows (pre ++ RowBegin k nm :: inner) = PErr (UnmatchedBegin k nm).
Proof.
  intros Hp Hi. unfold parse_rows. rewrite (go_nest pre ts Hp). cbn [go].
  rewrite <- (app_nil_r inner). rewrite (go_nest inner kids Hi). reflexivity.
Qed.
