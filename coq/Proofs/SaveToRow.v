(* Proofs/SaveToRow.v — every row that workbook_to_json treats as the opening of a section is recognised by the save_to check, and a select
   question never is (defect F55 was a substring test that got both wrong). *)
Require Import PX.Base.Str PX.Base.PyStr PX.Gen.Types PX.Model.TypeCell PX.Model.SaveToRow PX.Proofs.TypeCell.
From Coq Require Import Lia.
Local Open Scope N_scope.
Lemma first_alias_exists {A} (k : str -> str -> option A) : forall aliases s a rest x,
  In a aliases -> prefix a s = Some rest -> k a rest = Some x -> exists y, first_alias aliases s k = Some y.
Proof.
  induction aliases as [|a0 more IH]; intros s a rest x Hin Hp Hk; [destruct Hin|]. cbn [first_alias].
  destruct Hin as [->|Hin].
  - rewrite Hp, Hk. eexists; reflexivity.
  - destruct (prefix a0 s) as [r0|]; [destruct (k a0 r0); [eexists; reflexivity|]|]; eapply IH; eassumption.
Qed.
Lemma sep_then_some {A B} word s (k : str -> option A) (k' : str -> option B) x :
  sep_then word s k = Some x -> (forall rest y, k rest = Some y -> exists z, k' rest = Some z) -> exists z, sep_then word s k' = Some z.
Proof.
  unfold sep_then. intros H Hk. destruct (prefix word s) as [[|c rest]|]; try discriminate.
  destruct (py_space c || (c =? 95)); [|discriminate]. eapply Hk; exact H.
Qed.
(* whatever cell opens a group, repeat or loop for workbook_to_json is a section row for the save_to check *)
Theorem section_rows_recognised controls t k : parse_begin controls t = Some k -> begin_row controls t = true.
Proof.
  unfold parse_begin, begin_row. intro H.
  destruct (sep_then_some _ t _ (fun rest => first_alias controls rest (fun a r => match r with 32 :: _ => Some tt | _ => if at_end r then Some tt else None end)) k H) as [z Hz].
  - intros rest y Hy. apply first_alias_spec in Hy as (a & r & Hin & Hs & Hk).
    apply (first_alias_exists _ controls rest a r tt Hin); [subst rest; apply prefix_app|].
    destruct (at_end r) eqn:Ee.
    + destruct r as [|c r']; [reflexivity|]. destruct (c =? 32) eqn:Ec; [apply N.eqb_eq in Ec; subst; reflexivity|].
      destruct c; try reflexivity. destruct p; try reflexivity; destruct p; try reflexivity; destruct p; try reflexivity; destruct p; try reflexivity; destruct p; try reflexivity; destruct p; reflexivity.
    + destruct r as [|c r1]; [discriminate|]. destruct (N.eqb_spec c 32) as [->|Hne]; [reflexivity|].
      exfalso. destruct c as [|p]; [discriminate|]. do 6 (destruct p as [p|p|]; try discriminate). congruence.
  - rewrite Hz. reflexivity.
Qed.
(* a section row starts with the word begin *)
Lemma begin_row_head controls t : begin_row controls t = true -> exists r, t = [98;101;103;105;110] ++ r.
Proof.
  unfold begin_row. destruct (sep_then _ t _) as [u|] eqn:E; [|discriminate]. intros _.
  apply sep_then_spec in E as (c & rest & Hs & _ & _). exists (c :: rest). exact Hs.
Qed.
(* ... and no select command of the regenerated table does, so a select question -- whatever its list is called -- is never a section row *)
Lemma selects_do_not_start_with_b : forallb (fun a => match a with c :: _ => negb (c =? 98) | [] => false end) selects = true.
Proof. vm_compute. reflexivity. Qed.
Theorem select_rows_are_not_sections t k : parse_select selects t = Some k -> begin_row controls t = false.
Proof.
  intro H. destruct (begin_row controls t) eqn:Eb; [|reflexivity]. exfalso.
  apply begin_row_head in Eb as [r ->]. rewrite parse_select_unfold in H. apply first_alias_spec in H as (a & rest & Hin & Hs & _).
  pose proof selects_do_not_start_with_b as Hb. rewrite forallb_forall in Hb. specialize (Hb a Hin).
  destruct a as [|c a']; [discriminate|]. cbn [app] in Hs. inversion Hs; subst c. discriminate.
Qed.
(* examples: the cells of defect F55 *)
Example f55_cells :
  begin_row controls [115;101;108;101;99;116;95;111;110;101;32;103;114;111;117;112;115] = false /\                  (* select_one groups *)
  begin_row controls [98;101;103;105;110;32;108;111;111;112;32;111;118;101;114;32;108] = true /\                      (* begin loop over l *)
  begin_row controls [98;101;103;105;110;95;108;103;114;111;117;112] = true /\                                         (* begin_lgroup *)
  begin_row controls [98;101;103;105;110;32;108;111;111;112;101;100;32;103;114;111;117;112] = true /\                 (* begin looped group *)
  begin_row controls [98;101;103;105;110;110;101;114] = false.                                                         (* beginner *)
Proof. vm_compute. repeat split; reflexivity. Qed.
