(* Proofs/ScanFacts.v — what the modelled scanner yields on whole classes of texts: for EVERY NCName, the unclosed reference
   ${name  is a PYXFORM_REF_START token followed by one NAME token (and is refused by the reference-syntax check); for every
   non-empty digit string the scan is one NUMBER token (so an integer literal is a static default for every type). *)
Require Import PX.Base.Str PX.Base.PyStr PX.Model.Names PX.Model.Scanner PX.Model.Params PX.Model.RefText PX.Proofs.Scanner PX.Proofs.RefText PX.Model.Warnings PX.Gen.Defaults PX.Model.Defaults.
From Coq Require Import ZArith Lia ZifyBool ZifyN.
Local Open Scope N_scope.

Lemma nsc_range c : nsc c = true -> (65 <= c /\ c <= 90) \/ c = 95 \/ (97 <= c /\ c <= 122) \/ 192 <= c.
Proof. unfold nsc, inr. lia. Qed.
(* a name start character is none of the characters the earlier rules begin with *)
Lemma nsc_not c k : nsc c = true -> k < 65 \/ k = 91 \/ k = 93 \/ k = 92 \/ k = 94 \/ k = 96 \/ (123 <= k /\ k <= 191) -> (c =? k) = false.
Proof. intros H Hk. apply nsc_range in H. lia. Qed.
Lemma nsc_not_digit c : nsc c = true -> digit c = false.
Proof. intro H. apply nsc_range in H. unfold digit, inr. lia. Qed.
Lemma nsc_not_space c : nsc c = true -> re_space c = false.
Proof. intro H. apply nsc_range in H. unfold re_space, inr. lia. Qed.

Lemma span_all_end (p : N -> bool) a : forallb p a = true -> span p a = (a, []).
Proof. induction a as [|c a IH]; intro H; [reflexivity|]. cbn [forallb] in H. apply andb_true_iff in H as [Hc Ha]. cbn [span]. rewrite Hc, (IH Ha). reflexivity. Qed.
Lemma nc1_whole c rest : nsc c = true -> forallb nch rest = true -> r_nc1 (c :: rest) = Some (c :: rest, []).
Proof. intros Hc Hr. unfold r_nc1, seq, one, many. rewrite Hc, (span_all_end nch rest Hr). reflexivity. Qed.
Lemma ncname_whole c rest : nsc c = true -> forallb nch rest = true -> r_ncname (c :: rest) = Some (c :: rest, []).
Proof. intros Hc Hr. unfold r_ncname. unfold seq at 1. rewrite (nc1_whole c rest Hc Hr). unfold opt, seq, ch, one. rewrite app_nil_r. reflexivity. Qed.
Lemma nc_then_alone l0 l c rest : nsc c = true -> forallb nch rest = true -> nc_then (l0 :: l) (c :: rest) = None.
Proof.
  intros Hc Hr. unfold nc_then, alt. unfold seq at 1. rewrite (ncname_whole c rest Hc Hr). unfold lit at 1. cbn [prefix].
  unfold seq. rewrite (nc1_whole c rest Hc Hr). unfold lit. cbn [prefix]. reflexivity.
Qed.

Ltac kill c Hc :=
  repeat match goal with
  | |- context [?k =? c] => rewrite (N.eqb_sym k c)
  end;
  repeat match goal with
  | |- context [c =? ?k] => rewrite (nsc_not c k Hc) by lia
  end.

Lemma first_rule_skip n r l s : r s = None -> first_rule ((n, r) :: l) s = first_rule l s.
Proof. intro H. cbn [first_rule]. rewrite H. reflexivity. Qed.
Lemma before_name_none c rest : nsc c = true -> forallb nch rest = true -> first_rule (firstn 22 RULES) (c :: rest) = None.
Proof.
  intros Hc Hr.
  pose proof (nsc_not_digit c Hc) as Hd. pose proof (nsc_not_space c Hc) as Hs.
  assert (C : forall k, (k < 65 \/ k = 91 \/ k = 93 \/ k = 92 \/ k = 94 \/ k = 96 \/ (123 <= k /\ k <= 191)) -> ch k (c :: rest) = None).
  { intros k Hk. unfold ch, one. rewrite N.eqb_sym, (nsc_not c k Hc Hk). reflexivity. }
  assert (L : forall k l, (k < 65 \/ k = 91 \/ k = 93 \/ k = 92 \/ k = 94 \/ k = 96 \/ (123 <= k /\ k <= 191)) -> lit (k :: l) (c :: rest) = None).
  { intros k l Hk. unfold lit. cbn [prefix]. unfold ceq. rewrite N.eqb_sym, (nsc_not c k Hc Hk). reflexivity. }
  assert (M : many1 digit (c :: rest) = None) by (unfold many1; cbn [span]; rewrite Hd; reflexivity).
  assert (D1 : one digit (c :: rest) = None) by (unfold one; rewrite Hd; reflexivity).
  assert (E1 : r_date (c :: rest) = None).
  { unfold r_date. unfold seq at 1. unfold opt. rewrite C by lia. cbn [times]. unfold seq at 1. unfold seq at 1. rewrite D1. reflexivity. }
  assert (E0 : r_datetime (c :: rest) = None) by (unfold r_datetime; unfold seq at 1; rewrite E1; reflexivity).
  assert (E2 : r_time (c :: rest) = None) by (unfold r_time; cbn [times]; unfold seq at 1; unfold seq at 1; rewrite D1; reflexivity).
  assert (E3 : r_number (c :: rest) = None).
  { unfold r_number, alt. unfold seq, opt. rewrite !C by lia. rewrite !M. reflexivity. }
  assert (O1 : one (fun c0 => (c0 =? 42) || (c0 =? 43) || (c0 =? 45)) (c :: rest) = None).
  { unfold one. rewrite !(nsc_not c _ Hc) by lia. reflexivity. }
  assert (E4 : r_ops_math (c :: rest) = None) by (unfold r_ops_math, alt; rewrite O1, !L by lia; reflexivity).
  assert (E5 : r_ops_comp (c :: rest) = None) by (unfold r_ops_comp, alt; rewrite !C by lia; rewrite !L by lia; reflexivity).
  assert (E6 : r_ops_bool (c :: rest) = None) by (unfold r_ops_bool, alt; rewrite !L by lia; reflexivity).
  assert (E7 : r_literal (c :: rest) = None) by (unfold r_literal, alt; unfold seq; rewrite !C by lia; reflexivity).
  assert (E8 : many1 re_space (c :: rest) = None) by (unfold many1; cbn [span]; rewrite Hs; reflexivity).
  assert (E9 : r_pyxform_ref (c :: rest) = None) by (unfold r_pyxform_ref; unfold seq at 1; rewrite L by lia; reflexivity).
  change (firstn 22 RULES) with (firstn 22 (firstn 22 RULES)).
  assert (R : firstn 22 RULES =
    [([68;65;84;69;84;73;77;69], r_datetime); ([68;65;84;69], r_date); ([84;73;77;69], r_time); ([78;85;77;66;69;82], r_number);
     ([79;80;83;95;77;65;84;72], r_ops_math); ([79;80;83;95;67;79;77;80], r_ops_comp); ([79;80;83;95;66;79;79;76], r_ops_bool);
     ([79;80;83;95;85;78;73;79;78], ch 124); ([79;80;69;78;95;80;65;82;69;78], ch 40); ([67;76;79;83;69;95;80;65;82;69;78], ch 41);
     ([66;82;65;67;75;69;84], lit [91;93;123;125]); ([80;65;82;69;78;84;95;82;69;70], lit [46;46]); ([83;69;76;70;95;82;69;70], ch 46);
     ([80;65;84;72;95;83;69;80], ch 47); ([83;89;83;84;69;77;95;76;73;84;69;82;65;76], r_literal); ([67;79;77;77;65], ch 44);
     ([87;72;73;84;69;83;80;65;67;69], many1 re_space); ([80;89;88;70;79;82;77;95;82;69;70], r_pyxform_ref);
     ([70;85;78;67;95;67;65;76;76], nc_then [40]); ([88;80;65;84;72;95;80;82;69;68;95;83;84;65;82;84], nc_then [91]);
     ([88;80;65;84;72;95;80;82;69;68;95;69;78;68], ch 93); ([85;82;73;95;83;67;72;69;77;69], nc_then [58;47;47])]) by reflexivity.
  rewrite R. cbn [firstn].
  repeat (rewrite first_rule_skip; [|first [exact E0|exact E1|exact E2|exact E3|exact E4|exact E5|exact E6|exact E7|exact E8|exact E9
                                           |apply C; lia|apply L; lia|apply nc_then_alone; assumption]]).
  reflexivity.
Qed.

Lemma prefix_blocked_end (p : N -> bool) : forall l a, forallb p a = true -> existsb (fun y => negb (p y)) l = true -> prefix l a = None.
Proof.
  induction l as [|y l IH]; intros a Ha He; [discriminate|]. destruct a as [|c a]; [reflexivity|].
  cbn [prefix]. cbn [forallb] in Ha. apply andb_true_iff in Ha as [Hc Ha]. unfold ceq. destruct (y =? c) eqn:E; [|reflexivity].
  apply N.eqb_eq in E. subst c. cbn [existsb] in He. rewrite Hc in He. cbn [negb orb] in He. apply IH; assumption.
Qed.
Lemma ref_rule_unclosed c rest : nsc c = true -> forallb nch rest = true -> r_pyxform_ref (36 :: 123 :: c :: rest) = None.
Proof.
  intros Hc Hr. unfold r_pyxform_ref. unfold seq at 1. unfold lit at 1. cbn [prefix]. change (ceq 36 36) with true. change (ceq 123 123) with true. cbv iota. cbn [prefix].
  unfold alt. unfold seq at 1. unfold lit at 1.
  rewrite (prefix_blocked_end nch [108;97;115;116;45;115;97;118;101;100;35] (c :: rest)); [|cbn [forallb]; rewrite (nsc_nch c Hc), Hr; reflexivity|reflexivity].
  rewrite (nc_then_alone 125 [] c rest Hc Hr). reflexivity.
Qed.
Lemma between_ref_and_start_none t : first_rule (firstn 5 (skipn 18 RULES)) (36 :: t) = None.
Proof. reflexivity. Qed.

Definition n_start := n_ref_start.
Theorem unclosed_reference_tokens name : ncname_plain name ->
  scan ([36;123] ++ name) = ([(n_ref_start, [36;123]); (n_name, name)], []).
Proof.
  intros [c [rest [-> [Hc Hr]]]]. unfold scan. cbn [app length]. cbn [scan_fuel].
  assert (S1 : first_rule RULES (36 :: 123 :: c :: rest) = Some (n_ref_start, [36;123], c :: rest)).
  { change RULES with (firstn 17 RULES ++ [(n_ref, r_pyxform_ref)] ++ firstn 5 (skipn 18 RULES) ++ [(n_ref_start, lit [36;123])] ++ skipn 24 RULES).
    rewrite first_rule_app, before_ref_none. rewrite first_rule_app. cbn [first_rule]. rewrite (ref_rule_unclosed c rest Hc Hr).
    rewrite first_rule_app, between_ref_and_start_none. reflexivity. }
  rewrite S1.
  assert (S2 : first_rule RULES (c :: rest) = Some (n_name, c :: rest, [])).
  { change RULES with (firstn 22 RULES ++ [(n_name, r_ncname)] ++ skipn 23 RULES).
    rewrite first_rule_app, (before_name_none c rest Hc Hr). cbn [app first_rule]. rewrite (ncname_whole c rest Hc Hr). reflexivity. }
  destruct (length rest) as [|k]; cbn [scan_fuel]; rewrite S2; [reflexivity|]. destruct k; reflexivity.
Qed.
Theorem unclosed_reference_refused name : ncname_plain name -> ref_syntax_ok ([36;123] ++ name) = false.
Proof.
  intros H. unfold ref_syntax_ok, tokens. rewrite (unclosed_reference_tokens name H). destruct H as [c [rest [-> _]]].
  cbn [app length Nat.leb orb]. assert (E : contains [36;123] (36 :: 123 :: c :: rest) = true) by reflexivity. rewrite E. reflexivity.
Qed.

Definition all_digits (s : str) : Prop := s <> [] /\ forallb digit s = true.
Lemma digit_not c k : digit c = true -> k < 48 \/ 57 < k -> (c =? k) = false /\ (k =? c) = false.
Proof. unfold digit, inr. lia. Qed.
Lemma ch_digit_none k s : (k < 48 \/ 57 < k) -> forallb digit s = true -> ch k s = None.
Proof. intros Hk Hs. destruct s as [|c r]; [reflexivity|]. cbn [forallb] in Hs. apply andb_true_iff in Hs as [Hc _]. unfold ch, one. rewrite (proj2 (digit_not c k Hc Hk)). reflexivity. Qed.
Lemma span_digits s : forallb digit s = true -> span digit s = (s, []).
Proof. induction s as [|c r IH]; intro H; [reflexivity|]. cbn [forallb] in H. apply andb_true_iff in H as [Hc Hr]. cbn [span]. rewrite Hc, (IH Hr). reflexivity. Qed.
(* n digits off an all-digit text: the rest is all digits again (or the text was too short) *)
Lemma times_digits : forall n s, forallb digit s = true ->
  times n (one digit) s = None \/ exists v r, times n (one digit) s = Some (v, r) /\ forallb digit r = true.
Proof.
  induction n as [|n IH]; intros s H; cbn [times].
  - right. exists [], s. split; [reflexivity|exact H].
  - unfold seq. destruct s as [|c r]; [left; reflexivity|]. cbn [forallb] in H. apply andb_true_iff in H as [Hc Hr]. cbn [one]. rewrite Hc.
    destruct (IH r Hr) as [E|[v [r' [E Hr']]]]; rewrite E; [left; reflexivity|]. right. exists ([c] ++ v), r'. split; [reflexivity|exact Hr'].
Qed.
Lemma digits_then k n s : (k < 48 \/ 57 < k) -> forallb digit s = true -> forall next, seq (times n (one digit)) (seq (ch k) next) s = None.
Proof.
  intros Hk Hs next. unfold seq at 1. destruct (times_digits n s Hs) as [E|[v [r [E Hr]]]]; rewrite E; [reflexivity|].
  unfold seq. rewrite (ch_digit_none k r Hk Hr). reflexivity.
Qed.
Lemma opt_minus s : forallb digit s = true -> opt (ch 45) s = Some ([], s).
Proof. intro H. unfold opt. rewrite (ch_digit_none 45 s) by (lia || exact H). reflexivity. Qed.
Lemma date_none s : forallb digit s = true -> r_date s = None.
Proof. intro H. unfold r_date. unfold seq at 1. rewrite (opt_minus s H). rewrite (digits_then 45 4 s) by (lia || exact H). reflexivity. Qed.
Lemma time_none s : forallb digit s = true -> r_time s = None.
Proof. intro H. unfold r_time. apply (digits_then 58 2 s); [lia|exact H]. Qed.
Lemma number_digits c r : forallb digit (c :: r) = true -> r_number (c :: r) = Some (c :: r, []).
Proof.
  intro H. unfold r_number, alt. unfold seq at 1. rewrite (opt_minus _ H). unfold seq at 1. unfold many1. rewrite (span_digits _ H).
  unfold seq at 1. unfold ch at 1, one at 1.
  unfold seq at 1. rewrite (opt_minus _ H). unfold seq at 1. rewrite (ch_digit_none 46 _) by (lia || exact H).
  unfold seq. rewrite (opt_minus _ H). unfold many1. rewrite (span_digits _ H). reflexivity.
Qed.
Theorem digits_are_one_number s : all_digits s -> scan s = ([([78;85;77;66;69;82], s)], []).
Proof.
  intros [Hne H]. destruct s as [|c r]; [congruence|]. unfold scan. cbn [length scan_fuel].
  assert (S : first_rule RULES (c :: r) = Some ([78;85;77;66;69;82], c :: r, [])).
  { change RULES with ([([68;65;84;69;84;73;77;69], r_datetime); ([68;65;84;69], r_date); ([84;73;77;69], r_time); ([78;85;77;66;69;82], r_number)] ++ skipn 4 RULES).
    rewrite first_rule_app. cbn [first_rule]. unfold r_datetime. unfold seq at 1. rewrite (date_none _ H), (time_none _ H), (number_digits c r H). reflexivity. }
  rewrite S. destruct (length r); reflexivity.
Qed.
(* an integer literal is a static default for every question type *)
Theorem integer_default_is_static s ty : all_digits s -> default_is_dynamic tokens s ty = false.
Proof.
  intro H. unfold default_is_dynamic, tokens. rewrite (digits_are_one_number s H). cbn [fst dyn_tokens].
  assert (E : seqb [78;85;77;66;69;82] PX.Model.Defaults.s_ops_math = false) by reflexivity. rewrite E, andb_false_r.
  assert (M : mem [78;85;77;66;69;82] DYNAMIC_TOKEN_NAMES = false) by reflexivity. rewrite M. apply andb_false_r.
Qed.
