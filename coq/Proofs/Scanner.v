(* Proofs/Scanner.v — the lexer loses no character and always consumes its whole input *)
Require Import PX.Base.Str PX.Base.PyStr PX.Model.Names PX.Model.Scanner PX.Model.Warnings PX.Gen.Defaults PX.Model.Defaults PX.Proofs.Defaults.
From Coq Require Import Lia.
Local Open Scope N_scope.

Definition sound (a : str -> m) : Prop := forall s v r, a s = Some (v, r) -> s = v ++ r.
Lemma sound_lit l : sound (lit l).
Proof. intros s v r H. unfold lit in H. destruct (prefix l s) as [r'|] eqn:E; [|discriminate]. inversion H; subst. apply prefix_some. exact E. Qed.
Lemma sound_one p : sound (one p).
Proof. intros [|c s] v r H; cbn in H; [discriminate|]. destruct (p c); [|discriminate]. inversion H; subst. reflexivity. Qed.
Lemma span_sound p s : s = fst (span p s) ++ snd (span p s).
Proof. induction s as [|c s IH]; [reflexivity|]. cbn [span]. destruct (p c); [|reflexivity]. destruct (span p s) as [a b]. cbn [fst snd] in *. cbn [app]. f_equal. exact IH. Qed.
Lemma sound_many p : sound (many p).
Proof. intros s v r H. unfold many in H. inversion H as [E]. pose proof (span_sound p s) as Hs. rewrite E in Hs. exact Hs. Qed.
Lemma sound_many1 p : sound (many1 p).
Proof. intros s v r H. unfold many1 in H. destruct (span p s) as [[|c a] b] eqn:E; [discriminate|]. inversion H; subst. pose proof (span_sound p s) as Hs. rewrite E in Hs. exact Hs. Qed.
Lemma sound_seq a b : sound a -> sound b -> sound (seq a b).
Proof.
  intros Ha Hb s v r H. unfold seq in H. destruct (a s) as [[x r1]|] eqn:E1; [|discriminate]. destruct (b r1) as [[y r2]|] eqn:E2; [|discriminate].
  inversion H; subst. rewrite (Ha _ _ _ E1), (Hb _ _ _ E2), app_assoc. reflexivity.
Qed.
Lemma sound_opt a : sound a -> sound (opt a).
Proof. intros Ha s v r H. unfold opt in H. destruct (a s) as [[x r1]|] eqn:E; inversion H; subst; [apply (Ha _ _ _ E)|reflexivity]. Qed.
Lemma sound_alt a b : sound a -> sound b -> sound (alt a b).
Proof. intros Ha Hb s v r H. unfold alt in H. destruct (a s) as [[x r1]|] eqn:E; [inversion H; subst; apply (Ha _ _ _ E)|apply (Hb _ _ _ H)]. Qed.
Lemma sound_times n a : sound a -> sound (times n a).
Proof. intro Ha. induction n as [|k IH]; cbn [times]; [intros s v r H; inversion H; reflexivity|apply sound_seq; assumption]. Qed.
Lemma sound_eps : sound (fun s => Some ([], s)).
Proof. intros s v r H. inversion H; reflexivity. Qed.
Lemma sound_ch c : sound (ch c).
Proof. apply sound_one. Qed.
Ltac snd_tac := lazymatch goal with
  | |- sound (seq _ _) => apply sound_seq; snd_tac
  | |- sound (alt _ _) => apply sound_alt; snd_tac
  | |- sound (opt _) => apply sound_opt; snd_tac
  | |- sound (times _ _) => apply sound_times; snd_tac
  | |- sound (lit _) => apply sound_lit
  | |- sound (ch _) => apply sound_ch
  | |- sound (one _) => apply sound_one
  | |- sound (many1 _) => apply sound_many1
  | |- sound (many _) => apply sound_many
  | |- sound ?x => assumption
  end.
Lemma s_date : sound r_date. Proof. unfold r_date; snd_tac. Qed.
Lemma s_tz : sound r_tz. Proof. unfold r_tz; snd_tac. Qed.
Lemma s_time : sound r_time. Proof. pose proof s_tz. unfold r_time; snd_tac. Qed.
Lemma s_datetime : sound r_datetime. Proof. pose proof s_date. pose proof s_time. unfold r_datetime; snd_tac. Qed.
Lemma s_number : sound r_number. Proof. unfold r_number; snd_tac. Qed.
Lemma s_ops_math : sound r_ops_math. Proof. unfold r_ops_math; snd_tac. Qed.
Lemma s_ops_comp : sound r_ops_comp. Proof. unfold r_ops_comp; snd_tac. Qed.
Lemma s_ops_bool : sound r_ops_bool. Proof. unfold r_ops_bool; snd_tac. Qed.
Lemma s_literal : sound r_literal. Proof. unfold r_literal; snd_tac. Qed.
Lemma s_nc1 : sound r_nc1. Proof. unfold r_nc1; snd_tac. Qed.
Lemma s_ncname : sound r_ncname. Proof. pose proof s_nc1. unfold r_ncname; snd_tac. Qed.
Lemma s_nc_then l : sound (nc_then l).
Proof. pose proof s_nc1. pose proof s_ncname. intros s v r Hm. unfold nc_then in Hm. revert s v r Hm. change (sound (alt (seq r_ncname (lit l)) (seq r_nc1 (lit l)))). snd_tac. Qed.
Lemma s_pyxform_ref : sound r_pyxform_ref.
Proof. pose proof (s_nc_then [125]). unfold r_pyxform_ref; snd_tac. Qed.
Lemma s_other : sound r_other. Proof. unfold r_other; snd_tac. Qed.
Lemma rules_sound : Forall (fun nr => sound (snd nr)) RULES.
Proof.
  pose proof s_datetime. pose proof s_date. pose proof s_time. pose proof s_number. pose proof s_ops_math. pose proof s_ops_comp. pose proof s_ops_bool.
  pose proof s_literal. pose proof s_pyxform_ref. pose proof s_ncname. pose proof s_other.
  pose proof (s_nc_then [40]). pose proof (s_nc_then [91]). pose proof (s_nc_then [58;47;47]).
  unfold RULES. repeat constructor; cbn [snd]; snd_tac.
Qed.
Lemma first_rule_sound rules s name v s' : Forall (fun nr => sound (snd nr)) rules -> first_rule rules s = Some (name, v, s') -> s = v ++ s' /\ v <> [].
Proof.
  induction rules as [|[n r] rest IH]; intros HF H; [discriminate|]. inversion HF as [|? ? Hr Hrest]; subst. cbn [first_rule] in H.
  destruct (r s) as [[[|c w] r1]|] eqn:E; try (apply IH; assumption).
  inversion H; subst. split; [apply (Hr _ _ _ E)|discriminate].
Qed.
Theorem scan_lossless_fuel : forall fuel s, concat (map snd (fst (scan_fuel fuel s))) ++ snd (scan_fuel fuel s) = s.
Proof.
  induction fuel as [|f IH]; intro s; [reflexivity|]. cbn [scan_fuel]. destruct s as [|c s']; [reflexivity|].
  destruct (first_rule RULES (c :: s')) as [[[name v] r]|] eqn:E; [|reflexivity].
  destruct (first_rule_sound _ _ _ _ _ rules_sound E) as [Hs _]. specialize (IH r). destruct (scan_fuel f r) as [ts rem]. cbn [fst snd map concat] in *.
  rewrite <- app_assoc, IH. symmetry. exact Hs.
Qed.
Theorem scan_lossless s : concat (map snd (fst (scan s))) ++ snd (scan s) = s.
Proof. apply scan_lossless_fuel. Qed.

(* some rule always applies: OTHER takes any character but a newline, WHITESPACE takes the newline *)
Lemma first_rule_app r1 r2 s : first_rule (r1 ++ r2) s = match first_rule r1 s with Some x => Some x | None => first_rule r2 s end.
Proof. induction r1 as [|[n r] rest IH]; [reflexivity|]. cbn [app first_rule]. destruct (r s) as [[[|c w] r']|]; try exact IH. reflexivity. Qed.
Lemma some_rule_applies c s : first_rule RULES (c :: s) <> None.
Proof.
  destruct (c =? 10) eqn:E.
  - apply N.eqb_eq in E. subst c.
    change RULES with (firstn 16 RULES ++ [([87;72;73;84;69;83;80;65;67;69], many1 re_space)] ++ skipn 17 RULES). rewrite first_rule_app.
    destruct (first_rule (firstn 16 RULES) (10 :: s)); [discriminate|]. rewrite first_rule_app.
    assert (H : first_rule [([87;72;73;84;69;83;80;65;67;69], many1 re_space)] (10 :: s) <> None).
    { cbn [first_rule]. unfold many1. cbn [span]. change (re_space 10) with true. cbv iota. destruct (span re_space s). discriminate. }
    destruct (first_rule [([87;72;73;84;69;83;80;65;67;69], many1 re_space)] (10 :: s)); [discriminate|congruence].
  - change RULES with (firstn 25 RULES ++ [([79;84;72;69;82], r_other)]). rewrite first_rule_app.
    destruct (first_rule (firstn 25 RULES) (c :: s)); [discriminate|]. cbn [first_rule]. unfold r_other, one. rewrite E. cbn [negb]. discriminate.
Qed.
Theorem scan_consumes_everything_fuel : forall fuel s, (length s <= fuel)%nat -> snd (scan_fuel fuel s) = [].
Proof.
  induction fuel as [|f IH]; intros s Hl.
  - destruct s; [reflexivity|simpl in Hl; lia].
  - cbn [scan_fuel]. destruct s as [|c s']; [reflexivity|].
    destruct (first_rule RULES (c :: s')) as [[[name v] r]|] eqn:E; [|exfalso; exact (some_rule_applies c s' E)].
    destruct (first_rule_sound _ _ _ _ _ rules_sound E) as [Hs Hv]. specialize (IH r).
    assert (Hr : (length r <= f)%nat). { apply (f_equal (@length _)) in Hs. rewrite app_length in Hs. destruct v; [congruence|]. cbn [length app] in Hs, Hl. lia. }
    specialize (IH Hr). destruct (scan_fuel f r) as [ts rem]. exact IH.
Qed.
Theorem scan_consumes_everything s : snd (scan s) = [] /\ concat (map snd (fst (scan s))) = s.
Proof.
  assert (H : snd (scan s) = []) by (apply scan_consumes_everything_fuel; apply le_n).
  split; [exact H|]. pose proof (scan_lossless s) as L. rewrite H, app_nil_r in L. exact L.
Qed.

(* every token is non-empty and carries the name of one of the 26 rules *)
Lemma first_rule_name rules s name v s' : first_rule rules s = Some (name, v, s') -> In name (map fst rules).
Proof.
  induction rules as [|[n r] rest IH]; intro H; [discriminate|]. cbn [first_rule] in H. cbn [map fst].
  destruct (r s) as [[[|c w] r1]|]; try (right; apply IH; exact H). inversion H; subst. left; reflexivity.
Qed.
Theorem tokens_named_nonempty_fuel : forall fuel s t, In t (fst (scan_fuel fuel s)) -> In (fst t) (map fst RULES) /\ snd t <> [].
Proof.
  induction fuel as [|f IH]; intros s t H; [destruct H|]. cbn [scan_fuel] in H. destruct s as [|c s']; [destruct H|].
  destruct (first_rule RULES (c :: s')) as [[[name v] r]|] eqn:E; [|destruct H].
  specialize (IH r t). destruct (scan_fuel f r) as [ts rem]. cbn [fst] in *. destruct H as [<-|H]; [|apply IH; exact H].
  cbn [fst snd]. split; [apply (first_rule_name _ _ _ _ _ E)|apply (first_rule_sound _ _ _ _ _ rules_sound E)].
Qed.
Theorem tokens_named_nonempty s t : In t (tokens s) -> In (fst t) (map fst RULES) /\ snd t <> [].
Proof. apply tokens_named_nonempty_fuel. Qed.
Theorem tokens_concat s : concat (map snd (tokens s)) = s.
Proof. apply scan_consumes_everything. Qed.
(* offsets: consecutive, starting at `off`, ending at off + total length; each token is the slice of the text between its offsets *)
Lemma with_pos_spec ts : forall off pre n v post, ts = pre ++ (n, v) :: post ->
  In (n, v, (off + length (concat (map snd pre)))%nat, (off + length (concat (map snd pre)) + length v)%nat) (with_pos off ts).
Proof.
  induction ts as [|[n0 v0] r IH]; intros off pre n v post E; [destruct pre; discriminate|].
  destruct pre as [|[n1 v1] pre']; cbn [app] in E; inversion E; subst; cbn [with_pos map snd concat app length].
  - left. rewrite Nat.add_0_r. reflexivity.
  - right. specialize (IH (off + length v1)%nat pre' n v post eq_refl). rewrite app_length. rewrite !Nat.add_assoc. exact IH.
Qed.

Theorem text_classifier d ty : mem ty HYPHEN_TYPES = false ->
  (default_is_dynamic tokens d ty = false <-> d = [] \/ Forall (fun t => mem (fst t) DYNAMIC_TOKEN_NAMES = false) (tokens d)).
Proof.
  intro Hty. unfold default_is_dynamic. rewrite Hty. destruct d as [|c d']; cbn [nonempty andb].
  - split; [intros _; left; reflexivity|reflexivity].
  - rewrite dyn_tokens_false_false. split; [intro H; right; exact H|intros [H|H]; [discriminate|exact H]].
Qed.
