(* Proofs/Search.v — the search() appearance is recognised wherever it stands in the appearance, and only when the text search( is there *)
Require Import PX.Base.Str PX.Model.Search.
From Coq Require Import Lia.
Local Open Scope N_scope.
Lemma rp_found args post : forallb (fun c => negb (c =? 10)) args = true -> rp_before_nl (args ++ 41 :: post) = true.
Proof.
  induction args as [|c r IH]; intro H; cbn [app rp_before_nl]; [reflexivity|].
  cbn [forallb] in H. apply andb_true_iff in H as [Hc Hr]. apply negb_true_iff in Hc. rewrite Hc.
  destruct (c =? 41); [reflexivity|apply IH; exact Hr].
Qed.
Lemma search_anywhere_app pre s : search_anywhere s = true -> search_anywhere (pre ++ s) = true.
Proof.
  induction pre as [|c r IH]; intro H; [exact H|]. cbn [app search_anywhere]. rewrite (IH H). apply orb_true_r.
Qed.
(* wherever the call stands in the appearance (after `minimal`, `quick`, ...), it is recognised *)
Theorem search_recognised_anywhere pre args post : forallb (fun c => negb (c =? 10)) args = true ->
  is_search (pre ++ SEARCH_LP ++ args ++ [41] ++ post) = true.
Proof.
  intro H. unfold is_search. apply andb_true_iff. split.
  - apply Nat.ltb_lt. rewrite !app_length. cbn [length SEARCH_LP]. lia.
  - apply search_anywhere_app. unfold SEARCH_LP. cbn [app search_anywhere]. change [115;101;97;114;99;104;40] with SEARCH_LP.
    assert (E : prefix SEARCH_LP (115 :: 101 :: 97 :: 114 :: 99 :: 104 :: 40 :: args ++ 41 :: post) = Some (args ++ 41 :: post)) by reflexivity.
    rewrite E, (rp_found args post H). reflexivity.
Qed.
(* and an appearance without the text `search(` is never taken for one *)
Theorem no_search_text_no_search a : contains SEARCH_LP a = false -> is_search a = false.
Proof.
  intro H. unfold is_search. apply andb_false_iff. right. induction a as [|c r IH]; [reflexivity|].
  cbn [contains] in H. apply orb_false_iff in H as [H1 H2]. cbn [search_anywhere].
  unfold starts_with in H1. destruct (prefix SEARCH_LP (c :: r)); [discriminate|]. cbn [orb]. apply IH. destruct r; [reflexivity|exact H2].
Qed.

(* tie to the source (Gen/Choices.v is regenerated from /repo on every run): the pattern the model was written from *)
Require Import PX.Gen.Choices.
Lemma search_pattern_pinned : SEARCH_FUNCTION_PATTERN = [115;101;97;114;99;104;92;40;46;42;63;92;41].
Proof. reflexivity. Qed.
