(* Proofs/Settings.v — settings reach the form header verbatim (C11) *)
Require Import PX.Base.Str PX.Model.Warnings PX.Model.Bind PX.Proofs.Bind PX.Model.Headers PX.Gen.Settings PX.Gen.Top PX.Gen.Headers
  PX.Model.Settings PX.Spec.DocsSettings.
Lemma NoDup_app_intro {A} (l1 l2 : list A) : NoDup l1 -> NoDup l2 -> (forall x, In x l1 -> ~ In x l2) -> NoDup (l1 ++ l2).
Proof.
  induction l1 as [|a l1 IH]; intros H1 H2 Hd; [exact H2|].
  inversion H1; subst. simpl. constructor.
  - intro Hin. apply in_app_or in Hin as [Hin|Hin]; [contradiction|]. apply (Hd a); [left; reflexivity|exact Hin].
  - apply IH; [assumption|assumption|]. intros x Hx. apply Hd. right. exact Hx.
Qed.

Lemma field_root settings fn fb dl k : NoDup (keys settings) ->
  dget k (json_root settings fn fb dl) =
    match dget k settings with
    | Some v => Some v
    | None => dget k [(s_type, s_survey); (K_NAME_S, odefault fn DEFAULT_FORM_NAME);
                      (K_TITLE, getd K_ID_STRING settings (odefault fb DEFAULT_FORM_NAME));
                      (K_ID_STRING, getd K_ID_STRING settings (odefault fb DEFAULT_FORM_NAME));
                      (K_SMS_KEYWORD, getd K_SMS_KEYWORD settings (getd K_ID_STRING settings (odefault fb DEFAULT_FORM_NAME)));
                      (K_DEFAULT_LANGUAGE, getd K_DEFAULT_LANGUAGE settings (odefault dl s_default))]
    end.
Proof. intro H. unfold json_root. apply update_lookup. exact H. Qed.

Theorem id_placed s fn fb dl : NoDup (keys s) -> getd K_ID_STRING (json_root s fn fb dl) [] = doc_id s fb.
Proof.
  intro H. unfold getd at 1. rewrite field_root by exact H. unfold doc_id. change d_id_string with K_ID_STRING.
  unfold getd. destruct (dget K_ID_STRING s); [reflexivity|]. cbn. destruct fb; reflexivity.
Qed.
Theorem title_placed s fn fb dl : NoDup (keys s) -> title_of (json_root s fn fb dl) = doc_title s fb.
Proof.
  intro H. unfold title_of, getd at 1. rewrite field_root by exact H. unfold doc_title, doc_id. change d_title with K_TITLE. change d_id_string with K_ID_STRING.
  destruct (dget K_TITLE s); [reflexivity|]. cbn. unfold getd. destruct (dget K_ID_STRING s); [reflexivity|]. destruct fb; reflexivity.
Qed.
Theorem root_name_placed s fn fb dl : NoDup (keys s) -> root_name_of (json_root s fn fb dl) = doc_root_name s fn.
Proof.
  intro H. unfold root_name_of, getd at 1. rewrite field_root by exact H. unfold doc_root_name. change d_name with K_NAME_S.
  destruct (dget K_NAME_S s); [reflexivity|]. cbn. destruct fn; reflexivity.
Qed.
(* a key that is none of the six defaults is read straight from the settings row *)
Definition default_keys : list str := [s_type; K_NAME_S; K_TITLE; K_ID_STRING; K_SMS_KEYWORD; K_DEFAULT_LANGUAGE].
Lemma field_plain s fn fb dl k : NoDup (keys s) -> mem k default_keys = false -> field (json_root s fn fb dl) k = present k s.
Proof.
  intros H Hk. unfold field, present. rewrite field_root by exact H. destruct (dget k s); [reflexivity|].
  unfold mem, default_keys in Hk. cbn [existsb] in Hk. cbn [dget].
  repeat match goal with |- context [seqb ?a k] => let E := fresh in destruct (seqb_spec a k) as [E|E]; [rewrite <- E in Hk; rewrite seqb_refl in Hk; cbn in Hk; rewrite ?Bool.orb_true_r in Hk; discriminate|] end.
  reflexivity.
Qed.
Theorem body_class_placed s fn fb dl : NoDup (keys s) -> body_class (json_root s fn fb dl) = doc_body_class s.
Proof. intro H. unfold body_class, doc_body_class. apply field_plain; [exact H|reflexivity]. Qed.

Lemma getd_field root k v : field root k = Some v -> getd k root [] = v.
Proof. unfold field, getd. destruct (dget k root) as [[|c r]|]; congruence. Qed.
Theorem submission_placed s fn fb dl : NoDup (keys s) -> submission_of (json_root s fn fb dl) = doc_submission s.
Proof.
  intro H. unfold submission_of, doc_submission, SUBMISSION_TRIGGERS, SUBMISSION_ATTRS. cbn [existsb flat_map].
  rewrite !(field_plain s fn fb dl) by (exact H || reflexivity).
  change [115;117;98;109;105;115;115;105;111;110;95;117;114;108]%N with d_submission_url.
  change [112;117;98;108;105;99;95;107;101;121]%N with d_public_key.
  change [97;117;116;111;95;115;101;110;100]%N with d_auto_send.
  change [97;117;116;111;95;100;101;108;101;116;101]%N with d_auto_delete.
  assert (G : forall k v, mem k default_keys = false -> present k s = Some v -> getd k (json_root s fn fb dl) [] = v).
  { intros k v Hk Hp. apply getd_field. rewrite field_plain by assumption. exact Hp. }
  destruct (present d_submission_url s) as [u|] eqn:Eu; destruct (present d_public_key s) as [pk|] eqn:Ek;
    destruct (present d_auto_send s) as [a|] eqn:Ea; destruct (present d_auto_delete s) as [d|] eqn:Ed; cbn [is_some orb app opt_attr];
    repeat match goal with E : present ?k s = Some ?v |- _ => rewrite (G k v eq_refl E); clear E end; reflexivity.
Qed.

Lemma dset_fresh k v d : ~ In k (keys d) -> dset k v d = d ++ [(k, v)].
Proof.
  induction d as [|[a w] r IH]; intro H; [reflexivity|]. cbn [dset]. destruct (seqb_spec a k); [exfalso; apply H; left; assumption|].
  cbn [app]. f_equal. apply IH. intro Hin. apply H. right. exact Hin.
Qed.
Lemma fold_dset_fresh l : forall acc, NoDup (keys l) -> (forall k, In k (keys l) -> ~ In k (keys acc)) ->
  fold_left (fun acc kv => dset (fst kv) (snd kv) acc) l acc = acc ++ l.
Proof.
  induction l as [|[k v] l IH]; intros acc Hnd Hd; [symmetry; apply app_nil_r|]. cbn [fold_left fst snd keys map] in *.
  inversion Hnd as [|? ? Hk Hl]; subst. rewrite dset_fresh by (apply Hd; left; reflexivity). rewrite IH; [rewrite <- app_assoc; reflexivity|exact Hl|].
  intros k' Hk' Hin. unfold keys in Hin. rewrite map_app in Hin. apply in_app_or in Hin as [Hin|[<-|[]]]; [apply (Hd k'); [right; exact Hk'|exact Hin]|contradiction].
Qed.
Lemma dset_app_fresh k v a l : ~ In k (keys a) -> dset k v (a ++ l) = a ++ dset k v l.
Proof.
  induction a as [|[x w] a IH]; intro H; [reflexivity|]. cbn [app dset]. destruct (seqb_spec x k); [exfalso; apply H; left; assumption|].
  f_equal. apply IH. intro Hin. apply H. right. exact Hin.
Qed.
Theorem root_attrs_placed s attribute fn fb dl :
  NoDup (keys s) -> NoDup (keys attribute) -> (forall k, In k reserved_root_attrs -> ~ In k (keys attribute)) ->
  root_attrs (json_root s fn fb dl) attribute = doc_root_attrs s attribute fb.
Proof.
  intros H Ha Hr. unfold root_attrs, doc_root_attrs. rewrite fold_dset_fresh by (exact Ha || intros ? _ []). cbn [app].
  rewrite id_placed by exact H.
  assert (R : forall k, In k reserved_root_attrs -> forall v l, dset k v (attribute ++ l) = attribute ++ dset k v l).
  { intros k Hk v l. apply dset_app_fresh. apply Hr. exact Hk. }
  rewrite <- (app_nil_r attribute) at 1. rewrite (R s_id) by (left; reflexivity). cbn [dset].
  unfold INSTANCE_GUARDED_ATTRS. cbn [fold_left fst snd]. rewrite !(field_plain s fn fb dl) by (exact H || reflexivity).
  change [105;110;115;116;97;110;99;101;95;120;109;108;110;115]%N with d_instance_xmlns.
  change [118;101;114;115;105;111;110]%N with d_version. change [112;114;101;102;105;120]%N with d_prefix.
  change [100;101;108;105;109;105;116;101;114]%N with d_delimiter.
  destruct (present d_instance_xmlns s); destruct (present d_version s); destruct (present d_prefix s); destruct (present d_delimiter s);
    cbn [opt_attr app];
    repeat (first [ rewrite (R d_xmlns) by (cbn; tauto) | rewrite (R d_version) by (cbn; tauto)
                  | rewrite (R d_odkprefix) by (cbn; tauto) | rewrite (R d_odkdelimiter) by (cbn; tauto) ]; cbn [dset seqb ceq N.eqb Pos.eqb andb]);
    reflexivity.
Qed.
(* whatever the attribute:: columns are called, id carries the form id *)
Lemma dget_fold_dset_keep k v : forall l acc, dget k acc = Some v -> (forall kv, In kv l -> fst kv <> k) ->
  dget k (fold_left (fun acc kv => dset (fst kv) (snd kv) acc) l acc) = Some v.
Proof.
  induction l as [|[a w] l IH]; intros acc H Hd; [exact H|]. cbn [fold_left fst snd]. apply IH.
  - rewrite dget_dset_other; [exact H|]. intro E. apply (Hd (a, w)); [left; reflexivity|]. cbn. congruence.
  - intros kv Hin. apply Hd. right. exact Hin.
Qed.
Theorem root_id_never_overridden s attribute fn fb dl : NoDup (keys s) ->
  dget d_id (root_attrs (json_root s fn fb dl) attribute) = Some (doc_id s fb).
Proof.
  intro H. unfold root_attrs. rewrite <- (id_placed s fn fb dl H).
  set (root := json_root s fn fb dl). unfold INSTANCE_GUARDED_ATTRS. cbn [fold_left fst snd].
  repeat match goal with |- context [field root ?f] => destruct (field root f) end;
    repeat (rewrite dget_dset_other by discriminate); apply dget_dset_same.
Qed.

(* namespaces *)
Lemma ns_decls_inv ns : NoDup (keys (ns_decls ns)) /\ forall k, In k (keys (ns_decls ns)) -> has_key k NSMAP = false.
Proof.
  unfold ns_decls.
  assert (G : forall toks acc, NoDup (keys acc) -> (forall k, In k (keys acc) -> has_key k NSMAP = false) ->
              NoDup (keys (fold_left ns_step toks acc)) /\ forall k, In k (keys (fold_left ns_step toks acc)) -> has_key k NSMAP = false).
  { induction toks as [|t toks IH]; intros acc H1 H2; [split; assumption|]. cbn [fold_left]. apply IH.
    - unfold ns_step. destruct (ns_entry t) as [[k v]|]; [|exact H1].
      destruct (has_key _ NSMAP); [exact H1|]. apply NoDup_dset. exact H1.
    - unfold ns_step. destruct (ns_entry t) as [[k v]|]; [|exact H2].
      destruct (has_key (s_xmlns_colon ++ k) NSMAP) eqn:E; [exact H2|]. cbn [negb]. intros k' Hk'.
      rewrite keys_dset in Hk'. destruct (mem (s_xmlns_colon ++ k) (keys acc)); [apply H2; exact Hk'|].
      apply in_app_or in Hk' as [Hk'|[<-|[]]]; [apply H2; exact Hk'|exact E]. }
  apply G; [constructor|intros ? []].
Qed.
Fixpoint nodupb (l : list str) : bool := match l with [] => true | x :: r => negb (mem x r) && nodupb r end.
Lemma nodupb_NoDup l : nodupb l = true -> NoDup l.
Proof.
  induction l as [|x r IH]; intro H; [constructor|]. cbn [nodupb] in H. apply andb_true_iff in H as [H1 H2]. constructor; [|apply IH; exact H2].
  intro Hin. apply negb_true_iff in H1. unfold mem in H1. assert (existsb (seqb x) r = true) by (apply existsb_exists; exists x; split; [exact Hin|apply seqb_refl]). congruence.
Qed.
Lemma NSMAP_keys_nodup : NoDup (keys NSMAP).
Proof. apply nodupb_NoDup. vm_compute. reflexivity. Qed.
Lemma has_key_in k d : In k (keys d) -> has_key k d = true.
Proof.
  unfold has_key. induction d as [|[a w] r IH]; intro H; [destruct H|]. cbn [dget]. destruct (seqb_spec a k); [reflexivity|].
  apply IH. destruct H as [H|H]; [cbn in H; congruence|exact H].
Qed.
(* the namespace declarations on the root element never clash: every attribute name is unique and the standard prefixes keep their URIs *)
Theorem nsmap_keys_unique root : NoDup (keys (nsmap_of root)).
Proof.
  unfold nsmap_of. destruct (field root s_namespaces) as [ns|]; [|exact NSMAP_keys_nodup].
  destruct (ns_decls_inv ns) as [H1 H2]. unfold keys. rewrite map_app. apply NoDup_app_intro; [exact NSMAP_keys_nodup|exact H1|].
  intros k Hk Hk'. specialize (H2 k Hk'). rewrite (has_key_in k NSMAP Hk) in H2. discriminate.
Qed.
Theorem nsmap_standard_kept root k : In k (keys NSMAP) -> dget k (nsmap_of root) = dget k NSMAP.
Proof.
  intro Hk. unfold nsmap_of. destruct (field root s_namespaces) as [ns|]; [|reflexivity].
  induction NSMAP as [|[a w] r IH]; [destruct Hk|]. cbn [app dget]. destruct (seqb_spec a k); [reflexivity|].
  apply IH. destruct Hk as [Hk|Hk]; [cbn in Hk; congruence|exact Hk].
Qed.

(* meta children *)
Theorem meta_placed s :
  meta_children s =
    let omit := match dget d_omit s with Some v => yes v | None => false end in
    if omit && is_some (present d_public_key s) then None
    else Some ((if omit then [] else [(s_instanceID, [(s_readonly, s_truefn); (s_preload, getd s_instance_id s s_uid)])]) ++
               match dget d_instance_name s with Some v => [(s_instanceName, [(s_calculate, v)])] | None => [] end).
Proof.
  unfold meta_children. change d_omit with s_omit. change d_instance_name with s_instance_name. change (present d_public_key s) with (field s s_public_key).
  destruct (dget s_omit s) as [v|]; [destruct (yes v)|]; cbn [andb]; try destruct (is_some (field s s_public_key)); reflexivity.
Qed.

(* no leak: each place depends on its own settings only *)
Theorem no_leak s s' fn fb dl : NoDup (keys s) -> NoDup (keys s') ->
  (dget d_title s = dget d_title s' -> dget d_id_string s = dget d_id_string s' ->
     title_of (json_root s fn fb dl) = title_of (json_root s' fn fb dl)) /\
  (dget d_id_string s = dget d_id_string s' ->
     getd K_ID_STRING (json_root s fn fb dl) [] = getd K_ID_STRING (json_root s' fn fb dl) []) /\
  (dget d_name s = dget d_name s' -> root_name_of (json_root s fn fb dl) = root_name_of (json_root s' fn fb dl)) /\
  (dget d_style s = dget d_style s' -> body_class (json_root s fn fb dl) = body_class (json_root s' fn fb dl)) /\
  (dget d_submission_url s = dget d_submission_url s' -> dget d_public_key s = dget d_public_key s' ->
   dget d_auto_send s = dget d_auto_send s' -> dget d_auto_delete s = dget d_auto_delete s' ->
     submission_of (json_root s fn fb dl) = submission_of (json_root s' fn fb dl)).
Proof.
  intros H H'. repeat split.
  - intros E1 E2. rewrite !title_placed by assumption. unfold doc_title, doc_id. rewrite E1, E2. reflexivity.
  - intros E. rewrite !id_placed by assumption. unfold doc_id. rewrite E. reflexivity.
  - intros E. rewrite !root_name_placed by assumption. unfold doc_root_name. rewrite E. reflexivity.
  - intros E. rewrite !body_class_placed by assumption. unfold doc_body_class, present. rewrite E. reflexivity.
  - intros E1 E2 E3 E4. rewrite !submission_placed by assumption. unfold doc_submission, present. rewrite E1, E2, E3, E4. reflexivity.
Qed.

Definition nv_settings : dict := [(d_title, [84]%N); (d_version, [55]%N); (d_submission_url, [104]%N); (d_style, [112]%N)].
Definition nonvacuous_witness : Prop :=
  NoDup (keys nv_settings) /\
  title_of (json_root nv_settings None (Some [102]%N) None) = [84]%N /\
  getd K_ID_STRING (json_root nv_settings None (Some [102]%N) None) [] = [102]%N /\
  root_attrs (json_root nv_settings None None None) [([97]%N, [98]%N)] = [([97]%N, [98]%N); (d_id, d_data); (d_version, [55]%N)] /\
  submission_of (json_root nv_settings None None None) = Some [(d_action, [104]%N); (d_method, d_post)].
Lemma nonvacuous_proof : nonvacuous_witness.
Proof. split; [apply nodupb_NoDup; vm_compute; reflexivity|]. repeat split; vm_compute; reflexivity. Qed.
