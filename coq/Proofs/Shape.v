(* Proofs/Shape.v — user text cannot add, remove or rename an element or attribute; text channels are exact. *)
Require Import PX.Base.Str PX.Model.Dom PX.Spec.XmlParse PX.Spec.WsEquiv PX.Spec.Shape PX.Spec.Skeleton
  PX.Proofs.Esc PX.Proofs.RT PX.Proofs.Ws PX.Proofs.Top.

Lemma xshape_El t a k : xshape (El t a k) = Sh t (map fst a) (map xshape (filter is_el k)).
Proof.
  cbn [xshape]. f_equal. induction k as [|c k IH]; [reflexivity|].
  cbn [flat_map filter]. destruct c as [t' a' k'|s]; cbn [is_el]; [cbn [app map]; f_equal; exact IH|exact IH].
Qed.
Lemma dshape_DE t a k : dshape (DE t a k) = Sh t (map fst a) (map dshape (filter is_elem k)).
Proof.
  cbn [dshape]. f_equal. induction k as [|c k IH]; [reflexivity|].
  cbn [flat_map filter]. destruct c as [t' a' k'|t' a'|d|d]; cbn [is_elem is_text negb]; try (cbn [app map]; f_equal; exact IH); exact IH.
Qed.

Theorem shape_canon : forall n ind add nl, is_elem n = true -> xshape (canon_el ind add nl n) = dshape n.
Proof.
  fix IHn 1. intros n ind add nl He.
  destruct n as [t a kids|t a|d|d]; try discriminate.
  - rewrite dshape_DE. cbn [canon_el]. rewrite xshape_El.
    pose proof (elkids_canon ind add nl t a kids) as Hk. cbn [canon_el elkids] in Hk. rewrite Hk.
    destruct (kid_mode ind add nl kids) as [[i a'] l]. f_equal. rewrite map_map.
    generalize kids as ks. induction ks as [|k ks IHk]; [reflexivity|].
    cbn [filter]. destruct (is_elem k) eqn:Ek; [|exact IHk]. cbn [map]. f_equal; [apply IHn; exact Ek|exact IHk].
  - reflexivity.
Qed.

(* text node channel: an element whose only child is a text node *)
Lemma canon_single_text ind add nl t a s :
  canon_el ind add nl (DE t a [PT s]) = El t a (match s with [] => [] | _ => [Tx s] end).
Proof. cbn [canon_el kids_canon existsb is_text orb length Nat.ltb Nat.leb andb app flat_map items mergeA]. rewrite app_nil_r. destruct s; reflexivity. Qed.
(* attribute channel *)
Lemma canon_attrs ind add nl t a k : attrs_of (canon_el ind add nl (DE t a k)) = a.
Proof. reflexivity. Qed.
