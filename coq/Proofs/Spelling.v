(* Proofs/Spelling.v — documented spellings and layout noise are interchangeable (C13): header normalisation,
   blank rows, alias tables *)
Require Import PX.Base.Str PX.Base.PyStr PX.Model.Warnings PX.Model.Headers PX.Spec.Nest PX.Model.Rows.
From Coq Require Import Lia ZifyBool.

(* ---- case ---- *)
Lemma lower_not_space c : py_space (lower_ascii_c c) = py_space c.
Proof. unfold lower_ascii_c, py_space. destruct ((65 <=? c)%N && (c <=? 90)%N) eqn:E; [|reflexivity]. lia. Qed.
Lemma lower_rev s : lower_ascii (rev s) = rev (lower_ascii s).
Proof. unfold lower_ascii. apply map_rev. Qed.
Lemma split_ws_lower : forall s cur,
  map lower_ascii (py_split_ws_aux cur s) = py_split_ws_aux (lower_ascii cur) (lower_ascii s).
Proof.
  induction s as [|c r IH]; intro cur; cbn [py_split_ws_aux lower_ascii map].
  - destruct cur as [|x cur]; [reflexivity|]. cbn [map]. change (map lower_ascii_c (x :: cur)) with (lower_ascii (x :: cur)).
    rewrite <- lower_rev. reflexivity.
  - rewrite lower_not_space. destruct (py_space c).
    + rewrite map_app, (IH []). destruct cur as [|x cur]; [reflexivity|]. cbn [map app].
      change (map lower_ascii_c (x :: cur)) with (lower_ascii (x :: cur)). rewrite <- lower_rev. reflexivity.
    + apply (IH (c :: cur)).
Qed.
Lemma lower_join sep l : lower_ascii (join sep l) = join (lower_ascii sep) (map lower_ascii l).
Proof.
  induction l as [|x l IH]; [reflexivity|]. destruct l as [|y l]; [reflexivity|].
  change (join sep (x :: y :: l)) with (x ++ sep ++ join sep (y :: l)). unfold lower_ascii at 1. rewrite !map_app.
  change (map lower_ascii_c (join sep (y :: l))) with (lower_ascii (join sep (y :: l))). rewrite IH. reflexivity.
Qed.
Theorem snake_case_ignores_case a b : lower_ascii a = lower_ascii b -> to_snake_case a = to_snake_case b.
Proof.
  intro H. unfold to_snake_case, py_split_ws. rewrite !lower_join, !(split_ws_lower _ []). cbn [lower_ascii map]. rewrite H. reflexivity.
Qed.

(* ---- white space ---- *)
Definition emit (cur : str) : list str := match cur with [] => [] | _ => [rev cur] end.
Lemma aux_space cur c r : py_space c = true -> py_split_ws_aux cur (c :: r) = emit cur ++ py_split_ws_aux [] r.
Proof. intro H. cbn [py_split_ws_aux]. rewrite H. reflexivity. Qed.
Lemma aux_double_space : forall a cur c c' r, py_space c = true -> py_space c' = true ->
  py_split_ws_aux cur (a ++ c :: c' :: r) = py_split_ws_aux cur (a ++ c :: r).
Proof.
  induction a as [|x a IH]; intros cur c c' r Hc Hc'; cbn [app].
  - rewrite !(aux_space cur c) by exact Hc. rewrite (aux_space [] c') by exact Hc'. reflexivity.
  - cbn [py_split_ws_aux]. destruct (py_space x); [f_equal|]; apply IH; assumption.
Qed.
Lemma aux_trailing_space : forall a cur c, py_space c = true -> py_split_ws_aux cur (a ++ [c]) = py_split_ws_aux cur a.
Proof.
  induction a as [|x a IH]; intros cur c Hc; cbn [app].
  - rewrite aux_space by exact Hc. cbn [py_split_ws_aux]. rewrite app_nil_r. reflexivity.
  - cbn [py_split_ws_aux]. destruct (py_space x); [f_equal|]; apply IH; assumption.
Qed.
Theorem snake_case_ignores_extra_space :
  (forall a c c' r, py_space c = true -> py_space c' = true -> to_snake_case (a ++ c :: c' :: r) = to_snake_case (a ++ c :: r)) /\
  (forall a c, py_space c = true -> to_snake_case (c :: a) = to_snake_case a) /\
  (forall a c, py_space c = true -> to_snake_case (a ++ [c]) = to_snake_case a).
Proof.
  unfold to_snake_case, py_split_ws. split; [|split].
  - intros. rewrite aux_double_space by assumption. reflexivity.
  - intros a c H. rewrite aux_space by exact H. reflexivity.
  - intros a c H. rewrite aux_trailing_space by exact H. reflexivity.
Qed.
(* a space between words is the same as an underscore: list name / list_name *)
Lemma aux_cons cur c r : py_split_ws_aux cur (c :: r) = if py_space c then emit cur ++ py_split_ws_aux [] r else py_split_ws_aux (c :: cur) r.
Proof. reflexivity. Qed.
Definition nospace (w : str) : bool := forallb (fun c => negb (py_space c)) w.
Lemma aux_word_end : forall w x cur, nospace (x :: w) = true -> py_split_ws_aux cur (x :: w) = [rev (rev (x :: w) ++ cur)].
Proof.
  induction w as [|y w IH]; intros x cur H; cbn [nospace forallb] in H; apply andb_true_iff in H as [Hx Hw]; apply negb_true_iff in Hx.
  - rewrite aux_cons, Hx. reflexivity.
  - rewrite aux_cons, Hx. rewrite (IH y (x :: cur)) by exact Hw. cbn [rev]. rewrite <- !app_assoc. reflexivity.
Qed.
Lemma aux_word : forall w x cur c r, nospace (x :: w) = true -> py_space c = true ->
  py_split_ws_aux cur ((x :: w) ++ c :: r) = rev (rev (x :: w) ++ cur) :: py_split_ws_aux [] r.
Proof.
  induction w as [|y w IH]; intros x cur c r H Hc; cbn [nospace forallb] in H; apply andb_true_iff in H as [Hx Hw]; apply negb_true_iff in Hx.
  - cbn [app]. rewrite aux_cons, Hx, aux_cons, Hc. reflexivity.
  - cbn [app]. rewrite aux_cons, Hx. change (y :: w ++ c :: r) with ((y :: w) ++ c :: r). rewrite (IH y (x :: cur)) by assumption.
    cbn [rev]. rewrite <- !app_assoc. reflexivity.
Qed.
Definition is_word (w : str) : bool := match w with [] => false | _ => nospace w end.
Lemma split_join_words sp ws : py_space sp = true -> forallb is_word ws = true -> py_split_ws (join [sp] ws) = ws.
Proof.
  intros Hsp. unfold py_split_ws. induction ws as [|w ws IH]; intro H; [reflexivity|].
  cbn [forallb] in H. apply andb_true_iff in H as [Hw Hws]. destruct w as [|x w]; [discriminate|]. cbn [is_word] in Hw.
  destruct ws as [|w' ws].
  - cbn [join]. rewrite aux_word_end by exact Hw. rewrite app_nil_r, rev_involutive. reflexivity.
  - change (join [sp] ((x :: w) :: w' :: ws)) with ((x :: w) ++ sp :: join [sp] (w' :: ws)).
    rewrite aux_word by assumption. rewrite app_nil_r, rev_involutive. f_equal. apply IH. exact Hws.
Qed.
Lemma nospace_join sep ws : nospace sep = true -> forallb is_word ws = true -> nospace (join sep ws) = true.
Proof.
  intros Hs. induction ws as [|w ws IH]; intro H; [reflexivity|]. cbn [forallb] in H. apply andb_true_iff in H as [Hw Hws].
  assert (Hn : nospace w = true) by (destruct w; [discriminate|exact Hw]).
  destruct ws as [|w' ws]; [exact Hn|]. change (join sep (w :: w' :: ws)) with (w ++ sep ++ join sep (w' :: ws)).
  unfold nospace in *. rewrite !forallb_app, Hn, Hs. apply IH. exact Hws.
Qed.
(* list name = list_name = List  Name *)
Theorem snake_case_space_is_underscore sp ws : py_space sp = true -> ws <> [] -> forallb is_word ws = true ->
  to_snake_case (join [sp] ws) = lower_ascii (join [95%N] ws) /\ to_snake_case (join [95%N] ws) = lower_ascii (join [95%N] ws).
Proof.
  intros Hsp Hne Hws. unfold to_snake_case. split.
  - rewrite split_join_words by assumption. reflexivity.
  - assert (Hj : is_word (join [95%N] ws) = true).
    { pose proof (nospace_join [95%N] ws eq_refl Hws) as Hn. destruct (join [95%N] ws) eqn:E; [|exact Hn].
      exfalso. destruct ws as [|[|x w] ws]; [congruence|discriminate|]. destruct ws; discriminate. }
    assert (E : py_split_ws (join [32%N] [join [95%N] ws]) = [join [95%N] ws]).
    { apply split_join_words; [reflexivity|]. cbn [forallb]. rewrite Hj. reflexivity. }
    cbn [join] in E. rewrite E. reflexivity.
Qed.

(* ---- strip does not matter to snake case ---- *)
Lemma snake_lstrip s : to_snake_case (lstrip s) = to_snake_case s.
Proof.
  induction s as [|c r IH]; [reflexivity|]. cbn [lstrip]. destruct (py_space c) eqn:E; [|reflexivity].
  rewrite IH. symmetry. apply (proj1 (proj2 snake_case_ignores_extra_space)). exact E.
Qed.
Lemma snake_rstrip_rev : forall r, to_snake_case (rev (lstrip r)) = to_snake_case (rev r).
Proof.
  induction r as [|c r IH]; [reflexivity|]. cbn [lstrip]. destruct (py_space c) eqn:E; [|reflexivity].
  rewrite IH. cbn [rev]. symmetry. apply (proj2 (proj2 snake_case_ignores_extra_space)). exact E.
Qed.
Theorem snake_strip s : to_snake_case (py_strip s) = to_snake_case s.
Proof. unfold py_strip. rewrite snake_rstrip_rev, rev_involutive. apply snake_lstrip. Qed.

(* ---- str.split(sep) when sep does not occur ---- *)
Lemma split_no_sep sep : forall s fuel cur, length s < fuel -> contains sep s = false -> split_str fuel sep cur s = [rev cur ++ s].
Proof.
  induction s as [|c r IH]; intros fuel cur Hf Hc; destruct fuel as [|f]; try (simpl in Hf; lia).
  - cbn [split_str]. rewrite app_nil_r. reflexivity.
  - cbn [split_str]. cbn [contains] in Hc. apply orb_false_iff in Hc as [Hs Hr]. unfold starts_with in Hs.
    destruct (prefix sep (c :: r)); [discriminate|]. rewrite IH; [|simpl in Hf; lia|exact Hr]. cbn [rev]. rewrite <- app_assoc. reflexivity.
Qed.
Lemma py_split_no_sep sep s : contains sep s = false -> py_split sep s = [s].
Proof. intro H. unfold py_split. rewrite split_no_sep; [reflexivity|lia|exact H]. Qed.

Section PH.
Variable aliases : list (str * list str).
Variable columns : list str.
(* any spelling of a known, un-aliased column — any case, any white space — is read as that column *)
Theorem known_column_any_spelling dc h :
  (mem h columns = true -> to_snake_case h = h) ->
  mem (to_snake_case h) columns = true -> is_alias aliases (to_snake_case h) = false ->
  process_header aliases columns dc h = Some [to_snake_case h].
Proof.
  intros columns_fixed Hm Ha. unfold process_header. destruct (mem h columns && negb (is_alias aliases h)) eqn:E.
  - apply andb_true_iff in E as [E _]. rewrite (columns_fixed E). reflexivity.
  - rewrite Hm, Ha. reflexivity.
Qed.
(* any spelling of a plain (delimiter-free) alias header is de-aliased to the alias's canonical tokens *)
Theorem alias_any_spelling dc h d0 d :
  (mem h columns = true -> to_snake_case h = h) ->
  contains [58%N] h = false -> alias_get (to_snake_case h) aliases = Some (d0 :: d) ->
  process_header aliases columns dc h = Some (d0 :: d).
Proof.
  intros columns_fixed Hc Ha. unfold process_header.
  assert (Hal : is_alias aliases (to_snake_case h) = true) by (unfold is_alias; rewrite Ha; reflexivity).
  assert (E1 : mem h columns && negb (is_alias aliases h) = false).
  { destruct (mem h columns) eqn:E; [|reflexivity]. rewrite <- (columns_fixed eq_refl), Hal. reflexivity. }
  rewrite E1, Hal, Bool.andb_false_r.
  assert (Hc2 : contains COLON2 h = false).
  { clear -Hc. induction h as [|c r IH]; [reflexivity|]. cbn [contains] in *. apply orb_false_iff in Hc as [Hs Hr].
    apply orb_false_iff. split; [|apply IH; exact Hr]. unfold starts_with, COLON2 in *. cbn [prefix] in *. destruct (ceq 58%N c); [discriminate|reflexivity]. }
  rewrite Hc2, Bool.orb_false_r. destruct dc.
  - rewrite (py_split_no_sep COLON2 h Hc2). cbn [map]. rewrite snake_strip, Ha, app_nil_r. reflexivity.
  - rewrite (py_split_no_sep [58%N] h Hc). cbn [map removelast index_of]. rewrite snake_strip, Ha, app_nil_r. reflexivity.
Qed.
End PH.

(* ---- blank rows only shift the row numbers, by exactly the number of rows inserted above ---- *)
Definition shift_err (from k : nat) (r : pres) : pres :=
  match r with
  | PErr (UnmatchedEnd e) => PErr (UnmatchedEnd (if Nat.leb from e then e + k else e))
  | _ => r
  end.
Lemma go_skips k : forall rows n cur stack, go (repeat RowSkip k ++ rows) n cur stack = go rows (n + k) cur stack.
Proof.
  induction k as [|k IH]; intros rows n cur stack; cbn [repeat app].
  - rewrite Nat.add_0_r. reflexivity.
  - cbn [go]. rewrite IH. f_equal. lia.
Qed.
Lemma go_err_ge : forall rows n cur stack e, go rows n cur stack = PErr (UnmatchedEnd e) -> n <= e.
Proof.
  induction rows as [|r rows IH]; intros n cur stack e H; cbn [go] in H.
  - destruct stack as [|[[? ?] ?] ?]; discriminate.
  - destruct r.
    + apply IH in H. lia.
    + apply IH in H. lia.
    + destruct stack as [|[[k' nm] pc] st]; [inversion H; lia|]. destruct (ckind_eqb k' k); [apply IH in H; lia|inversion H; lia].
    + apply IH in H. lia.
Qed.
Lemma go_renumber k : forall rows n cur stack, go rows (n + k) cur stack = shift_err n k (go rows n cur stack).
Proof.
  induction rows as [|r rows IH]; intros n cur stack.
  - cbn [go]. destruct stack as [|[[? ?] ?] ?]; reflexivity.
  - assert (Hs : forall c s, go rows (S (n + k)) c s = shift_err n k (go rows (S n) c s)).
    { intros c s. change (S (n + k)) with (S n + k). rewrite IH. destruct (go rows (S n) c s) as [ts|[e|? ?]] eqn:E; try reflexivity.
      apply go_err_ge in E. cbn [shift_err]. destruct (Nat.leb_spec (S n) e), (Nat.leb_spec n e); try reflexivity; lia. }
    destruct r; cbn [go]; try apply Hs.
    destruct stack as [|[[k' nm] pc] st].
    + cbn [shift_err]. rewrite Nat.leb_refl. reflexivity.
    + destruct (ckind_eqb k' k0); [apply Hs|]. cbn [shift_err]. rewrite Nat.leb_refl. reflexivity.
Qed.
Theorem blank_rows_shift k : forall a b n cur stack,
  go (a ++ repeat RowSkip k ++ b) n cur stack = shift_err (n + length a) k (go (a ++ b) n cur stack).
Proof.
  induction a as [|r a IH]; intros b n cur stack; cbn [app length].
  - rewrite go_skips, Nat.add_0_r. apply go_renumber.
  - assert (Hs : forall c s, go (a ++ repeat RowSkip k ++ b) (S n) c s = shift_err (n + S (length a)) k (go (a ++ b) (S n) c s)).
    { intros c s. rewrite IH. f_equal. lia. }
    destruct r; cbn [go]; try apply Hs.
    destruct stack as [|[[k' nm] pc] st].
    + cbn [shift_err]. destruct (Nat.leb_spec (n + S (length a)) n); [lia|reflexivity].
    + destruct (ckind_eqb k' k0); [apply Hs|]. cbn [shift_err]. destruct (Nat.leb_spec (n + S (length a)) n); [lia|reflexivity].
Qed.

(* ---- the alias tables of the source against the documented groups (finite: every member of every group) ---- *)
Require Import PX.Gen.Headers PX.Gen.Types PX.Spec.DocsAliases PX.Proofs.Types.
Definition olist_eqb (a b : option (list str)) : bool :=
  match a, b with
  | Some x, Some y => (length x =? length y)%nat && forallb (fun p => seqb (fst p) (snd p)) (combine x y)
  | _, _ => false
  end.
Definition group_same (f : str -> option (list str)) (g : list str) : bool :=
  match g with [] => true | x :: r => forallb (fun y => olist_eqb (f x) (f y)) (x :: r) end.
Definition headers_same (aliases : list (str * list str)) (columns : list str) (dc : bool) (groups : list (list str)) : bool :=
  forallb (group_same (process_header aliases columns dc)) groups.
Fixpoint sget (k : str) (l : list (str * str)) : option str :=
  match l with [] => None | (a, v) :: r => if seqb a k then Some v else sget k r end.
Definition ostr_eqb (a b : option str) : bool := match a, b with Some x, Some y => seqb x y | _, _ => false end.
Definition words_same (table : list (str * str)) (groups : list (list str)) : bool :=
  forallb (fun g => match g with [] => true | x :: r => forallb (fun y => ostr_eqb (sget x table) (sget y table)) (x :: r) end) groups.
Lemma documented_spellings_agree :
  headers_same SURVEY_HEADER_ALIASES SURVEY_COLUMNS true doc_survey_headers = true /\
  headers_same SURVEY_HEADER_ALIASES SURVEY_COLUMNS false doc_survey_headers_single_colon = true /\
  (* a sheet written with single colons reads like the same sheet written with double colons *)
  forallb (fun p => olist_eqb (process_header SURVEY_HEADER_ALIASES SURVEY_COLUMNS false (fst p)) (process_header SURVEY_HEADER_ALIASES SURVEY_COLUMNS true (snd p)))
          [([108;97;98;101;108;58;101;110]%N, [108;97;98;101;108;58;58;101;110]%N); ([104;105;110;116;32;58;32;102;114]%N, [104;105;110;116;58;58;102;114]%N);
           ([105;109;97;103;101;58;101;110]%N, [109;101;100;105;97;58;58;105;109;97;103;101;58;58;101;110]%N)] = true /\
  headers_same LIST_HEADER_ALIASES OPTION_COLUMNS true doc_list_headers = true /\
  headers_same SETTINGS_HEADER_ALIASES SETTINGS_COLUMNS true doc_settings_headers = true /\
  words_same SELECT_ALIASES doc_select_commands = true /\ words_same CONTROL_ALIASES doc_control_words = true /\
  forallb (fun p => ostr_eqb (sget (fst p) TYPE_ALIAS_MAP) (Some (snd p))) doc_type_aliases = true /\
  forallb (fun p => match qtd_lookup (fst p) QTD, qtd_lookup (snd p) QTD with
                    | Some (_, a2, a3, a4, a5, a6), Some (_, b2, b3, b4, b5, b6) => seqb a2 b2 && seqb a3 b3 && seqb a4 b4 && seqb a5 b5 && seqb a6 b6
                    | _, _ => false end) doc_same_type_rows = true /\
  forallb (fun y => match sget y BINDING_CONVERSIONS with Some t => seqb t [116;114;117;101;40;41]%N | None => false end) doc_yes = true /\
  forallb (fun y => match sget y BINDING_CONVERSIONS with Some t => seqb t [102;97;108;115;101;40;41]%N | None => false end) doc_no = true /\
  forallb (fun c => seqb (to_snake_case c) c) SURVEY_COLUMNS = true /\ forallb (fun c => seqb (to_snake_case c) c) OPTION_COLUMNS = true /\
  (* the yes/no table read by the flag settings and the disabled column: the same spellings plus true() / false() *)
  forallb (fun y => match find (fun p => seqb (fst p) y) YES_NO with Some (_, b) => b | None => false end) ([116;114;117;101;40;41]%N :: doc_yes) = true /\
  forallb (fun y => match find (fun p => seqb (fst p) y) YES_NO with Some (_, b) => negb b | None => false end) ([102;97;108;115;101;40;41]%N :: doc_no) = true.
Proof. repeat split; vm_compute; reflexivity. Qed.
