(* Proofs/Top.v — namespace binding and skeleton are preserved by write-then-parse. *)
Require Import PX.Base.Str PX.Model.Dom PX.Model.Top PX.Spec.XmlParse PX.Spec.XmlName PX.Spec.WsEquiv
  PX.Spec.NsCheck PX.Spec.Skeleton PX.Proofs.Esc PX.Proofs.RT PX.Proofs.Ws PX.Proofs.Doc.

(* ---- DOM-level namespace check ---- *)
Fixpoint dom_ns_ok (scope : list str) (n : node) : bool :=
  match n with
  | PT _ | MT _ => true
  | ME t a => let scope' := declared a ++ scope in here_ns scope' t a
  | DE t a kids => let scope' := declared a ++ scope in here_ns scope' t a && forallb (dom_ns_ok scope') kids
  end.
Fixpoint dom_attrs_unique (n : node) : bool :=
  match n with
  | PT _ | MT _ => true
  | ME _ a => dup_free (map fst a)
  | DE _ a kids => dup_free (map fst a) && forallb dom_attrs_unique kids
  end.

Definition it_pred (P : xn -> bool) (i : item) : bool := match i with IEl x => P x | ITx _ => true end.
Lemma forallb_mergeA (P : xn -> bool) : (forall s, P (Tx s) = true) ->
  forall l acc, forallb (it_pred P) l = true -> forallb P (mergeA acc l) = true.
Proof.
  intros HT. induction l as [|[s|x] l IH]; intros acc H; simpl in *.
  - destruct acc; [reflexivity|]. simpl. rewrite HT. reflexivity.
  - apply IH. exact H.
  - apply andb_true_iff in H as [Hx H]. destruct acc; simpl; rewrite ?HT, Hx, IH by exact H; reflexivity.
Qed.

Section Pres.
(* a property of elements that depends only on tag, attributes and (recursively) children *)
Variable Pn : list str -> node -> bool.
Variable Px : list str -> xn -> bool.
Hypothesis Px_tx : forall sc s, Px sc (Tx s) = true.
Variable ext : list (str * str) -> list str -> list str.
Variable here : list str -> str -> list (str * str) -> bool.
Hypothesis Pn_DE : forall sc t a k, Pn sc (DE t a k) = here (ext a sc) t a && forallb (Pn (ext a sc)) k.
Hypothesis Pn_ME : forall sc t a, Pn sc (ME t a) = here (ext a sc) t a.
Hypothesis Pn_T : forall sc d, Pn sc (PT d) = true /\ Pn sc (MT d) = true.
Hypothesis Px_El : forall sc t a k, Px sc (El t a k) = here (ext a sc) t a && forallb (Px (ext a sc)) k.

Lemma pres_items : forall n sc ind add nl, Pn sc n = true ->
  forallb (it_pred (Px sc)) (items ind add nl n) = true.
Proof.
  fix IHn 1. intros n sc ind add nl H.
  destruct n as [t a kids|t a|d|d]; try reflexivity.
  - rewrite items_DE. cbn [forallb it_pred]. rewrite andb_true_r. cbn [canon_el].
    rewrite Pn_DE in H. apply andb_true_iff in H as [Hh Hk]. rewrite Px_El, Hh. cbn [andb].
    assert (Hall : forall i a' l, forallb (it_pred (Px (ext a sc))) (flat_map (items i a' l) kids) = true).
    { intros i a' l. revert Hk. generalize kids as ks. induction ks as [|k ks IHk]; intro Hks; [reflexivity|].
      simpl in Hks. apply andb_true_iff in Hks as [H1 H2]. cbn [flat_map]. rewrite forallb_app, IHn, IHk by assumption. reflexivity. }
    unfold kids_canon. destruct kids as [|k0 kids']; [reflexivity|].
    destruct (existsb is_text (k0 :: kids')).
    + apply forallb_mergeA; [apply Px_tx|]. rewrite !forallb_app, Hall.
      destruct ((1 <? length (k0 :: kids')) && is_text k0); destruct (1 <? length (k0 :: kids')); reflexivity.
    + apply forallb_mergeA; [apply Px_tx|]. rewrite !forallb_app, Hall. reflexivity.
  - cbn [items forallb it_pred]. rewrite Px_El, andb_true_r. rewrite Pn_ME in H. rewrite H. reflexivity.
Qed.

Lemma pres_canon n sc ind add nl : is_elem n = true -> Pn sc n = true -> Px sc (canon_el ind add nl n) = true.
Proof.
  intros He H. pose proof (pres_items n sc ind add nl H) as Hi.
  destruct n as [t a kids|t a|d|d]; try discriminate.
  - rewrite items_DE in Hi. cbn [forallb it_pred] in Hi. rewrite andb_true_r in Hi. exact Hi.
  - cbn [items forallb it_pred] in Hi. rewrite andb_true_r in Hi. exact Hi.
Qed.
End Pres.

Lemma ns_ok_canon n sc ind add nl : is_elem n = true -> dom_ns_ok sc n = true -> ns_ok sc (canon_el ind add nl n) = true.
Proof.
  intros He H.
  apply (pres_canon dom_ns_ok ns_ok) with (ext := fun a sc => declared a ++ sc)
           (here := here_ns); try assumption.
  all: intros; try split; reflexivity.
Qed.
Lemma attrs_unique_canon n ind add nl : is_elem n = true -> dom_attrs_unique n = true -> attrs_unique (canon_el ind add nl n) = true.
Proof.
  intros He H.
  assert (G : forall sc : list str, (fun _ : list str => attrs_unique) sc (canon_el ind add nl n) = true).
  { intro sc.
    apply (pres_canon (fun _ : list str => dom_attrs_unique) (fun _ : list str => attrs_unique)) with (ext := fun _ sc => sc)
           (here := fun _ _ a => dup_free (map fst a)); try assumption.
    all: intros; try split; reflexivity. }
  exact (G []).
Qed.

(* ---- element children of the canonical image ---- *)
Lemma els_app a b : els (a ++ b) = els a ++ els b.
Proof. induction a as [|[s|x] a IHa]; simpl; rewrite ?IHa; [reflexivity|reflexivity|destruct (is_el x); reflexivity]. Qed.
Lemma els_items ind add nl kids :
  els (flat_map (items ind add nl) kids) = map (canon_el ind add nl) (filter is_elem kids).
Proof.
  induction kids as [|k kids IH]; [reflexivity|].
  cbn [flat_map]. rewrite els_app, IH.
  destruct k as [t a ks|t a|d|d]; reflexivity.
Qed.
Definition kid_mode (ind add nl : str) (kids : list node) : str * str * str :=
  if existsb is_text kids then ([], [], []) else (ind ++ add, add, nl).
Lemma elkids_canon ind add nl t a kids :
  elkids (canon_el ind add nl (DE t a kids)) =
  let '(i, a', l) := kid_mode ind add nl kids in map (canon_el i a' l) (filter is_elem kids).
Proof.
  cbn [canon_el elkids]. unfold kids_canon, kid_mode. destruct kids as [|k0 kids']; [reflexivity|].
  destruct (existsb is_text (k0 :: kids')); rewrite filter_mergeA, !els_app, els_items.
  - destruct ((1 <? length (k0 :: kids')) && is_text k0); destruct (1 <? length (k0 :: kids')); simpl; rewrite ?app_nil_r; reflexivity.
  - simpl. rewrite app_nil_r. reflexivity.
Qed.
Lemma tag_canon ind add nl t a k : tag_of (canon_el ind add nl (DE t a k)) = t. Proof. reflexivity. Qed.
Lemma attrs_canon ind add nl t a k : attrs_of (canon_el ind add nl (DE t a k)) = a. Proof. reflexivity. Qed.

Definition is_inst (n : node) : bool := match n with DE t _ _ | ME t _ => seqb t t_instance | _ => false end.

Lemma first_instance ind add nl pre x rest :
  forallb is_elem pre = true -> forallb (fun n => negb (is_inst n)) pre = true -> is_inst x = true -> is_elem x = true ->
  first_with_tag s_instance (map (canon_el ind add nl) (filter is_elem (pre ++ x :: rest))) = Some (canon_el ind add nl x).
Proof.
  induction pre as [|p pre IH]; intros He Hn Hx Hxe.
  - cbn [app filter]. rewrite Hxe. cbn [map first_with_tag].
    destruct x as [t a k|t a|d|d]; try discriminate; cbn [canon_el tag_of]; cbn [is_inst] in Hx;
      change s_instance with t_instance; rewrite Hx; reflexivity.
  - simpl in He, Hn. apply andb_true_iff in He as [He1 He2]. apply andb_true_iff in Hn as [Hn1 Hn2].
    cbn [app filter]. rewrite He1. cbn [map first_with_tag].
    assert (Hp : seqb (tag_of (canon_el ind add nl p)) s_instance = false).
    { destruct p as [t a k|t a|d|d]; try discriminate; cbn [canon_el tag_of]; cbn [is_inst] in Hn1;
        apply negb_true_iff in Hn1; exact Hn1. }
    rewrite Hp. apply IH; assumption.
Qed.

(* the skeleton of the document Survey.xml() builds, in either print mode *)
Theorem top_skeleton ind add nl nsmap title mattrs pre root rest battrs bkids form_id :
  forallb is_elem pre = true -> forallb (fun n => negb (is_inst n)) pre = true ->
  forallb is_elem rest = true ->
  (exists t a k, root = DE t a k /\ lookup s_id a = Some form_id) ->
  skeleton (canon_el ind add nl (xml_top nsmap title mattrs pre root rest battrs bkids)) form_id.
Proof.
  intros Hpe Hpn Hre (rt & ra & rk & -> & Hid).
  unfold xml_top, skeleton. split; [reflexivity|].
  rewrite elkids_canon. cbn [kid_mode existsb is_text orb filter is_elem negb map].
  eexists _, _. split; [reflexivity|]. split; [reflexivity|]. split; [reflexivity|].
  rewrite elkids_canon. cbn [kid_mode existsb is_text orb filter is_elem negb map].
  eexists _, _. split; [reflexivity|]. split; [reflexivity|]. split; [reflexivity|].
  rewrite elkids_canon.
  assert (Hnt : existsb is_text (pre ++ [DE t_instance [] [DE rt ra rk]] ++ rest) = false).
  { rewrite !existsb_app. cbn [existsb is_text orb].
    assert (forall l, forallb is_elem l = true -> existsb is_text l = false) as Hel.
    { induction l as [|x l IHl]; simpl; intro H; [reflexivity|]. apply andb_true_iff in H as [H1 H2].
      unfold is_elem in H1. apply negb_true_iff in H1. rewrite H1, IHl by exact H2. reflexivity. }
    rewrite !Hel by assumption. reflexivity. }
  unfold kid_mode. rewrite Hnt.
  eexists _, _. split.
  - cbn [app]. apply first_instance; try assumption; reflexivity.
  - split; [reflexivity|]. rewrite elkids_canon. cbn [kid_mode existsb is_text orb filter is_elem negb map].
    split; [reflexivity|]. cbn [canon_el attrs_of]. exact Hid.
Qed.
