(* Proofs/Tree.v — model, instance and body agree (C02): closure and uniqueness, for every tree. *)
Require Import PX.Base.Str PX.Model.Warnings PX.Model.Tree PX.Proofs.Warn.

(* induction principle with the hypothesis for every child *)
Lemma elem_ind2 (P : elem -> Prop) :
  (forall n b c, P (Q n b c)) ->
  (forall n b bl kids, Forall P kids -> P (G n b bl kids)) ->
  (forall n b kids, Forall P kids -> P (R n b kids)) ->
  forall e, P e.
Proof.
  intros HQ HG HR. fix IH 1. intros [n b c|n b bl kids|n b kids].
  - apply HQ.
  - apply HG. induction kids as [|k ks IHk]; constructor; [apply IH|exact IHk].
  - apply HR. induction kids as [|k ks IHk]; constructor; [apply IH|exact IHk].
Qed.

(* ---- a generic selection of element paths, in document order ---- *)
Section Select.
Variable f : elem -> bool.
Fixpoint select (pre : path) (e : elem) : list path :=
  match e with
  | Q n _ _ => if f e then [pre ++ [n]] else []
  | G n _ _ kids => (if f e then [pre ++ [n]] else []) ++ flat_map (select (pre ++ [n])) kids
  | R n _ kids => (if f e then [pre ++ [n]] else []) ++ flat_map (select (pre ++ [n])) kids
  end.

Lemma select_prefix : forall e pre p, In p (select pre e) -> exists rest, p = pre ++ ename e :: rest.
Proof.
  induction e as [n b c|n b bl kids IHk|n b kids IHk] using elem_ind2; intros pre p H; cbn [select ename] in *.
  - destruct (f (Q n b c)); [|destruct H]. destruct H as [<-|[]]. exists []. reflexivity.
  - apply in_app_or in H as [H|H].
    + destruct (f (G n b bl kids)); [|destruct H]. destruct H as [<-|[]]. exists []. reflexivity.
    + apply in_flat_map in H as (k & Hk & Hp). rewrite Forall_forall in IHk.
      destruct (IHk k Hk _ _ Hp) as [rest ->]. exists (ename k :: rest). rewrite <- app_assoc. reflexivity.
  - apply in_app_or in H as [H|H].
    + destruct (f (R n b kids)); [|destruct H]. destruct H as [<-|[]]. exists []. reflexivity.
    + apply in_flat_map in H as (k & Hk & Hp). rewrite Forall_forall in IHk.
      destruct (IHk k Hk _ _ Hp) as [rest ->]. exists (ename k :: rest). rewrite <- app_assoc. reflexivity.
Qed.
End Select.

Lemma dup_free_ci_spec : forall l seen, dup_free_ci seen l = true ->
  NoDup l /\ forall x, In x l -> mem (lower_ascii x) seen = false.
Proof.
  induction l as [|x r IH]; intros seen H; simpl in *; [split; [constructor|intros ? []]|].
  apply andb_true_iff in H as [Hx Hr]. apply negb_true_iff in Hx.
  destruct (IH _ Hr) as [Hnd Hall]. split.
  - constructor; [|exact Hnd]. intro Hin. specialize (Hall x Hin). simpl in Hall. rewrite seqb_refl in Hall. discriminate.
  - intros y [<-|Hy]; [exact Hx|]. specialize (Hall y Hy). simpl in Hall. apply orb_false_iff in Hall as [_ H2]. exact H2.
Qed.

Lemma app_cons_inj {A} (q : list A) a b r1 r2 : q ++ a :: r1 = q ++ b :: r2 -> a = b.
Proof. intro H. apply app_inv_head in H. congruence. Qed.

Lemma path_longer {A} (q r : list A) a : q ++ a :: r <> q.
Proof. intro H. apply (f_equal (@length A)) in H. rewrite app_length in H. simpl in H. lia. Qed.

Lemma NoDup_app_intro {A} (l1 l2 : list A) : NoDup l1 -> NoDup l2 -> (forall x, In x l1 -> ~ In x l2) -> NoDup (l1 ++ l2).
Proof.
  induction l1 as [|a l1 IH]; intros H1 H2 Hd; [exact H2|].
  inversion H1; subst. simpl. constructor.
  - intro Hin. apply in_app_or in Hin as [Hin|Hin]; [contradiction|]. apply (Hd a); [left; reflexivity|exact Hin].
  - apply IH; [assumption|assumption|]. intros x Hx. apply Hd. right. exact Hx.
Qed.

Lemma kids_NoDup f (kids : list elem) q :
  Forall (fun k => forall pre, siblings_ok k = true -> NoDup (select f pre k)) kids ->
  NoDup (map ename kids) -> forallb siblings_ok kids = true -> NoDup (flat_map (select f q) kids).
Proof.
  induction kids as [|k ks IHk]; intros HF Hn Hs; [constructor|].
  inversion HF as [|? ? Hk0 HF']; subst.
  cbn [flat_map]. cbn [map] in Hn. inversion Hn as [|? ? Hnotin Hn']; subst.
  cbn [forallb] in Hs. apply andb_true_iff in Hs as [Hk Hks].
  apply NoDup_app_intro; [apply Hk0; exact Hk|apply IHk; assumption|].
  intros p Hp Hp'. destruct (select_prefix f k q p Hp) as [r1 E1].
  apply in_flat_map in Hp' as (k' & Hk' & Hp'). destruct (select_prefix f k' q p Hp') as [r2 E2].
  rewrite E1 in E2. apply app_cons_inj in E2. apply Hnotin. rewrite E2. apply in_map. exact Hk'.
Qed.

Lemma kids_not_top f kids (q : path) : ~ In q (flat_map (select f q) kids).
Proof.
  intro Hp. apply in_flat_map in Hp as (k & _ & Hp).
  destruct (select_prefix f k q _ Hp) as [r E]. symmetry in E. exact (path_longer _ _ _ E).
Qed.

Theorem select_NoDup f : forall e pre, siblings_ok e = true -> NoDup (select f pre e).
Proof.
  induction e as [n b c|n b bl kids IHk|n b kids IHk] using elem_ind2; intros pre Hok; cbn [select siblings_ok] in *.
  - destruct (f (Q n b c)); [constructor; [intros []|constructor]|constructor].
  - apply andb_true_iff in Hok as [Hd Hs]. destruct (dup_free_ci_spec _ _ Hd) as [Hn _].
    destruct (f (G n b bl kids)); cbn [app]; [constructor; [apply kids_not_top|]|]; apply kids_NoDup; assumption.
  - apply andb_true_iff in Hok as [Hd Hs]. destruct (dup_free_ci_spec _ _ Hd) as [Hn _].
    destruct (f (R n b kids)); cbn [app]; [constructor; [apply kids_not_top|]|]; apply kids_NoDup; assumption.
Qed.

(* ---- the projections are selections ---- *)
Definition has_bind (e : elem) : bool := match e with Q _ b _ | G _ b _ _ | R _ b _ => b end.
Definition is_qcontrol (e : elem) : bool := match e with Q _ _ c => c | _ => false end.

Lemma flat_map_ext_in {A B} (g h : A -> list B) l : Forall (fun x => g x = h x) l -> flat_map g l = flat_map h l.
Proof. induction 1; simpl; congruence. Qed.

Lemma all_paths_select : forall e pre, all_paths pre e = select (fun _ => true) pre e.
Proof.
  induction e as [n b c|n b bl kids IHk|n b kids IHk] using elem_ind2; intro pre; cbn [all_paths select app].
  - reflexivity.
  - apply f_equal. apply flat_map_ext_in. eapply Forall_impl; [|exact IHk]. intros k Hk. apply Hk.
  - apply f_equal. apply flat_map_ext_in. eapply Forall_impl; [|exact IHk]. intros k Hk. apply Hk.
Qed.
Lemma bind_nodesets_select : forall e pre, bind_nodesets pre e = select has_bind pre e.
Proof.
  induction e as [n b c|n b bl kids IHk|n b kids IHk] using elem_ind2; intro pre; cbn [bind_nodesets select has_bind].
  - reflexivity.
  - apply f_equal. apply flat_map_ext_in. eapply Forall_impl; [|exact IHk]. intros k Hk. apply Hk.
  - apply f_equal. apply flat_map_ext_in. eapply Forall_impl; [|exact IHk]. intros k Hk. apply Hk.
Qed.

Lemma select_incl f : forall e pre, incl (select f pre e) (all_paths pre e).
Proof.
  induction e as [n b c|n b bl kids IHk|n b kids IHk] using elem_ind2; intros pre p H; cbn [select all_paths] in *.
  - destruct (f (Q n b c)); [exact H|destruct H].
  - apply in_app_or in H as [H|H].
    + destruct (f (G n b bl kids)); [|destruct H]. destruct H as [<-|[]]. left. reflexivity.
    + right. apply in_flat_map in H as (k & Hk & Hp). apply in_flat_map. exists k. split; [exact Hk|].
      rewrite Forall_forall in IHk. apply (IHk k Hk). exact Hp.
  - apply in_app_or in H as [H|H].
    + destruct (f (R n b kids)); [|destruct H]. destruct H as [<-|[]]. left. reflexivity.
    + right. apply in_flat_map in H as (k & Hk & Hp). apply in_flat_map. exists k. split; [exact Hk|].
      rewrite Forall_forall in IHk. apply (IHk k Hk). exact Hp.
Qed.

Lemma control_refs_incl : forall e pre, incl (control_refs pre e) (all_paths pre e).
Proof.
  induction e as [n b c|n b bl kids IHk|n b kids IHk] using elem_ind2; intros pre p H; cbn [control_refs all_paths] in *.
  - destruct c; [exact H|destruct H].
  - destruct bl; [destruct H|]. destruct H as [<-|H]; [left; reflexivity|]. right.
    apply in_flat_map in H as (k & Hk & Hp). apply in_flat_map. exists k. split; [exact Hk|].
    rewrite Forall_forall in IHk. apply (IHk k Hk). exact Hp.
  - destruct H as [<-|[<-|H]]; [left; reflexivity|left; reflexivity|]. right.
    apply in_flat_map in H as (k & Hk & Hp). apply in_flat_map. exists k. split; [exact Hk|].
    rewrite Forall_forall in IHk. apply (IHk k Hk). exact Hp.
Qed.

(* ---- the instance: its live (non-template) part is exactly one node per element, in document order ---- *)
Fixpoint ipaths_live (pre : path) (t : itree) : list path :=
  match t with
  | INode n tm kids => if tm then [] else (pre ++ [n]) :: flat_map (ipaths_live (pre ++ [n])) kids
  end.

Definition step_inst (at_ : bool) (k : elem) : list itree :=
  match k with
  | R _ _ _ => if at_ then [inst true k] else [tmpl k; inst true k]
  | _ => [inst at_ k]
  end.
Lemma inst_G at_ n b bl kids : inst at_ (G n b bl kids) = INode n false (flat_map (step_inst at_) kids).
Proof. reflexivity. Qed.
Lemma inst_R at_ n b kids : inst at_ (R n b kids) = INode n false (flat_map (step_inst at_) kids).
Proof. reflexivity. Qed.
Lemma tmpl_is_template e : exists n kids, tmpl e = INode n true kids.
Proof. destruct e; eexists _, _; reflexivity. Qed.

Lemma live_kids q at_ kids :
  Forall (fun k => forall a pre, ipaths_live pre (inst a k) = all_paths pre k) kids ->
  flat_map (ipaths_live q) (flat_map (step_inst at_) kids) = flat_map (all_paths q) kids.
Proof.
  induction 1 as [|k ks Hk HF IH]; [reflexivity|].
  cbn [flat_map]. rewrite flat_map_app, IH. apply (f_equal (fun x => x ++ flat_map (all_paths q) ks)).
  destruct k as [kn kb kc|kn kb kbl kk|kn kb kk]; cbn [step_inst].
  - cbn [flat_map]. rewrite app_nil_r. apply Hk.
  - cbn [flat_map]. rewrite app_nil_r. apply Hk.
  - destruct at_; cbn [flat_map]; rewrite ?app_nil_r.
    + apply Hk.
    + destruct (tmpl_is_template (R kn kb kk)) as (tn & tk & ->). cbn [ipaths_live app]. apply Hk.
Qed.

Lemma inst_live : forall e at_ pre, ipaths_live pre (inst at_ e) = all_paths pre e.
Proof.
  induction e as [n b c|n b bl kids IHk|n b kids IHk] using elem_ind2; intros at_ pre.
  - reflexivity.
  - rewrite inst_G. cbn [ipaths_live all_paths]. apply f_equal. apply live_kids. exact IHk.
  - rewrite inst_R. cbn [ipaths_live all_paths]. apply f_equal. apply live_kids. exact IHk.
Qed.

(* every live path is a path of the whole instance *)
Lemma live_incl : forall t pre, incl (ipaths_live pre t) (ipaths pre t).
Proof.
  fix IH 1. intros [n tm kids] pre p H. cbn [ipaths_live ipaths] in *. destruct tm; [destruct H|].
  destruct H as [<-|H]; [left; reflexivity|]. right.
  induction kids as [|k ks IHk]; [destruct H|]. cbn [flat_map] in *. apply in_or_app.
  apply in_app_or in H as [H|H]; [left; apply IH; exact H|right; apply IHk; exact H].
Qed.

(* ---- C02 ---- *)
Theorem refs_resolve (root : elem) :
  incl (map (fun p => p) (bind_nodesets [] root) ++ control_refs [] root) (ipaths [] (inst false root)).
Proof.
  rewrite map_id. intros p H. apply live_incl. rewrite inst_live.
  apply in_app_or in H as [H|H].
  - rewrite bind_nodesets_select in H. eapply select_incl. exact H.
  - apply control_refs_incl. exact H.
Qed.

Theorem unique_when_valid (root : elem) : validate root = true ->
  NoDup (ipaths_live [] (inst false root)) /\ NoDup (bind_nodesets [] root) /\ NoDup (select is_qcontrol [] root).
Proof.
  unfold validate. intro H. apply andb_true_iff in H as [Hs _]. split; [|split].
  - rewrite inst_live, all_paths_select. apply select_NoDup. exact Hs.
  - rewrite bind_nodesets_select. apply select_NoDup. exact Hs.
  - apply select_NoDup. exact Hs.
Qed.

(* ambiguity is rejected: if two elements would get the same path, validation fails *)
Theorem ambiguous_rejected (root : elem) : ~ NoDup (all_paths [] root) -> validate root = false.
Proof.
  intro H. destruct (validate root) eqn:E; [|reflexivity]. exfalso. apply H.
  destruct (unique_when_valid root E) as [H1 _]. rewrite inst_live in H1. exact H1.
Qed.
