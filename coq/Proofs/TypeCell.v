(* Proofs/TypeCell.v — what the type-cell patterns return accounts for every character of the cell, and every documented spelling of a
   section opener/closer is recognised *)
Require Import PX.Base.Str PX.Base.PyStr PX.Gen.Types PX.Model.TypeCell.
From Coq Require Import Lia.
Local Open Scope N_scope.

Lemma first_alias_spec {A} aliases s (k : str -> str -> option A) r : first_alias aliases s k = Some r ->
  exists a rest, In a aliases /\ s = a ++ rest /\ k a rest = Some r.
Proof.
  induction aliases as [|a more IH]; intro H; [discriminate|]. cbn [first_alias] in H.
  destruct (prefix a s) as [rest|] eqn:E.
  - destruct (k a rest) as [x|] eqn:Ek.
    + inversion H; subst. exists a, rest. split; [left; reflexivity|]. split; [apply prefix_some; exact E|exact Ek].
    + destruct (IH H) as [a' [rest' [Hin [Hs Hk]]]]. exists a', rest'. split; [right; exact Hin|]. split; assumption.
  - destruct (IH H) as [a' [rest' [Hin [Hs Hk]]]]. exists a', rest'. split; [right; exact Hin|]. split; assumption.
Qed.
Lemma span_spec (p : N -> bool) s : s = fst (span p s) ++ snd (span p s) /\ forallb p (fst (span p s)) = true.
Proof.
  induction s as [|c r [IH1 IH2]]; [split; reflexivity|]. cbn [span]. destruct (p c) eqn:E; [|split; reflexivity].
  destruct (span p r) as [a b]. cbn [fst snd] in *. split; [cbn [app]; f_equal; exact IH1|cbn [forallb]; rewrite E, IH2; reflexivity].
Qed.
Definition tail_ok (r : str) : Prop := r = [] \/ r = [10].
Lemma at_end_spec r : at_end r = true -> tail_ok r.
Proof.
  destruct r as [|c r']; [left; reflexivity|]. destruct r' as [|d r'']; cbn [at_end].
  - destruct (N.eq_dec c 10) as [->|Hc]; [right; reflexivity|]. destruct c as [|p]; try discriminate. do 4 (destruct p; try discriminate). congruence.
  - destruct c as [|p]; try discriminate. do 4 (destruct p; try discriminate).
Qed.

(* select: command, list name and the or_other flag reconstruct the cell *)
Theorem select_sound selects t cmd lst other : parse_select selects t = Some (TSelect cmd lst other) ->
  In cmd selects /\ lst <> [] /\ forallb nonspace lst = true /\
  exists phrase tail, tail_ok tail /\ (other = true -> In phrase OR_OTHER) /\
    t = cmd ++ [32] ++ lst ++ (if other then [32] ++ phrase else []) ++ tail.
Proof.
  unfold parse_select. intro H. apply first_alias_spec in H as [a [rest [Hin [Ht Hk]]]].
  destruct rest as [|c r1]; [discriminate|]. destruct (N.eq_dec c 32) as [->|Hc].
  2:{ destruct c as [|p]; try discriminate. do 6 (destruct p; try discriminate). congruence. }
  pose proof (span_spec nonspace r1) as [Hs Hf]. destruct (span nonspace r1) as [w r2]. cbn [fst snd] in *.
  destruct w as [|w0 w']; [discriminate|]. destruct (at_end r2) eqn:Ee.
  - inversion Hk; subst. split; [exact Hin|]. split; [discriminate|]. split; [exact Hf|]. exists [], r2. split; [apply at_end_spec; exact Ee|]. split; [discriminate|]. reflexivity.
  - destruct r2 as [|c2 r3]; [discriminate|]. destruct (N.eq_dec c2 32) as [->|Hc2].
    2:{ destruct c2 as [|p]; try discriminate. do 6 (destruct p; try discriminate). congruence. }
    destruct (existsb _ OR_OTHER) eqn:Ex; [|discriminate]. inversion Hk; subst. split; [exact Hin|]. split; [discriminate|]. split; [exact Hf|].
    apply existsb_exists in Ex as [o [Ho Hp]]. destruct (prefix o r3) as [r4|] eqn:Ep; [|discriminate]. apply at_end_spec in Hp. apply prefix_some in Ep. subst r3.
    exists o, r4. split; [exact Hp|]. split; [intros _; exact Ho|]. cbn [app]. rewrite <- ?app_assoc. reflexivity.
Qed.

Lemma sep_then_spec {A} word s (k : str -> option A) r : sep_then word s k = Some r ->
  exists c rest, s = word ++ c :: rest /\ (py_space c = true \/ c = 95) /\ k rest = Some r.
Proof.
  unfold sep_then. intro H. destruct (prefix word s) as [[|c rest]|] eqn:E; try discriminate.
  apply prefix_some in E. destruct (py_space c || (c =? 95)) eqn:Ec; [|discriminate]. exists c, rest. split; [exact E|]. split; [|exact H].
  apply orb_true_iff in Ec. destruct Ec as [Hsp|He]; [left; exact Hsp|right; apply N.eqb_eq; exact He].
Qed.
Lemma word_to_end_spec r l : word_to_end r = Some l -> l <> [] /\ forallb nonspace l = true /\ exists tail, tail_ok tail /\ r = l ++ tail.
Proof.
  unfold word_to_end. pose proof (span_spec nonspace r) as [Hs Hf]. destruct (span nonspace r) as [w r2]. cbn [fst snd] in *.
  destruct w as [|w0 w']; [discriminate|]. destruct (at_end r2) eqn:E; [|discriminate]. intro H. inversion H; subst.
  split; [discriminate|]. split; [exact Hf|]. exists r2. split; [apply at_end_spec; exact E|reflexivity].
Qed.
Theorem end_sound controls t ctl : parse_end controls t = Some (TEnd ctl) ->
  In ctl controls /\ exists c tail, (py_space c = true \/ c = 95) /\ tail_ok tail /\ t = [101;110;100] ++ [c] ++ ctl ++ tail.
Proof.
  unfold parse_end. intro H. apply sep_then_spec in H as [c [rest [Ht [Hc Hk]]]]. apply first_alias_spec in Hk as [a [r [Hin [Hr Hk]]]].
  destruct (at_end r) eqn:E; [|discriminate]. inversion Hk; subst. split; [exact Hin|]. exists c, r. split; [exact Hc|]. split; [apply at_end_spec; exact E|reflexivity].
Qed.
Theorem begin_sound controls t ctl lst : parse_begin controls t = Some (TBegin ctl lst) ->
  In ctl controls /\ exists c tail, (py_space c = true \/ c = 95) /\ tail_ok tail /\
    match lst with
    | None => t = [98;101;103;105;110] ++ [c] ++ ctl ++ tail
    | Some l => l <> [] /\ forallb nonspace l = true /\
                (t = [98;101;103;105;110] ++ [c] ++ ctl ++ [32] ++ l ++ tail \/ t = [98;101;103;105;110] ++ [c] ++ ctl ++ [32] ++ s_over ++ l ++ tail)
    end.
Proof.
  unfold parse_begin. intro H. apply sep_then_spec in H as [c [rest [Ht [Hc Hk]]]]. apply first_alias_spec in Hk as [a [r [Hin [Hr Hk]]]].
  destruct (at_end r) eqn:E.
  - inversion Hk; subst. split; [exact Hin|]. exists c, r. split; [exact Hc|]. split; [apply at_end_spec; exact E|reflexivity].
  - destruct r as [|c1 r1]; [discriminate|]. destruct (N.eq_dec c1 32) as [->|Hc1].
    2:{ destruct c1 as [|p]; try discriminate. do 6 (destruct p; try discriminate). congruence. }
    destruct (prefix s_over r1) as [r2|] eqn:Ep.
    + destruct (word_to_end r2) as [l|] eqn:Ew.
      * inversion Hk; subst. apply prefix_some in Ep. destruct (word_to_end_spec _ _ Ew) as [Hne [Hf [tail [Htl Hr2]]]]. subst r2 r1.
        split; [exact Hin|]. exists c, tail. split; [exact Hc|]. split; [exact Htl|]. split; [exact Hne|]. split; [exact Hf|]. right. cbn [app]. rewrite <- ?app_assoc. reflexivity.
      * destruct (word_to_end r1) as [l|] eqn:Ew1; [|discriminate]. inversion Hk; subst. destruct (word_to_end_spec _ _ Ew1) as [Hne [Hf [tail [Htl Hr1]]]]. subst r1.
        split; [exact Hin|]. exists c, tail. split; [exact Hc|]. split; [exact Htl|]. split; [exact Hne|]. split; [exact Hf|]. left. reflexivity.
    + destruct (word_to_end r1) as [l|] eqn:Ew1; [|discriminate]. inversion Hk; subst. destruct (word_to_end_spec _ _ Ew1) as [Hne [Hf [tail [Htl Hr1]]]]. subst r1.
      split; [exact Hin|]. exists c, tail. split; [exact Hc|]. split; [exact Htl|]. split; [exact Hne|]. split; [exact Hf|]. left. reflexivity.
Qed.

(* every documented control word, after `begin`/`end` and a space or an underscore, is recognised as itself (tables regenerated from /repo) *)
Definition controls : list str := map fst CONTROL_ALIASES.
Definition selects : list str := map fst SELECT_ALIASES.
Definition opener_ok (sep : N) (a : str) : bool :=
  match classify controls selects ([98;101;103;105;110] ++ [sep] ++ a), classify controls selects ([101;110;100] ++ [sep] ++ a) with
  | TBegin a1 None, TEnd a2 => seqb a1 a && seqb a2 a
  | _, _ => false
  end.
Theorem documented_openers_recognised : forall a sep, In a controls -> sep = 32 \/ sep = 95 -> opener_ok sep a = true.
Proof.
  assert (H : forallb (fun a => opener_ok 32 a && opener_ok 95 a) controls = true) by (vm_compute; reflexivity).
  intros a sep Hin Hs. rewrite forallb_forall in H. specialize (H a Hin). apply andb_true_iff in H as [H1 H2]. destruct Hs as [-> | ->]; assumption.
Qed.
(* every documented select command followed by a plain list name (here: one fixed probe per command; the universal statement about
   list names is select_sound above) is recognised as itself, with and without each or_other phrase *)
Definition select_ok (a : str) : bool :=
  match classify controls selects (a ++ [32; 108; 49]) with TSelect a1 [108; 49] false => seqb a1 a | _ => false end &&
  forallb (fun o => match classify controls selects (a ++ [32; 108; 49; 32] ++ o) with TSelect a1 [108; 49] true => seqb a1 a | _ => false end) OR_OTHER.
Theorem documented_selects_recognised : forall a, In a selects -> select_ok a = true.
Proof. assert (H : forallb select_ok selects = true) by (vm_compute; reflexivity). intros a Hin. rewrite forallb_forall in H. exact (H a Hin). Qed.

(* tie to the source: the three patterns are, textually, the alias tables joined by `|` inside the fixed frames the model was written from *)
Lemma type_patterns_pinned :
  RE_BEGIN_CONTROL = [94;40;63;80;60;98;101;103;105;110;62;98;101;103;105;110;41;40;92;115;124;95;41;40;63;80;60;116;121;112;101;62;40]%N ++ join [124] controls ++ [41;41;40;32;40;111;118;101;114;32;41;63;40;63;80;60;108;105;115;116;95;110;97;109;101;62;92;83;43;41;41;63;36]%N /\
  RE_END_CONTROL = [94;40;63;80;60;101;110;100;62;101;110;100;41;40;92;115;124;95;41;40;63;80;60;116;121;112;101;62;40]%N ++ join [124] controls ++ [41;41;36]%N /\
  RE_SELECT = [94;40;63;80;60;115;101;108;101;99;116;95;99;111;109;109;97;110;100;62;40]%N ++ join [124] selects ++ [41;41;32;40;63;80;60;108;105;115;116;95;110;97;109;101;62;92;83;43;41;40;32;40;63;80;60;115;112;101;99;105;102;121;95;111;116;104;101;114;62;40;111;114;32;115;112;101;99;105;102;121;32;111;116;104;101;114;124;111;114;95;111;116;104;101;114;124;111;114;32;111;116;104;101;114;41;41;41;63;36]%N.
Proof. repeat split; vm_compute; reflexivity. Qed.
