(* Proofs/TypeCell.v — what the type-cell patterns return accounts for every character of the cell, and every documented spelling of a
   section opener/closer is recognised *)
Require Import PX.Base.Str PX.Base.PyStr PX.Gen.Types PX.Model.TypeCell.
From Coq Require Import Lia.
Local Open Scope N_scope.

Lemma first_alias_spec {A} aliases s (k : str -> str -> option A) r : first_alias aliases s k = Some r ->
  exists a rest, In a aliases /\ s = a ++ rest /\ k a rest = Some r.
Proof.
  induction aliases as [|a more IH]; intro H; [discriminate|]. cbn [first_alias] in H.
  destruct (prefix a s) as [rest|] eqn:E.
  - destruct (k a rest) as [x|] eqn:Ek.
    + inversion H; subst. exists a, rest. split; [left; reflexivity|]. split; [apply prefix_some; exact E|exact Ek].
    + destruct (IH H) as [a' [rest' [Hin [Hs Hk]]]]. exists a', rest'. split; [right; exact Hin|]. split; assumption.
  - destruct (IH H) as [a' [rest' [Hin [Hs Hk]]]]. exists a', rest'. split; [right; exact Hin|]. split; assumption.
Qed.
Lemma span_spec (p : N -> bool) s : s = fst (span p s) ++ snd (span p s) /\ forallb p (fst (span p s)) = true.
Proof.
  induction s as [|c r [IH1 IH2]]; [split; reflexivity|]. cbn [span]. destruct (p c) eqn:E; [|split; reflexivity].
  destruct (span p r) as [a b]. cbn [fst snd] in *. split; [cbn [app]; f_equal; exact IH1|cbn [forallb]; rewrite E, IH2; reflexivity].
Qed.
Definition tail_ok (r : str) : Prop := r = [] \/ r = [10].
Lemma at_end_spec r : at_end r = true -> tail_ok r.
Proof.
  destruct r as [|c r']; [left; reflexivity|]. destruct r' as [|d r'']; cbn [at_end].
  - destruct (N.eq_dec c 10) as [->|Hc]; [right; reflexivity|]. destruct c as [|p]; try discriminate. do 4 (destruct p; try discriminate). congruence.
  - destruct c as [|p]; try discriminate. do 4 (destruct p; try discriminate).
Qed.

(* select: command, list name and the or_other flag reconstruct the cell *)
Theorem select_sound selects t cmd lst other : parse_select selects t = Some (TSelect cmd lst other) ->
  In cmd selects /\ lst <> [] /\ forallb nonspace lst = true /\
  exists phrase tail, tail_ok tail /\ (other = true -> In phrase OR_OTHER) /\
    t = cmd ++ [32] ++ lst ++ (if other then [32] ++ phrase else []) ++ tail.
Proof.
  unfold parse_select. intro H. apply first_alias_spec in H as [a [rest [Hin [Ht Hk]]]].
  destruct rest as [|c r1]; [discriminate|]. destruct (N.eq_dec c 32) as [->|Hc].
  2:{ destruct c as [|p]; try discriminate. do 6 (destruct p; try discriminate). congruence. }
  pose proof (span_spec nonspace r1) as [Hs Hf]. destruct (span nonspace r1) as [w r2]. cbn [fst snd] in *.
  destruct w as [|w0 w']; [discriminate|]. destruct (at_end r2) eqn:Ee.
  - inversion Hk; subst. split; [exact Hin|]. split; [discriminate|]. split; [exact Hf|]. exists [], r2. split; [apply at_end_spec; exact Ee|]. split; [discriminate|]. reflexivity.
  - destruct r2 as [|c2 r3]; [discriminate|]. destruct (N.eq_dec c2 32) as [->|Hc2].
    2:{ destruct c2 as [|p]; try discriminate. do 6 (destruct p; try discriminate). congruence. }
    destruct (existsb _ OR_OTHER) eqn:Ex; [|discriminate]. inversion Hk; subst. split; [exact Hin|]. split; [discriminate|]. split; [exact Hf|].
    apply existsb_exists in Ex as [o [Ho Hp]]. destruct (prefix o r3) as [r4|] eqn:Ep; [|discriminate]. apply at_end_spec in Hp. apply prefix_some in Ep. subst r3.
    exists o, r4. split; [exact Hp|]. split; [intros _; exact Ho|]. cbn [app]. rewrite <- ?app_assoc. reflexivity.
Qed.

Lemma sep_then_spec {A} word s (k : str -> option A) r : sep_then word s k = Some r ->
  exists c rest, s = word ++ c :: rest /\ (py_space c = true \/ c = 95) /\ k rest = Some r.
Proof.
  unfold sep_then. intro H. destruct (prefix word s) as [[|c rest]|] eqn:E; try discriminate.
  apply prefix_some in E. destruct (py_space c || (c =? 95)) eqn:Ec; [|discriminate]. exists c, rest. split; [exact E|]. split; [|exact H].
  apply orb_true_iff in Ec. destruct Ec as [Hsp|He]; [left; exact Hsp|right; apply N.eqb_eq; exact He].
Qed.
Lemma word_to_end_spec r l : word_to_end r = Some l -> l <> [] /\ forallb nonspace l = true /\ exists tail, tail_ok tail /\ r = l ++ tail.
Proof.
  unfold word_to_end. pose proof (span_spec nonspace r) as [Hs Hf]. destruct (span nonspace r) as [w r2]. cbn [fst snd] in *.
  destruct w as [|w0 w']; [discriminate|]. destruct (at_end r2) eqn:E; [|discriminate]. intro H. inversion H; subst.
  split; [discriminate|]. split; [exact Hf|]. exists r2. split; [apply at_end_spec; exact E|reflexivity].
Qed.
Theorem end_sound controls t ctl : parse_end controls t = Some (TEnd ctl) ->
  In ctl controls /\ exists c tail, (py_space c = true \/ c = 95) /\ tail_ok tail /\ t = [101;110;100] ++ [c] ++ ctl ++ tail.
Proof.
  unfold parse_end. intro H. apply sep_then_spec in H as [c [rest [Ht [Hc Hk]]]]. apply first_alias_spec in Hk as [a [r [Hin [Hr Hk]]]].
  destruct (at_end r) eqn:E; [|discriminate]. inversion Hk; subst. split; [exact Hin|]. exists c, r. split; [exact Hc|]. split; [apply at_end_spec; exact E|reflexivity].
Qed.
Theorem begin_sound controls t ctl lst : parse_begin controls t = Some (TBegin ctl lst) ->
  In ctl controls /\ exists c tail, (py_space c = true \/ c = 95) /\ tail_ok tail /\
    match lst with
    | None => t = [98;101;103;105;110] ++ [c] ++ ctl ++ tail
    | Some l => l <> [] /\ forallb nonspace l = true /\
                (t = [98;101;103;105;110] ++ [c] ++ ctl ++ [32] ++ l ++ tail \/ t = [98;101;103;105;110] ++ [c] ++ ctl ++ [32] ++ s_over ++ l ++ tail)
    end.
Proof.
  unfold parse_begin. intro H. apply sep_then_spec in H as [c [rest [Ht [Hc Hk]]]]. apply first_alias_spec in Hk as [a [r [Hin [Hr Hk]]]].
  destruct (at_end r) eqn:E.
  - inversion Hk; subst. split; [exact Hin|]. exists c, r. split; [exact Hc|]. split; [apply at_end_spec; exact E|reflexivity].
  - destruct r as [|c1 r1]; [discriminate|]. destruct (N.eq_dec c1 32) as [->|Hc1].
    2:{ destruct c1 as [|p]; try discriminate. do 6 (destruct p; try discriminate). congruence. }
    destruct (prefix s_over r1) as [r2|] eqn:Ep.
    + destruct (word_to_end r2) as [l|] eqn:Ew.
      * inversion Hk; subst. apply prefix_some in Ep. destruct (word_to_end_spec _ _ Ew) as [Hne [Hf [tail [Htl Hr2]]]]. subst r2 r1.
        split; [exact Hin|]. exists c, tail. split; [exact Hc|]. split; [exact Htl|]. split; [exact Hne|]. split; [exact Hf|]. right. cbn [app]. rewrite <- ?app_assoc. reflexivity.
      * destruct (word_to_end r1) as [l|] eqn:Ew1; [|discriminate]. inversion Hk; subst. destruct (word_to_end_spec _ _ Ew1) as [Hne [Hf [tail [Htl Hr1]]]]. subst r1.
        split; [exact Hin|]. exists c, tail. split; [exact Hc|]. split; [exact Htl|]. split; [exact Hne|]. split; [exact Hf|]. left. reflexivity.
    + destruct (word_to_end r1) as [l|] eqn:Ew1; [|discriminate]. inversion Hk; subst. destruct (word_to_end_spec _ _ Ew1) as [Hne [Hf [tail [Htl Hr1]]]]. subst r1.
      split; [exact Hin|]. exists c, tail. split; [exact Hc|]. split; [exact Htl|]. split; [exact Hne|]. split; [exact Hf|]. left. reflexivity.
Qed.

(* every documented control word, after `begin`/`end` and a space or an underscore, is recognised as itself (tables regenerated from /repo) *)
Definition controls : list str := map fst CONTROL_ALIASES.
Definition selects : list str := map fst SELECT_ALIASES.
Definition opener_ok (sep : N) (a : str) : bool :=
  match classify controls selects ([98;101;103;105;110] ++ [sep] ++ a), classify controls selects ([101;110;100] ++ [sep] ++ a) with
  | TBegin a1 None, TEnd a2 => seqb a1 a && seqb a2 a
  | _, _ => false
  end.
Theorem documented_openers_recognised : forall a sep, In a controls -> sep = 32 \/ sep = 95 -> opener_ok sep a = true.
Proof.
  assert (H : forallb (fun a => opener_ok 32 a && opener_ok 95 a) controls = true) by (vm_compute; reflexivity).
  intros a sep Hin Hs. rewrite forallb_forall in H. specialize (H a Hin). apply andb_true_iff in H as [H1 H2]. destruct Hs as [-> | ->]; assumption.
Qed.
(* every documented select command followed by a plain list name (here: one fixed probe per command; the universal statement about
   list names is select_sound above) is recognised as itself, with and without each or_other phrase *)
Definition select_ok (a : str) : bool :=
  match classify controls selects (a ++ [32; 108; 49]) with TSelect a1 [108; 49] false => seqb a1 a | _ => false end &&
  forallb (fun o => match classify controls selects (a ++ [32; 108; 49; 32] ++ o) with TSelect a1 [108; 49] true => seqb a1 a | _ => false end) OR_OTHER.
Theorem documented_selects_recognised : forall a, In a selects -> select_ok a = true.
Proof. assert (H : forallb select_ok selects = true) by (vm_compute; reflexivity). intros a Hin. rewrite forallb_forall in H. exact (H a Hin). Qed.

(* tie to the source: the three patterns are, textually, the alias tables joined by `|` inside the fixed frames the model was written from *)
Lemma type_patterns_pinned :
  RE_BEGIN_CONTROL = [94;40;63;80;60;98;101;103;105;110;62;98;101;103;105;110;41;40;92;115;124;95;41;40;63;80;60;116;121;112;101;62;40]%N ++ join [124] controls ++ [41;41;40;32;40;111;118;101;114;32;41;63;40;63;80;60;108;105;115;116;95;110;97;109;101;62;92;83;43;41;41;63;36]%N /\
  RE_END_CONTROL = [94;40;63;80;60;101;110;100;62;101;110;100;41;40;92;115;124;95;41;40;63;80;60;116;121;112;101;62;40]%N ++ join [124] controls ++ [41;41;36]%N /\
  RE_SELECT = [94;40;63;80;60;115;101;108;101;99;116;95;99;111;109;109;97;110;100;62;40]%N ++ join [124] selects ++ [41;41;32;40;63;80;60;108;105;115;116;95;110;97;109;101;62;92;83;43;41;40;32;40;63;80;60;115;112;101;99;105;102;121;95;111;116;104;101;114;62;40;111;114;32;115;112;101;99;105;102;121;32;111;116;104;101;114;124;111;114;95;111;116;104;101;114;124;111;114;32;111;116;104;101;114;41;41;41;63;36]%N.
Proof. repeat split; vm_compute; reflexivity. Qed.

Lemma ceq_sym a b : ceq a b = ceq b a.
Proof. unfold ceq. apply N.eqb_sym. Qed.
Lemma prefix_app_ext a' : forall s r l, prefix a' s = Some r -> prefix a' (s ++ l) = Some (r ++ l).
Proof.
  induction a' as [|x a IH]; intros s r l H; cbn [prefix] in *.
  - inversion H; subst. reflexivity.
  - destruct s as [|y s']; [discriminate|]. cbn [app]. destruct (ceq x y); [apply IH; exact H|discriminate].
Qed.
(* if a' is not a prefix of s and s is not a prefix of a', they differ inside s: appending to s changes nothing *)
Lemma prefix_none_ext a' : forall s l, prefix a' s = None -> starts_with s a' = false -> prefix a' (s ++ l) = None.
Proof.
  induction a' as [|x a IH]; intros s l H Hs; cbn [prefix] in *; [discriminate|].
  destruct s as [|y s']; [unfold starts_with in Hs; cbn in Hs; discriminate|]. cbn [app].
  unfold starts_with in Hs. cbn [prefix] in Hs. rewrite (ceq_sym y x) in Hs.
  destruct (ceq x y); [|reflexivity]. apply IH; [exact H|]. unfold starts_with. exact Hs.
Qed.

Definition conflict_free_at (a a' : str) : bool :=
  seqb a' a ||
  match prefix a' (a ++ [32]) with
  | Some (c :: _) => negb (c =? 32)
  | Some [] => true
  | None => negb (starts_with (a ++ [32]) a')
  end.
Definition no_conflict (a : str) (table : list str) : bool := forallb (conflict_free_at a) table.
Definition sel_k (a r : str) : option tkind :=
  match r with
  | 32 :: r1 =>
      let '(w, r2) := span nonspace r1 in
      match w with
      | [] => None
      | _ => if at_end r2 then Some (TSelect a w false)
             else match r2 with
                  | 32 :: r3 => if existsb (fun o => match prefix o r3 with Some r4 => at_end r4 | None => false end) OR_OTHER then Some (TSelect a w true) else None
                  | _ => None
                  end
      end
  | _ => None
  end.
Lemma parse_select_unfold table t : parse_select table t = first_alias table t sel_k.
Proof. reflexivity. Qed.
Lemma not_space_head c r : (c =? 32) = false -> sel_k [] (c :: r) = None /\ forall a, sel_k a (c :: r) = None.
Proof. intro H. assert (G : forall a, sel_k a (c :: r) = None). { intro a. unfold sel_k. destruct c as [|p]; try reflexivity. do 6 (destruct p; try reflexivity). discriminate. } split; [apply G|exact G]. Qed.
Lemma select_step_none a a' l : seqb a' a = false -> l <> [] -> forallb nonspace l = true -> conflict_free_at a a' = true ->
  match prefix a' (a ++ [32] ++ l) with Some rest => sel_k a' rest | None => None end = None.
Proof.
  intros Hne Hl Hf Hc. unfold conflict_free_at in Hc. rewrite Hne in Hc. cbn [orb] in Hc. rewrite app_assoc.
  destruct (prefix a' (a ++ [32])) as [[|c r]|] eqn:E.
  - rewrite (prefix_app_ext a' _ _ l E). cbn [app]. destruct l as [|x l']; [congruence|]. cbn [forallb] in Hf. apply andb_true_iff in Hf as [Hx _].
    assert (Hx32 : (x =? 32) = false). { destruct (x =? 32) eqn:Ex; [|reflexivity]. apply N.eqb_eq in Ex. subst x. discriminate. }
    apply (proj2 (not_space_head x l' Hx32)).
  - rewrite (prefix_app_ext a' _ _ l E). cbn [app]. apply negb_true_iff in Hc. apply (proj2 (not_space_head c (r ++ l) Hc)).
  - apply negb_true_iff in Hc. rewrite (prefix_none_ext a' _ l E Hc). reflexivity.
Qed.
Lemma span_all_nonspace l : forallb nonspace l = true -> span nonspace l = (l, []).
Proof. induction l as [|c r IH]; intro H; [reflexivity|]. cbn [forallb] in H. apply andb_true_iff in H as [Hc Hr]. cbn [span]. rewrite Hc, (IH Hr). reflexivity. Qed.
(* a command that no other command of the table can be confused with (computable condition) is recognised with EVERY list name *)
Theorem select_complete table a l : In a table -> no_conflict a table = true -> l <> [] -> forallb nonspace l = true ->
  parse_select table (a ++ [32] ++ l) = Some (TSelect a l false).
Proof.
  intros Hin Hnc Hl Hf. rewrite parse_select_unfold. induction table as [|a' more IH]; [destruct Hin|].
  cbn [first_alias]. unfold no_conflict in Hnc. cbn [forallb] in Hnc. apply andb_true_iff in Hnc as [Hc Hmore].
  destruct (seqb_spec a' a) as [->|Hne].
  - rewrite prefix_app. cbn [app sel_k]. rewrite (span_all_nonspace l Hf). destruct l; [congruence|]. reflexivity.
  - assert (Hn : seqb a' a = false) by (destruct (seqb_spec a' a); [congruence|reflexivity]).
    pose proof (select_step_none a a' l Hn Hl Hf Hc) as Hs. destruct Hin as [E|Hin]; [congruence|].
    destruct (prefix a' (a ++ [32] ++ l)) as [rest|]; [rewrite Hs|]; apply IH; assumption.
Qed.
(* which commands of the regenerated table satisfy the condition *)
Definition unambiguous_selects : list str := filter (fun a => no_conflict a selects) selects.
Definition not_opener (a : str) : bool :=
  match prefix [101;110;100] a with None => negb (starts_with a [101;110;100]) | Some _ => false end &&
  match prefix [98;101;103;105;110] a with None => negb (starts_with a [98;101;103;105;110]) | Some _ => false end.
Lemma selects_are_not_openers : forallb not_opener selects = true.
Proof. vm_compute. reflexivity. Qed.
Theorem unambiguous_select_recognised a l : In a unambiguous_selects -> l <> [] -> forallb nonspace l = true ->
  classify controls selects (a ++ [32] ++ l) = TSelect a l false.
Proof.
  intros Hin Hl Hf. unfold unambiguous_selects in Hin. apply filter_In in Hin as [Hin Hnc].
  pose proof selects_are_not_openers as Hno. rewrite forallb_forall in Hno. specialize (Hno a Hin). unfold not_opener in Hno. apply andb_true_iff in Hno as [He Hb].
  unfold classify, parse_end, parse_begin, sep_then.
  destruct (prefix [101;110;100] a) eqn:E1; [discriminate|]. apply negb_true_iff in He. rewrite (prefix_none_ext _ a ([32] ++ l) E1 He).
  destruct (prefix [98;101;103;105;110] a) eqn:E2; [discriminate|]. apply negb_true_iff in Hb. rewrite (prefix_none_ext _ a ([32] ++ l) E2 Hb).
  rewrite (select_complete selects a l Hin Hnc Hl Hf). reflexivity.
Qed.
