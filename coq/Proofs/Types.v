(* Proofs/Types.v — the type table in the source is the documented one on every documented type (finite, vm_compute). *)
Require Import PX.Base.Str PX.Spec.DocsTypes PX.Gen.Types.
Definition row6 := (list N * list N * list N * list N * list N * list N)%type.
Fixpoint qtd_lookup (ty : str) (l : list (list N * list N * list N * list N * list N * list N * list N)) : option row6 :=
  match l with
  | [] => None
  | (n, tag, media, bty, pre, par, _) :: r => if seqb n ty then Some (n, tag, media, bty, pre, par) else qtd_lookup ty r
  end.
Definition row6_eqb (a b : row6) : bool :=
  let '(a1, a2, a3, a4, a5, a6) := a in let '(b1, b2, b3, b4, b5, b6) := b in
  seqb a1 b1 && seqb a2 b2 && seqb a3 b3 && seqb a4 b4 && seqb a5 b5 && seqb a6 b6.
Definition type_row_ok (d : row6) : bool :=
  match qtd_lookup (fst (fst (fst (fst (fst d))))) QTD with Some r => row6_eqb r d | None => false end.
Lemma type_table_is_documented : forallb type_row_ok docs_types = true.
Proof. vm_compute. reflexivity. Qed.
Lemma row6_eqb_eq a b : row6_eqb a b = true -> a = b.
Proof.
  destruct a as [[[[[a1 a2] a3] a4] a5] a6], b as [[[[[b1 b2] b3] b4] b5] b6]. unfold row6_eqb.
  rewrite !andb_true_iff. intros [[[[[H1 H2] H3] H4] H5] H6].
  apply seqb_eq in H1, H2, H3, H4, H5, H6. subst. reflexivity.
Qed.
Theorem documented_types (d : row6) : In d docs_types -> qtd_lookup (fst (fst (fst (fst (fst d))))) QTD = Some d.
Proof.
  intro H. pose proof type_table_is_documented as HT. rewrite forallb_forall in HT. specialize (HT d H).
  unfold type_row_ok in HT. destruct (qtd_lookup _ QTD) as [r|]; [|discriminate]. apply row6_eqb_eq in HT. subst. reflexivity.
Qed.
