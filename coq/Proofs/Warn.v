(* Proofs/Warn.v — each modelled warning fires exactly when its trigger is present. *)
Require Import PX.Base.Str PX.Spec.EditDistance PX.Model.Lev PX.Model.Warnings PX.Proofs.LevCorrect.

Lemma mem_In x l : mem x l = true <-> In x l.
Proof.
  unfold mem. rewrite existsb_exists. split.
  - intros (y & Hy & E). apply seqb_eq in E. subst. exact Hy.
  - intro H. exists x. split; [exact H|apply seqb_refl].
Qed.

(* ---- sheet-name misspellings ---- *)
Theorem misspelling_iff (lower : str -> str) supported key keys k :
  In k (misspelling_candidates lower supported key keys) <->
  In k keys /\ edit (rev (lower k)) (rev key) <= 2 /\ ~ In (lower k) supported /\ starts_with [UNDERSCORE] k = false.
Proof.
  unfold misspelling_candidates, is_candidate. rewrite filter_In, !andb_true_iff, !negb_true_iff.
  rewrite levenshtein_is_edit_distance, Nat.leb_le.
  split.
  - intros (Hk & (Hd & Hs) & Hu). repeat split; try assumption.
    intro Hin. apply mem_In in Hin. congruence.
  - intros (Hk & Hd & Hs & Hu). repeat split; try assumption.
    destruct (mem (lower k) supported) eqn:E; [|reflexivity]. apply mem_In in E. contradiction.
Qed.

(* ---- language code in trailing parentheses ---- *)
Lemma span_split p s : fst (span p s) ++ snd (span p s) = s.
Proof. induction s as [|c s IH]; simpl; [reflexivity|]. destruct (p c); [|reflexivity]. destruct (span p s). simpl in *. congruence. Qed.
Lemma span_fst_all p s : forallb p (fst (span p s)) = true.
Proof. induction s as [|c s IH]; simpl; [reflexivity|]. destruct (p c) eqn:E; [|reflexivity]. destruct (span p s). simpl in *. rewrite E, IH. reflexivity. Qed.

Theorem lang_code_spec lang code :
  lang_code lang = Some code <->
  exists pre, lang = pre ++ [LPAREN] ++ code ++ [RPAREN] /\ nochar LPAREN pre = true.
Proof.
  unfold lang_code. split.
  - pose proof (span_split (fun c => negb (ceq c LPAREN)) lang) as Hs.
    pose proof (span_fst_all (fun c => negb (ceq c LPAREN)) lang) as Ha.
    destruct (span (fun c => negb (ceq c LPAREN)) lang) as [pre rest] eqn:Esp. simpl in Hs, Ha.
    destruct rest as [|c inner]; [discriminate|].
    assert (Hc : c = LPAREN).
    { clear Ha Hs. revert pre Esp. induction lang as [|x l IH]; intros pre E; simpl in E; [discriminate|].
      destruct (negb (ceq x LPAREN)) eqn:Ex.
      - destruct (span (fun c0 => negb (ceq c0 LPAREN)) l) as [a b] eqn:E2. inversion E; subst. eapply IH. reflexivity.
      - inversion E; subst. apply negb_false_iff in Ex. destruct (ceq_spec c LPAREN); congruence. }
    subst c. destruct (rev inner) as [|z r] eqn:Er; [discriminate|].
    destruct (ceq_spec z RPAREN); [|discriminate]. intro H. inversion H; subst.
    exists pre. split; [|exact Ha].
    f_equal. cbn [app]. f_equal.
    rewrite <- (rev_involutive inner), Er. simpl. reflexivity.
  - intros (pre & -> & Hp).
    rewrite (span_app (fun c => negb (ceq c LPAREN)) pre ([LPAREN] ++ code ++ [RPAREN])); [|exact Hp|reflexivity].
    cbn [app]. rewrite rev_app_distr. cbn [rev app]. rewrite ceq_refl, rev_involutive. reflexivity.
Qed.

Theorem bad_tag_iff tags2 tags3 lang :
  bad_tag tags2 tags3 lang = true <->
  lang <> s_default /\ 3 <= length lang /\
  (forall code, lang_code lang = Some code -> ~ In code tags2 /\ ~ In code tags3).
Proof.
  unfold bad_tag. destruct (seqb_spec lang s_default) as [->|Hne]; simpl.
  - split; [discriminate|]. intros (H & _). congruence.
  - destruct (Nat.ltb_spec (length lang) 3) as [Hl|Hl].
    + split; [discriminate|]. intros (_ & H & _). lia.
    + destruct (lang_code lang) as [code|] eqn:Ec.
      * rewrite negb_true_iff, orb_false_iff. split.
        -- intros [H2 H3]. split; [exact Hne|]. split; [exact Hl|]. intros c0 Hc0. inversion Hc0; subst. split; intro Hin; apply mem_In in Hin; congruence.
        -- intros (_ & _ & H). destruct (H code eq_refl) as [H2 H3]. split.
           ++ destruct (mem code tags2) eqn:E; [apply mem_In in E; contradiction|reflexivity].
           ++ destruct (mem code tags3) eqn:E; [apply mem_In in E; contradiction|reflexivity].
      * split; [|reflexivity]. intros _. split; [exact Hne|]. split; [exact Hl|]. intros c0 Hc0. discriminate.
Qed.

(* ---- missing translations ---- *)
Theorem missing_iff (t : trans) lang c :
  (exists cs, In (lang, cs) (find_missing t) /\ In c cs) <->
  seen_default_only t = false /\ In c (columns_seen t) /\ exists vs, In (lang, vs) (seen t) /\ mem c vs = false.
Proof.
  unfold find_missing. destruct (seen_default_only t).
  - split; [intros (cs & [] & _)|intros (H & _); discriminate].
  - split.
    + intros (cs & Hin & Hc). apply in_flat_map in Hin as ((l, vs) & Hs & Hin). cbn [fst snd] in Hin.
      destruct (filter (fun c0 => negb (mem c0 vs)) (columns_seen t)) as [|c1 cs'] eqn:Ef; [destruct Hin|].
      destruct Hin as [E|[]]. inversion E; subst.
      rewrite <- Ef in Hc. apply filter_In in Hc as [Hc1 Hc2]. apply negb_true_iff in Hc2.
      split; [reflexivity|]. split; [exact Hc1|]. exists vs. split; assumption.
    + intros (_ & Hc & vs & Hs & Hm).
      assert (Hf : In c (filter (fun c0 => negb (mem c0 vs)) (columns_seen t))).
      { apply filter_In. split; [exact Hc|]. rewrite Hm. reflexivity. }
      exists (filter (fun c0 => negb (mem c0 vs)) (columns_seen t)). split; [|exact Hf].
      apply in_flat_map. exists (lang, vs). split; [exact Hs|]. cbn [fst snd].
      destruct (filter (fun c0 => negb (mem c0 vs)) (columns_seen t)); [destruct Hf|left; reflexivity].
Qed.

(* or_other + translations *)
Theorem or_other_iff ts tc survey choices b :
  or_other_warns ts tc survey choices b = true <->
  b = true /\ (seen_default_only (find_translations ts survey) = false \/ seen_default_only (find_translations tc choices) = false).
Proof.
  unfold or_other_warns. rewrite andb_true_iff, orb_true_iff, !negb_true_iff. tauto.
Qed.
