(* Proofs/Ws.v — the canonical images of the pretty and the compact writer are ws-equivalent. *)
Require Import PX.Base.Str PX.Model.Dom PX.Spec.XmlParse PX.Spec.WsEquiv PX.Proofs.Esc PX.Proofs.RT.

Definition it_el (i : item) : bool := match i with IEl x => is_el x | ITx _ => false end.
Definition it_ws (i : item) : bool := match i with IEl x => tx_ws x | ITx s => ws_only s end.
Fixpoint els (l : list item) : list xn :=
  match l with [] => [] | IEl x :: r => if is_el x then x :: els r else els r | ITx _ :: r => els r end.

Lemma ws_only_app a b : ws_only (a ++ b) = ws_only a && ws_only b.
Proof. apply forallb_app. Qed.

Lemma filter_mergeA : forall l acc, filter is_el (mergeA acc l) = els l.
Proof.
  induction l as [|[s|x] l IH]; intro acc; simpl.
  - destruct acc; reflexivity.
  - apply IH.
  - destruct acc; simpl; rewrite IH; reflexivity.
Qed.
Lemma filter_map_norm l : filter is_el (map norm l) = map norm (filter is_el l).
Proof.
  induction l as [|x l IH]; [reflexivity|]. destruct x as [t a k|s]; simpl.
  - destruct (existsb is_el k && forallb tx_ws k); simpl; rewrite IH; reflexivity.
  - exact IH.
Qed.
Lemma exists_mergeA : forall l acc, existsb is_el (mergeA acc l) = existsb it_el l.
Proof.
  induction l as [|[s|x] l IH]; intro acc; simpl.
  - destruct acc; reflexivity.
  - apply IH.
  - destruct acc; simpl; rewrite IH; reflexivity.
Qed.
Lemma ws_mergeA : forall l acc, ws_only acc = true -> forallb it_ws l = true ->
  forallb tx_ws (mergeA acc l) = true.
Proof.
  induction l as [|[s|x] l IH]; intros acc Ha Hl; simpl in *.
  - destruct acc; [reflexivity|]. simpl. simpl in Ha. rewrite Ha. reflexivity.
  - apply andb_true_iff in Hl as [Hs Hl]. apply IH; [|exact Hl]. rewrite ws_only_app, Ha, Hs. reflexivity.
  - apply andb_true_iff in Hl as [Hx Hl]. destruct acc as [|c acc]; simpl.
    + rewrite Hx. apply IH; [reflexivity|exact Hl].
    + simpl in Ha. rewrite Ha, Hx. simpl. apply IH; [reflexivity|exact Hl].
Qed.

(* items of a list of element-only kids *)
Lemma els_items_elems ind add nl kids : existsb is_text kids = false ->
  els (flat_map (items ind add nl) kids) = map (canon_el ind add nl) kids.
Proof.
  induction kids as [|k kids IH]; intro H; [reflexivity|].
  simpl in H. apply orb_false_iff in H as [Hk H].
  destruct k as [tag attrs ks|tag attrs|d|d]; try discriminate; cbn [flat_map].
  - rewrite items_DE. cbn [app els]. rewrite IH by exact H. reflexivity.
  - cbn [items app els canon_el]. rewrite IH by exact H. reflexivity.
Qed.
Lemma ws_items_elems ind add nl kids : existsb is_text kids = false ->
  ws_only ind = true -> ws_only nl = true ->
  forallb it_ws (flat_map (items ind add nl) kids) = true.
Proof.
  induction kids as [|k kids IH]; intros H Hi Hn; [reflexivity|].
  simpl in H. apply orb_false_iff in H as [Hk H].
  destruct k as [tag attrs ks|tag attrs|d|d]; try discriminate; cbn [flat_map].
  - rewrite items_DE. cbn [app forallb it_ws]. rewrite Hi, Hn, IH by assumption. reflexivity.
  - cbn [items app forallb it_ws]. rewrite Hi, Hn, IH by assumption. reflexivity.
Qed.
Lemma has_el_items ind add nl kids : kids <> [] -> existsb is_text kids = false ->
  existsb it_el (flat_map (items ind add nl) kids) = true.
Proof.
  destruct kids as [|k kids]; [congruence|]. intros _ H. simpl in H. apply orb_false_iff in H as [Hk H].
  destruct k as [tag attrs ks|tag attrs|d|d]; try discriminate; cbn [flat_map].
  - rewrite items_DE. reflexivity.
  - reflexivity.
Qed.

Lemma norm_elem_only ind add nl tag attrs kids :
  kids <> [] -> existsb is_text kids = false ->
  ws_only ind = true -> ws_only add = true -> ws_only nl = true ->
  norm (canon_el ind add nl (DE tag attrs kids))
  = El tag attrs (map (fun k => norm (canon_el (ind ++ add) add nl k)) kids).
Proof.
  intros Hne Ht Hi Ha Hn.
  destruct kids as [|k0 kids'] eqn:Ek; [congruence|]. rewrite <- Ek in *.
  assert (E : canon_el ind add nl (DE tag attrs kids) =
              El tag attrs (mergeA [] ([ITx nl] ++ flat_map (items (ind ++ add) add nl) kids ++ [ITx ind]))).
  { rewrite Ek. cbn [canon_el kids_canon]. rewrite <- Ek, Ht. reflexivity. }
  rewrite E. cbn [norm].
  rewrite exists_mergeA.
  assert (Hex : existsb it_el ([ITx nl] ++ flat_map (items (ind ++ add) add nl) kids ++ [ITx ind]) = true).
  { rewrite !existsb_app, has_el_items by assumption. simpl. reflexivity. }
  rewrite Hex.
  assert (Hws : forallb tx_ws (mergeA [] ([ITx nl] ++ flat_map (items (ind ++ add) add nl) kids ++ [ITx ind])) = true).
  { apply ws_mergeA; [reflexivity|]. rewrite !forallb_app.
    rewrite ws_items_elems; [|assumption|rewrite ws_only_app, Hi, Ha; reflexivity|assumption].
    simpl. rewrite Hn, Hi. reflexivity. }
  rewrite Hws. cbn [andb].
  rewrite filter_map_norm, filter_mergeA.
  assert (Hels : els ([ITx nl] ++ flat_map (items (ind ++ add) add nl) kids ++ [ITx ind])
                 = map (canon_el (ind ++ add) add nl) kids).
  { cbn [app els].
    assert (forall a b, els (a ++ b) = els a ++ els b) as Happ.
    { induction a as [|[s|x] a IHa]; intro b; simpl; rewrite ?IHa; [reflexivity|reflexivity|destruct (is_el x); reflexivity]. }
    rewrite Happ, els_items_elems by assumption. simpl. rewrite app_nil_r. reflexivity. }
  rewrite Hels, map_map. reflexivity.
Qed.

Lemma canon_mixed ind add nl tag attrs kids : existsb is_text kids = true ->
  canon_el ind add nl (DE tag attrs kids) = canon_el [] [] [] (DE tag attrs kids).
Proof.
  intro H. destruct kids as [|k0 kids'] eqn:Ek; [discriminate|].
  cbn [canon_el kids_canon]. rewrite H. reflexivity.
Qed.

(* generalised over the current indentation *)
Lemma ws_canon : forall n ind add nl,
  ws_only ind = true -> ws_only add = true -> ws_only nl = true ->
  norm (canon_el ind add nl n) = norm (canon_el [] [] [] n).
Proof.
  fix IHn 1. intros n ind add nl Hi Ha Hn.
  destruct n as [tag attrs kids|tag attrs|d|d]; try reflexivity.
  destruct (existsb is_text kids) eqn:Ht.
  - rewrite canon_mixed by exact Ht. reflexivity.
  - destruct kids as [|k0 kids'] eqn:Ek; [reflexivity|]. rewrite <- Ek in *.
    assert (Hne : kids <> []) by (rewrite Ek; discriminate).
    rewrite (norm_elem_only ind add nl) by assumption.
    rewrite (norm_elem_only [] [] []) by (assumption || reflexivity).
    f_equal. clear Ek Hne Ht. induction kids as [|k ks IHk]; [reflexivity|].
    simpl. f_equal; [|exact IHk].
    apply IHn; try assumption. rewrite ws_only_app, Hi, Ha. reflexivity.
Qed.
