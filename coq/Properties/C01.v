(* Properties/C01.v — every successful conversion returns a well-formed, namespace-valid XForm with
   the ODK skeleton.  Statements only; proofs are in Proofs/{RT,Doc,Top,PinsTop}.v. *)
Require Import PX.Base.Str PX.Model.Dom PX.Model.Top PX.Spec.XmlParse PX.Spec.XmlName PX.Spec.NsCheck
  PX.Spec.Skeleton PX.Spec.DocsNs PX.Proofs.RT PX.Proofs.Doc PX.Proofs.Top PX.Proofs.PinsTop PX.Gen.Top PX.Model.Names PX.Proofs.NamesOk PX.Proofs.PinsNames PX.Gen.Lexer PX.Model.Warnings PX.Model.DomCheck PX.Proofs.DomCheck PX.Proofs.PinsDomCheck PX.Gen.Writer.

Definition parse_doc := xml_parse xml_namestart xml_namech.

(* 1. Writer/parser round trip, both print modes, every DOM tree (any size, depth, text, mix of the
      four node classes): the document parses, and to the canonical image of the tree. *)
Theorem C01_roundtrip : forall n, wf_dom n ->
  parse_doc (to_ugly n) = Some (canon_el [] [] [] n) /\
  parse_doc (to_pretty n) = Some (canon_el [] [SP; SP] [NL] n).
Proof. exact (fun n H => conj (parse_ugly n H) (parse_pretty n H)). Qed.
Print Assumptions C01_roundtrip.

(* 2. Namespace validity and attribute uniqueness carry over from the DOM to the parsed document. *)
Theorem C01_namespaces : forall n, wf_dom n -> dom_ns_ok [] n = true -> dom_attrs_unique n = true ->
  forall pp : bool, exists d,
    parse_doc (if pp then to_pretty n else to_ugly n) = Some d /\ ns_ok [] d = true /\ attrs_unique d = true.
Proof.
  intros n Hwf Hns Hu pp. destruct Hwf as [Hw He].
  destruct pp; eexists; (split; [first [apply parse_pretty | apply parse_ugly]; split; assumption|]);
    (split; [apply ns_ok_canon | apply attrs_unique_canon]; assumption).
Qed.
Print Assumptions C01_namespaces.

(* 3. The skeleton: whatever the generator puts below them, the document Survey.xml() assembles has an
      html root with exactly head and body, head with exactly one title and one model, and the model's
      first instance is the primary instance with one root element carrying the form id. *)
Theorem C01_skeleton : forall nsmap title mattrs pre root rest battrs bkids form_id (pp : bool),
  forallb is_elem pre = true -> forallb (fun n => negb (is_inst n)) pre = true -> forallb is_elem rest = true ->
  (exists t a k, root = DE t a k /\ lookup s_id a = Some form_id) ->
  skeleton (if pp then canon_el [] [SP; SP] [NL] (xml_top nsmap title mattrs pre root rest battrs bkids)
            else canon_el [] [] [] (xml_top nsmap title mattrs pre root rest battrs bkids)) form_id.
Proof. intros. destruct pp; apply top_skeleton; assumption. Qed.
Print Assumptions C01_skeleton.

(* 4. Tie 1: the literal tags/attribute order of Survey.xml / xml_model / xml_instance are those of the
      model, the namespace map is the documented one, and every prefixed literal name is bound by it. *)
Theorem C01_source_constants :
  (TOP_HTML = t_html /\ TOP_HEAD = t_head /\ TOP_TITLE = t_title /\ TOP_BODY = t_body
   /\ MODEL_TAG = t_model /\ MODEL_INSTANCE_TAG = t_instance
   /\ hd [] MODEL_CHILD_ORDER = s_model_children
   /\ nth 1 INSTANCE_ROOT_ATTR_ORDER [] = t_id
   /\ seqb SUBMISSION_TAG t_instance = false)
  /\ (NSMAP = docs_nsmap /\ ENTITIES_NS_DECL = docs_entities_decl)
  /\ forallb (bound (s_entities :: declared NSMAP)) USED_PREFIXED_NAMES = true.
Proof. exact (conj top_constants_pinned (conj nsmap_is_documented literal_prefixes_bound)). Qed.
Print Assumptions C01_source_constants.

(* 5. Every question / group / choice-column name that pyxform's own validator is_xml_tag accepts is an XML
      Name, for ALL strings; and the NAME rule the matcher models is the one in the source now. *)
Theorem C01_names_are_xml_names : forall s : str, is_xml_tag s = true -> xml_name s = true.
Proof. exact names_are_xml_names. Qed.
Print Assumptions C01_names_are_xml_names.
Theorem C01_name_rule_pinned : LEXER_NAME = NAME_PATTERN_MODELLED.
Proof. exact name_pattern_pinned. Qed.
Print Assumptions C01_name_rule_pinned.

(* 6. The hypotheses of 1 and 2 are not left to the caller: they are CHECKED by the code while it builds the document
      (DetachableElement: names by is_xml_tag, attribute values and text by the Char production; Survey.xml: every prefix declared;
      Model/DomCheck.v, run against the real classes).  For EVERY DOM tree that passes those checks -- and an attribute dict has unique
      keys -- the text written, in either print mode, parses to a namespace-valid document with unique attributes ... *)
Theorem C01_accepted_document_wellformed : forall n, is_elem n = true -> document_accepted n = true -> dom_attrs_unique n = true ->
  forall pp : bool, exists d,
    parse_doc (if pp then to_pretty n else to_ugly n) = Some d /\ ns_ok [] d = true /\ attrs_unique d = true.
Proof.
  intros n He Ha Hu. destruct (accepted_document_valid n He Ha) as [Hwf Hns]. exact (C01_namespaces n Hwf Hns Hu).
Qed.
Print Assumptions C01_accepted_document_wellformed.
(* ... and consists of XML Chars only (the Spec parser does not check the Char production; this theorem does) *)
Theorem C01_written_characters_are_xml_chars : forall n (pp : bool), built n = true ->
  forallb xml_char (if pp then to_pretty n else to_ugly n) = true.
Proof. exact document_chars_are_xml_chars. Qed.
Print Assumptions C01_written_characters_are_xml_chars.
(* the namespace check of the code is EXACTLY the namespace rule of the specification (Spec/NsCheck.v: prefixes bound, the prefix xmlns
   kept for declarations, the constraints on declarations) on the trees the code can build: it refuses every violation and nothing else *)
Theorem C01_prefix_check_exact : forall n, built n = true -> (document_accepted n = true <-> dom_ns_ok [] n = true).
Proof. exact accepted_iff_spec. Qed.
Print Assumptions C01_prefix_check_exact.
(* a name the code accepts is a QName: at most one colon, with a name on both sides *)
Theorem C01_checked_name_is_qname : forall s : str, is_xml_tag s = true -> qname_ok s = true.
Proof. exact checked_name_is_qname. Qed.
Print Assumptions C01_checked_name_is_qname.
Theorem C01_reserved_namespaces_pinned : XML_NAMESPACE = XML_NS /\ XMLNS_NAMESPACE = XMLNS_NS.
Proof. exact reserved_namespaces_pinned. Qed.
Print Assumptions C01_reserved_namespaces_pinned.
Theorem C01_char_pattern_pinned : INVALID_XML_CHAR_PATTERN = [91;94;9;10;13;32;45;55295;57344;45;65533;65536;45;1114111;93]%N.
Proof. exact char_pattern_pinned. Qed.
Print Assumptions C01_char_pattern_pinned.

(* non-vacuity: a concrete instance of the top-level shape meets every hypothesis *)
Definition ex_top : node :=
  xml_top NSMAP [84]%N [] [] (DE [100;97;116;97]%N [(t_id, [102])]%N [ME [113]%N []]) [ME [98;105;110;100]%N []] [] [ME [105;110;112;117;116]%N []].
Theorem C01_nonvacuous : wf_dom ex_top /\ dom_ns_ok [] ex_top = true /\ dom_attrs_unique ex_top = true /\
  skeleton (canon_el [] [SP; SP] [NL] ex_top) [102]%N.
Proof.
  split; [|split; [vm_compute; reflexivity|split; [vm_compute; reflexivity|]]].
  - unfold wf_dom, ex_top, xml_top, okname. simpl. repeat split; repeat constructor.
  - apply top_skeleton; try reflexivity. eexists _, _, _. split; reflexivity.
Qed.
Print Assumptions C01_nonvacuous.

(* the checks of 6 accept the example document, and refuse a name with a space, a control character, an undeclared prefix, an element
   with the prefix xmlns, a prefix declared for the empty namespace and a redeclared xml prefix *)
Theorem C01_checks_nonvacuous :
  document_accepted ex_top = true /\ is_elem ex_top = true /\
  document_accepted (DE [97;32;98]%N [] []) = false /\
  document_accepted (DE [97]%N [] [PT [81;1]%N]) = false /\
  document_accepted (DE [97]%N [([98], [1])]%N []) = false /\
  document_accepted (DE [97]%N [([102;58;98], [118])]%N []) = false /\
  document_accepted (DE [97]%N [([120;109;108;110;115;58;102], [117]); ([102;58;98], [118])]%N []) = true /\
  document_accepted (DE [120;109;108;110;115;58;102]%N [] []) = false /\
  document_accepted (DE [97]%N [([120;109;108;110;115;58;102], [])]%N []) = false /\
  document_accepted (DE [97]%N [([120;109;108;110;115;58;120;109;108], [117])]%N []) = false.
Proof. vm_compute. repeat split; reflexivity. Qed.
Print Assumptions C01_checks_nonvacuous.

(* 7. The last hypothesis of 6, unique attribute names, is established by construction: attributes are set one at a time under their whole
      name (DetachableElement.setAttribute, source pinned), so whatever the sequence of calls no name occurs twice on an element *)
Require Import PX.Model.Bind PX.Proofs.AttrUnique.
Theorem C01_attributes_unique_by_construction : forall calls, dup_free (map fst (set_attributes calls)) = true.
Proof. exact attributes_unique_by_construction. Qed.
Print Assumptions C01_attributes_unique_by_construction.
