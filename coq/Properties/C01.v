(* Properties/C01.v — every successful conversion returns a well-formed, namespace-valid XForm with
   the ODK skeleton.  Statements only; proofs are in Proofs/{RT,Doc,Top,PinsTop}.v. *)
Require Import PX.Base.Str PX.Model.Dom PX.Model.Top PX.Spec.XmlParse PX.Spec.XmlName PX.Spec.NsCheck
  PX.Spec.Skeleton PX.Spec.DocsNs PX.Proofs.RT PX.Proofs.Doc PX.Proofs.Top PX.Proofs.PinsTop PX.Gen.Top PX.Model.Names PX.Proofs.NamesOk PX.Proofs.PinsNames PX.Gen.Lexer.

Definition parse_doc := xml_parse xml_namestart xml_namech.

(* 1. Writer/parser round trip, both print modes, every DOM tree (any size, depth, text, mix of the
      four node classes): the document parses, and to the canonical image of the tree. *)
Theorem C01_roundtrip : forall n, wf_dom n ->
  parse_doc (to_ugly n) = Some (canon_el [] [] [] n) /\
  parse_doc (to_pretty n) = Some (canon_el [] [SP; SP] [NL] n).
Proof. exact (fun n H => conj (parse_ugly n H) (parse_pretty n H)). Qed.
Print Assumptions C01_roundtrip.

(* 2. Namespace validity and attribute uniqueness carry over from the DOM to the parsed document. *)
Theorem C01_namespaces : forall n, wf_dom n -> dom_ns_ok [] n = true -> dom_attrs_unique n = true ->
  forall pp : bool, exists d,
    parse_doc (if pp then to_pretty n else to_ugly n) = Some d /\ ns_ok [] d = true /\ attrs_unique d = true.
Proof.
  intros n Hwf Hns Hu pp. destruct Hwf as [Hw He].
  destruct pp; eexists; (split; [first [apply parse_pretty | apply parse_ugly]; split; assumption|]);
    (split; [apply ns_ok_canon | apply attrs_unique_canon]; assumption).
Qed.
Print Assumptions C01_namespaces.

(* 3. The skeleton: whatever the generator puts below them, the document Survey.xml() assembles has an
      html root with exactly head and body, head with exactly one title and one model, and the model's
      first instance is the primary instance with one root element carrying the form id. *)
Theorem C01_skeleton : forall nsmap title mattrs pre root rest battrs bkids form_id (pp : bool),
  forallb is_elem pre = true -> forallb (fun n => negb (is_inst n)) pre = true -> forallb is_elem rest = true ->
  (exists t a k, root = DE t a k /\ lookup s_id a = Some form_id) ->
  skeleton (if pp then canon_el [] [SP; SP] [NL] (xml_top nsmap title mattrs pre root rest battrs bkids)
            else canon_el [] [] [] (xml_top nsmap title mattrs pre root rest battrs bkids)) form_id.
Proof. intros. destruct pp; apply top_skeleton; assumption. Qed.
Print Assumptions C01_skeleton.

(* 4. Tie 1: the literal tags/attribute order of Survey.xml / xml_model / xml_instance are those of the
      model, the namespace map is the documented one, and every prefixed literal name is bound by it. *)
Theorem C01_source_constants :
  (TOP_HTML = t_html /\ TOP_HEAD = t_head /\ TOP_TITLE = t_title /\ TOP_BODY = t_body
   /\ MODEL_TAG = t_model /\ MODEL_INSTANCE_TAG = t_instance
   /\ hd [] MODEL_CHILD_ORDER = s_model_children
   /\ nth 1 INSTANCE_ROOT_ATTR_ORDER [] = t_id
   /\ seqb SUBMISSION_TAG t_instance = false)
  /\ (NSMAP = docs_nsmap /\ ENTITIES_NS_DECL = docs_entities_decl)
  /\ forallb (bound (s_entities :: declared NSMAP)) USED_PREFIXED_NAMES = true.
Proof. exact (conj top_constants_pinned (conj nsmap_is_documented literal_prefixes_bound)). Qed.
Print Assumptions C01_source_constants.

(* 5. Every question / group / choice-column name that pyxform's own validator is_xml_tag accepts is an XML
      Name, for ALL strings; and the NAME rule the matcher models is the one in the source now. *)
Theorem C01_names_are_xml_names : forall s : str, is_xml_tag s = true -> xml_name s = true.
Proof. exact names_are_xml_names. Qed.
Print Assumptions C01_names_are_xml_names.
Theorem C01_name_rule_pinned : LEXER_NAME = NAME_PATTERN_MODELLED.
Proof. exact name_pattern_pinned. Qed.
Print Assumptions C01_name_rule_pinned.

(* non-vacuity: a concrete instance of the top-level shape meets every hypothesis *)
Definition ex_top : node :=
  xml_top NSMAP [84]%N [] [] (DE [100;97;116;97]%N [(t_id, [102])]%N [ME [113]%N []]) [ME [98;105;110;100]%N []] [] [ME [105;110;112;117;116]%N []].
Theorem C01_nonvacuous : wf_dom ex_top /\ dom_ns_ok [] ex_top = true /\ dom_attrs_unique ex_top = true /\
  skeleton (canon_el [] [SP; SP] [NL] ex_top) [102]%N.
Proof.
  split; [|split; [vm_compute; reflexivity|split; [vm_compute; reflexivity|]]].
  - unfold wf_dom, ex_top, xml_top, okname. simpl. repeat split; repeat constructor.
  - apply top_skeleton; try reflexivity. eexists _, _, _. split; reflexivity.
Qed.
Print Assumptions C01_nonvacuous.
