(* Properties/C02.v — model, instance and body agree: every nodeset/ref names one existing node.  Statements only. *)
Require Import PX.Base.Str PX.Model.Tree PX.Proofs.Tree.

(* closure: for EVERY element tree (any depth, any mix of groups and repeats), every bind nodeset and every body
   ref / repeat nodeset is a path of the primary instance that Section.xml_instance builds from the same tree *)
Theorem C02_refs_resolve : forall root : elem,
  incl (bind_nodesets [] root ++ control_refs [] root) (ipaths [] (inst false root)).
Proof. intro root. pose proof (refs_resolve root) as H. rewrite map_id in H. exact H. Qed.
Print Assumptions C02_refs_resolve.

(* the live (non-template) part of the instance has exactly one node per element, in document order *)
Theorem C02_instance_is_the_tree : forall (root : elem) (append_template : bool),
  ipaths_live [] (inst append_template root) = all_paths [] root.
Proof. intros. apply inst_live. Qed.
Print Assumptions C02_instance_is_the_tree.

(* uniqueness: a tree that passes validation has no duplicate instance path, no node bound twice and no two
   question controls sharing a ref *)
Theorem C02_unique_when_valid : forall root : elem, validate root = true ->
  NoDup (ipaths_live [] (inst false root)) /\ NoDup (bind_nodesets [] root) /\ NoDup (select is_qcontrol [] root).
Proof. exact unique_when_valid. Qed.
Print Assumptions C02_unique_when_valid.

(* forms whose names would make a path ambiguous are rejected instead of converted *)
Theorem C02_ambiguous_rejected : forall root : elem, ~ NoDup (all_paths [] root) -> validate root = false.
Proof. exact ambiguous_rejected. Qed.
Print Assumptions C02_ambiguous_rejected.

(* non-vacuity: a valid nested tree, and a clash that differs only by case *)
Definition ex_tree2 : elem :=
  G [100]%N false false [Q [97]%N true true; R [114]%N true [Q [98]%N true true; G [103]%N false false [R [115]%N false [Q [99]%N true false]]]].
Theorem C02_nonvacuous :
  validate ex_tree2 = true /\ length (ipaths [] (inst false ex_tree2)) = 14 /\ length (all_paths [] ex_tree2) = 7
  /\ validate (G [100]%N false false [Q [97]%N true true; Q [65]%N true true]) = false.
Proof. vm_compute. repeat split; reflexivity. Qed.
Print Assumptions C02_nonvacuous.

(* ---- the `flat` setting (Model/Flat.v): sections marked flat are left out of the instance and of every xpath ---- *)
Require Import PX.Model.Flat PX.Proofs.Flat.
(* model, instance and body agree under flat: for EVERY tree of flat and non-flat sections (any depth, any mix), the xpath of every
   element that has a node is, in order, the path of its node in the primary instance *)
Theorem C02_flat_paths_agree : forall name kids,
  xpaths [] (FS name false kids) = flat_map (ipaths []) (inst_list (FS name false kids)).
Proof. exact flat_paths_agree. Qed.
Print Assumptions C02_flat_paths_agree.
(* ... and the validation (children as they appear in the instance must have distinct lower-cased names) makes every node's
   children distinct at every depth of the instance, whatever the key function *)
Theorem C02_flat_valid_instance_unambiguous : forall key name kids,
  valid key (FS name false kids) = true -> it_unique key (IN name (flat_map inst_list kids)).
Proof. exact flat_valid_instance_unambiguous. Qed.
Print Assumptions C02_flat_valid_instance_unambiguous.
(* the rule of the unrepaired code (uniqueness among a section's own children) is refuted: defect F35 *)
Theorem C02_flat_per_section_rule_refuted :
  valid_per_section (fun s => s) f35_witness = true /\ ~ it_unique (fun s => s) (IN [100%N] (flat_map inst_list f35_kids))
  /\ valid (fun s => s) f35_witness = false.
Proof. exact per_section_rule_refuted. Qed.
Print Assumptions C02_flat_per_section_rule_refuted.

