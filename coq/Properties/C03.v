(* Properties/C03.v — ${name} references become XPaths that reach the named question's node.  Statements only. *)
Require Import PX.Base.Str PX.Model.Tree PX.Model.Refs PX.Model.RefsClean PX.Proofs.RefsClean.

(* Whenever a reference is resolved to a relative path (steps times "..", then a path down), evaluating it from the
   referrer's node C yields exactly the target's node T — for EVERY placement of referrer and target in every tree of
   groups and repeats, any depth.  Hypothesis: the target is not an ancestor-or-self of the referrer (true of every
   question target: questions have no children). *)
Theorem C03_reaches_partial : forall (reps : list path) (C T : path) steps down,
  clean_resolve reps C T = Some (steps, down) -> is_prefix T C = false -> go C steps down = T.
Proof. exact clean_reaches. Qed.
Print Assumptions C03_reaches_partial.

(* the reference is relative whenever the target's innermost enclosing repeat also encloses the referrer *)
Theorem C03_relative_when_required : forall (reps : list path) (C T xp : path),
  nearest_repeat reps T = Some xp -> is_prefix xp C = true -> length xp < length C -> 2 <= length xp ->
  exists r, clean_resolve reps C T = Some r.
Proof. exact clean_relative_when_required. Qed.
Print Assumptions C03_relative_when_required.

(* `partial`: the theorems are about the component-list resolution (Model/RefsClean.v).  The string-faithful model of
   survey.py (Model/Refs.v) and the implementation are shown equal to it by evaluation on every generated layout (ops
   D.var_repl, D.var_repl_clean), not by proof: the code slices path TEXT by len(), and equality with component
   arithmetic is not derivable in general (it failed for prefix-named sibling repeats: finding F5, repaired). *)

(* non-vacuity: context /d/o/s/c, target /d/o/r/t with repeats o, r, s: two steps up to o, then r/t *)
Definition n (c : N) : str := [c].
Theorem C03_nonvacuous :
  clean_resolve [[n 100; n 111]; [n 100; n 111; n 114]; [n 100; n 111; n 115]] [n 100; n 111; n 115; n 99] [n 100; n 111; n 114; n 116]
    = Some (2, [n 114; n 116])
  /\ go [n 100; n 111; n 115; n 99] 2 [n 114; n 116] = [n 100; n 111; n 114; n 116].
Proof. vm_compute. split; reflexivity. Qed.
Print Assumptions C03_nonvacuous.
