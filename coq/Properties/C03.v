(* Properties/C03.v — ${name} references become XPaths that reach the named question's node.  Statements only. *)
Require Import PX.Base.Str PX.Model.Tree PX.Model.Refs PX.Model.RefsClean PX.Proofs.RefsClean PX.Proofs.RefsEq.

(* The model of survey.py's own computation — which slices path TEXT by len(), loops with an IndexError arm, and picks the context
   parent as the code does (Model/Refs.v, the code after fixes 03277b0 and b68def5) — IS the component-list resolution, for EVERY tree
   whose names are non-empty and slash-free, every referrer and every target.  (On the unrepaired code this equality is false:
   findings F5 and F30 are its counterexamples.) *)
Theorem C03_model_is_component_resolution : forall root c t, names_ok root ->
  resolve_in_tree root c t false false false = clean_resolve_text root c t.
Proof. exact resolve_is_clean. Qed.
Print Assumptions C03_model_is_component_resolution.

(* Whenever a reference is resolved to a relative path (steps times "..", then a path down), evaluating it from the
   referrer's node C yields exactly the target's node T — for EVERY placement of referrer and target in every tree of
   groups and repeats, any depth.  Hypothesis: the target is not an ancestor-or-self of the referrer (true of every
   question target: questions have no children). *)
Theorem C03_reaches : forall (reps : list path) (C T : path) steps down,
  clean_resolve reps C T = Some (steps, down) -> is_prefix T C = false -> go C steps down = T.
Proof. exact clean_reaches. Qed.
Print Assumptions C03_reaches.

(* the two together, on the string-faithful model: the text it emits for a reference is either the target's absolute path or the
   rendering of a relative path that leads from the referrer's node to the target's node *)
Theorem C03_emitted_path_reaches_target : forall root c t C T, names_ok root ->
  find_paths c [] root = [C] -> find_paths t [] root = [T] -> is_prefix T C = false ->
  resolve_in_tree root c t false false false = [32%N] ++ path_text T ++ [32%N] \/
  exists steps down, resolve_in_tree root c t false false false = [32%N] ++ join_sl (repeat dotdot steps) ++ [SL] ++ join_sl down ++ [32%N]
                     /\ go C steps down = T.
Proof.
  intros root c t C T Hok HC HT Hanc. rewrite (resolve_is_clean root c t Hok). unfold clean_resolve_text. rewrite HC, HT.
  destruct (clean_resolve (repeat_paths [] root) C T) as [[steps down]|] eqn:E; [right|left; reflexivity].
  exists steps, down. split; [reflexivity|]. exact (clean_reaches _ C T steps down E Hanc).
Qed.
Print Assumptions C03_emitted_path_reaches_target.

(* the reference is relative whenever the target's innermost enclosing repeat also encloses the referrer *)
Theorem C03_relative_when_required : forall (reps : list path) (C T xp : path),
  nearest_repeat reps T = Some xp -> is_prefix xp C = true -> length xp < length C -> 2 <= length xp ->
  exists r, clean_resolve reps C T = Some r.
Proof. exact clean_relative_when_required. Qed.
Print Assumptions C03_relative_when_required.

(* non-vacuity: context /d/o/s/c, target /d/o/r/t with repeats o, r, s: two steps up to o, then r/t; and the layout of finding F30 *)
Definition n (c : N) : str := [c].
Theorem C03_nonvacuous :
  clean_resolve [[n 100; n 111]; [n 100; n 111; n 114]; [n 100; n 111; n 115]] [n 100; n 111; n 115; n 99] [n 100; n 111; n 114; n 116]
    = Some (2, [n 114; n 116])
  /\ go [n 100; n 111; n 115; n 99] 2 [n 114; n 116] = [n 100; n 111; n 114; n 116]
  /\ resolve_in_tree (G (n 100) false false [R (n 111) false [G [122;122;122;122;97]%N false false [Q (n 113) true true];
                                                                R (n 97) false [R (n 98) false [Q (n 99) true false]]]]) (n 99) (n 113) false false false
     = [32;46;46;47;46;46;47;46;46;47;122;122;122;122;97;47;113;32]%N.
Proof. vm_compute. repeat split; reflexivity. Qed.
Print Assumptions C03_nonvacuous.

(* ---- indexed-repeat(): the argument text is split on top-level commas only (survey.split_function_args, Model/Args.v) ---- *)
Require Import PX.Model.Args PX.Proofs.Args.
Theorem C03_arguments_split_losslessly : forall s, join [COMMA] (split_function_args s) = s.
Proof. exact split_lossless. Qed.
Print Assumptions C03_arguments_split_losslessly.
(* an argument such as position(..) or if(a, b, c) stays one argument, so the positions of the later arguments are not shifted *)
Theorem C03_parenthesised_argument_is_one_piece : forall pre inner post,
  forallb (fun c => negb (N.eqb c LP) && negb (N.eqb c RP) && negb (N.eqb c COMMA)) pre = true ->
  forallb (fun c => negb (N.eqb c LP) && negb (N.eqb c RP)) inner = true ->
  forallb (fun c => negb (N.eqb c LP) && negb (N.eqb c RP) && negb (N.eqb c COMMA)) post = true ->
  split_function_args (pre ++ [LP] ++ inner ++ [RP] ++ post) = [pre ++ [LP] ++ inner ++ [RP] ++ post].
Proof. exact parenthesised_group_is_one_piece. Qed.
Print Assumptions C03_parenthesised_argument_is_one_piece.
Theorem C03_plain_arguments_split_on_commas : forall s,
  forallb (fun c => negb (N.eqb c LP) && negb (N.eqb c RP)) s = true -> split_function_args s = split_on COMMA s.
Proof. exact split_plain. Qed.
Print Assumptions C03_plain_arguments_split_on_commas.
Theorem C03_indexed_repeat_source_constants :
  PX.Gen.Lexer.INDEXED_REPEAT_ABSOLUTE_ARGS = ABSOLUTE_ARG_POSITIONS /\ PX.Gen.Lexer.INDEXED_REPEAT_CALL = PX.Model.FindCalls.KW.
Proof. exact indexed_repeat_constants_pinned. Qed.
Print Assumptions C03_indexed_repeat_source_constants.


(* ---- several indexed-repeat() calls in one expression: which call, if any, a reference sits in (Model/CallScan.v; the loop's source is pinned) ---- *)
Require Import PX.Model.CallScan PX.Proofs.CallScan.
(* for ANY number of calls (in text order, not overlapping): a reference inside a call is found in exactly that call ... *)
Theorem C03_reference_found_in_its_call : forall calls from s e c, calls_ok from calls -> s < e -> In c calls -> inside c s e -> scan calls s e = InCall c.
Proof. exact scan_finds_the_call. Qed.
Print Assumptions C03_reference_found_in_its_call.
(* ... a reference outside every call (before, between, after) is outside, hence relative ... *)
Theorem C03_reference_outside_every_call : forall calls from s e, calls_ok from calls -> s < e -> (forall c, In c calls -> apart c s e) -> scan calls s e = Outside.
Proof. exact scan_outside. Qed.
Print Assumptions C03_reference_outside_every_call.
(* ... and the scan never ends without a decision *)
Theorem C03_call_scan_decides : forall calls s e, scan calls s e <> FellThrough.
Proof. exact scan_never_falls_through. Qed.
Print Assumptions C03_call_scan_decides.
(* the loop as it was before the repair (defect F60) misses a reference inside the second of two calls *)
Theorem C03_unrepaired_call_scan_refuted : exists calls s e c, calls_ok 0 calls /\ s < e /\ In c calls /\ inside c s e /\ old_scan calls s e <> InCall c.
Proof. exact old_scan_refuted. Qed.
Print Assumptions C03_unrepaired_call_scan_refuted.

(* ---- which ARGUMENT of the call a reference is: decided by its position (Model/ArgIndex.v; loop source pinned) ---- *)
Require Import PX.Model.ArgIndex PX.Proofs.ArgIndex.
(* a position inside the i-th argument is attributed to the i-th argument, whatever the other arguments hold -- in particular when another
   argument mentions the same name (indexed-repeat(${q}, ${r}, ${q}): defect F72) *)
Theorem C03_position_decides_argument : forall pre a post p,
  start_after pre <= p < start_after pre + length a -> arg_index (pre ++ a :: post) p = Some (length pre).
Proof. exact position_decides_argument. Qed.
Print Assumptions C03_position_decides_argument.
Theorem C03_argument_found_holds_position : forall args p i, arg_index args p = Some i ->
  exists pre a post, args = pre ++ a :: post /\ i = length pre /\ start_after pre <= p < start_after pre + length a.
Proof. exact argument_found_holds_position. Qed.
Print Assumptions C03_argument_found_holds_position.

(* ---- how the calls are found: by counting parentheses from the keyword (Model/FindCalls.v; source pinned, op S.find_calls) ---- *)
Require Import PX.Model.FindCalls PX.Proofs.FindCalls.
(* the arguments of a call may nest parentheses to ANY depth: scanning from the opening parenthesis ends exactly at the one that closes it *)
Theorem C03_balanced_arguments_closed : forall body post, balanced body -> close_paren 1 (body ++ RPc :: post) = Some (S (length body)).
Proof. exact balanced_arguments_closed. Qed.
Print Assumptions C03_balanced_arguments_closed.
Theorem C03_first_call_found : forall pre body post,
  find_sub KW (pre ++ KW ++ body ++ RPc :: post) = Some (length pre) -> balanced body ->
  exists more, find_calls (pre ++ KW ++ body ++ RPc :: post) = (length pre, (length pre + 15 + S (length body))%nat) :: more.
Proof. exact first_call_found. Qed.
Print Assumptions C03_first_call_found.

(* ---- is a reference inside a predicate of a secondary-instance path?  By bracket depth (Model/InPredicate.v; source pinned) ---- *)
Require Import PX.Model.InPredicate PX.Proofs.InPredicate.
(* after a bracket that is still open the reference is inside -- whatever complete predicates, nested to any depth, stand before it or
   between the bracket and it; with two brackets open (the outer of two nested predicates: defect F74) likewise; after complete predicates
   only it is outside *)
Theorem C03_open_bracket_is_inside : forall a b, bbalanced a -> bbalanced b -> in_predicate (a ++ LB :: b) = true.
Proof. exact open_bracket_is_inside. Qed.
Print Assumptions C03_open_bracket_is_inside.
Theorem C03_two_open_brackets_inside : forall a b c, bbalanced a -> bbalanced b -> bbalanced c -> in_predicate (a ++ LB :: b ++ LB :: c) = true.
Proof. exact two_open_brackets_inside. Qed.
Print Assumptions C03_two_open_brackets_inside.
Theorem C03_after_complete_predicates_outside : forall a, bbalanced a -> in_predicate a = false.
Proof. exact after_complete_predicates_outside. Qed.
Print Assumptions C03_after_complete_predicates_outside.
