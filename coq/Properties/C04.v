(* Properties/C04.v — survey rows map one-to-one, in order and nesting, onto instance and body.  Statements only. *)
Require Import PX.Base.Str PX.Spec.Nest PX.Spec.DocsTypes PX.Model.Rows PX.Model.Tree PX.Proofs.Rows PX.Proofs.Tree PX.Proofs.Types PX.Gen.Types.

(* the begin/end stack implements the nesting grammar, for EVERY row sequence (any length, any depth, skipped rows
   anywhere): every well-nested sheet parses to its tree … *)
Theorem C04_parser_complete : forall rows ts, Nest rows ts -> parse_rows rows = POk ts.
Proof. exact parse_complete. Qed.
Print Assumptions C04_parser_complete.
(* … and whatever parses, read back in document order, is exactly the effective rows: one node per question/group/
   repeat row, in sheet order, nested as the begin/end rows nest; skipped rows produce nothing *)
Theorem C04_parser_sound : forall rows ts, parse_rows rows = POk ts -> flat_map flatten ts = strip rows.
Proof. exact parse_sound. Qed.
Print Assumptions C04_parser_sound.

(* an unbalanced sheet is rejected at the right row (2 + rows above, blank/disabled rows counted) or by name *)
Theorem C04_unbalanced_located : forall pre ts, Nest pre ts ->
  (forall k rest, parse_rows (pre ++ RowEnd k :: rest) = PErr (UnmatchedEnd (2 + length pre))) /\
  (forall k k' nm inner kids rest, Nest inner kids -> ckind_eqb k k' = false ->
     parse_rows (pre ++ RowBegin k nm :: inner ++ RowEnd k' :: rest) = PErr (UnmatchedEnd (2 + length pre + 1 + length inner))) /\
  (forall k nm inner kids, Nest inner kids -> parse_rows (pre ++ RowBegin k nm :: inner) = PErr (UnmatchedBegin k nm)).
Proof.
  intros pre ts H. split; [|split].
  - intros. eapply unmatched_end_located; eassumption.
  - intros. eapply mismatched_end_located; eassumption.
  - intros. eapply unmatched_begin_named; eassumption.
Qed.
Print Assumptions C04_unbalanced_located.

(* stage D: the primary instance has one live node per element, in order and nesting, plus one jr:template copy
   rule (Model/Tree.v); shared with C02 *)
Theorem C04_instance_order : forall (root : elem) (append_template : bool),
  ipaths_live [] (inst append_template root) = all_paths [] root.
Proof. intros. apply inst_live. Qed.
Print Assumptions C04_instance_order.

(* every documented question type maps to the documented control tag, mediatype, bind type and preload attributes *)
Theorem C04_type_table : forall d, In d docs_types -> qtd_lookup (fst (fst (fst (fst (fst d))))) QTD = Some d.
Proof. exact documented_types. Qed.
Print Assumptions C04_type_table.

(* non-vacuity *)
Definition ex_rows : list row :=
  [RowQ [97]%N; RowSkip; RowBegin KRepeat [114]%N; RowQ [98]%N; RowBegin KGroup [103]%N; RowSkip; RowQ [99]%N; RowEnd KGroup; RowEnd KRepeat; RowQ [100]%N].
Theorem C04_nonvacuous :
  parse_rows ex_rows = POk [TQ [97]%N; TS KRepeat [114]%N [TQ [98]%N; TS KGroup [103]%N [TQ [99]%N]]; TQ [100]%N]
  /\ parse_rows (firstn 8 ex_rows) = PErr (UnmatchedBegin KRepeat [114]%N)
  /\ parse_rows [RowQ [97]%N; RowSkip; RowEnd KGroup] = PErr (UnmatchedEnd 4).
Proof. vm_compute. repeat split; reflexivity. Qed.
Print Assumptions C04_nonvacuous.

(* composition of the stages for the structural fragment (questions, groups, repeats): the rows of a balanced sheet are parsed into
   the nesting the grammar dictates; the primary instance built from it, written by the compact writer and read back by the independent
   XML parser, has exactly the shape of the instance tree (tags, jr:template markers, children in order); and its live nodes, in
   document order, are the root followed by exactly the named rows of the sheet in sheet order *)
Require Import PX.Model.Dom PX.Spec.XmlParse PX.Spec.XmlName PX.Spec.Shape PX.Proofs.Doc PX.Proofs.Convert.
Theorem C04_rows_to_parsed_instance : forall rows ts root_name,
  Nest rows ts -> Forall xname (enames (survey_tree root_name ts)) ->
  parse_rows rows = POk ts /\
  exists x, parse (instance_doc root_name ts) = Some x /\
            xshape x = Sh s_instance [] [ishape (inst false (survey_tree root_name ts))].
Proof. exact rows_to_parsed_instance. Qed.
Print Assumptions C04_rows_to_parsed_instance.
Theorem C04_live_instance_is_the_sheet : forall rows ts root_name, Nest rows ts ->
  map (fun p => last p []) (ipaths_live [] (inst false (survey_tree root_name ts))) = root_name :: row_names rows.
Proof. exact live_instance_is_the_sheet. Qed.
Print Assumptions C04_live_instance_is_the_sheet.

(* ---- repeat_count: a single reference is used directly, anything else gets the generated <name>_count node. The decision is
   expression.is_pyxform_reference (Model/RefText.v, over the modelled PYXFORM_REF pattern) ---- *)
Require Import PX.Model.Names PX.Model.Scanner PX.Model.RefText PX.Proofs.RefText.
Theorem C04_single_reference_recognised : forall name, ncname_plain name -> is_pyxform_reference ([36;123]%N ++ name ++ [125]%N) = true.
Proof. exact is_reference_wellformed. Qed.
Print Assumptions C04_single_reference_recognised.
(* ${a} + ${b}, ${a}-1, ${a} ${b} ... : whatever follows the closing brace (other than one final line break) makes it an expression *)
Theorem C04_expression_is_not_a_single_reference : forall name t, ncname_plain name -> t <> [] -> t <> [10%N] ->
  is_pyxform_reference ([36;123]%N ++ name ++ [125]%N ++ t) = false.
Proof. exact is_reference_rejects_continuation. Qed.
Print Assumptions C04_expression_is_not_a_single_reference.

(* ---- the type cell (Model/TypeCell.v): the three anchored patterns that tell section openers, closers and selects from questions ---- *)
Require Import PX.Base.PyStr PX.Model.TypeCell PX.Proofs.TypeCell.
(* whatever a pattern returns accounts for every character of the cell: nothing of the cell is dropped or invented *)
Theorem C04_select_cell_accounted_for : forall sel t cmd lst other, parse_select sel t = Some (TSelect cmd lst other) ->
  In cmd sel /\ lst <> [] /\ forallb nonspace lst = true /\
  exists phrase tail, tail_ok tail /\ (other = true -> In phrase OR_OTHER) /\
    t = cmd ++ [32%N] ++ lst ++ (if other then [32%N] ++ phrase else []) ++ tail.
Proof. exact select_sound. Qed.
Print Assumptions C04_select_cell_accounted_for.
Theorem C04_begin_cell_accounted_for : forall ctls t ctl lst, parse_begin ctls t = Some (TBegin ctl lst) ->
  In ctl ctls /\ exists c tail, (py_space c = true \/ c = 95%N) /\ tail_ok tail /\
    match lst with
    | None => t = [98;101;103;105;110]%N ++ [c] ++ ctl ++ tail
    | Some l => l <> [] /\ forallb nonspace l = true /\
                (t = [98;101;103;105;110]%N ++ [c] ++ ctl ++ [32%N] ++ l ++ tail \/ t = [98;101;103;105;110]%N ++ [c] ++ ctl ++ [32%N] ++ s_over ++ l ++ tail)
    end.
Proof. exact begin_sound. Qed.
Print Assumptions C04_begin_cell_accounted_for.
Theorem C04_end_cell_accounted_for : forall ctls t ctl, parse_end ctls t = Some (TEnd ctl) ->
  In ctl ctls /\ exists c tail, (py_space c = true \/ c = 95%N) /\ tail_ok tail /\ t = [101;110;100]%N ++ [c] ++ ctl ++ tail.
Proof. exact end_sound. Qed.
Print Assumptions C04_end_cell_accounted_for.
(* every control word of the regenerated table, after begin/end and a space or an underscore, is recognised as itself; every select command
   of the regenerated table is recognised as itself with a list name, with and without each or_other phrase *)
Theorem C04_documented_openers_recognised : forall a sep, In a controls -> sep = 32%N \/ sep = 95%N -> opener_ok sep a = true.
Proof. exact documented_openers_recognised. Qed.
Print Assumptions C04_documented_openers_recognised.
Theorem C04_documented_selects_recognised : forall a, In a selects -> select_ok a = true.
Proof. exact documented_selects_recognised. Qed.
Print Assumptions C04_documented_selects_recognised.
(* ... and with EVERY list name (non-empty, free of white space): a select command that no other command of the table can be confused
   with (a computable condition; 10 of the 15 commands of the current table meet it) followed by a list name is read as that command
   and that list *)
Theorem C04_unambiguous_select_recognised : forall a l, In a unambiguous_selects -> l <> [] -> forallb nonspace l = true ->
  classify controls selects (a ++ [32%N] ++ l) = TSelect a l false.
Proof. exact unambiguous_select_recognised. Qed.
Print Assumptions C04_unambiguous_select_recognised.
Theorem C04_unambiguous_selects_exist : length unambiguous_selects = 10%nat /\ In [115;101;108;101;99;116;95;111;110;101]%N unambiguous_selects.
Proof. split; [vm_compute; reflexivity|vm_compute; tauto]. Qed.
Print Assumptions C04_unambiguous_selects_exist.


(* the same, under the hypothesis the code itself establishes: every name on the sheet (and the root's) has passed is_xml_tag *)
Require Import PX.Model.Names PX.Proofs.ConvertChecked.
Theorem C04_rows_to_parsed_instance_checked : forall rows ts root_name,
  Nest rows ts -> Forall (fun n => is_xml_tag n = true) (enames (survey_tree root_name ts)) ->
  parse_rows rows = POk ts /\
  exists x, parse (instance_doc root_name ts) = Some x /\
            xshape x = Sh s_instance [] [ishape (inst false (survey_tree root_name ts))].
Proof. exact rows_to_parsed_instance_checked. Qed.
Print Assumptions C04_rows_to_parsed_instance_checked.
