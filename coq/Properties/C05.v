(* Properties/C05.v — logic cells reach the right bind unchanged, with the prescribed type.  Statements only. *)
Require Import PX.Base.Str PX.Model.Warnings PX.Model.Bind PX.Model.Headers PX.Spec.DocsBind PX.Spec.DocsTypes
  PX.Proofs.Bind PX.Proofs.Types PX.Gen.Headers PX.Gen.Types.

(* the row's cells are laid over the type's default bind: a row cell wins, every other default stays, for all dicts *)
Theorem C05_row_over_type_default : forall row_bind type_default k, NoDup (keys row_bind) ->
  dget k (question_bind type_default row_bind) = match dget k row_bind with Some v => Some v | None => dget k type_default end.
Proof. intros. apply update_lookup. assumption. Qed.
Print Assumptions C05_row_over_type_default.

Theorem C05_no_duplicate_attribute : forall row_bind type_default nodeset trig, NoDup (keys type_default) ->
  NoDup (keys (tl (bind_attrs BINDING_CONVERSIONS CONVERTIBLE_BIND_ATTRIBUTES nodeset (question_bind type_default row_bind) trig))).
Proof. intros. apply bind_attrs_unique. apply update_keys_unique. assumption. Qed.
Print Assumptions C05_no_duplicate_attribute.

(* the emitted bind holds exactly the entries of the bind dict, each converted, under its own key; nothing is
   dropped, nothing invented; only `calculate` of a triggered question is withheld *)
Theorem C05_attributes_exact : forall nodeset bind trig k v',
  In (k, v') (tl (bind_attrs BINDING_CONVERSIONS CONVERTIBLE_BIND_ATTRIBUTES nodeset bind trig)) <->
  exists v, In (k, v) bind /\ v' = conv BINDING_CONVERSIONS CONVERTIBLE_BIND_ATTRIBUTES k v /\ (trig && seqb k s_calculate) = false.
Proof. intros. apply bind_attrs_exact. Qed.
Print Assumptions C05_attributes_exact.

(* every documented logic column (and alias) is routed to its bind attribute; the truth-value spellings and the
   convertible attributes are the documented ones; the bind type per question type is the documented one *)
Theorem C05_tables_documented :
  forallb logic_column_ok docs_logic_columns = true
  /\ (forallb (fun p => match dget (fst p) BINDING_CONVERSIONS with Some t => seqb t (snd p) | None => false end) docs_truth = true
      /\ length BINDING_CONVERSIONS = length docs_truth /\ CONVERTIBLE_BIND_ATTRIBUTES = docs_convertible)
  /\ (forall d, In d docs_types -> qtd_lookup (fst (fst (fst (fst (fst d))))) QTD = Some d).
Proof. exact (conj logic_columns_documented (conj truth_values_documented documented_types)). Qed.
Print Assumptions C05_tables_documented.

Theorem C05_nonvacuous :
  tl (bind_attrs BINDING_CONVERSIONS CONVERTIBLE_BIND_ATTRIBUTES [47;100;47;113]%N
        (question_bind [([116;121;112;101], [105;110;116])]%N [([114;101;113;117;105;114;101;100], [121;101;115]); ([99;97;108;99;117;108;97;116;101], [49])]%N) true)
  = [([116;121;112;101], [105;110;116]); ([114;101;113;117;105;114;101;100], [116;114;117;101;40;41])]%N.
Proof. vm_compute. reflexivity. Qed.
Print Assumptions C05_nonvacuous.

(* ---- setting an attribute on the bind: the value set last under a name is the one it carries, and every OTHER name keeps its value -- in
        particular a custom attribute with a prefix (bind::ex:type) leaves the attribute with the same local name (type) alone (defect F61) ---- *)
Require Import PX.Proofs.AttrUnique.
Theorem C05_attribute_set_last_wins : forall calls k v, dget k (set_attributes (calls ++ [(k, v)])) = Some v.
Proof. exact last_value_wins. Qed.
Print Assumptions C05_attribute_set_last_wins.
Theorem C05_other_attributes_untouched : forall calls k v k', k' <> k -> dget k' (set_attributes (calls ++ [(k, v)])) = dget k' (set_attributes calls).
Proof. exact other_names_untouched. Qed.
Print Assumptions C05_other_attributes_untouched.
