(* Properties/C06.v — user text is data, never markup.  Statements only. *)
Require Import PX.Base.Str PX.Model.Dom PX.Model.Mixed PX.Spec.XmlParse PX.Spec.XmlName PX.Spec.Shape PX.Spec.Skeleton
  PX.Proofs.Esc PX.Proofs.RT PX.Proofs.Doc PX.Proofs.Top PX.Proofs.Shape PX.Proofs.Mixed PX.Proofs.PinsWriter PX.Proofs.PinsMixed
  PX.Gen.Writer PX.Gen.Mixed.

(* 1. Both escaping functions are inverted by XML unescaping, for every string over every code point:
      escape_text_for_xml (text nodes) and minidom _write_data (attribute values, re-parsed text). *)
Theorem C06_escaping_inverts : forall s : str, unesc (esc_text s) = Some s /\ unesc (wdata s) = Some s.
Proof. exact (fun s => conj (unescape_escape_text s) (unescape_write_data s)). Qed.
Print Assumptions C06_escaping_inverts.

(* 2. Text-node channel (labels, hints, itext values, titles, instance defaults, choice items): an element
      whose only child is the text s is read back with exactly s, in both print modes, at any depth (canon_el is
      compositional: C01_roundtrip + elkids_canon).  Attribute channel: attribute list read back unchanged. *)
Theorem C06_text_channel : forall ind add nl t a s,
  canon_el ind add nl (DE t a [PT s]) = El t a (match s with [] => [] | _ => [Tx s] end)
  /\ attrs_of (canon_el ind add nl (DE t a [PT s])) = a.
Proof. exact (fun ind add nl t a s => conj (canon_single_text ind add nl t a s) eq_refl). Qed.
Print Assumptions C06_text_channel.

(* 3. Text can never add, remove or rename an element or attribute: the element/attribute skeleton of the
      parsed document is the skeleton of the DOM, which mentions no character data and no attribute value. *)
Theorem C06_shape : forall n (pp : bool), wf_dom n ->
  exists d, xml_parse xml_namestart xml_namech (if pp then to_pretty n else to_ugly n) = Some d /\ xshape d = dshape n.
Proof.
  intros n pp H. pose proof H as [Hw He]. destruct pp; eexists; (split; [first [apply parse_pretty|apply parse_ugly]; exact H|]); apply shape_canon; exact He.
Qed.
Print Assumptions C06_shape.

(* 4. Mixed content: escape, substitute references by output elements, re-parse — the children obtained are
      exactly the interleaving of the cell's text pieces (character for character, adjacent text merged) and one
      output element per reference; nothing else, whatever the text contains. *)
Theorem C06_mixed : forall (ps : list piece) tag rest fuel,
  Forall (fun p => match p with PRef path => very_safe path = true | PTxt _ => True end) ps ->
  2 * length (render ps ++ LT :: SLASH :: tag ++ GT :: rest) + 1 <= fuel ->
  p_content xml_namestart xml_namech fuel (render ps ++ LT :: SLASH :: tag ++ GT :: rest)
    = Some (mergeA [] (map item_of ps), LT :: SLASH :: tag ++ GT :: rest).
Proof. exact mixed_content_rt. Qed.
Print Assumptions C06_mixed.

(* 5. Tie 1 *)
Theorem C06_source_constants :
  XML_TEXT_SUBS = [([AMP], s_amp); ([LT], s_lt); ([GT], s_gt)]
  /\ OUTPUT_OPEN = s_output_open /\ OUTPUT_CLOSE = s_output_close /\ length INSERT_OUTPUT_STEPS = 3.
Proof.
  destruct writer_constants_pinned as (H1 & _). destruct mixed_constants_pinned as (H2 & H3 & H4 & _).
  exact (conj H1 (conj H2 (conj H3 H4))).
Qed.
Print Assumptions C06_source_constants.

(* non-vacuity: hostile text around a reference *)
Definition ex_pieces : list piece := [PTxt [60;98;62;32;38;97;109;112;59;32;93;93;62]%N; PRef [32;47;100;47;113;32]%N; PTxt [32;34;39]%N].
Theorem C06_nonvacuous :
  p_content xml_namestart xml_namech 400 (render ex_pieces ++ LT :: SLASH :: [108]%N ++ GT :: [])
  = Some ([Tx [60;98;62;32;38;97;109;112;59;32;93;93;62]%N; El t_output [(t_value, [32;47;100;47;113;32]%N)] []; Tx [32;34;39]%N], LT :: SLASH :: [108]%N ++ GT :: []).
Proof. vm_compute. reflexivity. Qed.
Print Assumptions C06_nonvacuous.
