(* Properties/C07.v — every itext reference resolves in every language.  Statements only. *)
Require Import PX.Base.Str PX.Model.Itext PX.Proofs.Itext.

(* every reference a question or group emits (label, hint, constraint/required message) names a text entry that
   exists in EVERY translation, for any number of elements and languages and any sparse pattern of translated cells *)
Theorem C07_refs_closed : forall dl (es : list element) e r lang,
  Forall (fun x => element_ok x = true) es -> In e es -> In r (emitted_refs e) ->
  In lang (langs (pad (build (survey_facts dl es)))) ->
  exists fm, lookup (pad (build (survey_facts dl es))) lang r fm <> None.
Proof. exact refs_closed. Qed.
Print Assumptions C07_refs_closed.

(* all translations contain the same ids and, per id, the same forms *)
Theorem C07_uniform : forall (s : store) l1 l2 i fm, In l1 (langs s) -> In l2 (langs s) ->
  (lookup (pad s) l1 i fm <> None <-> lookup (pad s) l2 i fm <> None).
Proof. exact pad_uniform. Qed.
Print Assumptions C07_uniform.

(* choices, after fix 57bc304 (finding F9 repaired): the padding is handed the item ids of every list that uses itext (pad_with), and then
   EVERY id an item carries has an entry in EVERY language, for any list, any other facts in the store and any pattern of missing labels *)
Theorem C07_choice_item_ids_closed : forall dl list_name (cs : list choice) (other : list fact) l id,
  let s := build (other ++ list_facts dl list_name 0 cs) in
  In l (langs s) -> In id (emitted_item_ids list_name cs) ->
  exists fm, lookup (pad_with (emitted_item_ids list_name cs) s) l id fm <> None.
Proof. exact choice_item_ids_closed. Qed.
Print Assumptions C07_choice_item_ids_closed.
(* the padding of the unrepaired code (pad: only ids that some language mentions) left such an id without any entry: the witness that
   exposed finding F9 *)
Theorem C07_padding_without_item_ids_refuted :
  exists id, In id (emitted_item_ids [108]%N f9_choices) /\
  forall l fm, lookup (pad (build (list_facts [100]%N [108]%N 0 f9_choices))) l id fm = None.
Proof. exact unlabelled_choice_refuted. Qed.
Print Assumptions C07_padding_without_item_ids_refuted.
Theorem C07_placeholder_pinned : PX.Gen.Itext.ITEXT_PLACEHOLDER = DASH.
Proof. exact placeholder_pinned. Qed.
Print Assumptions C07_placeholder_pinned.

