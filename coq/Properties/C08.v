(* Properties/C08.v — each language shows exactly the text written for it.  Statements only. *)
Require Import PX.Base.Str PX.Model.Itext PX.Proofs.Itext.

(* after padding, what language l holds for (id, form) is: the text written for (l, id, form) if any; otherwise the
   placeholder '-' when some language has that id and form; otherwise nothing.  Never another language's or another
   id's text.  For every store, i.e. every assignment of texts to (element, column, language). *)
Theorem C08_effective_text : forall (s : store) l i fm,
  lookup (pad s) l i fm =
  match fget l s with
  | None => None
  | Some _ => match lookup s l i fm with
              | Some t => Some t
              | None => if has_form s i fm then Some DASH else None
              end
  end.
Proof. exact pad_lookup. Qed.
Print Assumptions C08_effective_text.

(* what was written for (l, id, form) is stored under exactly that key; a later fact for another key leaves it alone *)
Theorem C08_fact_stored : forall s l i fm t l' i' fm',
  lookup (add_fact s (l, i, fm, t)) l' i' fm' = if seqb l l' && seqb i i' && seqb fm fm' then Some t else lookup s l' i' fm'.
Proof. exact lookup_add_fact. Qed.
Print Assumptions C08_fact_stored.

(* no translation is invented and none is dropped: padding keeps the set of languages *)
Theorem C08_languages_preserved : forall s : store, langs (pad s) = langs s.
Proof. intro s. unfold langs, pad. rewrite map_map. reflexivity. Qed.
Print Assumptions C08_languages_preserved.

Theorem C08_nonvacuous :
  let s := build [([101;110], [113], [108], [65]); ([102;114], [113], [104], [66])]%N in
  lookup (pad s) [101;110]%N [113]%N [104]%N = Some DASH /\ lookup (pad s) [102;114]%N [113]%N [104]%N = Some [66]%N
  /\ lookup (pad s) [101;110]%N [113]%N [108]%N = Some [65]%N.
Proof. vm_compute. repeat split; reflexivity. Qed.
Print Assumptions C08_nonvacuous.

(* stage B: the value a row ends up with under a translatable column family (unsuffixed + name::language cells,
   in ANY left-to-right order, distinct headers) is the documented reading: a suffixed cell speaks for its language,
   the unsuffixed cell for the default language unless that language has its own cell *)
Require Import PX.Model.RowMerge PX.Proofs.RowMerge.
From Coq Require Import Permutation.
Theorem C08_column_family : forall dl (cells : list (option str * str)), NoDup (map fst cells) ->
  Inv dl (process_family dl cells) cells.
Proof. exact family_value. Qed.
Print Assumptions C08_column_family.
Theorem C08_column_order_irrelevant : forall dl (cells cells' : list (option str * str)) l,
  NoDup (map fst cells) -> Permutation cells cells' -> has_suffixed cells = true ->
  vlookup (process_family dl cells) l = vlookup (process_family dl cells') l.
Proof. exact column_order_irrelevant. Qed.
Print Assumptions C08_column_order_irrelevant.
