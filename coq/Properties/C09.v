(* C09 — choice lists survive intact and selects are wired to their own list.
   Only statements closed by exact, with Print Assumptions beneath each. *)
Require Import PX.Base.Str PX.Model.Dom PX.Model.Warnings PX.Model.Bind PX.Gen.Choices PX.Model.Choices PX.Spec.Csv PX.Spec.DocsChoices PX.Proofs.Choices.

(* every list yields an instance whose items are that list's choices, in order, none merged, dropped or added, each
   with the documented children in the documented order (extra columns in column order) *)
Theorem C09_lists_intact : forall list_name its,
  map read_item (items_of (static_instance list_name its)) =
    map Some (doc_items (requires_itext its) list_name 0 (options its)) /\
  length (items_of (static_instance list_name its)) = length (options its) /\
  (exists root, static_instance list_name its = DE s_instance [(s_id, list_name)] [root]).
Proof. exact static_instance_doc. Qed.
Print Assumptions C09_lists_intact.

(* the registry loop: instance ids are unique in the model, every source the form names is declared exactly once
   with its own URI, nothing is declared that the form does not name *)
Theorem C09_declared_exactly_once : forall l out, dedup [] l = Some out ->
  NoDup (map i_name out) /\ incl out l /\
  (forall i, In i l -> exists o, In o out /\ i_name o = i_name i /\ i_src o = i_src i).
Proof. exact dedup_once. Qed.
Print Assumptions C09_declared_exactly_once.
(* ... and a form is rejected by that loop exactly when two sources would need the same id with different URIs *)
Theorem C09_clash_rejected_iff : forall l, dedup [] l = None <->
  exists i j, In i l /\ In j l /\ i_name i = i_name j /\ i_src i <> i_src j.
Proof. exact dedup_rejects_iff. Qed.
Print Assumptions C09_clash_rejected_iff.

(* the itemset of a select reads from the instance of its own list (or file stem), whatever the filter, the
   parameters and the seed are *)
Theorem C09_itemset_reads_own_list : forall its req filter params seed,
  nochar 39%N (own_source its) = true ->
  source_of (fst (fst (itemset_xml its req filter params seed))) = Some (own_source its).
Proof. exact nodeset_reads_own_list. Qed.
Print Assumptions C09_itemset_reads_own_list.
(* ... and is exactly the documented formula: own filter as the predicate, randomize/seed wrapper, value/label refs *)
Theorem C09_itemset_formula : forall its req filter params seed,
  itemset_xml its req filter params seed =
    (doc_nodeset (own_source its) filter (doc_rand params) (doc_seed params seed),
     fst (doc_refs its req params), snd (doc_refs its req params)).
Proof. exact itemset_xml_doc. Qed.
Print Assumptions C09_itemset_formula.

(* external data sources get the conventional jr:// URI and the file stem as id *)
Theorem C09_external_uris :
  (forall its, nonempty its = true -> mem (snd (splitext its)) doc_extensions = true ->
     file_infos its = [mkInfo TFile (fst (splitext its)) (Some (doc_uri_file its))]) /\
  (forall its, mem (snd (splitext its)) doc_extensions = false -> file_infos its = []) /\
  (forall f, pull_info f = mkInfo TPull f (Some (doc_uri_pulldata f))) /\
  (forall n ty u, doc_uri_external n ty = Some u -> ext_info n ty = mkInfo TExt n (Some u)) /\
  (forall its, fst (splitext its) ++ snd (splitext its) = its).
Proof. exact external_uris_doc. Qed.
Print Assumptions C09_external_uris.

(* itemsets.csv, read by an independent RFC 4180 reader, is the external_choices sheet cell for cell under its own headers *)
Theorem C09_csv_reads_back : forall explicit rows, csv_header explicit rows <> [] ->
  parse_csv (itemsets_csv explicit rows) = Some (csv_table explicit rows).
Proof. exact itemsets_csv_reads_back. Qed.
Print Assumptions C09_csv_reads_back.
Theorem C09_csv_cell_under_own_header : forall explicit rows i j row k,
  nth_error rows i = Some row -> nth_error (csv_header explicit rows) j = Some k ->
  exists line, nth_error (csv_table explicit rows) (S i) = Some line /\ nth_error line j = Some (cell_of row k) /\
               nth_error (csv_table explicit rows) 0 = Some (csv_header explicit rows).
Proof. exact csv_cell_under_own_header. Qed.
Print Assumptions C09_csv_cell_under_own_header.

Theorem C09_source_constants :
  EXTERNAL_INSTANCE_EXTENSIONS = doc_extensions /\ REF_VALUE = d_name /\ REF_LABEL = d_label /\
  REF_VALUE_GEOJSON = d_id /\ REF_LABEL_GEOJSON = d_title /\ ITEXT_LABEL_REF = s_itext.
Proof. exact source_constants. Qed.
Print Assumptions C09_source_constants.

Theorem C09_nonvacuous : nonvacuous_witness.
Proof. exact nonvacuous_proof. Qed.
Print Assumptions C09_nonvacuous.

(* ---- which selects are rendered with in-line items: the search() appearance (Model/Search.v) ---- *)
Require Import PX.Model.Search PX.Proofs.Search.
Theorem C09_search_recognised_anywhere : forall pre args post, forallb (fun c => negb (N.eqb c 10)) args = true ->
  is_search (pre ++ SEARCH_LP ++ args ++ [41%N] ++ post) = true.
Proof. exact search_recognised_anywhere. Qed.
Print Assumptions C09_search_recognised_anywhere.
Theorem C09_no_search_text_no_search : forall a, contains SEARCH_LP a = false -> is_search a = false.
Proof. exact no_search_text_no_search. Qed.
Print Assumptions C09_no_search_text_no_search.
Theorem C09_search_pattern_pinned : PX.Gen.Choices.SEARCH_FUNCTION_PATTERN = [115;101;97;114;99;104;92;40;46;42;63;92;41]%N.
Proof. exact search_pattern_pinned. Qed.
Print Assumptions C09_search_pattern_pinned.


(* ---- what happens to a select that uses search() (Model/Redirect.v, run against Survey._redirect_is_search_itext) ---- *)
Require Import PX.Model.Redirect PX.Proofs.Redirect.
(* in-line items are given exactly to search() selects that are not selects from a file and whose list is at hand: the select's own
   copy, or -- for selects that keep none, e.g. randomized ones -- the survey's list of that name *)
Theorem C09_search_inline_iff : forall ap its copy lists b,
  redirect ap its copy lists = RInline b <->
  exists a, ap = Some a /\ is_search a = true /\ from_file its = false /\ (if copy then b = false else b = true /\ mem its lists = true).
Proof. exact redirect_inline_iff. Qed.
Print Assumptions C09_search_inline_iff.
(* a search() select is never silently left as it was: it gets its items or the conversion is refused *)
Theorem C09_search_select_decided : forall a its copy lists, is_search a = true -> redirect (Some a) its copy lists <> RNotSearch.
Proof. exact search_select_decided. Qed.
Print Assumptions C09_search_select_decided.
Theorem C09_listed_search_select_gets_items : forall a its copy lists, is_search a = true -> from_file its = false -> mem its lists = true ->
  redirect (Some a) its copy lists = RInline (negb copy).
Proof. exact listed_select_gets_items. Qed.
Print Assumptions C09_listed_search_select_gets_items.
Theorem C09_unlisted_search_select_rejected : forall a its lists, is_search a = true -> from_file its = false -> mem its lists = false ->
  redirect (Some a) its false lists = RErrNoList.
Proof. exact unlisted_select_rejected. Qed.
Print Assumptions C09_unlisted_search_select_rejected.
Theorem C09_other_selects_untouched : forall ap its copy lists, (forall a, ap = Some a -> is_search a = false) -> redirect ap its copy lists = RNotSearch.
Proof. exact not_search_untouched. Qed.
Print Assumptions C09_other_selects_untouched.
Theorem C09_search_checks_pinned :
  REDIRECT_CHECK_ORDER = [ [101;120;116;32;97;110;100;32;101;120;116;32;105;110;32;69;88;84;69;82;78;65;76;95;73;78;83;84;65;78;67;69;95;69;88;84;69;78;83;73;79;78;83]%N;
                           [105;116;101;109;115;101;116;32;105;115;32;78;111;110;101;32;97;110;100;32;115;101;108;102;46;99;104;111;105;99;101;115]%N;
                           [105;116;101;109;115;101;116;32;105;115;32;78;111;110;101]%N;
                           [110;111;116;32;105;116;101;109;115;101;116;46;117;115;101;100;95;98;121;95;115;101;97;114;99;104]%N ].
Proof. exact redirect_checks_pinned. Qed.
Print Assumptions C09_search_checks_pinned.
