(* C10 — defaults and triggered calculations are applied exactly once.
   Only statements closed by exact, with Print Assumptions beneath each. *)
Require Import PX.Base.Str PX.Model.Warnings PX.Model.Tree PX.Proofs.Tree PX.Gen.Defaults PX.Model.Defaults PX.Proofs.Defaults PX.Gen.Lexer PX.Model.Scanner PX.Proofs.Scanner PX.Proofs.PinsScanner PX.Model.Names PX.Model.RefText PX.Proofs.RefText PX.Proofs.ScanFacts.
From Coq Require Import Permutation.

(* every node of a question in the primary instance, repeat templates included, holds the static default of THAT question
   (nothing when the default is dynamic or absent), and every question has its node *)
Theorem C10_static_default_is_the_node_text : forall root x,
  In x (leaves [] (inst false root)) <-> In x (qtexts [] root).
Proof. exact instance_text_spec. Qed.
Print Assumptions C10_static_default_is_the_node_text.
(* ... and a static default appears nowhere else: no setvalue targets that question *)
Theorem C10_static_default_no_setvalue : forall e pre rep p txt s,
  siblings_ok (erase e) = true -> In (p, txt) (qtexts pre e) -> txt <> [] -> In s (dynspec pre rep e) -> sv_ref s <> p.
Proof. exact static_default_no_setvalue. Qed.
Print Assumptions C10_static_default_no_setvalue.

(* the setvalues of the model together with those of every repeat body are, as a multiset, exactly the dynamic defaults:
   one per dynamic default, none for anything else; the node of such a question is left empty *)
Theorem C10_dynamic_exactly_once : forall root_name kids,
  Permutation (model_sv root_name kids ++ concat (map snd (flat_map (body_sv [root_name]) kids)))
              (flat_map (dynspec [root_name] None) kids).
Proof. exact setvalues_exactly_once. Qed.
Print Assumptions C10_dynamic_exactly_once.
Theorem C10_dynamic_node_empty : forall e pre rep s,
  In s (dynspec pre rep e) -> In (sv_ref s, []) (qtexts pre e) /\ sv_value s <> [].
Proof. exact dynspec_node_empty. Qed.
Print Assumptions C10_dynamic_node_empty.
(* placement: the model holds only defaults of questions outside every repeat; a repeat body holds only defaults whose
   innermost repeat it is; and the repeat recorded by the specification is the innermost one around the question *)
Theorem C10_dynamic_placement :
  (forall root_name kids s, In s (model_sv root_name kids) -> sv_repeat s = None) /\
  (forall e pre rp svs, In (rp, svs) (body_sv pre e) -> Forall (fun s => sv_repeat s = Some rp) svs) /\
  (forall e pre rep s, In s (dynspec pre rep e) -> innermost pre rep e (sv_ref s) (sv_repeat s)).
Proof. exact (conj model_sv_outside_repeats (conj body_sv_in_own_repeat dynspec_innermost)). Qed.
Print Assumptions C10_dynamic_placement.

(* triggers: the control of question a nests exactly one action per row whose trigger is ${a} (setvalue, or setgeopoint for
   background-geopoint) carrying that row's calculation, and nothing else; such a row's bind has no calculate *)
Theorem C10_trigger_exactly_once : forall rows a,
  Permutation (nested_for rows a) (map action_of (filter (is_trig (ref_of a)) rows)).
Proof. exact triggered_exactly_once. Qed.
Print Assumptions C10_trigger_exactly_once.
Theorem C10_trigger_own_question_only :
  (forall rows a r, In r rows -> t_trigger r = Some (ref_of a) -> In (action_of r) (nested_for rows a)) /\
  (forall rows a b r, In r (filter (is_trig (ref_of b)) rows) -> t_trigger r = Some (ref_of a) -> a = b).
Proof. exact (conj trigger_goes_to_own_question not_triggered_elsewhere). Qed.
Print Assumptions C10_trigger_own_question_only.
Theorem C10_trigger_not_also_calculate :
  (forall r k, t_trigger r = Some k -> k <> [] -> bind_calculate r = None) /\
  (forall r, t_trigger r = None -> t_calc r <> [] -> bind_calculate r = Some (t_calc r)).
Proof. exact (conj triggered_no_calculate untriggered_keeps_calculate). Qed.
Print Assumptions C10_trigger_not_also_calculate.

(* the static/dynamic decision over the lexer's tokens: static iff no token of a dynamic kind (types without the hyphen exception) *)
Theorem C10_classifier : forall ts,
  dyn_tokens false ts = false <-> Forall (fun t => mem (fst t) DYNAMIC_TOKEN_NAMES = false) ts.
Proof. exact dyn_tokens_false_false. Qed.
Print Assumptions C10_classifier.
(* the scanner itself (re.Scanner over LEXER_RULES), modelled rule by rule in Model/Scanner.v: on EVERY text it consumes the whole
   text (the remainder is empty) and the token texts concatenate back to the text, so no character of a default is lost or
   invented before the static/dynamic decision; every token is non-empty and carries one of the 26 rule names *)
Theorem C10_scanner_total_and_lossless : forall s, snd (scan s) = [] /\ concat (map snd (fst (scan s))) = s.
Proof. exact scan_consumes_everything. Qed.
Print Assumptions C10_scanner_total_and_lossless.
Theorem C10_scanner_tokens : forall s t, In t (tokens s) -> In (fst t) LEXER_RULE_ORDER /\ snd t <> [].
Proof. exact tokens_named_nonempty. Qed.
Print Assumptions C10_scanner_tokens.
(* the decision on the raw default text, through the modelled scanner *)
Theorem C10_text_classifier : forall d ty, mem ty HYPHEN_TYPES = false ->
  (default_is_dynamic tokens d ty = false <-> d = [] \/ Forall (fun t => mem (fst t) DYNAMIC_TOKEN_NAMES = false) (tokens d)).
Proof. exact text_classifier. Qed.
Print Assumptions C10_text_classifier.
(* a default that is a reference, to the live form or to the last saved one, is dynamic for EVERY NCName and EVERY question type *)
Theorem C10_reference_default_is_dynamic : forall name ty, ncname_plain name ->
  default_is_dynamic tokens ([36;123]%N ++ name ++ [125]%N) ty = true /\
  default_is_dynamic tokens ([36;123]%N ++ LAST_SAVED ++ name ++ [125]%N) ty = true.
Proof. exact reference_default_is_dynamic. Qed.
Print Assumptions C10_reference_default_is_dynamic.
(* an integer literal is one NUMBER token, hence a static default, for EVERY non-empty digit string and EVERY question type *)
Theorem C10_integer_default_is_static : forall s ty, all_digits s ->
  scan s = ([([78;85;77;66;69;82]%N, s)], []) /\ default_is_dynamic tokens s ty = false.
Proof. exact (fun s ty H => conj (digits_are_one_number s H) (integer_default_is_static s ty H)). Qed.
Print Assumptions C10_integer_default_is_static.
(* the 26 patterns and their order are the ones the model was written from (regenerated from /repo on every run) *)
Theorem C10_scanner_patterns_pinned : patterns_as_modelled.
Proof. exact scanner_patterns_pinned. Qed.
Print Assumptions C10_scanner_patterns_pinned.
Theorem C10_source_constants :
  DYNAMIC_TOKEN_NAMES = doc_dynamic_tokens /\ EVENT_FIRST_LOAD = doc_event_first_load /\
  EVENT_FIRST_LOAD ++ EVENT_NEW_REPEAT_SUFFIX = doc_event_new_repeat /\
  HYPHEN_TYPES = [[100;97;116;101]%N; [100;97;116;101;84;105;109;101]%N; [103;101;111;112;111;105;110;116]%N; [103;101;111;115;104;97;112;101]%N; [103;101;111;116;114;97;99;101]%N].
Proof. exact source_constants. Qed.
Print Assumptions C10_source_constants.

Theorem C10_nonvacuous : nonvacuous_witness.
Proof. exact nonvacuous_proof. Qed.
Print Assumptions C10_nonvacuous.

(* the default of an image question: a file name gets the images prefix once, an expression is left as it is (defect F103, repaired) *)
Theorem C10_image_default : forall d,
  image_default d true = d
  /\ (d <> [] -> contains s_images d = false -> image_default d false = s_images ++ d)
  /\ (contains s_images d = true -> image_default d false = d).
Proof.
  intro d. unfold image_default. repeat split.
  - destruct (nonempty d); reflexivity.
  - intros Hd Hc. destruct d; [congruence|]. cbn [nonempty negb andb]. rewrite Hc. reflexivity.
  - intro Hc. destruct (nonempty d); cbn [negb andb]; [rewrite Hc|]; reflexivity.
Qed.
Print Assumptions C10_image_default.
