(* C11 — settings reach the form header verbatim.
   Only statements closed by exact, with Print Assumptions beneath each. *)
Require Import PX.Base.Str PX.Model.Warnings PX.Model.Bind PX.Gen.Settings PX.Gen.Top PX.Model.Settings PX.Spec.DocsSettings PX.Proofs.Settings.

(* for EVERY settings row (distinct columns) and every combination of form_name / file stem / default_language arguments *)
Theorem C11_title_and_id : forall s fn fb dl, NoDup (keys s) ->
  title_of (json_root s fn fb dl) = doc_title s fb /\ getd K_ID_STRING (json_root s fn fb dl) [] = doc_id s fb /\
  root_name_of (json_root s fn fb dl) = doc_root_name s fn.
Proof. exact (fun s fn fb dl H => conj (title_placed s fn fb dl H) (conj (id_placed s fn fb dl H) (root_name_placed s fn fb dl H))). Qed.
Print Assumptions C11_title_and_id.

Theorem C11_root_attributes : forall s attribute fn fb dl,
  NoDup (keys s) -> NoDup (keys attribute) -> (forall k, In k reserved_root_attrs -> ~ In k (keys attribute)) ->
  root_attrs (json_root s fn fb dl) attribute = doc_root_attrs s attribute fb.
Proof. exact root_attrs_placed. Qed.
Print Assumptions C11_root_attributes.
(* even a hostile attribute::id column cannot take the place of the form id *)
Theorem C11_id_never_overridden : forall s attribute fn fb dl, NoDup (keys s) ->
  dget d_id (root_attrs (json_root s fn fb dl) attribute) = Some (doc_id s fb).
Proof. exact root_id_never_overridden. Qed.
Print Assumptions C11_id_never_overridden.

Theorem C11_submission : forall s fn fb dl, NoDup (keys s) -> submission_of (json_root s fn fb dl) = doc_submission s.
Proof. exact submission_placed. Qed.
Print Assumptions C11_submission.
Theorem C11_body_class : forall s fn fb dl, NoDup (keys s) -> body_class (json_root s fn fb dl) = doc_body_class s.
Proof. exact body_class_placed. Qed.
Print Assumptions C11_body_class.

Theorem C11_namespaces : forall root,
  NoDup (keys (nsmap_of root)) /\ (forall k, In k (keys NSMAP) -> dget k (nsmap_of root) = dget k NSMAP).
Proof. exact (fun root => conj (nsmap_keys_unique root) (nsmap_standard_kept root)). Qed.
Print Assumptions C11_namespaces.

Theorem C11_meta : forall s,
  meta_children s =
    let omit := match dget d_omit s with Some v => yes v | None => false end in
    if omit && is_some (present d_public_key s) then None
    else Some ((if omit then [] else [(s_instanceID, [(s_readonly, s_truefn); (s_preload, getd s_instance_id s s_uid)])]) ++
               match dget d_instance_name s with Some v => [(s_instanceName, [(s_calculate, v)])] | None => [] end).
Proof. exact meta_placed. Qed.
Print Assumptions C11_meta.

(* no setting leaks into another's place: each place is determined by its own columns *)
Theorem C11_no_leak : forall s s' fn fb dl, NoDup (keys s) -> NoDup (keys s') ->
  (dget d_title s = dget d_title s' -> dget d_id_string s = dget d_id_string s' ->
     title_of (json_root s fn fb dl) = title_of (json_root s' fn fb dl)) /\
  (dget d_id_string s = dget d_id_string s' ->
     getd K_ID_STRING (json_root s fn fb dl) [] = getd K_ID_STRING (json_root s' fn fb dl) []) /\
  (dget d_name s = dget d_name s' -> root_name_of (json_root s fn fb dl) = root_name_of (json_root s' fn fb dl)) /\
  (dget d_style s = dget d_style s' -> body_class (json_root s fn fb dl) = body_class (json_root s' fn fb dl)) /\
  (dget d_submission_url s = dget d_submission_url s' -> dget d_public_key s = dget d_public_key s' ->
   dget d_auto_send s = dget d_auto_send s' -> dget d_auto_delete s = dget d_auto_delete s' ->
     submission_of (json_root s fn fb dl) = submission_of (json_root s' fn fb dl)).
Proof. exact no_leak. Qed.
Print Assumptions C11_no_leak.

Theorem C11_nonvacuous : nonvacuous_witness.
Proof. exact nonvacuous_proof. Qed.
Print Assumptions C11_nonvacuous.

(* ---- the namespaces setting and the namespace check of the assembled document (Model/DomCheck.v) ---- *)
Require Import PX.Spec.NsCheck PX.Model.DomCheck PX.Model.Headers PX.Proofs.NsSetting.
(* every well-formed entry  prefix=uri  of the setting is declared on the root element ... *)
Theorem C11_setting_entry_declared : forall root ns tok k v,
  field root s_namespaces = Some ns -> In tok (py_split_ws ns) -> ns_entry tok = Some (k, v) ->
  has_key (s_xmlns_colon ++ k) (nsmap_of root) = true.
Proof. exact setting_entry_declared. Qed.
Print Assumptions C11_setting_entry_declared.
(* an entry is prefix, "=", URI, the prefix ending at the FIRST "=": a URI that holds "=" itself (a query string) is kept whole *)
Theorem C11_ns_entry_shape : forall k v, k <> [] -> nochar 61%N k = true -> ns_entry (k ++ 61%N :: v) = Some (k, v).
Proof. exact ns_entry_shape. Qed.
Print Assumptions C11_ns_entry_shape.
Theorem C11_ns_entry_only_that : forall tok k v, ns_entry tok = Some (k, v) -> tok = k ++ 61%N :: v /\ k <> [] /\ nochar 61%N k = true.
Proof. exact ns_entry_inv. Qed.
Print Assumptions C11_ns_entry_only_that.
(* ... and a name that uses a prefix the root declares (a column such as bind::ex:y) passes the code's prefix test on the root and on
   every element below it, whatever else those elements declare *)
Theorem C11_declared_prefix_usable : forall root p local rest,
  has_key (XMLNS_COLON ++ p) (nsmap_of root) = true -> nochar NsCheck.COLON p = true ->
  py_bound (rest ++ py_declared (nsmap_of root) ++ PY_SCOPE0) (p ++ NsCheck.COLON :: local) = true.
Proof. exact setting_prefix_in_scope. Qed.
Print Assumptions C11_declared_prefix_usable.
