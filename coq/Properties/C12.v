(* Properties/C12.v — container format and delivery channel do not matter: the grid readers.  Statements only. *)
Require Import PX.Base.Str PX.Base.PyStr PX.Spec.Runs PX.Model.Backends PX.Proofs.Grid PX.Proofs.PinsBackends PX.Gen.Backends.
From Coq Require Import ZArith.

(* Runs of up to MAX (60) empty rows inside the data never truncate a sheet, and trailing empty rows are trimmed:
   for EVERY list of rows whose runs of empty rows are all <= MAX, the input is the output followed only by empty
   rows, and the output does not end with an empty row. *)
Theorem C12_rows_never_truncated : forall rows,
  runs_ok isnil (N.to_nat MAX_ADJACENT_EMPTY_ROWS) 0 rows = true ->
  exists n, rows = get_excel_rows (N.to_nat MAX_ADJACENT_EMPTY_ROWS) rows ++ repeat [] n
    /\ (forall x, last (get_excel_rows (N.to_nat MAX_ADJACENT_EMPTY_ROWS) rows) x = x
               \/ isnil (last (get_excel_rows (N.to_nat MAX_ADJACENT_EMPTY_ROWS) rows) x) = false).
Proof. intros rows H. apply rows_never_truncated. exact H. Qed.
Print Assumptions C12_rows_never_truncated.

(* The same for columns with MAX = 20: every header (cleaned) up to the last non-empty one is kept. *)
Theorem C12_headers_never_truncated : forall row,
  runs_ok isnone (N.to_nat MAX_ADJACENT_EMPTY_COLUMNS) 0 row = true -> no_dups py_strip [] row = true ->
  exists hs n, get_excel_column_headers py_strip (N.to_nat MAX_ADJACENT_EMPTY_COLUMNS) row = Ok hs
    /\ map (clean_opt py_strip) row = hs ++ repeat None n
    /\ (forall x, last hs x = x \/ isnone (last hs x) = false).
Proof. intros row H Hd. apply headers_never_truncated; assumption. Qed.
Print Assumptions C12_headers_never_truncated.

(* the documented limits are the ones in the source, and the loops have the modelled shape *)
Theorem C12_limits_pinned :
  MAX_ADJACENT_EMPTY_COLUMNS = 20%N /\ MAX_ADJACENT_EMPTY_ROWS = 60%N
  /\ HEADERS_BREAK_OP = s_Eq /\ ROWS_BREAK_OP = s_Eq
  /\ HEADERS_EMPTY_BRANCH = [s_append; s_break_test; s_increment]
  /\ ROWS_EMPTY_BRANCH = [s_break_test; s_increment]
  /\ RE_WHITESPACE = [40;32;41;43]%N /\ MD_MIN_PIPES = 5%N /\ CSV_MIN_COMMAS = 4%N.
Proof. exact backends_constants_pinned. Qed.
Print Assumptions C12_limits_pinned.

(* canonical text of typed cells: booleans, integers and integral floats, non-breaking spaces *)
Theorem C12_cells_canonical : forall (z : Z) (s : str),
  clean_cell py_strip py_isspace (CBool true) = Some s_TRUE /\ clean_cell py_strip py_isspace (CBool false) = Some s_FALSE
  /\ clean_cell py_strip py_isspace (CFloatIntegral z) = clean_cell py_strip py_isspace (CInt z)
  /\ clean_cell py_strip py_isspace (CInt z) = Some (z_dec z)
  /\ clean_cell py_strip py_isspace CNone = None
  /\ (forall t, clean_cell py_strip py_isspace (CStr s) = Some t -> forallb (fun c => negb (ceq c NBSP)) t = true).
Proof.
  intros z s. repeat split; try reflexivity.
  intros t H. unfold clean_cell in H. destruct (is_empty py_isspace (CStr (py_strip s))); [discriminate|].
  inversion H; subst. cbn [xlsx_value_to_str]. unfold replace_nbsp. rewrite forallb_forall. intros c Hc.
  apply in_map_iff in Hc as (d & <- & _). destruct (ceq_spec d NBSP); [reflexivity|].
  apply negb_true_iff. destruct (ceq_spec d NBSP); congruence.
Qed.
Print Assumptions C12_cells_canonical.

(* non-vacuity: exactly 60 interior empty rows are kept, a 61st truncates (the boundary the limit is about) *)
Definition r1 : rowdict := [([97]%N, [49]%N)].
Theorem C12_nonvacuous :
  runs_ok isnil 60 0 (r1 :: repeat [] 60 ++ [r1]) = true
  /\ get_excel_rows 60 (r1 :: repeat [] 60 ++ [r1] ++ repeat [] 7) = r1 :: repeat [] 60 ++ [r1]
  /\ get_excel_rows 60 (r1 :: repeat [] 61 ++ [r1]) = [r1].
Proof. vm_compute. repeat split; reflexivity. Qed.
Print Assumptions C12_nonvacuous.

(* ---- the Markdown container (Model/Md.v): reading back a rendered table gives the grid that was rendered ---- *)
Require Import PX.Model.Md PX.Proofs.Md PX.Proofs.PinsMd.
(* For EVERY workbook of distinct, non-empty sheet names whose cells Markdown can carry (no pipe, line break, hash or backslash, no
   white space at either end; empty cells allowed), the reader applied to the rendered text returns, sheet by sheet and in order,
   exactly the rows that have a cell, every cell at its place (an empty cell as None) - the same grid a spreadsheet reader sees. *)
Theorem C12_markdown_round_trip : forall W, W <> [] -> NoDup (map fst W) -> Forall sheet_ok W -> md_structure (render W) = map entry W.
Proof. exact md_round_trip. Qed.
Print Assumptions C12_markdown_round_trip.
Theorem C12_markdown_nonvacuous : (ex_workbook <> [] /\ NoDup (map fst ex_workbook) /\ Forall sheet_ok ex_workbook) /\
  md_structure (render ex_workbook) = map entry ex_workbook.
Proof. exact (conj ex_workbook_ok (proj1 ex_workbook_read_back)). Qed.
Print Assumptions C12_markdown_nonvacuous.
Theorem C12_markdown_patterns_pinned : md_patterns_as_modelled.
Proof. exact md_patterns_pinned. Qed.
Print Assumptions C12_markdown_patterns_pinned.

(* ---- the CSV container (Model/CsvBook.v over the RFC 4180 reader of Spec/Csv.v) ---- *)
Require Import PX.Model.Warnings PX.Spec.Csv PX.Model.Choices PX.Proofs.Choices PX.Model.CsvBook PX.Proofs.CsvBook.
(* For EVERY workbook of supported, distinctly keyed sheets with a header row of distinct non-empty cells and cells free of surrounding
   white space, writing the rows as CSV text (every field quoted) and reading the text back gives: the sheet names in order, and for each
   sheet its header row and, row by row, every filled cell under its own header (a row without any cell is kept as an empty row, so that row numbers are those of the table, except below the last row of a sheet). *)
Theorem C12_csv_round_trip : forall W, NoDup (all_keys W) -> Forall PX.Proofs.CsvBook.sheet_ok W ->
  option_map (csv_book lower_ascii) (parse_csv (write_csv (flat_map sheet_rows W))) = Some (Ok ((k_sheet_names, VNames (map sname W)) :: flat_map final_entries W)).
Proof. exact csv_text_round_trip. Qed.
Print Assumptions C12_csv_round_trip.
Theorem C12_csv_nonvacuous : NoDup (all_keys ex_csv_workbook) /\ Forall PX.Proofs.CsvBook.sheet_ok ex_csv_workbook.
Proof. exact ex_csv_workbook_ok. Qed.
Print Assumptions C12_csv_nonvacuous.


(* a text in which no line is a table row (whatever number of pipes its cells hold) yields no sheet from the Markdown reader -- which
   then reports a read error (pinned: process_md_data raises when the structure is empty) and leaves the text to the CSV reader *)
Theorem C12_text_without_table_rows_is_not_markdown : forall text,
  (forall l, In l (split_on 10 text) -> is_comment l = true \/ md_cell_group (cut_inline_comment l) = None) -> md_structure text = [].
Proof. exact no_rows_no_sheets. Qed.
Print Assumptions C12_text_without_table_rows_is_not_markdown.
Theorem C12_csv_with_pipes_example : md_structure ex_csv_with_pipes = [] /\ Nat.le 5 (length (filter (fun c => N.eqb c PIPE) ex_csv_with_pipes)).
Proof. exact ex_csv_has_no_rows. Qed.
Print Assumptions C12_csv_with_pipes_example.

(* ---- header rows of the text formats, errors of the content, the workbook of one sheet (Model/CsvBook.v) ---- *)
(* the csv header row is read by get_excel_column_headers, the function the spreadsheet readers use (C12_headers_never_truncated is
   about that function): what it refuses, a repeated column header, refuses the whole csv workbook ... *)
Theorem C12_csv_header_row_refused : forall lower oo s sn cs m, err s = None -> sheet s = Some sn -> headers s = None ->
  mem sn PX.Gen.Warn.SUPPORTED_SHEET_NAMES = true -> cs <> [] -> Forall stripped cs -> has_content cs = true ->
  get_excel_column_headers py_strip (N.to_nat MAX_ADJACENT_EMPTY_COLUMNS) (map opt_cell cs) = PyxErr m ->
  err (step lower oo s ([] :: cs)) = Some m.
Proof. exact csv_header_row_refused. Qed.
Print Assumptions C12_csv_header_row_refused.
Theorem C12_csv_refused_header_refuses_workbook : forall lower pre post m,
  err (fold_left (step lower (only_one_sheet (pre ++ post))) pre init_st) = Some m -> csv_book lower (pre ++ post) = PyxErr m.
Proof. exact csv_refused_header_refuses_workbook. Qed.
Print Assumptions C12_csv_refused_header_refuses_workbook.
(* ... the only sheet of a csv workbook is the survey whatever it is called (as for xls, xlsx and md), an unknown sheet beside others
   is only noted for the spelling check *)
Theorem C12_csv_only_sheet_is_survey : forall lower s n, err s = None -> nonempty (py_strip n) = true -> bmem (py_strip n) (bk s) = false ->
  mem (lower (py_strip n)) PX.Gen.Warn.SUPPORTED_SHEET_NAMES = false ->
  let s' := step lower true s [n] in
  sheet s' = Some s_survey /\ headers s' = None /\ err s' = None /\ bget s_survey (bk s') = Some (VRows []).
Proof. exact csv_only_sheet_is_survey. Qed.
Print Assumptions C12_csv_only_sheet_is_survey.
Theorem C12_csv_unknown_sheet_is_skipped : forall lower s n, err s = None -> nonempty (py_strip n) = true -> bmem (py_strip n) (bk s) = false ->
  mem (lower (py_strip n)) PX.Gen.Warn.SUPPORTED_SHEET_NAMES = false ->
  let s' := step lower false s [n] in sheet s' = Some (lower (py_strip n)) /\ err s' = None.
Proof. exact csv_unknown_sheet_is_skipped. Qed.
Print Assumptions C12_csv_unknown_sheet_is_skipped.

(* ---- decimals as their shortest decimal form (Model/Backends.v float_text over the repr of the float) ---- *)
Require Import PX.Proofs.FloatText.
Theorem C12_decimal_without_exponent_kept : forall r, nochar CH_E r = true -> float_text r = r.
Proof. exact float_text_plain. Qed.
Print Assumptions C12_decimal_without_exponent_kept.
(* the repr of a small float, d[.ddd]e-n, is written with the point moved n places: 0.000ddd with the same digits in the same order *)
Theorem C12_small_decimal_expanded : forall neg d fp ed,
  forallb isdigit (d :: fp) = true -> (1 <= nat_of_digits ed)%nat ->
  float_text (sign neg ++ d :: frac fp ++ CH_E :: CH_MINUS :: ed)
  = sign neg ++ CH_0 :: CH_DOT :: repeat CH_0 (nat_of_digits ed - 1) ++ d :: fp.
Proof. exact float_text_small. Qed.
Print Assumptions C12_small_decimal_expanded.
Theorem C12_small_decimal_has_no_exponent : forall neg d fp ed,
  forallb isdigit (d :: fp) = true -> (1 <= nat_of_digits ed)%nat ->
  nochar CH_E (float_text (sign neg ++ d :: frac fp ++ CH_E :: CH_MINUS :: ed)) = true.
Proof. exact float_text_small_no_exponent. Qed.
Print Assumptions C12_small_decimal_has_no_exponent.

(* ---- the two text containers agree (Model/MdBook.v beside Model/CsvBook.v) ---- *)
Require Import PX.Model.MdBook PX.Proofs.MdBook.
(* For EVERY non-empty workbook of distinct supported sheets whose header rows hold distinct clean names and whose cells both formats can
   carry (Markdown: no pipe, line break, hash or backslash; both: no white space at either end; empty cells and blank rows allowed):
   the book md_to_dict reads from the rendered Markdown table IS the book csv_to_dict reads from the written CSV text - the same sheet
   names in the same order, the same header rows, every filled cell under its own header, blank rows at the same places. *)
Theorem C12_md_and_csv_agree : forall W, W <> [] -> NoDup (all_keys W) -> Forall PX.Proofs.CsvBook.sheet_ok W -> Forall md_ok W ->
  Some (md_book (md_structure (render (map to_md W)))) = option_map (csv_book lower_ascii) (parse_csv (write_csv (flat_map sheet_rows W))).
Proof. exact md_and_csv_agree. Qed.
Print Assumptions C12_md_and_csv_agree.
Theorem C12_md_and_csv_agree_nonvacuous :
  ex_csv_workbook <> [] /\ NoDup (all_keys ex_csv_workbook) /\ Forall PX.Proofs.CsvBook.sheet_ok ex_csv_workbook /\ Forall md_ok ex_csv_workbook.
Proof. exact ex_both_ok. Qed.
Print Assumptions C12_md_and_csv_agree_nonvacuous.
