(* C13 — documented spellings and layout noise are interchangeable.
   Only statements closed by exact, with Print Assumptions beneath each. *)
Require Import PX.Base.Str PX.Base.PyStr PX.Model.Warnings PX.Model.Headers PX.Spec.Nest PX.Model.Rows PX.Model.Itext PX.Model.RowMerge
  PX.Gen.Headers PX.Gen.Types PX.Spec.DocsAliases PX.Proofs.Types PX.Proofs.RowMerge PX.Proofs.Spelling.
From Coq Require Import Permutation.

(* header normalisation: letter case does not matter (ASCII), for every header text *)
Theorem C13_header_case : forall a b, lower_ascii a = lower_ascii b -> to_snake_case a = to_snake_case b.
Proof. exact snake_case_ignores_case. Qed.
Print Assumptions C13_header_case.
(* extra white space inside, before or after a header does not matter; a space between words is an underscore *)
Theorem C13_header_whitespace :
  (forall a c c' r, py_space c = true -> py_space c' = true -> to_snake_case (a ++ c :: c' :: r) = to_snake_case (a ++ c :: r)) /\
  (forall a c, py_space c = true -> to_snake_case (c :: a) = to_snake_case a) /\
  (forall a c, py_space c = true -> to_snake_case (a ++ [c]) = to_snake_case a) /\
  (forall s, to_snake_case (py_strip s) = to_snake_case s) /\
  (forall sp ws, py_space sp = true -> ws <> [] -> forallb is_word ws = true ->
     to_snake_case (join [sp] ws) = lower_ascii (join [95%N] ws) /\ to_snake_case (join [95%N] ws) = lower_ascii (join [95%N] ws)).
Proof.
  exact (conj (proj1 snake_case_ignores_extra_space) (conj (proj1 (proj2 snake_case_ignores_extra_space))
        (conj (proj2 (proj2 snake_case_ignores_extra_space)) (conj snake_strip snake_case_space_is_underscore)))).
Qed.
Print Assumptions C13_header_whitespace.

(* every spelling of a known column is read as that column; every spelling of a plain alias header as the alias's canonical tokens *)
Theorem C13_known_column_any_spelling : forall aliases columns dc h,
  (mem h columns = true -> to_snake_case h = h) ->
  mem (to_snake_case h) columns = true -> is_alias aliases (to_snake_case h) = false ->
  process_header aliases columns dc h = Some [to_snake_case h].
Proof. exact known_column_any_spelling. Qed.
Print Assumptions C13_known_column_any_spelling.
Theorem C13_alias_any_spelling : forall aliases columns dc h d0 d,
  (mem h columns = true -> to_snake_case h = h) ->
  contains [58%N] h = false -> alias_get (to_snake_case h) aliases = Some (d0 :: d) ->
  process_header aliases columns dc h = Some (d0 :: d).
Proof. exact alias_any_spelling. Qed.
Print Assumptions C13_alias_any_spelling.

(* the alias tables regenerated from /repo read every member of every documented group of spellings alike: column aliases, language
   delimiters, select/control words, type aliases, truth values *)
Theorem C13_documented_spellings_agree :
  headers_same SURVEY_HEADER_ALIASES SURVEY_COLUMNS true doc_survey_headers = true /\
  headers_same SURVEY_HEADER_ALIASES SURVEY_COLUMNS false doc_survey_headers_single_colon = true /\
  forallb (fun p => olist_eqb (process_header SURVEY_HEADER_ALIASES SURVEY_COLUMNS false (fst p)) (process_header SURVEY_HEADER_ALIASES SURVEY_COLUMNS true (snd p)))
          [([108;97;98;101;108;58;101;110]%N, [108;97;98;101;108;58;58;101;110]%N); ([104;105;110;116;32;58;32;102;114]%N, [104;105;110;116;58;58;102;114]%N);
           ([105;109;97;103;101;58;101;110]%N, [109;101;100;105;97;58;58;105;109;97;103;101;58;58;101;110]%N)] = true /\
  headers_same LIST_HEADER_ALIASES OPTION_COLUMNS true doc_list_headers = true /\
  headers_same SETTINGS_HEADER_ALIASES SETTINGS_COLUMNS true doc_settings_headers = true /\
  words_same SELECT_ALIASES doc_select_commands = true /\ words_same CONTROL_ALIASES doc_control_words = true /\
  forallb (fun p => ostr_eqb (sget (fst p) TYPE_ALIAS_MAP) (Some (snd p))) doc_type_aliases = true /\
  forallb (fun p => match qtd_lookup (fst p) QTD, qtd_lookup (snd p) QTD with
                    | Some (_, a2, a3, a4, a5, a6), Some (_, b2, b3, b4, b5, b6) => seqb a2 b2 && seqb a3 b3 && seqb a4 b4 && seqb a5 b5 && seqb a6 b6
                    | _, _ => false end) doc_same_type_rows = true /\
  forallb (fun y => match sget y BINDING_CONVERSIONS with Some t => seqb t [116;114;117;101;40;41]%N | None => false end) doc_yes = true /\
  forallb (fun y => match sget y BINDING_CONVERSIONS with Some t => seqb t [102;97;108;115;101;40;41]%N | None => false end) doc_no = true /\
  forallb (fun c => seqb (to_snake_case c) c) SURVEY_COLUMNS = true /\ forallb (fun c => seqb (to_snake_case c) c) OPTION_COLUMNS = true /\
  forallb (fun y => match find (fun p => seqb (fst p) y) YES_NO with Some (_, b) => b | None => false end) ([116;114;117;101;40;41]%N :: doc_yes) = true /\
  forallb (fun y => match find (fun p => seqb (fst p) y) YES_NO with Some (_, b) => negb b | None => false end) ([102;97;108;115;101;40;41]%N :: doc_no) = true.
Proof. exact documented_spellings_agree. Qed.
Print Assumptions C13_documented_spellings_agree.

(* permuting the columns of a translatable family does not change any language's text *)
Theorem C13_column_order : forall dl (cells cells' : list (option str * str)) l,
  NoDup (map fst cells) -> Permutation cells cells' -> has_suffixed cells = true ->
  vlookup (process_family dl cells) l = vlookup (process_family dl cells') l.
Proof. exact column_order_irrelevant. Qed.
Print Assumptions C13_column_order.

(* inserting k blank rows after the rows a: the same tree; only the row number quoted in an error shifts, by exactly k, and only
   when the error's row lies below the insertion *)
Theorem C13_blank_rows_shift : forall k a b n cur stack,
  go (a ++ repeat RowSkip k ++ b) n cur stack = shift_err (n + length a) k (go (a ++ b) n cur stack).
Proof. exact blank_rows_shift. Qed.
Print Assumptions C13_blank_rows_shift.

Theorem C13_nonvacuous :
  to_snake_case [32;76;105;115;116;32;32;78;97;109;101;9]%N = [108;105;115;116;95;110;97;109;101]%N /\
  process_header SURVEY_HEADER_ALIASES SURVEY_COLUMNS true [82;101;108;101;118;97;110;99;101;32]%N = Some [[98;105;110;100]%N; [114;101;108;101;118;97;110;116]%N] /\
  go ([RowQ [97]%N] ++ repeat RowSkip 3 ++ [RowEnd KGroup]) 2 [] [] = PErr (UnmatchedEnd 6) /\
  go ([RowQ [97]%N] ++ [RowEnd KGroup]) 2 [] [] = PErr (UnmatchedEnd 3).
Proof. repeat split; vm_compute; reflexivity. Qed.
Print Assumptions C13_nonvacuous.

(* cell text (clean_text_values): white space around a survey cell and extra U+0020 next to a U+0020 inside it do not matter;
   smart and straight quotes are interchangeable; collapsing and quote replacement are idempotent *)
Require Import PX.Model.CellText PX.Proofs.CellText.
Theorem C13_cell_text :
  (forall c s, py_space c = true -> clean_cell true (c :: s) = clean_cell true s /\ clean_cell true (s ++ [c]) = clean_cell true s) /\
  (forall a b, collapse (a ++ 32 :: 32 :: b) = collapse (a ++ 32 :: b))%N /\
  (forall a b, map smart a = map smart b -> clean_cell true a = clean_cell true b /\ clean_cell false a = clean_cell false b) /\
  (forall s, collapse (collapse s) = collapse s) /\ (forall s, replace_smart (replace_smart s) = replace_smart s).
Proof.
  exact (conj whitespace_noise (conj collapse_double (conj (fun a b H => conj (quotes_interchangeable_stripped a b H) (quotes_interchangeable a b H))
        (conj collapse_idempotent replace_smart_idempotent)))).
Qed.
Print Assumptions C13_cell_text.
