(* Properties/C14.v — conversion is a pure function of its input: the Python state the model makes explicit. *)
Require Import PX.Base.Str PX.Model.Cache PX.Model.Warnings PX.Proofs.Cache PX.Proofs.PinsState PX.Gen.State.
From Coq Require Import Permutation.

(* an lru_cache never changes what its function returns: for every coherent cache state, every key, every bound *)
Theorem C14_cache_transparent : forall (K V : Type) (keq : K -> K -> bool) (f : K -> V) (maxsize : nat),
  (forall a b, keq a b = true -> a = b) ->
  forall trace c, Coherent f c ->
  snd (run keq f maxsize c trace) = map f trace /\ Coherent f (fst (run keq f maxsize c trace)).
Proof. intros K V keq f maxsize H. exact (run_transparent keq H f maxsize). Qed.
Print Assumptions C14_cache_transparent.

(* … under EVERY interleaving of any number of concurrent conversions' requests: each client sees f *)
Theorem C14_interleaving_transparent : forall (K V : Type) (keq : K -> K -> bool) (f : K -> V) maxsize,
  (forall a b, keq a b = true -> a = b) -> forall (trace : list (nat * K)) (client : nat),
  map snd (filter (fun e => Nat.eqb (fst e) client) (combine (map fst trace) (snd (run keq f maxsize [] (map snd trace)))))
  = map f (map snd (filter (fun e => Nat.eqb (fst e) client) trace)).
Proof. intros. apply interleaving_transparent. assumption. Qed.
Print Assumptions C14_interleaving_transparent.

(* set-typed intermediates that are sorted before use cannot leak their iteration order (PYTHONHASHSEED) *)
Theorem C14_sorted_sites_order_free : forall l l' : list str, Permutation l l' -> sort_strs l = sort_strs l'.
Proof. exact sort_perm_invariant. Qed.
Print Assumptions C14_sorted_sites_order_free.

(* the shared expression scanner keeps the current match in one cell.  Unlocked, an interleaving of two scans
   exists in which a token is given the other scan's position (this was finding F13, observed on the pinned code
   and repaired by a lock); with the scan under a lock every schedule of whole token steps is safe, and the
   translator checks on every run that every use of the scanner is under that lock. *)
Theorem C14_scanner_unlocked_refuted :
  exists sched, Permutation sched [SWrite 1 3; SRead 1; SWrite 2 7; SRead 2]
             /\ sc_run 0 sched <> [(1, 3); (2, 7)] /\ In (1, 7) (sc_run 0 sched).
Proof. exact scanner_interleaving_refuted. Qed.
Print Assumptions C14_scanner_unlocked_refuted.
Theorem C14_scanner_locked_safe : SCANNER_USES_ALL_LOCKED = true /\
  forall (cell : nat) (steps : list (nat * nat)),
  sc_run cell (flat_map (fun tp => [SWrite (fst tp) (snd tp); SRead (fst tp)]) steps) = steps.
Proof. split; [reflexivity|exact scanner_locked_safe]. Qed.
Print Assumptions C14_scanner_locked_safe.

(* inventory completeness: the caches, module-level mutable objects, global statements and order-sensitive set
   iterations present in /repo NOW are exactly the examined ones *)
Theorem C14_inventory_complete :
  LRU_CACHES = expected_LRU_CACHES /\ MODULE_STATE = expected_MODULE_STATE
  /\ GLOBAL_STATEMENTS = expected_GLOBAL_STATEMENTS /\ SET_ITERATION_SITES = expected_SET_ITERATION_SITES.
Proof. exact inventory_is_complete. Qed.
Print Assumptions C14_inventory_complete.

(* non-vacuity: a bounded cache that evicts, driven by an interleaved trace, still answers f *)
Theorem C14_nonvacuous :
  snd (run Nat.eqb (fun k => k * k) 2 [] [3; 4; 3; 5; 4; 3]) = [9; 16; 9; 25; 16; 9]
  /\ length (fst (run Nat.eqb (fun k => k * k) 2 [] [3; 4; 3; 5; 4; 3])) = 2.
Proof. vm_compute. split; reflexivity. Qed.
Print Assumptions C14_nonvacuous.
