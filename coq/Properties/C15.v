(* Properties/C15.v — pretty_print is purely cosmetic.  Statements only. *)
Require Import PX.Base.Str PX.Model.Dom PX.Spec.XmlParse PX.Spec.XmlName PX.Spec.WsEquiv PX.Spec.LayoutEquiv PX.Proofs.Doc PX.Proofs.Layout PX.Proofs.PinsWriter PX.Gen.Writer.

(* For EVERY DOM tree that utils.node() can build whose names are XML names (any depth, any mix of
   DetachableElement / PatchedText / cloned minidom Element and Text, any text), the pretty-printed
   and the compact document both parse, and to the same tree up to whitespace-only text between
   elements. *)
Theorem C15_pretty_print_cosmetic : forall n : node, wf_dom n ->
  exists a b, xml_parse xml_namestart xml_namech (to_pretty n) = Some a
           /\ xml_parse xml_namestart xml_namech (to_ugly n) = Some b
           /\ ws_equiv a b.
Proof. exact pretty_compact_equiv. Qed.
Print Assumptions C15_pretty_print_cosmetic.

(* The finer statement (text content): the two documents differ ONLY by the layout the pretty printer adds — white-space-only text
   holding a line break, inside elements whose text children are all of that kind. White space without a line break (the space
   between two <output/> elements of a label) and every other text is identical in both modes. *)
Theorem C15_only_layout_differs : forall n : node, wf_dom n ->
  exists a b, xml_parse xml_namestart xml_namech (to_pretty n) = Some a
           /\ xml_parse xml_namestart xml_namech (to_ugly n) = Some b
           /\ layout_equiv a b.
Proof. exact pretty_compact_layout_equiv. Qed.
Print Assumptions C15_only_layout_differs.
(* ... and the finer relation does see what the coarser one cannot *)
Theorem C15_space_between_elements_is_content :
  ws_equiv (two_outputs [Tx [SP]]) (two_outputs []) /\ ~ layout_equiv (two_outputs [Tx [SP]]) (two_outputs [])
  /\ layout_equiv (two_outputs [Tx [NL; SP; SP]]) (two_outputs []).
Proof. exact space_between_elements_is_content. Qed.
Print Assumptions C15_space_between_elements_is_content.

Theorem C15_nonvacuous : wf_dom ex_tree /\
  xml_parse xml_namestart xml_namech (to_pretty ex_tree) <> xml_parse xml_namestart xml_namech (to_ugly ex_tree).
Proof. exact (conj ex_tree_wf (proj2 (proj2 ex_tree_parses))). Qed.
Print Assumptions C15_nonvacuous.

(* Tie 1: the escape table, the two document prefixes and the pretty indent the model is proved for
   are the ones the source holds now (Gen/Writer.v is regenerated from /repo on every run). *)
Theorem C15_writer_constants :
  XML_TEXT_SUBS = [([AMP], s_amp); ([LT], s_lt); ([GT], s_gt)]
  /\ UGLY_PREFIX = decl /\ PRETTY_PREFIX = decl ++ [NL] /\ PRETTY_INDENT = [SP; SP]
  /\ NODE_TYPE_TEXT_IS_TEXT_AND_CDATA = true.
Proof. exact writer_constants_pinned. Qed.
Print Assumptions C15_writer_constants.
