(* C16 — the JSON intermediate form is a faithful, reloadable representation.
   Only statements closed by exact, with Print Assumptions beneath each. *)
Require Import PX.Base.Str PX.Model.Warnings PX.Model.Dump PX.Proofs.Dump.

(* survey -> to_json_dict -> survey: for EVERY well-formed element tree (any depth, any number of children, choice lists and extra
   columns), the rebuilt tree shows the XML generator exactly what the original did: the non-empty public fields of every element
   (group binds included), every option's extra columns, the children and the choice lists, in order *)
Theorem C16_reload_keeps_what_the_generator_reads : forall slots e, wf slots e = true -> ekind e = KSurvey ->
  view (load slots (depth e) false (dump e)) = view e.
Proof. exact reload_keeps_what_the_generator_reads. Qed.
Print Assumptions C16_reload_keeps_what_the_generator_reads.
Theorem C16_reload_every_subtree : forall slots n e, depth e <= n -> wf slots e = true ->
  view (load slots n (kind_eqb (ekind e) KOption) (dump e)) = view e.
Proof. exact reload_gen. Qed.
Print Assumptions C16_reload_every_subtree.

(* the dump is stable under dump, load, dump again; and it is a function of what the generator reads *)
Theorem C16_dump_stable : forall slots e, wf slots e = true -> ekind e = KSurvey -> dump (load slots (depth e) false (dump e)) = dump e.
Proof. exact dump_stable. Qed.
Print Assumptions C16_dump_stable.
Theorem C16_dump_of_view : forall e, dump (view e) = dump e.
Proof. exact dump_view. Qed.
Print Assumptions C16_dump_of_view.

(* nothing that affects the XForm is dropped: every non-empty public field (a group's bind among them) and every non-empty extra
   column of an option is in the dump *)
Theorem C16_fields_kept : forall slots k fields extra kids lists key v,
  wf slots (E k fields extra kids lists) = true -> In (key, v) fields -> keep (key, v) = true -> In (key, v) (dump (E k fields extra kids lists)).
Proof. exact field_kept. Qed.
Print Assumptions C16_fields_kept.
Theorem C16_option_columns_kept : forall slots fields extra key v,
  wf slots (E KOption fields extra [] []) = true -> In (key, v) extra -> truthy v = true -> In (key, v) (dump (E KOption fields extra [] [])).
Proof. exact option_column_kept. Qed.
Print Assumptions C16_option_columns_kept.

Theorem C16_nonvacuous : nonvacuous_witness.
Proof. exact nonvacuous_proof. Qed.
Print Assumptions C16_nonvacuous.

(* the JSON text in between: json.loads inverts json.dumps (ASCII-escaped, default separators) on EVERY value built from strings
   without surrogate code points, None, booleans, lists and dicts — any nesting, any characters (quotes, backslashes, control
   characters, non-ASCII, astral code points written as surrogate pairs) *)
Require Import PX.Model.Json PX.Proofs.Json.
Theorem C16_json_text_round_trip : forall v, jv_ok v = true -> loads (dumps v) = Some v.
Proof. exact loads_dumps. Qed.
Print Assumptions C16_json_text_round_trip.
