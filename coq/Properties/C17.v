(* C17 — broken forms are rejected with a located diagnosis; nothing ever crashes.
   Only statements closed by exact (or a direct conjunction of lemmas), with Print Assumptions beneath each. *)
Require Import PX.Base.Str PX.Base.PyStr PX.Model.Warnings PX.Model.Bind PX.Model.Headers PX.Gen.Headers PX.Spec.Nest PX.Model.Rows PX.Proofs.Rows
  PX.Model.Tree PX.Proofs.Tree PX.Gen.Choices PX.Model.Choices PX.Proofs.Choices PX.Model.Params PX.Proofs.Params PX.Model.Names PX.Model.Scanner PX.Model.RefText PX.Proofs.RefText PX.Proofs.ScanFacts.

(* unbalanced begin/end: rejected at the right row (2 + rows above, blank rows counted) wherever the error sits, or by name *)
Theorem C17_unbalanced_located : forall pre ts, Nest pre ts ->
  (forall k rest, parse_rows (pre ++ RowEnd k :: rest) = PErr (UnmatchedEnd (2 + length pre))) /\
  (forall k k' nm inner kids rest, Nest inner kids -> ckind_eqb k k' = false ->
     parse_rows (pre ++ RowBegin k nm :: inner ++ RowEnd k' :: rest) = PErr (UnmatchedEnd (2 + length pre + 1 + length inner))) /\
  (forall k nm inner kids, Nest inner kids -> parse_rows (pre ++ RowBegin k nm :: inner) = PErr (UnmatchedBegin k nm)).
Proof.
  exact (fun pre ts H => conj (fun k rest => unmatched_end_located pre ts k rest H)
          (conj (fun k k' nm inner kids rest Hi Hk => mismatched_end_located pre ts k k' nm inner kids rest H Hi Hk)
                (fun k nm inner kids Hi => unmatched_begin_named pre ts k nm inner kids H Hi))).
Qed.
Print Assumptions C17_unbalanced_located.

(* duplicate names: a tree in which two elements share a path is refused by the validation *)
Theorem C17_duplicate_names_rejected : forall root : Tree.elem, ~ NoDup (Tree.all_paths [] root) -> Tree.validate root = false.
Proof. exact ambiguous_rejected. Qed.
Print Assumptions C17_duplicate_names_rejected.

(* instance-id clashes: rejected exactly when two sources need one id with different URIs *)
Theorem C17_instance_clash_rejected_iff : forall l, dedup [] l = None <->
  exists i j, In i l /\ In j l /\ i_name i = i_name j /\ i_src i <> i_src j.
Proof. exact dedup_rejects_iff. Qed.
Print Assumptions C17_instance_clash_rejected_iff.

(* parameters: the parser never fails otherwise than by its own error, which it raises exactly when a part has no '='; the validator
   rejects exactly when a key is not allowed *)
Theorem C17_parameters :
  (forall raw, Params.parse raw <> PCrash) /\
  (forall raw, Params.parse raw = PRejected <-> exists p, In p (split_parts raw) /\ contains s_eq p = false) /\
  (forall params allowed, Params.validate params allowed = false <-> exists k, In k (Bind.keys params) /\ mem k allowed = false).
Proof. exact (conj parse_never_crashes (conj parse_rejected_iff validate_rejects_iff)). Qed.
Print Assumptions C17_parameters.

(* reference syntax: a cell is accepted exactly when every reference opening is followed by names only, up to its closing brace *)
Theorem C17_reference_syntax : forall ts, ref_check false ts = true <-> well_formed ts.
Proof. exact ref_check_iff. Qed.
Print Assumptions C17_reference_syntax.

(* ... and on the raw cell text, through the modelled scanner: for EVERY NCName the text ${name} (and ${last-saved#name}) is scanned
   as exactly one PYXFORM_REF token holding the whole text, so the check accepts it and no character of the reference is lost *)
Theorem C17_wellformed_reference_is_one_token : forall name, ncname_plain name ->
  scan ([36;123]%N ++ name ++ [125]%N) = ([(n_ref, [36;123]%N ++ name ++ [125]%N)], [])
  /\ ref_syntax_ok ([36;123]%N ++ name ++ [125]%N) = true.
Proof. exact (fun name H => conj (reference_is_one_token name H) (reference_accepted name H)). Qed.
Print Assumptions C17_wellformed_reference_is_one_token.
Theorem C17_last_saved_reference_is_one_token : forall name, ncname_plain name ->
  scan ([36;123]%N ++ LAST_SAVED ++ name ++ [125]%N) = ([(n_ref, [36;123]%N ++ LAST_SAVED ++ name ++ [125]%N)], [])
  /\ ref_syntax_ok ([36;123]%N ++ LAST_SAVED ++ name ++ [125]%N) = true.
Proof. exact (fun name H => conj (last_saved_reference_is_one_token name H) (last_saved_reference_accepted name H)). Qed.
Print Assumptions C17_last_saved_reference_is_one_token.
(* the negative direction, for EVERY NCName: an opened reference that is never closed is scanned as PYXFORM_REF_START followed by
   one NAME token and is refused *)
Theorem C17_unclosed_reference_refused_for_every_name : forall name, ncname_plain name ->
  scan ([36;123]%N ++ name) = ([(n_ref_start, [36;123]%N); (n_name, name)], []) /\ ref_syntax_ok ([36;123]%N ++ name) = false.
Proof. exact (fun name H => conj (unclosed_reference_tokens name H) (unclosed_reference_refused name H)). Qed.
Print Assumptions C17_unclosed_reference_refused_for_every_name.
Theorem C17_unclosed_reference_refused :
  ref_syntax_ok [36;123;113]%N = false /\ ref_syntax_ok [36;123;113;32;125]%N = false /\ ref_syntax_ok [36;123;36;123;113;125;125]%N = false.
Proof. exact unclosed_refused. Qed.
Print Assumptions C17_unclosed_reference_refused.
(* the shortest malformed reference: a cell that is exactly the two characters that open a reference (the early exit of the function was
   for values of two characters or fewer and let it through: defect F95, repaired) *)
Theorem C17_bare_reference_start_refused : ref_syntax_ok [36;123]%N = false /\ ref_syntax_ok [36]%N = true /\ ref_syntax_ok [] = true.
Proof. vm_compute. repeat split; reflexivity. Qed.
Print Assumptions C17_bare_reference_start_refused.

(* headers: process_header's one partial operation (tokens[jr_idx + 1]) never fails, for ANY alias table, column set, delimiter mode and header *)
Theorem C17_header_total : forall aliases columns dc h, process_header aliases columns dc h <> None.
Proof. exact process_header_total. Qed.
Print Assumptions C17_header_total.
(* ... and a column that is just called jr is left as it is unless the sheet knows that name *)
Theorem C17_trailing_jr_untouched : forall aliases columns,
  process_header aliases columns false s_jr = Some [s_jr] \/ mem s_jr columns = true \/ alias_get s_jr aliases <> None.
Proof. exact trailing_jr_untouched. Qed.
Print Assumptions C17_trailing_jr_untouched.

(* a parameter is name, "=", value: the value is everything after the FIRST "=" of its part, so a malformed value such as 6=40 reaches the
   check of the parameter that uses it instead of being cut to 6 (defect F96, repaired) *)
Theorem C17_parameter_value_is_whole : forall k v, nochar 61%N k = true ->
  parse_part (k ++ 61%N :: v) =
  inl (Some (py_strip (lower_ascii k), if mem (py_strip (lower_ascii k)) [s_label; s_value] then py_strip v else py_strip (lower_ascii v))).
Proof. exact part_value_is_whole. Qed.
Print Assumptions C17_parameter_value_is_whole.
