(* Properties/C18.v — validator verdicts are honoured and failures leave no residue.  Statements only.
   check_xform_decision and validator_args_logic are TRANSLATED from /repo on every run (Gen/Validate.v). *)
Require Import PX.Base.Str PX.Model.Cleaner PX.Model.Cli PX.Spec.DocsValidate PX.Proofs.Cli PX.Gen.Validate.
From Coq Require Import ZArith.

(* every validator outcome (java present?, watchdog fired?, ANY return code, ANY stderr) gets the documented verdict *)
Theorem C18_verdicts : forall o : outcome,
  match spec_check (java_present o) (timed_out o) (rc o) (nonempty (stderr o)) with
  | SOsError => check_xform o = Raise EOs
  | SReject => check_xform o = Raise (EOdkValidate (m_errors ++ odk_validate_clean (stderr o)))
  | SAccept w => exists ws, check_xform o = Ret ws /\ (w = true <-> ws <> [])
               /\ (rc o = 0%Z -> timed_out o = false -> ws = if nonempty (stderr o) then [m_warnings ++ stderr o] else [])
  end.
Proof. exact verdict_table. Qed.
Print Assumptions C18_verdicts.

Theorem C18_validator_selection : forall skip odk enk,
  validator_args_logic skip odk enk = spec_validators (negb skip) odk enk.
Proof. exact args_table. Qed.
Print Assumptions C18_validator_selection.

(* under EVERY outcome and for every conversion result, the file system after convert() equals the one before:
   the temporary file is gone and nothing else was touched *)
Theorem C18_no_residue : forall c tmp validate o f, lookup tmp f = None ->
  forall p, lookup p (snd (convert c tmp validate o f)) = lookup p f.
Proof. exact convert_no_residue. Qed.
Print Assumptions C18_no_residue.

Theorem C18_cli_json_failure : forall c tmp out ip skip odk enk o f, lookup tmp f = None ->
  (match c with Raise _ => True | Ret _ => rejects (effective_validate skip odk enk) o end) ->
  fst (main_cli_json c tmp out ip skip odk enk o f) = 999%N /\
  forall p, lookup p (snd (main_cli_json c tmp out ip skip odk enk o f)) = lookup p f.
Proof. exact cli_json_failure. Qed.
Print Assumptions C18_cli_json_failure.

Theorem C18_cli_json_success : forall xml items ws tmp out ip skip odk enk o f vw,
  lookup tmp f = None -> out <> tmp -> ip <> out -> ip <> tmp ->
  (effective_validate skip odk enk = true -> check_xform o = Ret vw) ->
  (effective_validate skip odk enk = false -> vw = []) ->
  let r := main_cli_json (Ret (xml, items, ws)) tmp out ip skip odk enk o f in
  fst r = (match ws ++ vw with [] => 100%N | _ => 101%N end)
  /\ lookup out (snd r) = Some xml
  /\ lookup tmp (snd r) = None
  /\ (match items with Some csv => lookup ip (snd r) = Some csv | None => forall p, p <> out -> lookup p (snd r) = lookup p f end).
Proof. exact cli_json_success. Qed.
Print Assumptions C18_cli_json_success.

Theorem C18_cli_plain_reject : forall xml items ws tmp out ip skip odk enk o f,
  lookup tmp f = None -> out <> tmp -> effective_validate skip odk enk = true ->
  spec_check (java_present o) (timed_out o) (rc o) (nonempty (stderr o)) = SReject ->
  let r := main_cli_plain (Ret (xml, items, ws)) tmp out ip skip odk enk o f in
  fst (fst r) = true /\ lookup out (snd r) = None /\ lookup tmp (snd r) = None
  /\ forall p, p <> out -> lookup p (snd r) = lookup p f.
Proof. exact cli_plain_reject. Qed.
Print Assumptions C18_cli_plain_reject.

Theorem C18_cli_plain_java_missing : forall xml items ws tmp out ip skip odk enk o f,
  lookup tmp f = None -> effective_validate skip odk enk = true -> java_present o = false ->
  let r := main_cli_plain (Ret (xml, items, ws)) tmp out ip skip odk enk o f in
  fst (fst r) = true /\ snd (fst r) = false /\ forall p, lookup p (snd r) = lookup p f.
Proof. exact cli_plain_java_missing. Qed.
Print Assumptions C18_cli_plain_java_missing.

Theorem C18_java_lines_dropped : forall msg x, In x (clean_lines msg) ->
  exists l, In l (cleanup_errors msg) /\ contains s_java_colon l = false /\ contains s_tab_at l = false /\ is_elided_frames l = false
            /\ remove_java_content l = Some x.
Proof. exact java_lines_dropped. Qed.
Print Assumptions C18_java_lines_dropped.

(* an instance path is shown as ${name} whatever alphabet the name is written in: every question name that holds no dot is ONE path
   segment of the pattern (a dot ends a segment: it usually ends the sentence) *)
Require Import PX.Model.Names.
Theorem C18_name_is_one_segment : forall n, is_xml_tag n = true -> nochar 46%N n = true -> nochar COLON n = true -> n <> [] /\ forallb segc n = true.
Proof. exact name_is_one_segment. Qed.
Print Assumptions C18_name_is_one_segment.

Theorem C18_source_constants : VALIDATE_TIMEOUT_S = 100%N /\ CLI_CODES = [[49;48;48]; [49;48;49]; [57;57;57]]%N.
Proof. split; reflexivity. Qed.
Print Assumptions C18_source_constants.

(* non-vacuity: a rejecting outcome and an accepting one *)
Theorem C18_nonvacuous :
  check_xform {| java_present := true; timed_out := false; rc := 2%Z; stderr := [47;100;47;113;45;49;32;120]%N |}
    = Raise (EOdkValidate (m_errors ++ [36;123;113;45;49;125;32;120]%N))
  /\ check_xform {| java_present := true; timed_out := false; rc := 0%Z; stderr := [] |} = Ret [].
Proof. vm_compute. split; reflexivity. Qed.
Print Assumptions C18_nonvacuous.
