(* Properties/C19.v — entity declarations follow the documented create/update decision table.  Statements only.
   The code side (entity_reject, entity_attrs, entity_binds) is TRANSLATED from /repo on every run. *)
Require Import PX.Base.Str PX.Spec.DocsEntities PX.Spec.XmlName PX.Model.Names PX.Model.Entities PX.Model.Warnings
  PX.Proofs.Entities PX.Gen.Entities.

Theorem C19_rejections : forall eid cr up lb : bool,
  (match entity_reject eid cr up lb with Some _ => true | None => false end) = spec_rejected eid cr up lb.
Proof. exact reject_table. Qed.
Print Assumptions C19_rejections.

Theorem C19_attributes : forall eid cr up lb, spec_rejected eid cr up lb = false ->
  map fst (entity_attrs eid cr up lb) = spec_attr_names eid cr up lb /\ entity_has_label_child eid cr up lb = lb.
Proof. exact attrs_table. Qed.
Print Assumptions C19_attributes.

Theorem C19_binds : forall eid cr up lb, spec_rejected eid cr up lb = false ->
  map (fun b => (fst (fst b), snd (fst b))) (entity_binds eid cr up lb) = spec_binds eid cr up lb.
Proof. exact binds_table. Qed.
Print Assumptions C19_binds.

Theorem C19_attribute_values : forall eid cr up lb,
  (forall v, In (a_update, v) (entity_attrs eid cr up lb) -> v = [49%N]) /\
  (forall v, In (a_create, v) (entity_attrs eid cr up lb) -> v = [49%N]) /\
  (forall v, In (a_id, v) (entity_attrs eid cr up lb) -> v = []).
Proof. exact attr_values. Qed.
Print Assumptions C19_attribute_values.

(* accepted dataset and property names are XML names, free of the reserved prefix (and of periods / reserved words) *)
Theorem C19_names : forall n : str,
  (dataset_check n = None -> xml_name n = true /\ nochar DOT n = true /\ starts_with reserved_prefix n = false) /\
  (saveto_name_check n = None -> xml_name n = true /\ lower_ascii n <> s_name /\ lower_ascii n <> s_label /\ starts_with reserved_prefix n = false).
Proof. exact (fun n => conj (dataset_ok_is_xml_name n) (saveto_ok_is_xml_name n)). Qed.
Print Assumptions C19_names.

(* the dataset cell: an entities row without a list name (absent or empty cell) is rejected by the reader's own first check, and an
   accepted cell holds a non-empty XML name; the check has no outcome beyond its four rejections and acceptance *)
Theorem C19_dataset_cell : forall c : option str,
  (dataset_cell_check c = None -> exists d, c = Some d /\ d <> [] /\ xml_name d = true /\ nochar DOT d = true /\ starts_with reserved_prefix d = false) /\
  ((exists n, dataset_cell_check c = Some n /\ n <= 3) \/ dataset_cell_check c = None) /\
  dataset_cell_check None = Some 0 /\ dataset_cell_check (Some []) = Some 0.
Proof. exact (fun c => conj (dataset_cell_ok c) (conj (dataset_cell_total c) (conj eq_refl eq_refl))). Qed.
Print Assumptions C19_dataset_cell.

Theorem C19_source_constants :
  ENTITIES_RESERVED_PREFIX = reserved_prefix /\ length ENTITY_REJECT_MESSAGES = 3 /\ length SAVETO_CHECK_ORDER = 7 /\ length DATASET_CHECK_ORDER = 4 /\ hd [] DATASET_CHECK_ORDER = [110;111;116;32;100;97;116;97;115;101;116]%N
  /\ ENTITY_COLUMNS = [a_dataset; [101;110;116;105;116;121;95;105;100]%N; [99;114;101;97;116;101;95;105;102]%N; [117;112;100;97;116;101;95;105;102]%N; s_label].
Proof. repeat split; reflexivity. Qed.
Print Assumptions C19_source_constants.

(* ---- which rows the save_to check takes for the opening of a group, repeat or loop (Model/SaveToRow.v, run against RE_BEGIN_CONTROL_ROW) ---- *)
Require Import PX.Model.TypeCell PX.Model.SaveToRow PX.Proofs.TypeCell PX.Proofs.SaveToRow.
(* EVERY cell that workbook_to_json reads as the opening of a section -- under any control alias, with or without a list -- is refused a save_to *)
Theorem C19_section_rows_recognised : forall t k, parse_begin controls t = Some k -> begin_row controls t = true.
Proof. exact (section_rows_recognised controls). Qed.
Print Assumptions C19_section_rows_recognised.
(* and NO select question, whatever its list is called, is taken for one (defect F55: `select_one groups`) *)
Theorem C19_select_rows_are_not_sections : forall t k, parse_select selects t = Some k -> begin_row controls t = false.
Proof. exact select_rows_are_not_sections. Qed.
Print Assumptions C19_select_rows_are_not_sections.
