(* Properties/C20.v — advisory warnings fire exactly when their trigger is present.  Statements only. *)
Require Import PX.Base.Str PX.Spec.EditDistance PX.Spec.DocsSheets PX.Model.Lev PX.Model.Warnings
  PX.Proofs.LevCorrect PX.Proofs.Warn PX.Proofs.PinsWarn PX.Gen.Warn.

(* the iterative two-row algorithm is the edit distance, for ALL strings (no radius, no length bound).
   The matrix recurrence is stated on the reversed strings, i.e. over prefixes as the algorithm walks them. *)
Theorem C20_levenshtein_correct : forall a b : str, levenshtein a b = edit (rev a) (rev b).
Proof. exact levenshtein_is_edit_distance. Qed.
Print Assumptions C20_levenshtein_correct.

(* a sheet name is reported as a likely misspelling of `key` iff it is within distance 2 (case folded),
   is not itself (case folded) a supported sheet name and does not start with an underscore *)
Theorem C20_misspelling_iff : forall (lower : str -> str) key keys k,
  In k (misspelling_candidates lower SUPPORTED_SHEET_NAMES key keys) <->
  In k keys /\ edit (rev (lower k)) (rev key) <= N.to_nat MISSPELL_MAX_DISTANCE
  /\ ~ In (lower k) docs_sheet_names /\ starts_with [UNDERSCORE] k = false.
Proof.
  intros. destruct warn_constants_pinned as (-> & _ & _ & <- & _). apply misspelling_iff.
Qed.
Print Assumptions C20_misspelling_iff.

(* the parenthesised language code is exactly the text between the leftmost "(" and a final ")" *)
Theorem C20_lang_code_spec : forall lang code,
  lang_code lang = Some code <-> exists pre, lang = pre ++ [LPAREN] ++ code ++ [RPAREN] /\ nochar LPAREN pre = true.
Proof. exact lang_code_spec. Qed.
Print Assumptions C20_lang_code_spec.

Theorem C20_iana_iff : forall lang,
  bad_tag IANA_TAGS_2 IANA_TAGS_3 lang = true <->
  lang <> s_default /\ N.to_nat IANA_MIN_LENGTH <= length lang /\
  (forall code, lang_code lang = Some code -> ~ In code IANA_TAGS_2 /\ ~ In code IANA_TAGS_3).
Proof. intro lang. destruct warn_constants_pinned as (_ & -> & _). apply bad_tag_iff. Qed.
Print Assumptions C20_iana_iff.

(* (language, column) is reported missing iff the sheet is not default-only, the column was seen on the
   sheet, the language was seen on the sheet, and the column was not seen for that language *)
Theorem C20_missing_translations_iff : forall (t : trans) lang c,
  (exists cs, In (lang, cs) (find_missing t) /\ In c cs) <->
  seen_default_only t = false /\ In c (columns_seen t) /\ exists vs, In (lang, vs) (seen t) /\ mem c vs = false.
Proof. exact missing_iff. Qed.
Print Assumptions C20_missing_translations_iff.

Theorem C20_or_other_iff : forall ts tc survey choices b,
  or_other_warns ts tc survey choices b = true <->
  b = true /\ (seen_default_only (find_translations ts survey) = false \/ seen_default_only (find_translations tc choices) = false).
Proof. exact or_other_iff. Qed.
Print Assumptions C20_or_other_iff.

Theorem C20_source_constants :
  MISSPELL_MAX_DISTANCE = 2%N /\ IANA_MIN_LENGTH = 3%N /\ LANG_CODE_PATTERN = [92;40;40;46;42;41;92;41;36]%N
  /\ SUPPORTED_SHEET_NAMES = docs_sheet_names /\ DEFAULT_LANGUAGE_VALUE = s_default.
Proof. exact warn_constants_pinned. Qed.
Print Assumptions C20_source_constants.

(* non-vacuity: "setings" is a candidate for "settings"; "French" has a bad tag, "French (fr)" does not *)
Theorem C20_nonvacuous :
  misspelling_candidates lower_ascii SUPPORTED_SHEET_NAMES [115;101;116;116;105;110;103;115]%N
     [[115;101;116;105;110;103;115]; [115;117;114;118;101;121]; [95;115;101;116;116;105;110;103]]%N = [[115;101;116;105;110;103;115]]%N
  /\ bad_tag IANA_TAGS_2 IANA_TAGS_3 [70;114;101;110;99;104]%N = true
  /\ bad_tag IANA_TAGS_2 IANA_TAGS_3 [70;114;101;110;99;104;32;40;102;114;41]%N = false.
Proof. vm_compute. repeat split; reflexivity. Qed.
Print Assumptions C20_nonvacuous.
