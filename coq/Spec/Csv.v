(* Spec/Csv.v — reader for fully quoted CSV (RFC 4180: fields in double quotes, a quote inside a field doubled,
   comma between fields, CRLF after each record). Independent of the writer model. *)
Require Import PX.Base.Str.
Inductive st := SField | SIn | SQuote | SCR.
Fixpoint pc (s : str) (state : st) (field : str) (row : list str) (rows : list (list str)) : option (list (list str)) :=
  match s with
  | [] => match state, row with SField, [] => Some (rev rows) | _, _ => None end
  | c :: r =>
      match state with
      | SField => if ceq c 34%N then pc r SIn [] row rows else None
      | SIn => if ceq c 34%N then pc r SQuote field row rows else pc r SIn (c :: field) row rows
      | SQuote => if ceq c 34%N then pc r SIn (c :: field) row rows
                  else if ceq c 44%N then pc r SField [] (rev field :: row) rows
                  else if ceq c 13%N then pc r SCR field row rows else None
      | SCR => if ceq c 10%N then pc r SField [] [] (rev (rev field :: row) :: rows) else None
      end
  end.
Definition parse_csv (s : str) : option (list (list str)) := pc s SField [] [] [].
