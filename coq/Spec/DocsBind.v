(* Spec/DocsBind.v — documented logic columns of the survey sheet and the bind attribute each feeds, and the
   documented truth-value spellings (xlsform.org: relevant, required, read_only, constraint, constraint_message,
   required_message, calculation; yes/no).  Not from the code. *)
Require Import PX.Base.Str.
Definition s (l : list N) : str := l.
Definition b_ := s [98;105;110;100]%N.
(* column spelling -> bind attribute *)
Definition docs_logic_columns : list (str * str) := [
  (s [114;101;108;101;118;97;110;116]%N, s [114;101;108;101;118;97;110;116]%N);                                  (* relevant -> relevant *)
  (s [114;101;108;101;118;97;110;99;101]%N, s [114;101;108;101;118;97;110;116]%N);                              (* relevance -> relevant *)
  (s [114;101;113;117;105;114;101;100]%N, s [114;101;113;117;105;114;101;100]%N);                                (* required -> required *)
  (s [114;101;97;100;95;111;110;108;121]%N, s [114;101;97;100;111;110;108;121]%N);                              (* read_only -> readonly *)
  (s [114;101;97;100;111;110;108;121]%N, s [114;101;97;100;111;110;108;121]%N);                                  (* readonly -> readonly *)
  (s [99;111;110;115;116;114;97;105;110;116]%N, s [99;111;110;115;116;114;97;105;110;116]%N);                    (* constraint -> constraint *)
  (s [99;111;110;115;116;114;97;105;110;116;95;109;101;115;115;97;103;101]%N, s [106;114;58;99;111;110;115;116;114;97;105;110;116;77;115;103]%N);  (* constraint_message -> jr:constraintMsg *)
  (s [114;101;113;117;105;114;101;100;95;109;101;115;115;97;103;101]%N, s [106;114;58;114;101;113;117;105;114;101;100;77;115;103]%N);              (* required_message -> jr:requiredMsg *)
  (s [99;97;108;99;117;108;97;116;105;111;110]%N, s [99;97;108;99;117;108;97;116;101]%N);                        (* calculation -> calculate *)
  (s [99;97;108;99;117;108;97;116;101]%N, s [99;97;108;99;117;108;97;116;101]%N)                                 (* calculate -> calculate *)
].
Definition s_true : str := [116;114;117;101;40;41]%N.     (* true() *)
Definition s_false : str := [102;97;108;115;101;40;41]%N. (* false() *)
Definition docs_truth : list (str * str) := [
  (s [121;101;115]%N, s_true); (s [89;101;115]%N, s_true); (s [89;69;83]%N, s_true); (s [116;114;117;101]%N, s_true); (s [84;114;117;101]%N, s_true); (s [84;82;85;69]%N, s_true);
  (s [110;111]%N, s_false); (s [78;111]%N, s_false); (s [78;79]%N, s_false); (s [102;97;108;115;101]%N, s_false); (s [70;97;108;115;101]%N, s_false); (s [70;65;76;83;69]%N, s_false)
].
Definition docs_convertible : list str := [
  s [99;97;108;99;117;108;97;116;101]%N; s [99;111;110;115;116;114;97;105;110;116]%N; s [114;101;97;100;111;110;108;121]%N; s [114;101;108;101;118;97;110;116]%N; s [114;101;113;117;105;114;101;100]%N
].
