(* Spec/DocsChoices.v — the documented shape of secondary instances, itemsets and external-data URIs
   (XLSForm documentation and the ODK XForms specification), written from the documents, not from the code. *)
Require Import PX.Base.Str PX.Model.Warnings PX.Model.Bind PX.Model.Choices.
Definition s_dash : str := [45]%N.  (* - *)
Definition s_comma_sp : str := [44;32]%N.  (* ,  *)
Definition s_open : str := [105;110;115;116;97;110;99;101;40;39]%N.  (* instance(' *)
Definition s_close : str := [39;41;47;114;111;111;116;47;105;116;101;109]%N.  (* ')/root/item *)
Definition s_lb : str := [91]%N.  (* [ *)
Definition s_rb : str := [93]%N.  (* ] *)
Definition s_rand : str := [114;97;110;100;111;109;105;122;101;40]%N.  (* randomize( *)
Definition s_rp : str := [41]%N.  (* ) *)
Definition s_jrfile : str := [106;114;58;47;47;102;105;108;101;47]%N.  (* jr://file/ *)
Definition s_jrcsv : str := [106;114;58;47;47;102;105;108;101;45;99;115;118;47]%N.  (* jr://file-csv/ *)
Definition s_dcsv : str := [46;99;115;118]%N.  (* .csv *)
Definition s_dxml : str := [46;120;109;108]%N.  (* .xml *)
Definition s_dgeo : str := [46;103;101;111;106;115;111;110]%N.  (* .geojson *)
Definition s_itext : str := [106;114;58;105;116;101;120;116;40;105;116;101;120;116;73;100;41]%N.  (* jr:itext(itextId) *)
Definition s_xmlext : str := [120;109;108;45;101;120;116;101;114;110;97;108]%N.  (* xml-external *)
Definition s_csvext : str := [99;115;118;45;101;120;116;101;114;110;97;108]%N.  (* csv-external *)
Definition s_sms : str := [115;109;115;95;111;112;116;105;111;110]%N.  (* sms_option *)
Definition s_doll : str := [36;123]%N.  (* ${ *)
Definition d_itextId : str := [105;116;101;120;116;73;100]%N.
Definition d_name : str := [110;97;109;101]%N.
Definition d_label : str := [108;97;98;101;108]%N.
Definition d_id : str := [105;100]%N.
Definition d_title : str := [116;105;116;108;101]%N.
Definition d_true : str := [116;114;117;101]%N.
Definition d_randomize : str := [114;97;110;100;111;109;105;122;101]%N.
Definition d_seed : str := [115;101;101;100]%N.
Definition d_value : str := [118;97;108;117;101]%N.

(* one <item>: an itext id list-index when the list is translated, the name, the label when it is not translated,
   then every extra column in column order, then sms_option *)
Definition doc_item (translated : bool) (list_name : str) (i : nat) (c : choice) : list (option (str * str)) :=
  map Some (
    (if translated then [(d_itextId, list_name ++ s_dash ++ dec (N.of_nat i))] else []) ++
    [(d_name, c_name c)] ++
    (if translated then [] else match c_label c with Some l => [(d_label, l)] | None => [] end) ++
    c_extra c ++
    (match c_sms c with Some (x :: r) => [(s_sms, x :: r)] | _ => [] end)).
Fixpoint doc_items (translated : bool) (list_name : str) (i : nat) (cs : list choice) :=
  match cs with [] => [] | c :: r => doc_item translated list_name i c :: doc_items translated list_name (S i) r end.

(* itemset nodeset: instance('SOURCE')/root/item, the question's own filter as a predicate, wrapped in
   randomize(..., seed) when randomize=true *)
Definition doc_nodeset (source filter : str) (rand : bool) (seed : option str) : str :=
  let base := s_open ++ source ++ s_close ++ (match filter with [] => [] | _ => s_lb ++ filter ++ s_rb end) in
  if rand then s_rand ++ base ++ (match seed with Some s => s_comma_sp ++ s | None => [] end) ++ s_rp else base.
Definition doc_rand (params : dict) : bool := match dget d_randomize params with Some v => seqb v d_true | None => false end.
Definition doc_seed (params : dict) (substituted : str) : option str :=
  match dget d_seed params with Some sd => Some (if starts_with s_doll sd then substituted else sd) | None => None end.
(* value/label references: name/label for lists and csv/xml files, id/title for geojson, overridden by the value= and
   label= parameters; a translated list shows its labels through jr:itext(itextId) *)
Definition doc_refs (its : str) (translated : bool) (params : dict) : str * str :=
  let ext := snd (splitext its) in
  let geo := seqb ext s_dgeo in
  let file := seqb ext s_dgeo || seqb ext s_dcsv || seqb ext s_dxml in
  let v := match dget d_value params with Some x => x | None => if geo then d_id else d_name end in
  let l := match dget d_label params with Some x => x | None => if geo then d_title else d_label end in
  (v, if file then l else if translated then s_itext else l).

(* conventional URIs *)
Definition doc_uri_file (file_name : str) : str :=
  if seqb (snd (splitext file_name)) s_dcsv then s_jrcsv ++ file_name else s_jrfile ++ file_name.
Definition doc_uri_pulldata (file_id : str) : str := s_jrcsv ++ file_id ++ s_dcsv.
Definition doc_uri_external (name ty : str) : option str :=
  if seqb ty s_xmlext then Some (s_jrfile ++ name ++ s_dxml)
  else if seqb ty s_csvext then Some (s_jrcsv ++ name ++ s_dcsv) else None.
Definition doc_extensions : list str := [s_dcsv; s_dgeo; s_dxml].
