(* Spec/DocsEntities.v — the documented create/update decision table for entity declarations
   (getodk.github.io/xforms-spec/entities and the XLSForm entities documentation), NOT transcribed from code.
   Inputs: presence of entity_id, create_if, update_if, label.  Rows:
       id create update   result
       1  0      0        always update
       1  0      1        update on condition
       1  1      0        rejected (an id is only acceptable when updating)
       1  1      1        create and update on their conditions
       0  0      0        always create          (label required)
       0  0      1        rejected (update needs an id)
       0  1      0        create on condition    (label required)
       0  1      1        rejected (update needs an id)                                          *)
Require Import PX.Base.Str.

Definition spec_rejected (eid cr up lb : bool) : bool :=
  (up && negb eid)                 (* updating needs an id *)
  || (eid && cr && negb up)        (* id + create condition needs an update condition *)
  || (negb eid && negb lb).        (* creating needs a label *)

Definition s (l : list N) : str := l.
Definition a_dataset := s [100;97;116;97;115;101;116]%N.
Definition a_id := s [105;100]%N.
Definition a_update := s [117;112;100;97;116;101]%N.
Definition a_create := s [99;114;101;97;116;101]%N.
Definition a_baseVersion := s [98;97;115;101;86;101;114;115;105;111;110]%N.
Definition a_trunkVersion := s [116;114;117;110;107;86;101;114;115;105;111;110]%N.
Definition a_branchId := s [98;114;97;110;99;104;73;100]%N.

(* attribute NAMES present on meta/entity *)
Definition spec_attr_names (eid cr up lb : bool) : list str :=
  [a_dataset; a_id]
  ++ (if eid then [a_update; a_baseVersion; a_trunkVersion; a_branchId] else [])   (* only when updating *)
  ++ (if cr || (negb up && negb eid) then [a_create] else []).                     (* creating *)

(* binds/actions, as (kind, destination below meta/entity) in document order *)
Definition k_bind := s [98;105;110;100]%N.
Definition k_idbind := s [105;100;98;105;110;100]%N.
Definition k_setvalue := s [115;101;116;118;97;108;117;101]%N.
Definition d_create := s [47;64;99;114;101;97;116;101]%N.
Definition d_update := s [47;64;117;112;100;97;116;101]%N.
Definition d_id := s [47;64;105;100]%N.
Definition d_base := s [47;64;98;97;115;101;86;101;114;115;105;111;110]%N.
Definition d_trunk := s [47;64;116;114;117;110;107;86;101;114;115;105;111;110]%N.
Definition d_branch := s [47;64;98;114;97;110;99;104;73;100]%N.
Definition d_label := s [47;108;97;98;101;108]%N.
Definition spec_binds (eid cr up lb : bool) : list (str * str) :=
  (if cr then [(k_bind, d_create)] else [])                    (* condition bound to @create *)
  ++ [(k_idbind, d_id)]                                        (* @id: calculated from entity_id when updating *)
  ++ (if cr || negb eid then [(k_setvalue, d_id)] else [])     (* uuid() on first load when creating *)
  ++ (if up then [(k_bind, d_update)] else [])                 (* condition bound to @update *)
  ++ (if eid then [(k_bind, d_base); (k_bind, d_trunk); (k_bind, d_branch)] else [])
  ++ (if lb then [(k_bind, d_label)] else []).                 (* label bound to entity/label *)
