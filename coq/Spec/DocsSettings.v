(* Spec/DocsSettings.v — where each setting goes, from the XLSForm documentation (settings sheet) and the ODK XForms
   specification (submission element, primary instance attributes). Written over the de-aliased settings row. *)
Require Import PX.Base.Str PX.Model.Bind.
Definition d_title : str := [116;105;116;108;101]%N.  (* title *)
Definition d_id_string : str := [105;100;95;115;116;114;105;110;103]%N.  (* id_string *)
Definition d_name : str := [110;97;109;101]%N.  (* name *)
Definition d_version : str := [118;101;114;115;105;111;110]%N.  (* version *)
Definition d_style : str := [115;116;121;108;101]%N.  (* style *)
Definition d_data : str := [100;97;116;97]%N.  (* data *)
Definition d_submission_url : str := [115;117;98;109;105;115;115;105;111;110;95;117;114;108]%N.  (* submission_url *)
Definition d_public_key : str := [112;117;98;108;105;99;95;107;101;121]%N.  (* public_key *)
Definition d_auto_send : str := [97;117;116;111;95;115;101;110;100]%N.  (* auto_send *)
Definition d_auto_delete : str := [97;117;116;111;95;100;101;108;101;116;101]%N.  (* auto_delete *)
Definition d_action : str := [97;99;116;105;111;110]%N.  (* action *)
Definition d_method : str := [109;101;116;104;111;100]%N.  (* method *)
Definition d_post : str := [112;111;115;116]%N.  (* post *)
Definition d_b64 : str := [98;97;115;101;54;52;82;115;97;80;117;98;108;105;99;75;101;121]%N.  (* base64RsaPublicKey *)
Definition d_orxsend : str := [111;114;120;58;97;117;116;111;45;115;101;110;100]%N.  (* orx:auto-send *)
Definition d_orxdelete : str := [111;114;120;58;97;117;116;111;45;100;101;108;101;116;101]%N.  (* orx:auto-delete *)
Definition d_id : str := [105;100]%N.  (* id *)
Definition d_xmlns : str := [120;109;108;110;115]%N.  (* xmlns *)
Definition d_instance_xmlns : str := [105;110;115;116;97;110;99;101;95;120;109;108;110;115]%N.  (* instance_xmlns *)
Definition d_prefix : str := [112;114;101;102;105;120]%N.  (* prefix *)
Definition d_delimiter : str := [100;101;108;105;109;105;116;101;114]%N.  (* delimiter *)
Definition d_odkprefix : str := [111;100;107;58;112;114;101;102;105;120]%N.  (* odk:prefix *)
Definition d_odkdelimiter : str := [111;100;107;58;100;101;108;105;109;105;116;101;114]%N.  (* odk:delimiter *)
Definition d_instance_name : str := [105;110;115;116;97;110;99;101;95;110;97;109;101]%N.  (* instance_name *)
Definition d_omit : str := [111;109;105;116;95;105;110;115;116;97;110;99;101;73;68]%N.  (* omit_instanceID *)
Definition present (k : str) (s : dict) : option str := match dget k s with Some (c :: r) => Some (c :: r) | _ => None end.
Definition opt_attr (attr : str) (v : option str) : dict := match v with Some x => [(attr, x)] | None => [] end.

(* form_id: the id attribute; when absent the file name, else data *)
Definition doc_id (s : dict) (file_stem : option str) : str :=
  match dget d_id_string s with Some v => v | None => match file_stem with Some f => f | None => d_data end end.
(* form_title: the title; when absent the form id *)
Definition doc_title (s : dict) (file_stem : option str) : str :=
  match dget d_title s with Some v => v | None => doc_id s file_stem end.
(* name: the element name of the primary instance root; when absent the form_name argument, else data *)
Definition doc_root_name (s : dict) (form_name : option str) : str :=
  match dget d_name s with Some v => v | None => match form_name with Some n => n | None => d_data end end.
Definition doc_body_class (s : dict) : option str := present d_style s.
(* submission: present when any of the four settings is; action+method=post from submission_url, then the key, then auto-send, auto-delete *)
Definition doc_submission (s : dict) : option dict :=
  match present d_submission_url s, present d_public_key s, present d_auto_send s, present d_auto_delete s with
  | None, None, None, None => None
  | u, k, a, d => Some (match u with Some x => [(d_action, x); (d_method, d_post)] | None => [] end ++
                        opt_attr d_b64 k ++ opt_attr d_orxsend a ++ opt_attr d_orxdelete d)
  end.
(* primary instance root: the attribute:: columns, then id, xmlns, version, odk:prefix, odk:delimiter *)
Definition doc_root_attrs (s attribute : dict) (file_stem : option str) : dict :=
  attribute ++ [(d_id, doc_id s file_stem)] ++ opt_attr d_xmlns (present d_instance_xmlns s) ++ opt_attr d_version (present d_version s) ++
  opt_attr d_odkprefix (present d_prefix s) ++ opt_attr d_odkdelimiter (present d_delimiter s).
Definition reserved_root_attrs : list str := [d_id; d_xmlns; d_version; d_odkprefix; d_odkdelimiter].
