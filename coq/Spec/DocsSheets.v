(* Spec/DocsSheets.v — documented sheet names and translatable columns (xlsform.org reference), not from code. *)
Require Import PX.Base.Str.
Definition docs_sheet_names : list str := [
  [99;104;111;105;99;101;115];                                   (* choices *)
  [101;110;116;105;116;105;101;115];                             (* entities *)
  [101;120;116;101;114;110;97;108;95;99;104;111;105;99;101;115]; (* external_choices *)
  [111;115;109];                                                 (* osm *)
  [115;101;116;116;105;110;103;115];                             (* settings *)
  [115;117;114;118;101;121]                                      (* survey *)
]%N.
