(* Spec/DocsValidate.v — documented validator outcome table (property C18 / DESIGN.md Appendix D), not from code:
     java absent            -> OSError, nothing validated
     watchdog fired         -> accepted, one fixed warning
     exit code > 0          -> rejected: ODKValidateError carrying the cleaned stderr
     exit code 0, no stderr -> accepted, no warning
     exit code 0, stderr    -> accepted, one warning carrying stderr
     exit code < 0 (killed) -> accepted, one fixed warning                                            *)
Require Import PX.Base.Str.
From Coq Require Import ZArith.
Inductive spec_verdict := SOsError | SReject | SAccept (warns : bool).
Definition spec_check (java timeout : bool) (rc : Z) (stderr_nonempty : bool) : spec_verdict :=
  if negb java then SOsError
  else if timeout then SAccept true
  else if (0 <? rc)%Z then SReject
  else if (rc =? 0)%Z then SAccept stderr_nonempty
  else SAccept true.
(* which validators run: --skip_validate wins; no flag = ODK only; otherwise exactly the requested ones *)
Definition spec_validators (skip_flag_given odk enk : bool) : bool * bool :=
  if skip_flag_given then (false, false) else if negb (odk || enk) then (true, false) else (odk, enk).
