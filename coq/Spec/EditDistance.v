(* Spec/EditDistance.v — Levenshtein distance by its defining recurrence (Wagner–Fischer):
     d(a, []) = |a|,  d([], b) = |b|,
     d(x::a, y::b) = min( d(a, y::b) + 1, d(x::a, b) + 1, d(a, b) + [x <> y] ).
   The recursion is over whole strings (exponential, obviously not what the code does). *)
Require Import PX.Base.Str.

Definition min3 (a b c : nat) : nat := Nat.min a (Nat.min b c).

Fixpoint edit (a b : str) {struct a} : nat :=
  match a with
  | [] => length b
  | x :: a' =>
      (fix aux (b : str) : nat :=
         match b with
         | [] => S (length a')
         | y :: b' => min3 (S (edit a' b)) (S (aux b')) ((if ceq x y then 0 else 1) + edit a' b')
         end) b
  end.

Lemma edit_nil_r a : edit a [] = length a.
Proof. destruct a; reflexivity. Qed.
Lemma edit_cons x a y b :
  edit (x :: a) (y :: b) = min3 (S (edit a (y :: b))) (S (edit (x :: a) b)) ((if ceq x y then 0 else 1) + edit a b).
Proof. reflexivity. Qed.
