(* Spec/LayoutEquiv.v — "the same XML document up to the layout the pretty printer adds": a finer relation than ws_equiv.
   Only white-space-only text that contains a line break (what toprettyxml writes: newline + indentation) is layout; white space
   without a line break — the space between two <output/> elements of a label — is text content and must be identical. *)
Require Import PX.Base.Str PX.Model.Dom PX.Spec.XmlParse PX.Spec.WsEquiv.

Definition has_nl (s : str) : bool := existsb (N.eqb NL) s.
Definition layout (s : str) : bool := match s with [] => true | _ => ws_only s && has_nl s end.
Definition tx_lay (x : xn) : bool := match x with El _ _ _ => true | Tx s => layout s end.

(* inside an element that has element children and whose text children are all layout, the text children are dropped;
   everything else (in particular every text child of an element holding any non-layout text) is kept verbatim *)
Fixpoint lnorm (x : xn) : xn :=
  match x with
  | Tx s => Tx s
  | El t a kids =>
      let kids' := map lnorm kids in
      if existsb is_el kids && forallb tx_lay kids then El t a (filter is_el kids') else El t a kids'
  end.
Definition layout_equiv (a b : xn) : Prop := lnorm a = lnorm b.
