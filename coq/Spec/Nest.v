(* Spec/Nest.v — the nesting grammar of survey rows: a question row; a begin k … end k block; rows that
   contribute nothing (disabled, comment and empty rows).  Declarative: no stack, no row numbers. *)
Require Import PX.Base.Str.
Inductive ckind := KGroup | KRepeat | KLoop.
Definition ckind_eqb (a b : ckind) : bool :=
  match a, b with KGroup, KGroup | KRepeat, KRepeat | KLoop, KLoop => true | _, _ => false end.
Inductive row := RowQ (name : str) | RowBegin (k : ckind) (name : str) | RowEnd (k : ckind) | RowSkip.
Inductive rtree := TQ (name : str) | TS (k : ckind) (name : str) (kids : list rtree).

Inductive Nest : list row -> list rtree -> Prop :=
| Nest_nil : Nest [] []
| Nest_q n rs ts : Nest rs ts -> Nest (RowQ n :: rs) (TQ n :: ts)
| Nest_skip rs ts : Nest rs ts -> Nest (RowSkip :: rs) ts
| Nest_block k n inner kids rs ts :
    Nest inner kids -> Nest rs ts -> Nest (RowBegin k n :: inner ++ RowEnd k :: rs) (TS k n kids :: ts).

(* reading a forest back in document order *)
Fixpoint flatten (t : rtree) : list row :=
  match t with
  | TQ n => [RowQ n]
  | TS k n kids => RowBegin k n :: flat_map flatten kids ++ [RowEnd k]
  end.
Definition strip (rs : list row) : list row := filter (fun r => match r with RowSkip => false | _ => true end) rs.
