(* Spec/NsCheck.v — Namespaces in XML 1.0: every element and attribute prefix is bound by an
   xmlns:p declaration in scope (the prefix `xml` is predeclared; `xmlns` itself is reserved). *)
Require Import PX.Base.Str PX.Model.Dom PX.Spec.XmlParse.

Definition COLON : char := 58%N.
Definition s_xmlns : str := [120;109;108;110;115]%N.
Definition s_xml : str := [120;109;108]%N.

(* prefix of a QName: the part before the first colon, if any *)
Definition qprefix (n : str) : option str :=
  let (a, b) := span (fun c => negb (ceq c COLON)) n in
  match b with [] => None | _ :: _ => Some a end.

Definition declared (attrs : list (str * str)) : list str :=
  flat_map (fun a => match qprefix (fst a) with
                     | Some p => if seqb p s_xmlns then [skipn 6 (fst a)] else []
                     | None => [] end) attrs.

Definition local_part (n : str) : str :=
  let (a, b) := span (fun c => negb (ceq c COLON)) n in match b with [] => a | _ :: r => r end.
(* QName: at most one colon, non-empty prefix and local part *)
Definition qname_ok (n : str) : bool :=
  match qprefix n with
  | None => true
  | Some p => negb (seqb p []) && negb (seqb (local_part n) []) && nochar COLON (local_part n)
  end.
Definition bound (scope : list str) (n : str) : bool :=
  qname_ok n &&
  match qprefix n with
  | None => true
  | Some p => seqb p s_xml || seqb p s_xmlns || existsb (seqb p) scope
  end.
(* element names must not have the prefix xmlns (Namespaces in XML, section 3: reserved prefixes) *)
Definition bound_el (scope : list str) (n : str) : bool :=
  bound scope n && match qprefix n with Some p => negb (seqb p s_xmlns) | None => true end.

(* namespace declarations (section 3, "Namespace constraint: Reserved Prefixes and Namespace Names", and section 5/6 for the empty
   value): xmlns="uri" declares the default namespace (prefix ""), xmlns:p="uri" the prefix p.
     - a prefix cannot be declared for the empty namespace name (Namespaces 1.0),
     - the prefix xmlns must not be declared, and nothing may be bound to the xmlns namespace name,
     - the prefix xml may only be bound to the xml namespace name, and nothing else may be bound to it. *)
Definition XML_NS : str := [104;116;116;112;58;47;47;119;119;119;46;119;51;46;111;114;103;47;88;77;76;47;49;57;57;56;47;110;97;109;101;115;112;97;99;101]%N.
Definition XMLNS_NS : str := [104;116;116;112;58;47;47;119;119;119;46;119;51;46;111;114;103;47;50;48;48;48;47;120;109;108;110;115;47]%N.
Definition decl_prefix (name : str) : option str :=
  if seqb name s_xmlns then Some []
  else match qprefix name with Some p => if seqb p s_xmlns then Some (skipn 6 name) else None | None => None end.
Definition is_nil (s : str) : bool := match s with [] => true | _ => false end.
Definition decl_ok (a : str * str) : bool :=
  match decl_prefix (fst a) with
  | None => true
  | Some p => negb ((negb (is_nil p) && is_nil (snd a)) || seqb p s_xmlns || seqb (snd a) XMLNS_NS
                    || xorb (seqb p s_xml) (seqb (snd a) XML_NS))
  end.
(* what is demanded of one element in the scope its own declarations extend *)
Definition here_ns (scope : list str) (t : str) (a : list (str * str)) : bool :=
  forallb decl_ok a && bound_el scope t && forallb (fun p => bound scope (fst p)) a.

Fixpoint ns_ok (scope : list str) (x : xn) : bool :=
  match x with
  | Tx _ => true
  | El t a kids => let scope' := declared a ++ scope in here_ns scope' t a && forallb (ns_ok scope') kids
  end.

Fixpoint dup_free (l : list str) : bool :=
  match l with [] => true | x :: r => negb (existsb (seqb x) r) && dup_free r end.
(* well-formedness constraint: unique attribute names on every element *)
Fixpoint attrs_unique (x : xn) : bool :=
  match x with
  | Tx _ => true
  | El _ a kids => dup_free (map fst a) && forallb attrs_unique kids
  end.
