(* Spec/NsCheck.v — Namespaces in XML 1.0: every element and attribute prefix is bound by an
   xmlns:p declaration in scope (the prefix `xml` is predeclared; `xmlns` itself is reserved). *)
Require Import PX.Base.Str PX.Model.Dom PX.Spec.XmlParse.

Definition COLON : char := 58%N.
Definition s_xmlns : str := [120;109;108;110;115]%N.
Definition s_xml : str := [120;109;108]%N.

(* prefix of a QName: the part before the first colon, if any *)
Definition qprefix (n : str) : option str :=
  let (a, b) := span (fun c => negb (ceq c COLON)) n in
  match b with [] => None | _ :: _ => Some a end.

Definition declared (attrs : list (str * str)) : list str :=
  flat_map (fun a => match qprefix (fst a) with
                     | Some p => if seqb p s_xmlns then [skipn 6 (fst a)] else []
                     | None => [] end) attrs.

Definition local_part (n : str) : str :=
  let (a, b) := span (fun c => negb (ceq c COLON)) n in match b with [] => a | _ :: r => r end.
(* QName: at most one colon, non-empty prefix and local part *)
Definition qname_ok (n : str) : bool :=
  match qprefix n with
  | None => true
  | Some p => negb (seqb p []) && negb (seqb (local_part n) []) && nochar COLON (local_part n)
  end.
Definition bound (scope : list str) (n : str) : bool :=
  qname_ok n &&
  match qprefix n with
  | None => true
  | Some p => seqb p s_xml || seqb p s_xmlns || existsb (seqb p) scope
  end.

Fixpoint ns_ok (scope : list str) (x : xn) : bool :=
  match x with
  | Tx _ => true
  | El t a kids =>
      let scope' := declared a ++ scope in
      bound scope' t && forallb (fun p => bound scope' (fst p)) a && forallb (ns_ok scope') kids
  end.

Fixpoint dup_free (l : list str) : bool :=
  match l with [] => true | x :: r => negb (existsb (seqb x) r) && dup_free r end.
(* well-formedness constraint: unique attribute names on every element *)
Fixpoint attrs_unique (x : xn) : bool :=
  match x with
  | Tx _ => true
  | El _ a kids => dup_free (map fst a) && forallb attrs_unique kids
  end.
