(* Spec/Runs.v — "no run of more than max consecutive empty entries". *)
Require Import PX.Base.Str.
Section Runs.
Context {A : Type}.
Variable empty : A -> bool.
(* k = length of the run of empties immediately before the list *)
Fixpoint runs_ok (max k : nat) (l : list A) : bool :=
  match l with
  | [] => true
  | x :: r => if empty x then (k <? max) && runs_ok max (S k) r else runs_ok max 0 r
  end.
End Runs.
