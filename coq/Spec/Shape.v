(* Spec/Shape.v — the element/attribute skeleton of a parsed document: tags, attribute NAMES, element
   children in order; all character data and attribute values erased. *)
Require Import PX.Base.Str PX.Model.Dom PX.Spec.XmlParse.
Inductive sh := Sh (tag : str) (attr_names : list str) (kids : list sh).
Fixpoint xshape (x : xn) : sh :=
  match x with
  | El t a k => Sh t (map fst a) (flat_map (fun c => match c with El _ _ _ => [xshape c] | Tx _ => [] end) k)
  | Tx _ => Sh [] [] []
  end.
(* the same skeleton read off the DOM *)
Fixpoint dshape (n : node) : sh :=
  match n with
  | DE t a k => Sh t (map fst a) (flat_map (fun c => match c with DE _ _ _ | ME _ _ => [dshape c] | _ => [] end) k)
  | ME t a => Sh t (map fst a) []
  | PT _ | MT _ => Sh [] [] []
  end.
