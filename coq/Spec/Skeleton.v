(* Spec/Skeleton.v — the ODK XForm skeleton of C01, stated on parsed documents. *)
Require Import PX.Base.Str PX.Model.Dom PX.Spec.XmlParse PX.Spec.WsEquiv.

Definition tag_of (x : xn) : str := match x with El t _ _ => t | Tx _ => [] end.
Definition attrs_of (x : xn) : list (str * str) := match x with El _ a _ => a | Tx _ => [] end.
Definition elkids (x : xn) : list xn := match x with El _ _ k => filter is_el k | Tx _ => [] end.
Fixpoint lookup (k : str) (l : list (str * str)) : option str :=
  match l with [] => None | (a, v) :: r => if seqb a k then Some v else lookup k r end.
Fixpoint first_with_tag (t : str) (l : list xn) : option xn :=
  match l with [] => None | x :: r => if seqb (tag_of x) t then Some x else first_with_tag t r end.

Definition s_html : str := [104;58;104;116;109;108]%N.
Definition s_head : str := [104;58;104;101;97;100]%N.
Definition s_title : str := [104;58;116;105;116;108;101]%N.
Definition s_body : str := [104;58;98;111;100;121]%N.
Definition s_model : str := [109;111;100;101;108]%N.
Definition s_instance : str := [105;110;115;116;97;110;99;101]%N.
Definition s_id : str := [105;100]%N.

(* html root; element children exactly head, body; head's element children exactly one title and one
   model; the model's first `instance` element is the primary instance: it carries no id/src of its own
   and has exactly one element child, whose `id` attribute is the form id. *)
Definition skeleton (d : xn) (form_id : str) : Prop :=
  tag_of d = s_html /\
  exists head body, elkids d = [head; body] /\ tag_of head = s_head /\ tag_of body = s_body /\
  exists title model, elkids head = [title; model] /\ tag_of title = s_title /\ tag_of model = s_model /\
  exists inst root, first_with_tag s_instance (elkids model) = Some inst /\
     attrs_of inst = [] /\ elkids inst = [root] /\ lookup s_id (attrs_of root) = Some form_id.
