(* Spec/WsEquiv.v — "the same XML document up to whitespace-only text between elements". *)
Require Import PX.Base.Str PX.Model.Dom PX.Spec.XmlParse.

Definition ws_only (s : str) : bool := forallb is_ws s.
Definition is_el (x : xn) : bool := match x with El _ _ _ => true | Tx _ => false end.
Definition tx_ws (x : xn) : bool := match x with El _ _ _ => true | Tx s => ws_only s end.

(* normal form: inside an element that has element children and whose text children are all
   whitespace-only, the text children are dropped; everything else is kept verbatim. *)
Fixpoint norm (x : xn) : xn :=
  match x with
  | Tx s => Tx s
  | El t a kids =>
      let kids' := map norm kids in
      if existsb is_el kids && forallb tx_ws kids then El t a (filter is_el kids') else El t a kids'
  end.
Definition ws_equiv (a b : xn) : Prop := norm a = norm b.
