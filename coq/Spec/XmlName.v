(* Spec/XmlName.v — XML 1.0 (5th ed.) NameStartChar / NameChar productions [4], [4a]. *)
Require Import PX.Base.Str.
Local Open Scope N_scope.
Definition inr (lo hi c : N) : bool := (lo <=? c) && (c <=? hi).
Definition xml_namestart (c : N) : bool :=
  (c =? 58) || inr 65 90 c || (c =? 95) || inr 97 122 c ||
  inr 192 214 c || inr 216 246 c || inr 248 767 c || inr 880 893 c || inr 895 8191 c ||
  inr 8204 8205 c || inr 8304 8591 c || inr 11264 12271 c || inr 12289 55295 c ||
  inr 63744 64975 c || inr 65008 65533 c || inr 65536 983039 c.
Definition xml_namech (c : N) : bool :=
  xml_namestart c || (c =? 45) || (c =? 46) || inr 48 57 c || (c =? 183) || inr 768 879 c || inr 8255 8256 c.
(* XML Char production [2] *)
Definition xml_char (c : N) : bool :=
  (c =? 9) || (c =? 10) || (c =? 13) || inr 32 55295 c || inr 57344 65533 c || inr 65536 1114111 c.
Lemma xml_nc_sp : xml_namech 32 = false. Proof. reflexivity. Qed.
Lemma xml_nc_slash : xml_namech 47 = false. Proof. reflexivity. Qed.
Lemma xml_nc_gt : xml_namech 62 = false. Proof. reflexivity. Qed.
Lemma xml_nc_eq : xml_namech 61 = false. Proof. reflexivity. Qed.
Definition xml_name (n : str) : bool :=
  match n with [] => false | c :: _ => xml_namestart c && forallb xml_namech n end.
