(* Spec/XmlParse.v — an independent XML 1.0 parser for the subset the writers can emit:
   prolog `<?xml version="1.0"?>`, elements, double-quoted attributes, character data, the
   predefined entity references &lt; &gt; &amp; &quot;.  Names are a NameStartChar followed by
   NameChars (predicates are Section variables; the instance for XML 1.0 is in Spec/XmlName.v).
   Rejected: raw `<` in text or attribute values, unknown or unterminated references, mismatched
   tags, malformed attribute syntax.  Whitespace normalisation of attribute values (TAB/LF/CR)
   and line-end normalisation (CR) are not modelled: the parser is exact on documents free of CR
   and of TAB/LF inside attribute values; the correspondence op `xmlparse` compares it with expat. *)
Require Import PX.Base.Str PX.Model.Dom.

Inductive xn := El (tag : str) (attrs : list (str * str)) (kids : list xn) | Tx (s : str).

Definition obind {A B} (o : option A) (f : A -> option B) : option B :=
  match o with Some a => f a | None => None end.
Notation "x <- o ;; k" := (obind o (fun x => k)) (at level 60, right associativity).

Definition is4 (a b c d : char) (w x y z : char) : bool := ceq a w && ceq b x && ceq c y && ceq d z.
Fixpoint unesc (s : str) : option str :=
  match s with
  | [] => Some []
  | c :: r =>
    if ceq c AMP then
      match r with
      | c1 :: c2 :: c3 :: r3 =>
        if ceq c1 108%N && ceq c2 116%N && ceq c3 59%N then option_map (cons LT) (unesc r3)
        else if ceq c1 103%N && ceq c2 116%N && ceq c3 59%N then option_map (cons GT) (unesc r3)
        else match r3 with
             | c4 :: r4 =>
               if is4 c1 c2 c3 c4 97%N 109%N 112%N 59%N then option_map (cons AMP) (unesc r4)
               else match r4 with
                    | c5 :: r5 =>
                      if is4 c1 c2 c3 c4 113%N 117%N 111%N 116%N && ceq c5 59%N then option_map (cons QUOT) (unesc r5)
                      else None
                    | [] => None
                    end
             | [] => None
             end
      | _ => None
      end
    else if ceq c LT then None
    else option_map (cons c) (unesc r)
  end.

Definition notc (x : char) (c : char) : bool := negb (ceq c x).

Section Parser.
Variable namestart namech : char -> bool.

Definition name_ok (n : str) : bool :=
  match n with [] => false | c :: _ => namestart c end.

Fixpoint p_attrs (fuel : nat) (s : str) : option (list (str * str) * str) :=
  match fuel with
  | 0 => None
  | S f =>
    match s with
    | c :: s1 =>
      if ceq c SP then
        let (name, s2) := span namech s1 in
        match name with
        | [] => p_attrs f s1      (* white space before the closing > or /> *)
        | _ :: _ =>
        match s2 with
        | e :: q :: s3 =>
          if name_ok name && ceq e EQ && ceq q QUOT then
            let (raw, s4) := span (notc QUOT) s3 in
            match s4 with
            | q2 :: s5 =>
              v <- unesc raw ;;
              r <- p_attrs f s5 ;;
              Some ((name, v) :: fst r, snd r)
            | [] => None
            end
          else None
        | _ => None
        end
        end
      else Some ([], s)
    | [] => Some ([], s)
    end
  end.

Fixpoint p_elem (fuel : nat) (s : str) : option (xn * str) :=
  match fuel with
  | 0 => None
  | S f =>
    match s with
    | c :: s1 =>
      if ceq c LT then
        let (name, s2) := span namech s1 in
        if name_ok name then
          ar <- p_attrs (S (length s2)) s2 ;;
          match snd ar with
          | a :: r =>
            if ceq a SLASH then
              match r with
              | b :: r' => if ceq b GT then Some (El name (fst ar) [], r') else None
              | [] => None
              end
            else if ceq a GT then
              kr <- p_content f r ;;
              r3 <- prefix ([LT; SLASH] ++ name ++ [GT]) (snd kr) ;;
              Some (El name (fst ar) (fst kr), r3)
            else None
          | [] => None
          end
        else None
      else None
    | [] => None
    end
  end
with p_content (fuel : nat) (s : str) : option (list xn * str) :=
  match fuel with
  | 0 => None
  | S f =>
    match s with
    | [] => Some ([], [])
    | c :: r =>
      if ceq c LT then
        match r with
        | d :: _ =>
          if ceq d SLASH then Some ([], s)
          else er <- p_elem f s ;; kr <- p_content f (snd er) ;; Some (fst er :: fst kr, snd kr)
        | [] => None
        end
      else
        let (txt, r1) := span (notc LT) s in
        t <- unesc txt ;;
        kr <- p_content f r1 ;;
        Some (Tx t :: fst kr, snd kr)
    end
  end.

Definition is_ws (c : char) : bool := ceq c SP || ceq c NL || ceq c 9%N || ceq c 13%N.
Fixpoint skip_ws (s : str) : str :=
  match s with c :: r => if is_ws c then skip_ws r else s | [] => [] end.

(* a whole document: the declaration, optional white space, one element, optional white space *)
Definition xml_parse (s : str) : option xn :=
  body <- prefix decl s ;;
  let b := skip_ws body in
  er <- p_elem (2 * length b) b ;;
  match skip_ws (snd er) with [] => Some (fst er) | _ => None end.
End Parser.
