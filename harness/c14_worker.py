#!/venv/bin/python
"""Worker for the C14 oracle: convert the forms in a JSON file in the given order, print result digests.
Run as a fresh interpreter under a chosen PYTHONHASHSEED."""
import hashlib
import json
import sys

sys.path.insert(0, sys.argv[2] if len(sys.argv) > 2 else "/repo")
from pyxform.xls2xform import convert  # noqa: E402
from pyxform.errors import PyXFormError  # noqa: E402

forms = json.load(open(sys.argv[1]))
out = []
for f in forms:
    try:
        r = convert(f)
        out.append(hashlib.sha256(json.dumps([r.xform, r.warnings, r.itemsets], ensure_ascii=False).encode()).hexdigest())
    except PyXFormError as e:
        out.append("pyxerr:" + hashlib.sha256(str(e).encode()).hexdigest()[:8])
    except Exception as e:  # noqa: BLE001
        out.append("crash:" + type(e).__name__)
print(json.dumps(out))
