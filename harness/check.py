#!/venv/bin/python
"""check.py <property id> [--tier quick|thorough] — one check invocation (DESIGN.md section 4.1).

exit 0: the property held on everything explored (KNOWN-FINDING lines may be printed);
exit 1: a line `VIOLATION property=<id> replay=<path>` was printed.
"""

from __future__ import annotations

import argparse
import importlib
import json
import os
import sys
import traceback
from pathlib import Path

HERE = Path(__file__).resolve().parent
sys.path.insert(0, str(HERE))
if os.environ.get("PYTHONHASHSEED") != "0" and __name__ == "__main__":
    # string hashing must not vary from run to run: generators and oracles iterate over sets in a few places
    os.environ["PYTHONHASHSEED"] = "0"
    os.execv(sys.executable, [sys.executable, *sys.argv])
os.environ.setdefault("PYTHONHASHSEED", "0")

import common  # noqa: E402
from common import EVIDENCE, VERIF, REPO, Timer, rng_for, seed_from_env, write_json  # noqa: E402
import engine  # noqa: E402

TRUSTED_BASE = [
    "Coq 8.16.1 kernel (coqc, full .vo build; vm_compute used for finite sweeps, refutation witnesses and "
    "correspondence cases; native_compute not used; no kernel check switched off)",
    "axioms: none declared; every property theorem is `Closed under the global context` unless listed under axioms",
    "translator harness/translate.py (regenerates coq/Gen/*.v from /repo on every run; fail-closed)",
    "correspondence harness (python generators, adapters calling pyxform, canonicalisers) + evaluation of the "
    "model inside Coq by `Eval vm_compute` on generated cases files (no extraction is used)",
    "hand-written model coq/Model/*.v is tied to /repo by sampled correspondence, not by proof",
    "CPython 3.12 stdlib (xml.dom.minidom, expat, csv, re), lxml (direct oracles only)",
]


def main(argv=None) -> int:
    ap = argparse.ArgumentParser()
    ap.add_argument("pid")
    ap.add_argument("--tier", default=os.environ.get("VERIF_TIER", "quick"), choices=["quick", "thorough"])
    ap.add_argument("--replay", default=None)
    ap.add_argument("--no-build", action="store_true", help="debug only: skip regenerate+make")
    args = ap.parse_args(argv)
    pid, tier = args.pid.upper(), args.tier
    seed = seed_from_env()
    timer = Timer()
    mod = importlib.import_module(f"props.{pid.lower()}")

    if args.replay:
        return mod.replay(Path(args.replay))

    for old in (common.REPLAYS.glob(f"{pid}-*.json") if common.REPLAYS.exists() else []):
        old.unlink()
    violations: list[dict] = []      # each: {what, replay payload, has_input: bool}
    notes: list[str] = []
    broken: list[dict] = []          # broken obligations / correspondences (not yet violations)

    # -- 1+2: regenerate Gen/, build, scan, obligations -----------------------------------------
    if args.no_build:
        bstat = {"ok": True, "gen": {}, "log": "", "failed": [], "wall_s": 0}
    else:
        bstat = engine.build(VERIF / "build" / f"make-{pid}.log")
    scan = engine.source_scan()
    obl = engine.property_obligations(pid, bstat)
    for p in scan:
        broken.append({"kind": "source-scan", "what": p})
    for p in obl["problems"]:
        broken.append({"kind": "proof-obligation", "what": p, "coqc_error": obl.get("coqc_error", "")})
    chk = None
    if tier == "thorough" and not obl["problems"]:
        chk = engine.coqchk_property(pid)
        for p in chk["problems"]:
            broken.append({"kind": "proof-obligation", "what": p})
    # an op's model is usable iff nothing in the dependency closure of the modules it imports failed to build (a failure elsewhere in
    # the project - another property's regenerated file, say - must neither stop this op nor let it be skipped silently)
    failed_files = set(bstat.get("failed", []))
    _closures = {}

    def unusable_because(op):
        if not failed_files:
            return []
        need = set()
        for imp in getattr(op, "imports", []):
            if imp.startswith("PX."):
                rel = imp[3:].replace(".", "/")
                if rel not in _closures:
                    _closures[rel] = engine.deps_closure(rel)
                need |= _closures[rel]
        return sorted(failed_files & need)

    # -- 3: correspondence -------------------------------------------------------------------------
    corr = {}
    total_cases = 0
    distinct_keys = set()
    samples = []
    for op in mod.ops(tier):
        rng = rng_for(seed, pid, op.name)
        n = op.n_quick if tier == "quick" else op.n_thorough
        try:
            cases = op.generate(rng, n)
        except Exception as e:  # generator/adapters crashed on the implementation side
            broken.append({"kind": "correspondence", "op": op.name, "what": f"implementation adapter raised {e!r}",
                           "trace": traceback.format_exc()[-2000:]})
            continue
        total_cases += len(cases)
        for c in cases:
            if c.get("nontrivial", True):
                distinct_keys.add((op.name, c["coq"]))
        if cases:
            samples.append({"op": op.name, "input": cases[0]["desc"], "result": cases[0]["expected"][:300]})
        bad = unusable_because(op)
        if bad and not getattr(op, "python_only", False):
            corr[op.name] = {"cases": len(cases), "skipped": "model does not build: " + ", ".join(bad)}
            broken.append({"kind": "correspondence", "op": op.name, "what": f"the model this op runs does not build ({', '.join(bad)}): model and implementation could not be compared"})
            continue
        res = engine.coq_mismatches(op.imports, op.fn, op.in_ty, [(c["coq"], c["expected"]) for c in cases],
                                    f"{pid}_{op.name}".replace(".", "_"), per_file=getattr(op, "cases_per_file", None))
        corr[op.name] = {"cases": len(cases), "mismatches": len(res["mismatch"]), "errors": len(res["errors"]),
                         "distribution": op.distribution(cases) if hasattr(op, "distribution") else None}
        if res["errors"]:
            broken.append({"kind": "correspondence", "op": op.name, "what": "coqc failed on generated cases",
                           "detail": res["errors"][0]["output"]})
        for i in res["mismatch"][:5]:
            broken.append({"kind": "correspondence", "op": op.name,
                           "what": f"model and implementation disagree on case {i}",
                           "input": cases[i]["desc"], "implementation": cases[i]["expected"],
                           "model": res["model_out"].get(i)})

    # -- 4: direct oracle on the implementation (testing; also the violation search) ---------------
    budget = "search" if broken else tier
    try:
        orc = mod.oracle(seed, tier, bool(broken))
    except Exception as e:
        orc = {"evaluations": 0, "distinct_nontrivial": 0, "failures": [], "samples": [], "rule": "oracle crashed"}
        broken.append({"kind": "oracle", "what": f"direct oracle raised {e!r}", "trace": traceback.format_exc()[-3000:]})

    known = [k for k in engine.load_known_findings() if k.get("property") == pid and k["kind"] == "finding"]
    known_ids = {k.get("id"): k for k in known}
    reported_known = {}
    new_failures = []
    for f in orc.get("failures", []):
        slug = f.get("finding")
        if slug and slug in known_ids:
            reported_known.setdefault(slug, f)
        else:
            new_failures.append(f)
    # listed findings are replayed on every run, whatever the generators happened to produce
    for slug, k in known_ids.items():
        if slug in reported_known:
            continue
        try:
            f = mod.replay_finding(slug)
        except Exception as e:
            f = None
            notes.append(f"replay of known finding {slug} raised {e!r}")
        if f:
            reported_known[slug] = f
    for slug in sorted(reported_known):
        print(f"KNOWN-FINDING: property={pid} id={slug} {known_ids[slug]['text'].split(' ', 2)[-1] if known_ids[slug].get('text') else ''}".rstrip())

    # -- 5: verdict -----------------------------------------------------------------------------------
    nrep = 0
    exit_code = 0
    if new_failures:
        f = new_failures[0]
        payload = {"property": pid, "kind": "failing-input", "seed": seed, "tier": tier,
                   "input": f.get("input"), "observed": f.get("observed"), "expected": f.get("expected"),
                   "what": f.get("what"), "reproduce": f.get("reproduce"),
                   "broken_obligations": broken[:10], "other_failures": len(new_failures) - 1}
        path = engine.write_replay(pid, seed, nrep, payload)
        print(f"VIOLATION property={pid} replay={path}")
        exit_code = 1
    elif broken:
        payload = {"property": pid, "kind": "broken-obligation", "seed": seed, "tier": tier,
                   "theorem_or_op": [b.get("op") or b.get("what") for b in broken][:10],
                   "broken": broken[:10],
                   "note": "a proof obligation, the translator or a correspondence no longer checks; the direct "
                           "oracle found no concrete failing input within this tier's budget"}
        path = engine.write_replay(pid, seed, nrep, payload)
        print(f"VIOLATION property={pid} replay={path} no-failing-input-found")
        exit_code = 1

    # -- 6: evidence ------------------------------------------------------------------------------------
    n_obl = len(obl["theorems"])
    n_dis = len([t for t in obl["discharged"] if t in obl["theorems"]]) if not any(
        b["kind"] in ("proof-obligation", "source-scan") for b in broken) else 0
    ev = {
        "property_id": pid,
        "tier": tier,
        "seed": seed,
        "level": "proof",
        "coverage": {
            "obligations": max(n_obl, 1),
            "discharged": n_dis,
            "checker_cmd": f"cd {engine.COQ} && coq_makefile -f _CoqProject -o Makefile && make -k -j{engine.JOBS} "
                           f"&& coqc -R . PX Properties/{pid}.v   # full .vo build, Print Assumptions per theorem",
            "trusted_base": TRUSTED_BASE + list(getattr(mod, "TRUSTED_EXTRA", [])),
            "theorems": obl["theorems"],
            "axioms_per_theorem": obl["axioms"],
            "coqchk": chk,
            "depends_on_files": obl.get("closure", []),
            "gen_status": bstat.get("gen"),
            "build_wall_s": bstat.get("wall_s"),
            "evaluations": total_cases + orc.get("evaluations", 0),
            "distinct_nontrivial": len(distinct_keys) + orc.get("distinct_nontrivial", 0),
            "rule": "correspondence: cases generated from one seeded PRNG per op, distinct by the Coq input term; "
                    "oracle: " + orc.get("rule", ""),
            "samples": (samples + orc.get("samples", []))[:8] or [{"note": "no cases generated"}],
            "correspondence": corr,
            "oracle": {k: v for k, v in orc.items() if k not in ("failures", "samples")},
            "modelled_not_verified": getattr(mod, "MODELLED", ""),
            "fragment_guard": getattr(mod, "GUARD", ""),
            "known_findings_confirmed": sorted(reported_known),
            "broken": broken[:10],
            "notes": notes,
        },
        "assumptions": list(getattr(mod, "ASSUMPTIONS", [])),
        "wall_s": timer.s(),
        "violations": (1 if exit_code else 0),
    }
    write_json(EVIDENCE / f"{pid}.json", ev)
    print(f"{pid} {tier}: obligations {n_dis}/{n_obl}, correspondence cases {total_cases}, "
          f"oracle evaluations {orc.get('evaluations', 0)}, known findings {len(reported_known)}, "
          f"{'FAIL' if exit_code else 'ok'} in {timer.s()}s")
    return exit_code


if __name__ == "__main__":
    sys.exit(main())
