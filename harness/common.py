"""Shared plumbing for the pyxform verification harness (see /verif/DESIGN.md section 4)."""

from __future__ import annotations

import fcntl
import hashlib
import json
import os
import random
import re
import shutil
import subprocess
import sys
import tempfile
import time
from contextlib import contextmanager
from pathlib import Path

VERIF = Path(__file__).resolve().parent.parent
COQ = VERIF / "coq"
REPO = Path(os.environ.get("VERIF_REPO", "/repo"))
EVIDENCE = VERIF / "evidence"
REPLAYS = VERIF / "replays"
PY = "/venv/bin/python"

# the checks import /repo in place
if str(REPO) not in sys.path:
    sys.path.insert(0, str(REPO))


def seed_from_env() -> int:
    try:
        return int(os.environ.get("VERIF_SEED", "20260930"))
    except ValueError:
        return 20260930


def rng_for(seed: int, *labels) -> random.Random:
    """Every random choice derives from the one seed; labels give independent replayable streams."""
    h = hashlib.sha256(("/".join([str(seed), *map(str, labels)])).encode()).digest()
    return random.Random(int.from_bytes(h[:8], "big"))


@contextmanager
def build_lock():
    lock = VERIF / ".buildlock"
    with open(lock, "w") as fh:
        fcntl.flock(fh, fcntl.LOCK_EX)
        try:
            yield
        finally:
            fcntl.flock(fh, fcntl.LOCK_UN)


def run(cmd, cwd=None, timeout=600, env=None, input=None):
    e = dict(os.environ)
    if env:
        e.update(env)
    try:
        p = subprocess.run(
            cmd,
            cwd=cwd,
            timeout=timeout,
            env=e,
            input=input,
            capture_output=True,
            text=True,
            shell=isinstance(cmd, str),
        )
        return p.returncode, p.stdout, p.stderr
    except subprocess.TimeoutExpired as ex:
        return 124, (ex.stdout or b"").decode() if isinstance(ex.stdout, bytes) else (ex.stdout or ""), "TIMEOUT"


@contextmanager
def scratch_dir(prefix="pxverif-"):
    d = tempfile.mkdtemp(prefix=prefix)
    try:
        yield Path(d)
    finally:
        shutil.rmtree(d, ignore_errors=True)


# ---------- Coq literal helpers ----------

def cstr(s: str) -> str:
    """Python str -> Coq `list N` literal of code points."""
    if not s:
        return "(@nil N)"
    return "[" + ";".join(str(ord(c)) for c in s) + "]%N"


def clist(items, ty=None) -> str:
    items = list(items)
    if not items:
        return f"(@nil {ty})" if ty else "[]"
    return "[" + "; ".join(items) + "]"


def cbool(b) -> str:
    return "true" if b else "false"


def cnat(n: int) -> str:
    return f"{n}%nat"


def cN(n: int) -> str:
    return f"{n}%N"


def copt(x, f=lambda v: v, ty=None) -> str:
    if x is None:
        return f"(@None {ty})" if ty else "None"
    return f"(Some {f(x)})"


def decode_coq_str_list(text: str):
    """Parse Coq's printing of a `list (list N)` value back into python strings (used for replays)."""
    text = text.replace("%N", "").replace("\n", " ")
    m = re.search(r"=\s*(\[.*\])\s*:", text, re.S)
    if not m:
        return None
    body = m.group(1)
    out = []
    for inner in re.findall(r"\[([0-9;\s]*)\]", body):
        nums = [int(x) for x in re.split(r"[;\s]+", inner.strip()) if x]
        out.append("".join(chr(n) for n in nums))
    return out


def write_json(path: Path, obj) -> None:
    path.parent.mkdir(parents=True, exist_ok=True)
    tmp = path.with_suffix(path.suffix + ".tmp")
    tmp.write_text(json.dumps(obj, indent=1, ensure_ascii=False, default=str) + "\n")
    tmp.replace(path)


class Timer:
    def __init__(self):
        self.t0 = time.time()

    def s(self) -> float:
        return round(time.time() - self.t0, 2)
