"""Random DOM trees for the stage-E ops: the four node classes the model distinguishes."""

from __future__ import annotations

from xml.dom.minidom import Text

from common import cstr, clist
from forms import adversarial_text, XML_META, WORDS

TAGS = ["a", "h:html", "label", "value", "output", "item", "x-y", "_u", "n.1", "é", "jr:x", "Q1"]
ATTRS = ["ref", "id", "jr:preload", "value", "nodeset", "h:z", "a.b", "_x"]
ROOT_NS = [("xmlns:h", "http://www.w3.org/1999/xhtml"), ("xmlns:jr", "http://openrosa.org/javarosa")]


def rand_text(rng, ws_edges=True):
    r = rng.random()
    if r < 0.1:
        return ""
    if r < 0.2:
        return rng.choice([" ", "  ", "\n", " \n "])
    s = adversarial_text(rng, 1, 4, allow_space_edges=True)
    if ws_edges and rng.random() < 0.3:
        s = rng.choice([" ", "  ", "\n"]) + s
    if ws_edges and rng.random() < 0.3:
        s = s + rng.choice([" ", "  ", "\n"])
    return s


def rand_attrs(rng):
    n = rng.choice([0, 0, 1, 1, 2, 3])
    names = rng.sample(ATTRS, n)
    return [(a, rand_text(rng)) for a in names]


def rand_tree(rng, depth=0, max_depth=4):
    """('DE', tag, attrs, kids) | ('ME', tag, attrs) | ('PT', s) | ('MT', s); root is always DE."""
    tag = rng.choice(TAGS)
    attrs = rand_attrs(rng)
    if depth == 0:
        attrs = ROOT_NS + attrs
    kids = []
    if depth < max_depth:
        shape = rng.random()
        if shape < 0.2:
            kids = []
        elif shape < 0.45:   # element-only
            kids = [rand_tree(rng, depth + 1, max_depth) for _ in range(rng.randint(1, 3))]
        elif shape < 0.6:    # single text
            kids = [("PT", rand_text(rng))]
        else:                # mixed content
            for _ in range(rng.randint(1, 4)):
                r = rng.random()
                if r < 0.3:
                    kids.append(("PT", rand_text(rng)))
                elif r < 0.55:
                    kids.append(("MT", rand_text(rng)))
                elif r < 0.8:
                    kids.append(("ME", rng.choice(TAGS), rand_attrs(rng)))
                else:
                    kids.append(rand_tree(rng, depth + 1, max_depth))
    return ("DE", tag, attrs, kids)


def to_coq(t) -> str:
    k = t[0]
    if k == "DE":
        return f"(DE {cstr(t[1])} {_attrs(t[2])} {clist([to_coq(c) for c in t[3]], 'node')})"
    if k == "ME":
        return f"(ME {cstr(t[1])} {_attrs(t[2])})"
    return f"({k} {cstr(t[1])})"


def _attrs(attrs):
    return clist([f"({cstr(a)}, {cstr(v)})" for a, v in attrs], "(list N * list N)")


def to_dom(t):
    """Build the tree with the real classes from pyxform.utils / minidom, the way node() does."""
    from pyxform.utils import DetachableElement, PatchedText
    from defusedxml.minidom import parseString

    k = t[0]
    if k == "DE":
        e = DetachableElement(t[1])
        for a, v in t[2]:
            e.setAttribute(a, v)
        for c in t[3]:
            e.appendChild(to_dom(c))
        return e
    if k == "ME":
        # a stock minidom Element, obtained exactly as node(toParseString=True) obtains it
        doc = parseString("<r><x/></r>".encode())
        e = doc.documentElement.childNodes[0].cloneNode(deep=False)
        e.tagName = e.nodeName = t[1]
        for a, v in t[2]:
            e.setAttribute(a, v)
        return e
    if k == "PT":
        n = PatchedText()
        n.data = t[1]
        return n
    n = Text()
    n.data = t[1]
    return n


def size(t):
    return 1 + (sum(size(c) for c in t[3]) if t[0] == "DE" else 0)
