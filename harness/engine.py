"""Build of the Coq development, evaluation of model cases inside Coq, verdict and evidence."""

from __future__ import annotations

import json
import os
import re
import time
from pathlib import Path

from common import (
    COQ, EVIDENCE, REPLAYS, REPO, VERIF, build_lock, run, scratch_dir, write_json, Timer,
)
import translate

FORBIDDEN = re.compile(
    r"\b(Admitted|admit|Axiom|Axioms|Parameter|Parameters|Conjecture|Conjectures|Admit\s+Obligations|"
    r"bypass_check|native_compute)\b|Unset\s+Guard\s+Checking|Unset\s+Positivity|Unset\s+Universe\s+Checking|"
    r"-type-in-type|-impredicative-set"
)
ALLOWED_AXIOMS = {
    # standard-library axioms that may be named in the trusted base (none is used so far)
    "functional_extensionality_dep", "proof_irrelevance", "classic", "JMeq_eq", "Eqdep.Eq_rect_eq.eq_rect_eq",
}
JOBS = str(os.cpu_count() or 8)


def strip_comments(text: str) -> str:
    out, depth, i = [], 0, 0
    while i < len(text):
        if text.startswith("(*", i):
            depth += 1
            i += 2
        elif text.startswith("*)", i) and depth:
            depth -= 1
            i += 2
        else:
            if depth == 0:
                out.append(text[i])
            i += 1
    return "".join(out)


def v_files():
    files = []
    for sub in ("Base", "Gen", "Model", "Spec", "Proofs", "Properties"):
        files += sorted((COQ / sub).glob("*.v"))
    return files


def source_scan() -> list[str]:
    """No Admitted/admit/Axiom/Parameter/... anywhere; no Variable/Hypothesis outside a Section."""
    bad = []
    for f in v_files():
        text = strip_comments(f.read_text())
        # strings may legitimately contain words; our sources hold no string literals with these words
        for m in FORBIDDEN.finditer(text):
            bad.append(f"{f.relative_to(COQ)}: forbidden `{m.group(0)}`")
        depth = 0
        for line in text.splitlines():
            s = line.strip()
            if re.match(r"^(Section|Module)\s+\w+", s) and not s.startswith("Module Type"):
                if s.startswith("Section"):
                    depth += 1
            elif re.match(r"^End\s+\w+\s*\.", s):
                depth = max(0, depth - 1)
            elif re.match(r"^(Variable|Variables|Hypothesis|Hypotheses|Context)\b", s) and depth == 0:
                bad.append(f"{f.relative_to(COQ)}: `{s.split()[0]}` outside a Section")
    return bad


def write_coqproject():
    lines = ["-R . PX"] + [str(f.relative_to(COQ)) for f in v_files()]
    text = "\n".join(lines) + "\n"
    p = COQ / "_CoqProject"
    if not p.exists() or p.read_text() != text:
        p.write_text(text)
        return True
    return False


def build(log_path: Path | None = None) -> dict:
    """Regenerate Gen/, then a full .vo build (never -vos) with make -k. Returns status dict."""
    t = Timer()
    with build_lock():
        gen_status = translate.regenerate()
        changed = write_coqproject()
        if changed or not (COQ / "Makefile").exists():
            rc, out, err = run(["coq_makefile", "-f", "_CoqProject", "-o", "Makefile"], cwd=COQ, timeout=120)
            if rc != 0:
                return {"ok": False, "gen": gen_status, "log": out + err, "wall_s": t.s(), "failed": ["coq_makefile"]}
        rc, out, err = run(["timeout", "1500", "make", "-k", "-j", JOBS], cwd=COQ, timeout=1600)
    log = out + "\n" + err
    if log_path:
        log_path.parent.mkdir(parents=True, exist_ok=True)
        log_path.write_text(log)
    failed = sorted(set(re.findall(r"\*\*\* \[Makefile[^\]]*: ([\w/]+)\.vo\] Error", log)))
    return {"ok": rc == 0, "gen": gen_status, "log": log, "wall_s": t.s(), "failed": failed}


def deps_closure(prop_file: str) -> set[str]:
    """All .v files (relative, no suffix) that Properties/<prop>.v transitively requires."""
    rc, out, err = run(["coqdep", "-R", ".", "PX"] + [str(f.relative_to(COQ)) for f in v_files()], cwd=COQ, timeout=120)
    deps = {}
    for line in out.splitlines():
        if ":" not in line:
            continue
        lhs, rhs = line.split(":", 1)
        targets = [x for x in lhs.split() if x.endswith(".vo")]
        for tg in targets:
            deps[tg[:-3]] = {x[:-3] for x in rhs.split() if x.endswith(".vo")}
    seen, todo = set(), [prop_file]
    while todo:
        x = todo.pop()
        if x in seen:
            continue
        seen.add(x)
        todo += list(deps.get(x, ()))
    return seen


def property_obligations(pid: str, build_status: dict) -> dict:
    """Compile state of Properties/<pid>.v: theorems, Print Assumptions output, axiom policy."""
    rel = f"Properties/{pid}"
    src = COQ / f"{rel}.v"
    res = {"file": f"coq/{rel}.v", "theorems": [], "discharged": [], "axioms": {}, "problems": []}
    if not src.exists():
        res["problems"].append(f"{rel}.v missing")
        return res
    text = strip_comments(src.read_text())
    theorems = re.findall(r"^\s*Theorem\s+(\w+)", text, re.M)
    res["theorems"] = theorems
    printed = re.findall(r"Print\s+Assumptions\s+(\w+)\s*\.", text)
    for th in theorems:
        if th not in printed:
            res["problems"].append(f"{th}: no Print Assumptions")
    closure = deps_closure(rel)
    res["closure"] = sorted(closure)
    broken = [f for f in build_status.get("failed", []) if f in closure]
    for name, st in build_status.get("gen", {}).items():
        if st and st.startswith("error") and f"Gen/{name}" in closure:
            res["problems"].append(f"translator failed for Gen/{name}.v: {st}")
    vo = COQ / f"{rel}.vo"
    if broken or not vo.exists():
        # find the coqc error text for the first broken file
        log = build_status.get("log", "")
        errs = re.findall(r'(File "\./[^"]+", line \d+[^\n]*\n(?:.*\n){0,12}?)(?=make|File|COQC|$)', log)
        res["problems"].append("does not compile: " + ", ".join(broken or [rel]))
        res["coqc_error"] = "\n".join(e.strip() for e in errs if any(b in e for b in (broken or [rel])))[:4000]
        return res
    # re-run coqc on the property file alone to capture Print Assumptions (dependencies are built)
    rc, out, err = run(["timeout", "300", "coqc", "-R", ".", "PX", f"{rel}.v"], cwd=COQ, timeout=320)
    if rc != 0:
        res["problems"].append(f"coqc {rel}.v failed")
        res["coqc_error"] = (out + err)[:4000]
        return res
    blocks = re.split(r"(?=Closed under the global context|Axioms:)", out)
    blocks = [b for b in blocks if b.startswith("Closed under") or b.startswith("Axioms:")]
    if len(blocks) != len(printed):
        res["problems"].append(f"expected {len(printed)} Print Assumptions outputs, saw {len(blocks)}")
    for th, b in zip(printed, blocks):
        if b.startswith("Closed under"):
            res["axioms"][th] = []
            res["discharged"].append(th)
        else:
            names = re.findall(r"^(\S+)\s*:", b[len("Axioms:"):], re.M)
            res["axioms"][th] = names
            bad = [n for n in names if n.split(".")[-1] not in ALLOWED_AXIOMS and n not in ALLOWED_AXIOMS]
            if bad:
                res["problems"].append(f"{th}: depends on non-allowed axioms {bad}")
            else:
                res["discharged"].append(th)
    return res


def coqchk_property(pid: str) -> dict:
    """Independent re-check of Properties/<pid>.vo and everything it depends on (thorough tier): coqchk -o."""
    t = Timer()
    rc, out, err = run(["timeout", "1500", "coqchk", "-silent", "-o", "-R", ".", "PX", f"PX.Properties.{pid}"], cwd=COQ, timeout=1600)
    text = out + "\n" + err
    res = {"cmd": f"cd {COQ} && coqchk -silent -o -R . PX PX.Properties.{pid}", "rc": rc, "wall_s": t.s(), "problems": []}
    m = re.search(r"\* Axioms:(.*?)\n\s*\n\* Constants/Inductives relying on type-in-type:(.*?)\n\s*\n\* Constants/Inductives relying on unsafe \(co\)fixpoints:(.*?)\n\s*\n"
                  r"\* Inductives whose positivity is assumed:(.*?)(\n\s*\n|$)", text, re.S)
    if rc != 0 or not m:
        res["problems"].append("coqchk failed: " + text[-600:])
        return res
    fields = [x.strip() for x in m.groups()[:4]]
    res["axioms"], res["type_in_type"], res["unsafe_fixpoints"], res["assumed_positivity"] = fields
    names = [] if fields[0] == "<none>" else re.findall(r"^\s*(\S+)", fields[0], re.M)
    bad = [n for n in names if n.split(".")[-1] not in ALLOWED_AXIOMS and n not in ALLOWED_AXIOMS]
    if bad:
        res["problems"].append(f"coqchk lists axioms that are not allowed: {bad}")
    for label, v in zip(("type-in-type", "unsafe fixpoints", "assumed positivity"), fields[1:]):
        if v != "<none>":
            res["problems"].append(f"coqchk: {label}: {v[:200]}")
    return res


# ---------------------------------------------------------------------------------------------
# Evaluating the model inside Coq (vm_compute) on the cases the implementation just ran.

CASES_PER_FILE = 250


def coq_mismatches(imports: list[str], fn: str, in_ty: str, cases: list[tuple[str, str]], label: str,
                   keep_dir: Path | None = None, per_file: int | None = None) -> dict:
    """cases: [(coq_input_term, expected_python_string)].  The model function `fn : in_ty -> list N`
    is evaluated on every input with vm_compute and compared in Coq with the expected string.
    Returns {'mismatch': [indices], 'errors': [...], 'n': len(cases)}."""
    from common import cstr

    result = {"mismatch": [], "errors": [], "n": len(cases), "model_out": {}}
    if not cases:
        return result
    CASES_PER_FILE = per_file or globals()["CASES_PER_FILE"]        # large inputs (whole documents) use smaller files
    shards = [cases[i:i + CASES_PER_FILE] for i in range(0, len(cases), CASES_PER_FILE)]
    with scratch_dir() as d:
        names = []
        for si, shard in enumerate(shards):
            name = f"cases_{label}_{si}"
            body = [f"Require Import PX.Base.Str {' '.join(imports)}.", "Local Open Scope N_scope."]
            body.append(f"Definition inputs : list ({in_ty}) := [")
            body.append(";\n".join(c[0] for c in shard))
            body.append("].")
            body.append("Definition expected : list (list N) := [")
            body.append(";\n".join(cstr(c[1]) for c in shard))
            body.append("].")
            body.append(f"Definition got := Eval vm_compute in map ({fn}) inputs.")
            body.append("Eval vm_compute in mismatches got expected.")
            (d / f"{name}.v").write_text("\n".join(body) + "\n")
            names.append(name)
        listing = "\n".join(names)
        rc, out, err = run(
            f"ulimit -s unlimited 2>/dev/null; printf '%s\\n' {' '.join(names)} | "
            f"xargs -P {JOBS} -I{{}} sh -c 'timeout 600 coqc -R {COQ} PX {{}}.v > {{}}.out 2>&1 || echo FAILED >> {{}}.out'",
            cwd=d, timeout=3600,
        )
        for si, name in enumerate(names):
            text = (d / f"{name}.out").read_text() if (d / f"{name}.out").exists() else "FAILED (no output)"
            m = re.search(r"=\s*(\[[^\]]*\]|nil)\s*:\s*list nat", text.replace("\n", " "))
            if "FAILED" in text or not m:
                result["errors"].append({"shard": si, "output": text[-1500:]})
                continue
            idx = [int(x) for x in re.findall(r"\d+", m.group(1))]
            bad = [si * CASES_PER_FILE + i for i in idx]
            result["mismatch"] += bad
            if idx:
                # second pass: print the model's output for (up to 5 of) the mismatching cases
                sel = idx[:5]
                sel_term = "[" + "; ".join(f"{i}%nat" for i in sel) + "]"
                extra = (d / f"{name}.v").read_text() + (
                    f"Eval vm_compute in map (fun i => nth i got []) {sel_term}.\n"
                )
                (d / f"{name}_x.v").write_text(extra)
                rc2, out2, err2 = run(["timeout", "600", "coqc", "-R", str(COQ), "PX", f"{name}_x.v"], cwd=d, timeout=620)
                from common import decode_coq_str_list
                # the last "= [...] : list (list N)" block
                blocks = re.findall(r"=\s*\[.*?\]\s*:\s*list \(list N\)", out2, re.S)
                if blocks:
                    dec = decode_coq_str_list(blocks[-1])
                    if dec is not None:
                        for i, s in zip(sel, dec):
                            result["model_out"][si * CASES_PER_FILE + i] = s
        if keep_dir is not None:
            keep_dir.mkdir(parents=True, exist_ok=True)
            for f in d.glob("*.v"):
                (keep_dir / f.name).write_text(f.read_text())
    return result


# ---------------------------------------------------------------------------------------------
def load_known_findings() -> list[dict]:
    p = VERIF / "known_findings.txt"
    out = []
    if not p.exists():
        return out
    for line in p.read_text().splitlines():
        line = line.strip()
        if not line or line.startswith("#"):
            continue
        kind, _, rest = line.partition(":")
        fields = {}
        for k, v in re.findall(r"(\w+)=(\S+)", rest):
            fields.setdefault(k, v)          # the leading key=value fields; later text may contain `=` too
        fields["kind"] = kind.strip()
        fields["text"] = rest.strip()
        out.append(fields)
    return out


def write_replay(pid: str, seed: int, n: int, payload: dict) -> Path:
    REPLAYS.mkdir(parents=True, exist_ok=True)
    p = REPLAYS / f"{pid}-{seed}-{n}.json"
    write_json(p, payload)
    return p
