"""Structured random XLSForm workbooks (DESIGN.md section 3.5) and renderers to each container.

A form is {"survey": [row…], "choices": [row…], "settings": [row…], …}; a row is {column: text}.
Every random choice comes from the rng passed in, so a case replays from (seed, labels).
"""

from __future__ import annotations

import io
import random

# ---- alphabets ---------------------------------------------------------------------------------
XML_META = ["<", ">", "&", '"', "'", "]]>", "<!--", "-->", "&amp;", "&lt;", "&#60;", "<b>", "</b>", "<?x?>", "<![CDATA[",
            "{", "}", "$", "${", "\\", "|", "=", "/", "%s", "%", ":", ";", ",", "\n", "a\n\nb", "\n \n", "x\ny"]
WORDS = ["Name", "age", "How old", "ok", "Yes", "no", "1", "2.5", "x y", "é", "ñandú", "日本", "שלום", "مرحبا", "😀", "𝒜",
         "á", "Ω", "tab", "don't", "q?", "A-B", "a.b", "100%"]
ASCII_NAME_START = "abcdefghijklmnopqrstuvwxyzABCDEFGHIJKLMNOPQRSTUVWXYZ_"
ASCII_NAME_REST = ASCII_NAME_START + "0123456789-."
RESERVED_NAMES = {"meta", "instanceID", "instanceName", "label", "name", "value", "item", "root", "data"}


def adversarial_text(rng: random.Random, lo=1, hi=5, allow_space_edges=False) -> str:
    parts = []
    for _ in range(rng.randint(lo, hi)):
        r = rng.random()
        if r < 0.45:
            parts.append(rng.choice(WORDS))
        elif r < 0.9:
            parts.append(rng.choice(XML_META))
        else:
            parts.append(chr(rng.choice([0xA0, 0x2019, 0x201C, 0x10000 + rng.randrange(0x1000), 0x5D0 + rng.randrange(20)])))
    s = " ".join(parts) if rng.random() < 0.7 else "".join(parts)
    s = s.replace("${", "$ {")  # references are added deliberately, never by accident
    if not allow_space_edges:
        s = s.strip()
    return s or "x"


def plain_text(rng: random.Random) -> str:
    return " ".join(rng.choice(WORDS[:12]) for _ in range(rng.randint(1, 3)))


class Names:
    """Unique XML-safe names, biased to collide as prefixes / by case / with generated helper names."""

    def __init__(self, rng):
        self.rng = rng
        self.used = set()
        self.n = 0

    def fresh(self, stem=None) -> str:
        rng = self.rng
        for _ in range(100):
            self.n += 1
            r = rng.random()
            if stem is None:
                stem_ = rng.choice(["q", "a", "b", "r", "g", "x", "n", "age", "name_", "Q", "_u", "é", "q-", "q."])
            else:
                stem_ = stem
            if r < 0.35 and self.used:
                base = rng.choice(sorted(self.used))
                cand = base + rng.choice(["1", "_2", "x", "_count", "_other", "a"])
            elif r < 0.5:
                cand = stem_
            else:
                cand = f"{stem_}{self.n}"
            if cand[0] in "-.0123456789":
                cand = "_" + cand
            low = cand.lower()
            if low in {u.lower() for u in self.used} or cand in RESERVED_NAMES:
                continue
            self.used.add(cand)
            return cand
        self.n += 1
        cand = f"zz{self.n}"
        self.used.add(cand)
        return cand


SIMPLE_TYPES = ["text", "integer", "decimal", "date", "time", "dateTime", "note", "geopoint", "geotrace", "geoshape",
                "barcode", "image", "audio", "video", "file", "acknowledge", "calculate", "range", "hidden",
                "start", "end", "today", "deviceid", "username", "phonenumber", "email", "background-audio"]
TYPE_ALIASES = {"integer": ["int", "integer"], "text": ["text", "string"], "image": ["image", "photo"],
                "select_one": ["select_one", "select one", "select1"],
                "select_multiple": ["select_multiple", "select all that apply"]}
NO_LABEL_TYPES = {"calculate", "hidden", "start", "end", "today", "deviceid", "username", "phonenumber", "email",
                  "background-audio", "audit", "start-geopoint", "simserial", "subscriberid"}


class Profile:
    def __init__(self, **kw):
        self.max_rows = 8
        self.max_depth = 3
        self.p_group = 0.18
        self.p_repeat = 0.12
        self.p_select = 0.25
        self.languages = None       # None: random 0..3 languages
        self.adversarial = 0.5      # probability that a text cell is adversarial
        self.p_ref_in_label = 0.2
        self.p_logic = 0.3
        self.p_default = 0.15
        self.p_settings = 0.6
        self.p_hint = 0.3
        self.p_media = 0.05
        self.types = SIMPLE_TYPES
        self.p_choice_extra = 0.2
        self.p_or_other = 0.05
        self.p_dyn_default = 0.4
        self.p_trigger = 0.05
        self.p_params = 0.2
        self.p_appearance = 0.15
        self.__dict__.update(kw)


LANG_POOL = ["English (en)", "French (fr)", "es", "Deutsch", "العربية (ar)", "en", "fr", "eng", "fra", "Kiswahili (sw)"]


class FormGen:
    def __init__(self, rng: random.Random, profile: Profile | None = None):
        self.rng = rng
        self.p = profile or Profile()
        self.names = Names(rng)
        self.survey: list[dict] = []
        self.choices: list[dict] = []
        self.lists: list[str] = []
        self.questions: list[dict] = []   # {'name','type','path':[...],'repeats':[...]} in sheet order
        rngl = self.p.languages
        if rngl is None:
            k = rng.choice([0, 0, 1, 2, 2, 3])
            self.langs = rng.sample(LANG_POOL, k)
        else:
            self.langs = list(rngl)
        self.delim = rng.choice(["::", "::", ":"]) if True else "::"

    # -- text cells --------------------------------------------------------------------------------
    def text(self, refs_ok=True, ctx=None) -> str:
        rng = self.rng
        s = adversarial_text(rng) if rng.random() < self.p.adversarial else plain_text(rng)
        if refs_ok and self.questions and rng.random() < self.p.p_ref_in_label:
            q = self.pick_ref(ctx)
            if q:
                pos = rng.randint(0, len(s))
                # keep whole tokens intact: insert at a space boundary
                cut = s.rfind(" ", 0, pos) + 1
                s = (s[:cut] + "${" + q + "} " + s[cut:]).strip()
        return s

    def pick_ref(self, ctx=None):
        qs = [q for q in self.questions if q["kind"] == "question"]
        if not qs:
            return None
        return self.rng.choice(qs)["name"]

    def put_translatable(self, row: dict, col: str, refs_ok=True, always=False):
        rng = self.rng
        if not self.langs or rng.random() < 0.25:
            row[col] = self.text(refs_ok)
            if not self.langs or rng.random() < 0.7:
                return
        for lang in self.langs:
            if always or rng.random() < 0.75:
                row[f"{col}{self.delim}{lang}"] = self.text(refs_ok)

    # -- expressions -------------------------------------------------------------------------------
    def expr(self, kind="bool") -> str:
        rng = self.rng
        ref = self.pick_ref()
        atom = f"${{{ref}}}" if ref and rng.random() < 0.8 else "."
        if kind == "bool":
            return rng.choice([
                f"{atom} != ''", f"{atom} > 3 and {atom} < 10", f"string-length({atom}) > 0", f"not({atom} = 'a')",
                f"selected({atom}, 'a')", f"{atom} = \"x\"", f". >= 0",
                f"count-selected({atom}) < 2 or {atom} = '<'",
            ])
        return rng.choice([
            f"{atom} + 1", f"concat({atom}, '-', 'x')", f"if({atom} = '', 'n', 'y')", "now()", "1 + 1",
            f"round({atom} div 2, 1)", "'static'", f"string({atom})", f"once({atom})",
        ])

    # -- rows ---------------------------------------------------------------------------------------
    def new_list(self) -> str:
        rng = self.rng
        name = self.names.fresh(rng.choice(["l", "list", "opts", "yn"]))
        self.lists.append(name)
        extra_cols = [c for c in ["cf", "geometry", "x-y"] if rng.random() < self.p.p_choice_extra]
        used = set()
        for i in range(rng.randint(1, 4)):
            cname = rng.choice(["a", "b", "c", "1", "2", "yes", "no", "opt_" + str(i), "x-y"])
            if cname in used:
                cname = f"{cname}{i}"
            used.add(cname)
            row = {"list_name": name, "name": cname}
            self.put_translatable(row, "label", refs_ok=False, always=True)
            if not any(k.startswith("label") for k in row):
                row["label"] = plain_text(rng)
            for c in extra_cols:
                if rng.random() < 0.8:
                    row[c] = self.text(refs_ok=False)
            if rng.random() < self.p.p_media and self.langs:
                row[f"media{self.delim}image{self.delim}{self.langs[0]}"] = f"img{i}.png"
            self.choices.append(row)
        return name

    def question_row(self, path, repeats) -> dict:
        rng, p = self.rng, self.p
        row = {}
        if rng.random() < p.p_select:
            base = rng.choice(["select_one", "select_multiple", "select_one", "rank"])
            lst = rng.choice(self.lists) if self.lists and rng.random() < 0.5 else self.new_list()
            spelled = rng.choice(TYPE_ALIASES.get(base, [base]))
            row["type"] = f"{spelled} {lst}"
            qtype = base
            if base in ("select_one", "select_multiple") and rng.random() < p.p_or_other and (not self.langs or getattr(p, 'or_other_with_langs', False)):
                row["type"] += " or_other"
            if rng.random() < 0.15:
                row["choice_filter"] = rng.choice(["true()", "name != 'a'", "cf = 'x'"])
            if rng.random() < 0.1:
                row["parameters"] = rng.choice(["randomize=true", "randomize=true, seed=42", "randomize=false"])
        else:
            qtype = rng.choice(p.types)
            row["type"] = rng.choice(TYPE_ALIASES.get(qtype, [qtype]))
        name = self.names.fresh()
        row["name"] = name
        if qtype not in NO_LABEL_TYPES:
            self.put_translatable(row, "label", always=True)
            if not any(k.startswith("label") for k in row):
                row["label"] = self.text()
            if rng.random() < p.p_hint:
                self.put_translatable(row, "hint")
            if rng.random() < 0.08:
                self.put_translatable(row, "guidance_hint")
            if rng.random() < p.p_media:
                row[f"media{self.delim}image"] = "pic.png"
        if qtype == "calculate":
            row["calculation"] = self.expr("val")
            if rng.random() < p.p_trigger:
                ref = self.pick_ref()
                if ref:
                    row["trigger"] = f"${{{ref}}}"
        elif qtype == "range":
            if rng.random() < 0.7:
                row["parameters"] = rng.choice(["start=1 end=10 step=1", "start=0, end=5, step=0.5", "end=9"])
        elif qtype == "image" and rng.random() < p.p_params:
            row["parameters"] = rng.choice(["max-pixels=640", "max-pixels=1024"])
        elif qtype == "audio" and rng.random() < p.p_params:
            row["parameters"] = rng.choice(["quality=normal", "quality=low", "quality=voice-only"])
        elif qtype in ("geopoint", "geotrace", "geoshape") and rng.random() < p.p_params:
            row["parameters"] = rng.choice(["allow-mock-accuracy=true", "allow-mock-accuracy=false"]) if qtype != "geopoint" else rng.choice(
                ["capture-accuracy=5", "warning-accuracy=20 capture-accuracy=3", "allow-mock-accuracy=true"])
        elif qtype == "text" and rng.random() < p.p_params:
            row["parameters"] = "rows=3"
        if qtype not in NO_LABEL_TYPES or qtype == "calculate":
            if rng.random() < p.p_logic:
                row["relevant"] = self.expr("bool")
            if rng.random() < p.p_logic / 2 and qtype != "calculate":
                row["constraint"] = self.expr("bool")
                if rng.random() < 0.6:
                    self.put_translatable(row, "constraint_message", refs_ok=False)
            if rng.random() < p.p_logic / 2 and qtype not in ("calculate", "note"):
                row["required"] = rng.choice(["yes", "true()", "TRUE", "no", self.expr("bool")])
                if rng.random() < 0.4:
                    self.put_translatable(row, "required_message", refs_ok=False)
            if rng.random() < p.p_logic / 4:
                row["read_only"] = rng.choice(["yes", "true()", "no"])
        if qtype in ("text", "integer", "decimal", "date", "select_one") and rng.random() < p.p_default:
            if rng.random() < p.p_dyn_default:
                row["default"] = self.expr("val")
            else:
                row["default"] = {"integer": "5", "decimal": "1.5", "date": "2020-01-02", "select_one": "a"}.get(qtype, plain_text(rng))
        if qtype in ("text", "integer", "select_one", "select_multiple") and rng.random() < p.p_appearance:
            row["appearance"] = {"text": "multiline", "integer": "thousands-sep", "select_one": rng.choice(["minimal", "quick", "likert"]),
                                 "select_multiple": "minimal"}[qtype]
        self.questions.append({"name": name, "type": qtype, "path": [*path, name], "repeats": list(repeats), "kind": "question",
                               "row": len(self.survey)})
        return row

    def block(self, path, repeats, depth, budget):
        rng, p = self.rng, self.p
        n = 0
        target = rng.randint(1, max(1, budget))
        while n < target:
            r = rng.random()
            if depth < p.max_depth and r < p.p_group + p.p_repeat and budget - n >= 2:
                is_rep = r < p.p_repeat
                kind = "repeat" if is_rep else "group"
                name = self.names.fresh("r" if is_rep else "g")
                begin = {"type": rng.choice([f"begin {kind}", f"begin_{kind}", f"begin {kind}"]), "name": name}
                if rng.random() < 0.8:
                    self.put_translatable(begin, "label", always=True)
                if rng.random() < p.p_logic:
                    begin["relevant"] = self.expr("bool")
                if is_rep and rng.random() < 0.2:
                    ref = self.pick_ref()
                    begin["repeat_count"] = rng.choice(["3", f"${{{ref}}}" if ref else "2"])
                if not is_rep and rng.random() < 0.15:
                    begin["appearance"] = "field-list"
                self.questions.append({"name": name, "type": kind, "path": [*path, name], "repeats": list(repeats), "kind": kind,
                                       "row": len(self.survey)})
                self.survey.append(begin)
                used = self.block([*path, name], [*repeats, name] if is_rep else repeats, depth + 1, max(1, (budget - n) // 2))
                self.survey.append({"type": rng.choice([f"end {kind}", f"end_{kind}"])})
                n += used + 1
            else:
                self.survey.append(self.question_row(path, repeats))
                n += 1
        return n

    def settings_row(self) -> dict | None:
        rng = self.rng
        if rng.random() > self.p.p_settings:
            return None
        row = {}
        if rng.random() < 0.7:
            row["form_title"] = self.text(refs_ok=False)
        if rng.random() < 0.7:
            row[rng.choice(["form_id", "id_string"])] = rng.choice(["my_form", "F-1", "form.2", "a b"])
        if rng.random() < 0.5:
            row["version"] = rng.choice(["1", "2024010100", "v 1.0", "<1>"])
        if self.langs and rng.random() < 0.6:
            row["default_language"] = rng.choice(self.langs)
        if rng.random() < 0.2:
            row["instance_name"] = rng.choice(["concat('x', uuid())", "'n'"])
        if rng.random() < 0.15:
            row["style"] = rng.choice(["pages", "theme-grid", "pages theme-grid"])
        if rng.random() < 0.1:
            row["submission_url"] = "https://example.com/s?a=1&b=2"
        if rng.random() < 0.1:
            row["name"] = rng.choice(["data", "root_", "survey1"])
        return row

    def form(self) -> dict:
        self.block([], [], 0, self.p.max_rows)
        form = {"survey": self.survey}
        if self.choices:
            form["choices"] = self.choices
        s = self.settings_row()
        if s:
            form["settings"] = [s]
        return form


def gen_form(rng: random.Random, profile: Profile | None = None) -> dict:
    return FormGen(rng, profile).form()


# ---- renderers ----------------------------------------------------------------------------------
SHEETS = ["survey", "choices", "settings", "external_choices", "entities", "osm"]


def headers_of(rows: list[dict]) -> list[str]:
    hs = []
    for r in rows:
        for k in r:
            if k not in hs:
                hs.append(k)
    return hs


def as_dict(form: dict) -> dict:
    """The dict accepted by convert(xlsform=dict): DefinitionData fields."""
    out = {}
    names = []
    for sheet, rows in form.items():
        if sheet.startswith("__"):
            continue
        names.append(sheet)
        if sheet in SHEETS:
            hs = headers_of(rows)
            # the equivalent dict of a grid: every row lists its cells in column order
            out[sheet] = [{h: r[h] for h in hs if h in r} for r in rows]
            out[f"{sheet}_header"] = [{h: None for h in hs}]
    out["sheet_names"] = names
    return out


def md_cell(s: str) -> str:
    return s.replace("\\", "\\\\").replace("|", "\\|") if False else s


def md_representable(form: dict) -> bool:
    for rows in form.values():
        for r in rows:
            for k, v in r.items():
                for t in (k, v):
                    if "|" in t or "\n" in t or "\r" in t or t != t.strip() or t == "":
                        return False
    return True


def as_md(form: dict) -> str:
    lines = []
    for sheet, rows in form.items():
        lines.append(f"| {sheet} |")
        hs = headers_of(rows)
        lines.append("| | " + " | ".join(hs) + " |")
        for r in rows:
            lines.append("| | " + " | ".join(r.get(h, "") for h in hs) + " |")
    return "\n".join(lines) + "\n"


def as_xlsx_bytes(form: dict, typed=None) -> bytes:
    from openpyxl import Workbook

    wb = Workbook()
    wb.remove(wb.active)
    for sheet, rows in form.items():
        ws = wb.create_sheet(title=sheet)
        hs = headers_of(rows)
        ws.append(hs)
        for ri, r in enumerate(rows):
            ws.append([r.get(h) for h in hs])
            for ci, h in enumerate(hs):
                if isinstance(r.get(h), str) and r[h].startswith("="):
                    ws.cell(row=ri + 2, column=ci + 1).data_type = "s"   # text, not a formula
    bio = io.BytesIO()
    wb.save(bio)
    return bio.getvalue()


def as_csv(form: dict) -> str:
    import csv

    sio = io.StringIO(newline="")
    w = csv.writer(sio, quoting=csv.QUOTE_ALL, lineterminator="\n")
    for sheet, rows in form.items():
        w.writerow([sheet])
        hs = headers_of(rows)
        w.writerow(["", *hs])
        for r in rows:
            w.writerow(["", *[r.get(h, "") for h in hs]])
    return sio.getvalue()


# ---- extras: custom attribute columns, namespaces, settings attributes (C01/C05/C11) ---------------
def add_custom_columns(rng: random.Random, form: dict, hostile: bool = False) -> dict:
    """Adds bind::/instance::/body:: columns and namespaces/attribute:: settings.
    hostile=True draws names that are not XML names or use undeclared prefixes (C01 findings F1/F2)."""
    info = {"custom": [], "hostile": []}
    survey = form["survey"]
    qrows = [r for r in survey if r.get("name") and not r["type"].startswith(("begin", "end"))]
    settings = form.setdefault("settings", [{}])[0]
    if rng.random() < 0.5:
        settings["namespaces"] = 'esri="http://esri.com/xforms" ex="http://example.com/x"'
        if qrows and rng.random() < 0.8:
            r = rng.choice(qrows)
            # ... including names whose local part is the name of an attribute pyxform writes itself (type, nodeset, ref, id)
            col = rng.choice(["bind::esri:fieldType", "bind::ex:y", "instance::ex:tag", "body::esri:style", "bind::ex:type", "bind::esri:nodeset", "body::ex:ref", "instance::ex:id",
                              "bind::ex:required"])
            r[col] = adversarial_text(rng)
            info["custom"].append(col)
    if rng.random() < 0.4:
        col = "attribute::" + rng.choice(["xyz", "a.b", "_c", "ex:k" if "namespaces" in settings else "k9", "id", "version"])
        settings[col] = adversarial_text(rng)
        info["custom"].append(col)
    if qrows and rng.random() < 0.5:
        r = rng.choice(qrows)
        col = rng.choice(["bind::custom", "bind::jr:foo", "instance::extra", "body::accuracyThreshold", "instance::odk:k", "body::jr:x-y"])
        r[col] = adversarial_text(rng)
        info["custom"].append(col)
    if rng.random() < 0.35 and "entities" not in form and not any(r["type"].split()[0].startswith("begin") and "repeat" in r["type"] for r in survey):
        form["entities"] = [{"dataset": rng.choice(["trees", "people_1"]), "label": "concat('x', 'y')"}]
        cands = [r for r in qrows if r["type"].split()[0] in ("text", "integer", "string", "int")]
        if cands and rng.random() < 0.6:
            rng.choice(cands)["save_to"] = rng.choice(["prop_a", "height"])
        info["custom"].append("entities")
    if hostile:
        kind = rng.choice(["badname", "unbound", "control", "weirdname", "decl", "reserved", "linebreak"])
        if kind == "decl":
            # namespace declarations no parser accepts: a prefix for the empty namespace, the reserved prefixes and namespace names
            settings["namespaces"] = rng.choice(['f=""', "f=''", 'xmlns="http://x"', 'xml="http://x"', 'f="http://www.w3.org/XML/1998/namespace"',
                                                 'f="http://www.w3.org/2000/xmlns/"', 'ex="http://example.com/x" g=""'])
            info["hostile"].append(("decl", settings["namespaces"]))
            kind = None
        if kind == "reserved" and qrows:
            r = rng.choice(qrows)
            col = rng.choice(["bind::xmlns:f", "instance::xmlns:xml", "body::xmlns:xmlns", "bind::xmlns", "instance::xml:lang", "instance::xmlns:g"])
            r[col] = rng.choice(["http://x", "", "http://www.w3.org/XML/1998/namespace", "http://www.w3.org/2000/xmlns/", "en"])
            if rng.random() < 0.3:
                r2 = rng.choice(qrows)
                if not any(("${" + r2["name"] + "}") in str(v) for rows in form.values() for row in rows for v in row.values()):
                    r2["name"] = rng.choice(["xmlns:q", "xml:q", "xmlns"])
            if len(qrows) >= 2 and rng.random() < 0.5:
                # a prefix declared on ONE element (an instance:: column) and used on another that is not inside it
                a, b = rng.sample(qrows, 2)
                a["instance::xmlns:zz"] = "http://example.org/zz"
                b[rng.choice(["instance::zz:kind", "bind::zz:kind", "body::zz:kind"])] = "k"
            info["hostile"].append(("reserved", col))
            kind = None
        if kind == "linebreak" and qrows:
            # with clean_text_values=no a cell keeps its trailing line break; the entities sheet is never cleaned
            settings["clean_text_values"] = "no"
            r = rng.choice(qrows)
            if not any(("${" + r["name"] + "}") in str(v) for rows in form.values() for row in rows for v in row.values()):
                r["name"] = r["name"] + "\n"
            if "entities" in form and rng.random() < 0.7:
                form["entities"][0]["dataset"] = form["entities"][0].get("dataset", "trees") + "\n"
            info["hostile"].append(("linebreak", r["name"]))
            kind = None
        if kind == "weirdname" and qrows:
            r = rng.choice(qrows)
            old = r["name"]
            new = rng.choice(["dose_µg", "temp_ºC", "aªb", "q×2", "a÷b", "x\u037ey", "q]", "À-Ö]", "a\u2190b", "n\ufffe", "Àbc", "q·1"])
            r["name"] = new
            for rows in form.values():
                for row in rows:
                    for k, v in row.items():
                        if isinstance(v, str) and "${" + old + "}" in v:
                            row[k] = v.replace("${" + old + "}", "${" + new + "}")
            info["hostile"].append(("weirdname", new))
            kind = None
        if kind == "badname" and qrows:
            r = rng.choice(qrows)
            col = rng.choice(["bind::a b", "instance::x y", "body::1abc", "bind::a<b", "instance::", "bind::a\"b"])
            r[col] = "v"
            info["hostile"].append(("badname", col))
        elif kind == "unbound" and qrows:
            r = rng.choice(qrows)
            col = rng.choice(["bind::foo:bar", "instance::zz:k", "body::nope:w"])
            r[col] = "v"
            info["hostile"].append(("unbound", col))
        elif qrows:
            r = rng.choice(qrows)
            ch = rng.choice(["\x01", "\x0b", "\x1f", "￾", "\x00"])
            key = next((k for k in r if k.startswith("label")), None)
            if key is None:
                key = "hint"
                r.setdefault("hint", "h")
            r[key] = r.get(key, "x") + ch
            info["hostile"].append(("control", repr(ch)))
    form["__info"] = [info]
    return form


# ---- exotics: rarely used but accepted features, added on top of a generated form -----------------------------------
LEGACY_HINT_TYPES = ["phone number", "number of days in last month", "number of days in last six months", "number of days in last year"]
EXOTIC_KINDS = ["osm", "search", "legacy_hint", "choice_parent", "empty_group", "bad_choice_col", "audit", "count_expr", "calc_msgs",
                "file_selects", "entity_variants", "hint_only_computed", "seeded_select", "loop", "shared_repeat_name", "table_list_repeat", "table_list_repeat_plain", "noapp_ref", "group_media",
                "group_truth", "two_instance_exprs"]


def form_langs(form: dict) -> tuple[list[str], str]:
    """languages and delimiter used by the translated headers of a form"""
    langs, delim = [], "::"
    for rows in form.values():
        for r in rows:
            for k in r:
                for d in ("::", ":"):
                    if k.startswith(("label" + d, "hint" + d)) and not k.startswith(("label::jr", "hint::jr")):
                        lang = k.split(d, 1)[1]
                        if lang and lang not in langs and not lang.startswith(":"):
                            langs.append(lang)
                            delim = d
                        break
    return langs, delim


def _fresh(form: dict, stem: str) -> str:
    used = {r.get("name", "").lower() for r in form["survey"]}
    i = 9
    while f"{stem}{i}".lower() in used:
        i += 1
    return f"{stem}{i}"


def _translated(rng, row, col, langs, delim, texts, p_plain=0.3, p_each=0.75):
    """fill col / col::lang cells; may leave some languages out"""
    if not langs or rng.random() < p_plain:
        row[col] = rng.choice(texts)
        if not langs or rng.random() < 0.6:
            return
    for lang in langs:
        if rng.random() < p_each:
            row[f"{col}{delim}{lang}"] = rng.choice(texts) + " " + lang[:2]


def add_exotics(rng: random.Random, form: dict, kinds, p=0.5) -> list[str]:
    """Adds accepted-but-rare features in place; returns the kinds applied."""
    survey = form["survey"]
    langs, delim = form_langs(form)
    applied = []
    qnames = [r["name"] for r in survey if r.get("name") and not r.get("type", "").startswith(("begin", "end"))]
    for kind in kinds:
        if rng.random() > p:
            continue
        if kind == "osm":
            row = {"type": rng.choice(["osm tags9", "osm tags9", "osm"]), "name": _fresh(form, "osm")}
            _translated(rng, row, "label", langs, delim, ["Map it", "OSM"])
            row.setdefault("label", "Map it")
            survey.append(row)
            form["osm"] = [{"list_name": "tags9", "name": n, "label": lab} for n, lab in rng.sample([("building", "Building"), ("amenity", "Amenity"), ("name", "Name & <co>")], rng.randint(1, 3))]
            if langs and rng.random() < 0.3:
                for t in form["osm"]:        # translated tag labels (finding F50 of C07)
                    lab = t.pop("label")
                    for lang in langs:
                        t[f"label{delim}{lang}"] = lab + " " + lang[:2]
        elif kind == "search":
            lst = _fresh(form, "sl")
            ch = form.setdefault("choices", [])
            media = rng.random() < 0.4
            for i in range(rng.randint(1, 3)):
                c = {"list_name": lst, "name": rng.choice(["name_col", "key_col", "c"]) + str(i)}
                if langs and rng.random() < 0.5:
                    c["label"] = rng.choice(["Apple", "Banana"])          # only the unsuffixed cell
                else:
                    _translated(rng, c, "label", langs, delim, ["Apple", "Banana", "Kiwi"], p_plain=0.4)
                if not any(k.startswith("label") for k in c):
                    c["label"] = "Kiwi"
                if media and rng.random() < 0.6:
                    c["image"] = f"s{i}.jpg"
                ch.append(c)
            for j in range(rng.choice([1, 1, 2])):
                row = {"type": f"{rng.choice(['select_one', 'select_multiple'])} {lst}", "name": _fresh(form, "srch"),
                       "appearance": rng.choice(["search('fruits')", "minimal search('fruits')", "search('fruits', 'matches', 'name_col', 'x')", "quick search('f')"])}
                if rng.random() < 0.25:
                    row["hint"] = "Type to search"          # a search() select with a hint and no label of its own: its items keep their labels
                else:
                    _translated(rng, row, "label", langs, delim, ["Fruit", "Pick"])
                    row.setdefault("label", "Fruit") if not any(k.startswith("label") for k in row) else None
                survey.append(row)
            if rng.random() < 0.4:
                # a second search() list holding a row identical to one of the first list's plain rows; only one of the two lists needs itext
                lst2 = _fresh(form, "sm")
                shared = {"name": "same0", "label": "Same"}
                ch.append({"list_name": lst, **shared})
                ch.append({"list_name": lst, "name": "pic1", "label": "Pic", "image": "p.jpg"})
                ch.append({"list_name": lst2, **shared})
                ch.append({"list_name": lst2, "name": "other1", "label": "Other"})
                row2 = {"type": f"select_one {lst2}", "name": _fresh(form, "srch2_"), "appearance": "search('veg')", "label": "Veg"}
                survey.append(row2)
        elif kind == "legacy_hint":
            row = {"type": rng.choice(LEGACY_HINT_TYPES), "name": _fresh(form, "lg")}
            _translated(rng, row, "label", langs, delim, ["Days", "Phone"])
            if not any(k.startswith("label") for k in row):
                row["label"] = "Days"
            if rng.random() < 0.7:
                _translated(rng, row, "hint", langs, delim, ["my hint", "count them"])
            survey.append(row)
        elif kind == "choice_parent":
            ch = form.get("choices") or []
            lists = sorted({c["list_name"] for c in ch})
            if lists:
                lst = rng.choice(lists)
                for c in ch:
                    if c["list_name"] == lst and rng.random() < 0.8:
                        c["parent"] = rng.choice(["wa", "or", "x y"])
            else:
                continue
        elif kind == "empty_group":
            k = rng.choice(["group", "repeat"])
            survey.insert(rng.randint(0, len(survey)) if all(not r.get("type", "").startswith(("begin", "end")) for r in survey) else len(survey),
                          {"type": f"begin {k}", "name": _fresh(form, "eg"), "label": "Empty"})
            idx = next(i for i, r in enumerate(survey) if r.get("name", "").startswith("eg") and r.get("type") == f"begin {k}" and (i + 1 == len(survey) or not survey[i + 1].get("type", "").startswith("end") or True))
            survey.insert(idx + 1, {"type": f"end {k}"})
        elif kind == "bad_choice_col":
            ch = form.get("choices") or []
            if not ch:
                continue
            col = rng.choice(["my notes", "a b", " pad", "x  y"])
            first = True
            for c in ch:
                if (not first or rng.random() < 0.4) and rng.random() < 0.7:
                    c[col] = rng.choice(["check with team", "n/a", "<b>"])
                first = False
            if not any(col in c for c in ch):
                ch[-1][col] = "late"
        elif kind == "audit":
            row = {"type": "audit", "name": "audit"}
            if rng.random() < 0.5:
                row["parameters"] = rng.choice(["track-changes=true", "location-priority=balanced location-min-interval=60 location-max-age=120", "identify-user=true"])
            survey.insert(rng.randint(0, len(survey)) if all(not r.get("type", "").startswith(("begin", "end")) for r in survey) else 0, row)
        elif kind == "count_expr":
            if len(qnames) < 1:
                continue
            a, b = rng.choice(qnames), rng.choice(qnames)
            expr = rng.choice([f"${{{a}}} + ${{{b}}}", f"${{{a}}} * ${{{b}}}", f"${{{a}}}", f"${{{a}}} + 1", f"count(${{{a}}})", "2", f"${{{a}}}-${{{b}}}"])
            reps = [r for r in survey if r.get("type", "").startswith("begin") and "repeat" in r.get("type", "")]
            if reps and rng.random() < 0.5:
                tgt = rng.choice(reps)
                i0 = survey.index(tgt)
                inside = set()
                depth = 0
                for r in survey[i0:]:
                    depth += r.get("type", "").startswith("begin") - r.get("type", "").startswith("end")
                    if r.get("name"):
                        inside.add(r["name"])
                    if depth == 0:
                        break
                if a in inside or b in inside:
                    continue
                tgt["repeat_count"] = expr
            else:
                nm = _fresh(form, "rc")
                survey += [{"type": "begin repeat", "name": nm, "label": "R", "repeat_count": expr},
                           {"type": "text", "name": _fresh(form, "rcq"), "label": "in"}, {"type": "end repeat"}]
        elif kind == "calc_msgs":
            row = {"type": "calculate", "name": _fresh(form, "cm"), "calculation": "1 + 1"}
            if rng.random() < 0.7:
                row["constraint"] = ". > 0"
                _translated(rng, row, "constraint_message", langs, delim, ["bad total", "too low"], p_plain=0.3)
                if qnames and not any(k.startswith("constraint_message") for k in row):
                    row["constraint_message"] = f"bad ${{{rng.choice(qnames)}}}"
            if rng.random() < 0.5:
                row["required"] = "yes"
                _translated(rng, row, "required_message", langs, delim, ["needed", "must"], p_plain=0.3)
            survey.append(row)
        elif kind == "entity_variants":
            # every accepted row of the create/update decision table (C19), with a save_to on a top-level question
            if "entities" in form:
                continue
            top, depth = [], 0
            for r in survey:
                t = r.get("type", "")
                if t.startswith("begin"):
                    depth += 1
                elif t.startswith("end"):
                    depth -= 1
                elif depth == 0 and r.get("name") and t.split(" ")[0] in ("text", "integer", "string", "int", "decimal"):
                    top.append(r)
            ref = "${%s}" % top[0]["name"] if top else "'x'"
            combo = rng.choice([{"label": "concat('n', %s)" % ref}, {"create_if": "%s != ''" % ref, "label": "'L'"}, {"entity_id": ref}, {"entity_id": ref, "label": "'L'"},
                                {"entity_id": ref, "update_if": "%s != ''" % ref}, {"entity_id": ref, "update_if": "true()", "label": "'L'"},
                                {"entity_id": ref, "create_if": "%s = ''" % ref, "update_if": "%s != ''" % ref, "label": "'L'"}])
            form["entities"] = [{"dataset": rng.choice(["trees", "people_1"]), **combo}]
            if top and rng.random() < 0.6:
                rng.choice(top)["save_to"] = rng.choice(["prop_a", "height"])
            if rng.random() < 0.3:
                form.setdefault("settings", [{}])[0]["omit_instanceID"] = "yes"      # then the entity is all there is in the meta block
        elif kind == "hint_only_computed":
            # a non-calculate row with a calculation, a hint and no label is still presented to the user
            row = {"type": rng.choice(["integer", "text", "decimal"]), "name": _fresh(form, "hc"), "calculation": rng.choice(["1 + 1", "'x'"])}
            _translated(rng, row, "hint", langs, delim, ["computed for you", "shown only"])
            if rng.random() < 0.3:
                row["label"] = "L"
            survey.append(row)
        elif kind == "seeded_select":
            # randomize with a seed taken from a question: inside the seed question's repeat the path must be relative
            lst = _fresh(form, "rl")
            form.setdefault("choices", []).extend({"list_name": lst, "name": n, "label": n.upper()} for n in ("a", "b", "c"))
            inner = [{"type": "integer", "name": _fresh(form, "seedq"), "label": "Seed"}]
            sel = {"type": f"select_one {lst}", "name": _fresh(form, "rs"), "label": "Pick", "parameters": "randomize=true, seed=${%s}" % inner[0]["name"]}
            if rng.random() < 0.7:
                nm = _fresh(form, "rr")
                body = [inner[0], *([{"type": "begin group", "name": _fresh(form, "rg"), "label": "G"}, sel, {"type": "end group"}] if rng.random() < 0.4 else [sel])]
                survey += [{"type": "begin repeat", "name": nm, "label": "R"}, *body, {"type": "end repeat"}]
            else:
                survey += [inner[0], sel]
        elif kind == "file_selects":
            stem = rng.choice(["cities", "places"])
            exts = rng.sample([".csv", ".xml", ".geojson"], rng.choice([1, 2]))
            for e in exts:
                survey.append({"type": f"select_one_from_file {stem if rng.random() < 0.8 else stem + 'x'}{e}", "name": _fresh(form, "sf"), "label": "From file"})
        elif kind == "loop":
            # the legacy loop: rows copied once per choice of a list; plain rows, rows with placeholders, a percent sign that is just text
            lst = _fresh(form, "ll")
            n = rng.choice([2, 3])
            form.setdefault("choices", []).extend({"list_name": lst, "name": nm, "label": nm.capitalize()} for nm in ["maize", "beans", "millet"][:n])
            body = [{"type": "integer", "name": _fresh(form, "bags"), "label": rng.choice(["How many bags?", "Bags of %(label)s?", "100% sure?"])}]
            if rng.random() < 0.5:
                body.append({"type": "text", "name": _fresh(form, "lnote"), "label": "Notes", "hint": rng.choice(["plain", "about %(name)s"])})
            if rng.random() < 0.3:
                body[0]["required"] = "yes"
            survey += [{"type": f"begin loop over {lst}", "name": _fresh(form, "harvest"), "label": "Harvest"}, *body, {"type": "end loop"}]
        elif kind == "shared_repeat_name":
            # a repeat whose name is also the name of an unrelated question in another group (legal: neither is referenced by name);
            # references between the repeat's own questions must still be relative
            nm = _fresh(form, "child")
            a, b = _fresh(form, "cname"), _fresh(form, "cage")
            survey += [{"type": "begin repeat", "name": nm, "label": "Child"},
                       {"type": "text", "name": a, "label": "Name"},
                       {"type": "integer", "name": b, "label": "Age of ${%s}" % a, "relevant": "${%s} != ''" % a, "constraint": ". < 150 or ${%s} = 'x'" % a},
                       {"type": "end repeat"},
                       {"type": "begin group", "name": _fresh(form, "other"), "label": "Other"}, {"type": "text", "name": nm, "label": "Same name elsewhere"}, {"type": "end group"}]
        elif kind in ("table_list_repeat", "table_list_repeat_plain"):
            lst = _fresh(form, "tl")
            form.setdefault("choices", []).extend({"list_name": lst, "name": n_, "label": n_.upper()} for n_ in ("y", "n"))
            inner = ([{"type": f"select_one {lst}", "name": _fresh(form, "tq"), "label": "Q"}] if rng.random() < 0.5 and kind == "table_list_repeat"
                     else [{"type": "text", "name": _fresh(form, "tt"), "label": "T"}])
            head = {"type": rng.choice(["begin repeat", "begin repeat", "begin group"]), "name": _fresh(form, "trep"), "appearance": "table-list"}
            head.update(rng.choice([{"label": "R"}, {"label": "R", "hint": "fill the table"}, {"hint": "only a hint"}, {}]))
            survey += [head, *inner, {"type": "end " + head["type"].split()[1]}]
            later = {"type": f"select_one {lst}", "name": _fresh(form, "after"), "label": "After", "appearance": "minimal"}
            if rng.random() < 0.5:
                survey += [{"type": "begin group", "name": _fresh(form, "tg"), "label": "G"}, {"type": "text", "name": _fresh(form, "tx"), "label": "X"}, later, {"type": "end group"}]
            else:
                survey.append(later)
        elif kind == "noapp_ref":
            # an untranslated noAppErrorString holding a reference stays a plain (substituted) attribute value
            target = rng.choice(qnames) if qnames else None
            if target:
                survey.append({"type": "text", "name": _fresh(form, "launch"), "label": "Launch", "appearance": "ex:org.example.app",
                               rng.choice(["noAppErrorString", "no_app_error_string", "bind::jr:noAppErrorString"]): "The app for ${%s} is not installed" % target})
        elif kind == "group_media":
            for r in survey:
                if r.get("type", "").startswith(("begin group", "begin repeat")) and any(k.startswith("label") for k in r) and rng.random() < 0.7:
                    col = rng.choice(["image", "audio", "video", "big-image"])
                    if col == "big-image":
                        r["image"] = "small.png"
                    _translated(rng, r, col, langs, delim, ["g.png", "pic.jpg"], p_plain=0.4)
                    if rng.random() < 0.3 and r.get("type", "").startswith("begin group"):
                        # a group with media and no words: the media is shown all the same
                        for k in [k for k in r if k.startswith(("label", "hint", "guidance_hint"))]:
                            del r[k]
        elif kind == "group_truth":
            # one spelling per column: a second alias of a column the sheet already has is (rightly) rejected
            have = {"_".join(k.split()).lower(): k for r in survey for k in r}
            cols_ = [have.get("relevant", have.get("relevance", "relevant")), have.get("required", "required")]
            ro = [v for k, v in have.items() if k in ("readonly", "read_only")]
            cols_.append(ro[0] if ro else "readonly")
            for r in survey:
                if r.get("type", "").startswith(("begin group", "begin repeat")) and rng.random() < 0.7:
                    r[rng.choice(cols_)] = rng.choice(["yes", "TRUE", "no", "true()", "false", "Yes"])
        elif kind == "two_instance_exprs":
            # the same text with two instance() expressions in two places (two languages, or two rows)
            lst = _fresh(form, "dl")
            form.setdefault("choices", []).extend({"list_name": lst, "name": n_, "label": n_.upper()} for n_ in ("a", "b"))
            survey.append({"type": f"select_one {lst}", "name": _fresh(form, "dsel"), "label": "Pick"})
            txt = "District: instance('%s')/root/item[name = 'a']/label -- it has to survive unchanged; again: instance('%s')/root/item[name = 'b']/label." % (lst, lst)
            row = {"type": "note", "name": _fresh(form, "dnote")}
            if langs and len(langs) >= 2:
                for lang in langs:
                    row[f"label{delim}{lang}"] = txt
            else:
                row["label"] = txt
                survey.append({"type": "note", "name": _fresh(form, "dnote2"), "label": txt})
            survey.append(row)
        else:
            continue
        applied.append(kind)
    return applied
