"""Random flat element lists with sparse translations (shared by the C07/C08 ops)."""
from common import cstr, clist

LANGS = ["en", "fr", "default", "Deutsch (de)"]
TEXTS = ["A", "b c", "x ${q0} y", "-", "é", "<b>", "${q0}", "long text"]


def rand_lab(rng, allow_ref=True, p_none=0.3, p_str=0.3):
    r = rng.random()
    if r < p_none:
        return None
    if r < p_none + p_str:
        t = rng.choice(TEXTS)
        return t if (allow_ref or "${" not in t) else "A"
    langs = rng.sample(LANGS, rng.randint(1, 3))
    return {l: rng.choice([t for t in TEXTS if allow_ref or "${" not in t]) for l in langs}


def rand_element(rng, i):
    e = {"name": f"q{i}", "label": rand_lab(rng, p_none=0.15), "hint": rand_lab(rng, p_none=0.5), "guidance": rand_lab(rng, p_none=0.7),
         "media": {}, "cmsg": rand_lab(rng, p_none=0.7), "rmsg": rand_lab(rng, p_none=0.8)}
    for mt in rng.sample(["image", "audio", "video", "big-image"], rng.choice([0, 0, 0, 1, 2])):
        v = rand_lab(rng, allow_ref=False, p_none=0.0, p_str=0.5)
        e["media"][mt] = v if not isinstance(v, str) else "f.png"
    if "big-image" in e["media"] and "image" not in e["media"]:
        e["media"]["image"] = "i.png"
    return e


def lab_coq(x):
    if x is None:
        return "LNone"
    if isinstance(x, str):
        return f"(LStr {cstr(x)})"
    return "(LDict " + clist([f"({cstr(k)}, {cstr(v)})" for k, v in x.items()], "(list N * list N)") + ")"


def element_coq(e):
    media = clist([f"({cstr(k)}, {lab_coq(v)})" for k, v in e["media"].items()], "(list N * lab)")
    return ("{| e_path := " + cstr("/data/" + e["name"]) + f"; e_label := {lab_coq(e['label'])}; e_hint := {lab_coq(e['hint'])}; "
            f"e_guidance := {lab_coq(e['guidance'])}; e_media := {media}; e_constraint_msg := {lab_coq(e['cmsg'])}; e_required_msg := {lab_coq(e['rmsg'])} |}}")


def element_json(e):
    d = {"type": "text", "name": e["name"]}
    if e["label"] is not None:
        d["label"] = e["label"]
    if e["hint"] is not None:
        d["hint"] = e["hint"]
    if e["guidance"] is not None:
        d["guidance_hint"] = e["guidance"]
    if e["media"]:
        d["media"] = dict(e["media"])
    bind = {}
    if e["cmsg"] is not None:
        bind["jr:constraintMsg"] = e["cmsg"]
        bind["constraint"] = ". != 'z'"
    if e["rmsg"] is not None:
        bind["jr:requiredMsg"] = e["rmsg"]
        bind["required"] = "yes"
    if bind:
        d["bind"] = bind
    return d
