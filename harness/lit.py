"""Print Coq `Definition s_<name> : str := [...]%N. (* text *)` lines for string literals: lit.py name=text ..."""
import sys
for a in sys.argv[1:]:
    n, _, t = a.partition("=")
    t = t.encode().decode("unicode_escape") if "\\" in t else t
    body = "[" + ";".join(str(ord(c)) for c in t) + "]%N" if t else "(@nil N)"
    safe = t.replace("(*", "( *").replace("*)", "* )").replace('"', "dq").replace("\r", "CR").replace("\n", "LF")
    print(f"Definition s_{n} : str := {body}.  (* {safe} *)")
