#!/venv/bin/python
"""Rewrite MANIFEST.json from the claims registry below (keeps the file valid at all times)."""
import json
import sys
from pathlib import Path

VERIF = Path(__file__).resolve().parent.parent
ALL = [f"C{i:02d}" for i in range(1, 21)]

CLAIMS = json.loads((VERIF / "harness" / "claims.json").read_text())

checks = []
for pid in ALL:
    c = CLAIMS.get(pid)
    if not c:
        continue
    checks.append({
        "property_id": pid,
        "quick_cmd": f"/venv/bin/python harness/check.py {pid} --tier quick",
        "thorough_cmd": f"/venv/bin/python harness/check.py {pid} --tier thorough",
        "evidence_file": f"/verif/evidence/{pid}.json",
        "replay_cmd_template": f"/venv/bin/python harness/check.py {pid} --replay {{path}}",
        "engine": "pyxmodel",
        "level_claimed": {"category": "proof", "text": c["text"], "design_ref": c.get("design_ref", f"DESIGN.md section 6 {pid}")},
        "level_note": c["note"],
        "technique": c["technique"],
    })
manifest = {
    "version": 1,
    "setup_cmd": "/venv/bin/python harness/setup.py",
    "hooks": {
        "guard": "XLSFORM_PYXFORM_VERIF",
        "enable": "no hooks are needed: every stage boundary is observable through public functions "
                  "(get_xlsform, workbook_to_json, create_survey_element_from_dict, Survey.xml, utils.node)",
        "baseline_off_cmd": "cd /repo && /venv/bin/python -m pytest -ra -q -p no:cacheprovider --timeout=900 --continue-on-collection-errors",
        "source_commits": [],
        "add_only": True,
    },
    "engines": [{
        "name": "pyxmodel",
        "path": "/verif/coq + /verif/harness",
        "serves_properties": [c["property_id"] for c in checks],
        "kind_free_text": "Coq 8.16 reference model + theorems; Gen/*.v regenerated from /repo each run; "
                          "correspondence by vm_compute on generated cases; direct oracles on the implementation",
    }],
    "checks": checks,
    "notes": "See DESIGN.md. Every check: regenerate Gen from /repo, full .vo build, Print Assumptions audit, "
             "correspondence model vs implementation, direct oracle, known findings, evidence.",
    "not_applicable": [
        {"property_id": pid, "reason": CLAIMS.get("_pending", {}).get(pid, "check not built yet; the design in DESIGN.md section 6 applies, no technique switch")}
        for pid in ALL if pid not in CLAIMS
    ],
}
(VERIF / "MANIFEST.json").write_text(json.dumps(manifest, indent=1) + "\n")
print("claimed:", [c["property_id"] for c in checks])
