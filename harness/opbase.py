"""Correspondence op base class and small helpers shared by the property modules."""

from __future__ import annotations

import collections
import multiprocessing as mp
import os


class Op:
    name = "op"
    imports: list[str] = []
    fn = ""
    in_ty = "list N"
    n_quick = 300
    n_thorough = 3000

    def generate(self, rng, n):  # -> [{'coq','expected','desc','nontrivial'}]
        raise NotImplementedError

    def distribution(self, cases):
        c = collections.Counter(x.get("class", "case") for x in cases)
        return dict(c)


def pmap(func, items, procs=None, chunksize=8):
    """Fork-based parallel map (the function must be a module-level callable)."""
    items = list(items)
    procs = procs or min(os.cpu_count() or 4, 16)
    if len(items) < 32 or procs == 1:
        return [func(x) for x in items]
    ctx = mp.get_context("fork")
    with ctx.Pool(procs) as pool:
        return pool.map(func, items, chunksize=chunksize)
