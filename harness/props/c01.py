"""C01 — every successful conversion returns a well-formed, namespace-valid XForm with the ODK skeleton."""

from __future__ import annotations

import json
import re
from pathlib import Path

from lxml import etree

from common import rng_for
from opbase import pmap
import forms
import xf
from props import c15

PID = "C01"
GUARD = ("wf_dom /\\ dom_ns_ok /\\ dom_attrs_unique: names are XML Names with declared prefixes — true of every literal name "
         "(theorem C01_source_constants) and of question/choice-column names accepted by is_xml_tag; NOT enforced by the "
         "code for user-supplied bind::/instance::/body::/attribute:: names and for characters outside XML Char "
         "(known findings F1-F3)")
MODELLED = ("stage E writers and the top of Survey.xml/xml_model/xml_instance (coq/Model/{Dom,Top}.v); the rest of the "
            "generator is covered through the universally quantified children lists of C01_skeleton and by the direct oracle")
ASSUMPTIONS = c15.ASSUMPTIONS + ["XML Char production is not part of the Spec parser; the lxml oracle enforces it on real output"]


NAME_ALPHA = ["a", "Z", "_", "-", ".", "0", "9", ":", "é", "À", "Ö", "×", "÷", "µ", "ª", "º", "·", "]", "[", " ", "ø", "˿", "Ͱ", ";", "‿", "⁀", "ⁱ",
              "日", "\U00010000", "\U000EFFFF", "\U000F0000", "\u037e", "\u0300", "\u200c", "\u2070", "\u218f", "\u2190", "\ud7ff", "\uf900", "\ufdcf", "\ufdd0", "\ufffd", "\ufffe"]


class IsXmlTagOp(c15.Op):
    """Model/Names.v is_xml_tag against pyxform.parsing.expression.is_xml_tag on boundary-heavy names."""
    name = "L.is_xml_tag"
    imports = ["PX.Model.Names"]
    fn = "fun s => if is_xml_tag s then [49%N] else [48%N]"
    in_ty = "list N"
    n_quick, n_thorough = 600, 6000

    def generate(self, rng, n):
        from pyxform.parsing.expression import is_xml_tag
        from common import cstr
        cases = []
        for i in range(n):
            k = rng.choice([1, 1, 2, 3, 4, 6])
            s = "".join(rng.choice(NAME_ALPHA) for _ in range(k))
            if rng.random() < 0.3:
                s = rng.choice(["q", "A", "_"]) + s
            r = bool(is_xml_tag(s))
            cases.append({"coq": cstr(s), "expected": "1" if r else "0", "desc": {"name": s}, "class": "accept" if r else "reject"})
        return cases


def ops(tier):
    return c15.ops(tier)[:3] + [IsXmlTagOp()]


XML_NAME = re.compile(r"^[A-Za-z_:À-ÖØ-öø-˿Ͱ-ͽͿ-῿‌‍⁰-↏Ⰰ-⿯、-퟿豈-﷏ﷰ-�\U00010000-\U000EFFFF]"
                      r"[-.0-9A-Za-z_:·̀-ͯ‿⁀À-ÖØ-öø-˿Ͱ-ͽͿ-῿‌‍⁰-↏Ⰰ-⿯、-퟿豈-﷏ﷰ-�\U00010000-\U000EFFFF]*$")
XML_CHAR_BAD = re.compile("[^\x09\x0a\x0d\x20-퟿-�\U00010000-\U0010ffff]")


def audit(xform: str, expected_id: str | None):
    """The property, evaluated on one XForm text. Returns a list of problems (empty = holds)."""
    problems = []
    try:
        root = etree.fromstring(xform.encode("utf-8"), etree.XMLParser(resolve_entities=False))
    except etree.XMLSyntaxError as e:
        return [f"not well-formed / namespace-valid: {e}"]
    H, X = xf.H, xf.XF
    if root.tag != H + "html":
        problems.append(f"root is {root.tag}")
    kids = [c for c in root if isinstance(c.tag, str)]
    if [c.tag for c in kids] != [H + "head", H + "body"]:
        problems.append(f"html children are {[c.tag for c in kids]}")
        return problems
    head = kids[0]
    hk = [c.tag for c in head if isinstance(c.tag, str)]
    if sorted(hk) != sorted([H + "title", X + "model"]):
        problems.append(f"head children are {hk}")
        return problems
    model = head.find(X + "model")
    insts = [c for c in model if isinstance(c.tag, str) and c.tag == X + "instance"]
    if not insts:
        return problems + ["model has no instance"]
    prim = insts[0]
    if prim.get("id") is not None or prim.get("src") is not None:
        problems.append("first instance is not the primary instance (has id/src)")
    roots = [c for c in prim if isinstance(c.tag, str)]
    if len(roots) != 1:
        problems.append(f"primary instance has {len(roots)} root elements")
    elif expected_id is not None and roots[0].get("id") != expected_id:
        problems.append(f"primary root id {roots[0].get('id')!r} != form id {expected_id!r}")
    return problems


def expected_form_id(form):
    s = (form.get("settings") or [{}])[0]
    for k, v in s.items():
        if "_".join(k.split()).lower() in ("form_id", "id_string", "set_form_id"):
            return v
    return "data"


def classify(form, problems):
    """Narrow predicates for the listed findings (DESIGN.md section 7: F1, F2, F3)."""
    info = (form.get("__info") or [{}])[0]
    text = " ".join(problems)
    cells = [v for rows in form.values() for r in rows if isinstance(r, dict) for v in r.values() if isinstance(v, str)]
    cols = [k for rows in form.values() for r in rows if isinstance(r, dict) for k in r]
    if any(XML_CHAR_BAD.search(c) for c in cells) and ("not well-formed" in text) and ("PCDATA invalid Char" in text or "invalid Char" in text or "Char 0x" in text or "not allowed" in text
                                                                                       or "invalid character in attribute value" in text):
        return "F3-control-char"
    custom = [c.split("::", 1)[1].strip() for c in cols if "::" in c and c.split("::")[0].strip().lower() in ("bind", "instance", "body", "control", "attribute")]
    # extra choices columns become element names of the secondary instance items, equally unvalidated
    known_choice = {"list_name", "list name", "name", "value", "label", "caption", "image", "audio", "video", "big-image", "media", "sms_option"}
    choice_cols = [c for r in form.get("choices", []) for c in r
                   if c.split("::")[0].split(":")[0].strip().lower() not in known_choice or ("::" in "".join(cols) and ":" in c.replace("::", ""))]
    # ... except headers with a space: validate_and_clean_choices drops those columns (with a warning), so they never excuse a failure
    custom = custom + [c for c in choice_cols if " " not in c]
    badnames = [c for c in custom if not XML_NAME.match(c)]
    if badnames and "not well-formed" in text:
        return "F1-invalid-attribute-name"
    declared = set()
    ns = (form.get("settings") or [{}])[0].get("namespaces", "")
    for part in ns.split():
        if "=" in part:
            declared.add(part.split("=")[0])
    m = re.search(r"Namespace prefix (\S+) (?:for \S+ )?on \S+ is not defined", text)
    if m:
        pref = m.group(1)
        user_prefixes = {c.split(":")[0] for c in custom if ":" in c} | {
            r["name"].split(":")[0] for r in form.get("survey", []) if ":" in r.get("name", "")}
        if pref in user_prefixes and pref not in declared and pref not in ("jr", "odk", "orx", "h", "ev", "xsd", "entities"):
            return "F2-unbound-user-prefix"
    return None


def _check(args):
    seed, i, hostile = args
    rng = rng_for(seed, PID, "oracle", "hostile" if hostile else "plain", i)
    form = forms.gen_form(rng, forms.Profile(adversarial=0.6, max_rows=rng.choice([3, 6, 10])))
    form = forms.add_custom_columns(rng, form, hostile=hostile)
    if i % 4 == 0:
        forms.add_exotics(rng_for(seed, PID, "exotic", i), form, ["bad_choice_col", "search", "osm", "legacy_hint", "audit", "count_expr", "calc_msgs", "file_selects", "entity_variants", "entity_variants", "hint_only_computed", "seeded_select"], p=0.35)
    clean = {k: v for k, v in form.items() if not k.startswith("__")}
    d = forms.as_dict(clean)
    out = {"i": i, "hostile": hostile}
    container = "dict"
    inputs = [("dict", d, None)]
    if forms.md_representable(clean) and rng.random() < 0.5:
        inputs.append(("md", forms.as_md(clean), None))
    if rng.random() < 0.08 and not hostile:
        try:
            inputs.append(("xlsx", forms.as_xlsx_bytes(clean), "xlsx"))
        except ValueError:
            pass   # openpyxl cannot store this text
    any_ok = False
    for cname, data, ft in inputs:
        for pp in (False, True):
            from pyxform.xls2xform import convert
            from pyxform.errors import PyXFormError
            import copy
            try:
                r = convert(copy.deepcopy(data) if isinstance(data, dict) else data, pretty_print=pp, file_type=ft)
            except PyXFormError:
                continue
            except Exception:
                continue    # crashes are C17's business
            any_ok = True
            probs = audit(r.xform, expected_form_id(clean))
            if probs:
                out.update({"form": form, "what": "; ".join(probs)[:600], "container": cname, "pretty": pp,
                            "finding": classify(form, probs), "xform": r.xform[:2000]})
                return out
    out["ok"] = any_ok
    out["key"] = hash(json.dumps(clean, sort_keys=True, ensure_ascii=False))
    out["custom"] = bool(form["__info"][0]["custom"])
    return out


def oracle(seed, tier, searching=False):
    n = 500 if tier == "quick" else 8000
    nh = 120 if tier == "quick" else 1500
    if searching:
        n *= 3
    res = pmap(_check, [(seed, i, False) for i in range(n)] + [(seed, i, True) for i in range(nh)])
    fails = [r for r in res if "what" in r]
    oks = [r for r in res if r.get("ok")]
    return {
        "evaluations": len(res),
        "distinct_nontrivial": len({r["key"] for r in oks if r.get("custom")}),
        "rule": "random XLSForms (adversarial text, custom bind::/instance::/body::/attribute:: columns, namespaces setting) "
                "converted by the real convert() as dict / md / xlsx, compact and pretty; lxml (namespace-aware) parse + "
                "skeleton audit; every fourth case adds rarely used features (choice columns whose header holds a space, filled on some rows only; search() selects; osm; audit; "
                "repeat_count expressions; selects from files); a hostile stream adds non-XML names, undeclared prefixes and control characters; "
                "non-trivial = accepted form with a custom attribute column, distinct by workbook",
        "accepted": len(oks), "hostile_cases": nh,
        "failures": [{"input": {"form": f["form"], "container": f["container"], "pretty": f["pretty"], "case": f["i"]},
                      "what": f["what"], "observed": f["xform"], "finding": f["finding"],
                      "reproduce": "cd /verif && /venv/bin/python harness/check.py C01 --replay <this file>"} for f in fails],
        "samples": [{"oracle_case": r["i"], "custom_columns": r.get("custom")} for r in oks[:3]],
    }


FINDING_INPUTS = {
    "F1-invalid-attribute-name": {"survey": [{"type": "text", "name": "q", "label": "Q", "bind::a b": "v"}]},
    "F2-unbound-user-prefix": {"survey": [{"type": "text", "name": "q", "label": "Q", "bind::foo:bar": "v"}]},
    "F3-control-char": {"survey": [{"type": "text", "name": "q", "label": "Q\x01"}]},
}


def replay_finding(slug):
    form = FINDING_INPUTS.get(slug)
    if not form:
        return None
    st, r = xf.convert_form(forms.as_dict(form))
    if st != "ok":
        return None
    probs = audit(r.xform, "data")
    if probs and classify(form, probs) == slug:
        return {"input": form, "what": "; ".join(probs)}
    return None


def replay(path: Path) -> int:
    payload = json.loads(Path(path).read_text())
    form = {k: v for k, v in payload["input"]["form"].items() if not k.startswith("__")}
    for pp in (False, True):
        st, r = xf.convert_form(forms.as_dict(form), pretty_print=pp)
        if st == "ok":
            probs = audit(r.xform, expected_form_id(form))
            if probs:
                print("; ".join(probs))
                print(f"VIOLATION property={PID} replay={path}")
                return 1
    print("replay: property holds on this input now")
    return 0
