"""C01 — every successful conversion returns a well-formed, namespace-valid XForm with the ODK skeleton."""

from __future__ import annotations

import json
import re
from pathlib import Path

from lxml import etree

from common import rng_for
from opbase import pmap
import domgen
import forms
import xf
from props import c15

PID = "C01"
GUARD = ("none for theorem C01_accepted_document_wellformed beyond the checks the code itself performs while it builds the document "
         "(document_accepted: names by is_xml_tag, characters by the Char production, prefixes declared; Model/DomCheck.v) and unique "
         "attribute names (an attribute dict); C01_roundtrip / C01_namespaces keep their explicit hypotheses wf_dom /\\ dom_ns_ok /\\ dom_attrs_unique")
MODELLED = ("stage E writers and the top of Survey.xml/xml_model/xml_instance (coq/Model/{Dom,Top}.v); the rest of the "
            "generator is covered through the universally quantified children lists of C01_skeleton and by the direct oracle")
ASSUMPTIONS = c15.ASSUMPTIONS + ["XML Char production is not part of the Spec parser; the lxml oracle enforces it on real output"]


NAME_ALPHA = ["a", "Z", "_", "-", ".", "0", "9", ":", "é", "À", "Ö", "×", "÷", "µ", "ª", "º", "·", "]", "[", " ", "ø", "˿", "Ͱ", ";", "‿", "⁀", "ⁱ",
              "日", "\U00010000", "\U000EFFFF", "\U000F0000", "\u037e", "\u0300", "\u200c", "\u2070", "\u218f", "\u2190", "\ud7ff", "\uf900", "\ufdcf", "\ufdd0", "\ufffd", "\ufffe", "\n", "\n", "\r", "\t"]


class IsXmlTagOp(c15.Op):
    """Model/Names.v is_xml_tag against pyxform.parsing.expression.is_xml_tag on boundary-heavy names."""
    name = "L.is_xml_tag"
    imports = ["PX.Model.Names"]
    fn = "fun s => if is_xml_tag s then [49%N] else [48%N]"
    in_ty = "list N"
    n_quick, n_thorough = 600, 6000

    def generate(self, rng, n):
        from pyxform.parsing.expression import is_xml_tag
        from common import cstr
        cases = []
        for i in range(n):
            k = rng.choice([1, 1, 2, 3, 4, 6])
            s = "".join(rng.choice(NAME_ALPHA) for _ in range(k))
            if rng.random() < 0.3:
                s = rng.choice(["q", "A", "_"]) + s
            r = bool(is_xml_tag(s))
            cases.append({"coq": cstr(s), "expected": "1" if r else "0", "desc": {"name": s}, "class": "accept" if r else "reject"})
        return cases


BOUNDARY_CHARS = [0x0, 0x1, 0x8, 0x9, 0xA, 0xB, 0xC, 0xD, 0xE, 0x1F, 0x20, 0x7F, 0x85, 0xD7FF, 0xD800, 0xDFFF, 0xE000, 0xFFFD, 0xFFFE, 0xFFFF, 0x10000, 0x10FFFF]
HOSTILE_NAMES = ["a b", "", "1a", "a:b:c", ":a", "a:", "a\x01", "-a", "a/b", "xmlns:", "a\n", "é:·", "f:b", "g:x", "xml:lang", "xmlns:f", "xmlns:g", "h:z", "jr:x", "q", "_u", "n.1", "x-y",
                 "xmlns", "xmlns:xml", "xmlns:xmlns", "xmlns:f", "xmlns:g", "xmlns:xml"]
NS_VALUES = ["http://example.org/f", "urn:x", "http://www.w3.org/XML/1998/namespace", "http://www.w3.org/2000/xmlns/", "", "u", "http://www.w3.org/1999/xhtml"]


class DomChecksOp(c15.Op):
    """The checks made while the document is built (DetachableElement, node()) and before it is returned (validate_namespace_prefixes),
    run on trees with hostile names, characters and prefixes, against Model/DomCheck.v; an accepted tree is also handed to lxml."""
    name = "E.dom_checks"
    imports = ["PX.Model.Dom", "PX.Model.DomCheck"]
    fn = "fun n => if built n then (if py_ns_check PY_SCOPE0 n then [111;107]%N else [78]%N) else [66]%N"
    in_ty = "node"
    n_quick, n_thorough = 400, 5000

    @staticmethod
    def _text(rng):
        s = domgen.rand_text(rng)
        if rng.random() < 0.25:
            k = rng.randint(0, len(s))
            s = s[:k] + chr(rng.choice(BOUNDARY_CHARS)) + s[k:]
        return s

    def _tree(self, rng, depth, declared):
        """('DE', tag, attrs, kids) with at most one PT child, first; names drawn from good and hostile pools"""
        def name(pool):
            return rng.choice(HOSTILE_NAMES) if rng.random() < 0.2 else rng.choice(pool)
        attrs, seen = [], set()
        for _ in range(rng.choice([0, 1, 1, 2, 3])):
            a = name(domgen.ATTRS)
            if a in seen or a in ("tag", "toParseString"):
                continue
            seen.add(a)
            # declarations get namespace names (libxml2 also insists that they are URI references, which is outside the property)
            attrs.append((a, rng.choice(NS_VALUES) if a == "xmlns" or a.startswith("xmlns:") else self._text(rng)))
        if depth == 0 and rng.random() < 0.8:
            attrs = [a for a in domgen.ROOT_NS if a[0] not in seen] + attrs
        kids = []
        if rng.random() < 0.4:
            kids.append(("PT", self._text(rng)))
        if depth < 3:
            for _ in range(rng.choice([0, 0, 1, 2])):
                r = rng.random()
                if r < 0.2:
                    kids.append(("ME", rng.choice(["output", "h:b", "jr:x", "f:b"]), [(rng.choice(["value", "jr:p", "g:q"]), domgen.rand_text(rng))] if rng.random() < 0.7 else []))
                elif r < 0.3 and not any(k[0] == "PT" for k in kids):
                    kids.append(("MT", domgen.rand_text(rng)))
                else:
                    kids.append(self._tree(rng, depth + 1, declared))
        return ("DE", name(domgen.TAGS), attrs, kids)

    def generate(self, rng, n):
        from pyxform.utils import node, validate_namespace_prefixes
        from pyxform.errors import PyXFormError
        from lxml import etree

        def build(t):
            if t[0] != "DE":
                return domgen.to_dom(t)
            args = [c[1] if c[0] == "PT" else build(c) for c in t[3]]
            return node(t[1], *args, **dict(t[2]))
        cases = []
        for i in range(n):
            t = self._tree(rng, 0, set())
            try:
                dom = build(t)
            except PyXFormError:
                exp, dom = "B", None
            except Exception as ex:
                exp, dom = "crash:" + type(ex).__name__, None
            if dom is not None:
                try:
                    validate_namespace_prefixes(element=dom)
                    exp = "ok"
                except PyXFormError:
                    exp = "N"
                # a real namespace-aware parser agrees with the verdict (the attribute dict guarantees unique attributes)
                try:
                    etree.fromstring(('<?xml version="1.0"?>' + dom.toxml()).encode("utf-8"))
                    lx = "ok"
                except etree.XMLSyntaxError as ex:
                    lx = "N" if ("prefix" in str(ex).lower() or "namespace" in str(ex).lower()) else "other:" + str(ex)[:60]
                if lx != exp:
                    exp = f"code says {exp}, lxml says {lx}"
            cases.append({"coq": domgen.to_coq(t), "expected": exp, "desc": {"tree": t}, "class": exp, "nontrivial": True})
        return cases


class RealDocsOp(c15.Op):
    """The documents the REAL generator returns: Survey.xml() of generated forms, node by node (class of every node kept), handed to the
    model: it must pass the model's checks (document_accepted, unique attributes) -- so that C01_accepted_document_wellformed applies to it --
    and the model's writer must produce, character for character, the two texts pyxform writes for it."""
    name = "E.real_documents"
    imports = ["PX.Model.Dom", "PX.Model.Ser", "PX.Model.DomCheck", "PX.Proofs.RT", "PX.Proofs.Top"]
    fn = "fun n => if document_accepted n && dom_attrs_unique n && is_elem n then write_both n else [82;69;70;85;83;69;68]%N"
    in_ty = "node"
    n_quick, n_thorough = 80, 800
    cases_per_file = 20

    @staticmethod
    def dom_to_tuple(n):
        from xml.dom import Node
        from pyxform.utils import DetachableElement, PatchedText
        if n.nodeType == Node.ELEMENT_NODE:
            attrs = [(k, v.value) for k, v in (n._attrs or {}).items()]
            if isinstance(n, DetachableElement):
                return ("DE", n.tagName, attrs, [RealDocsOp.dom_to_tuple(c) for c in n.childNodes])
            if n.childNodes:
                raise ValueError("an element delivered by the XML parser has children: outside the model (ME is an empty element)")
            return ("ME", n.tagName, attrs)
        if n.nodeType in (Node.TEXT_NODE, Node.CDATA_SECTION_NODE):
            return ("PT" if isinstance(n, PatchedText) else "MT", n.data)
        raise ValueError(f"node type {n.nodeType} is outside the model")

    def generate(self, rng, n):
        from pyxform.xls2xform import convert
        from pyxform.errors import PyXFormError
        cases = []
        tries = 0
        while len(cases) < n and tries < 4 * n:
            tries += 1
            form = forms.gen_form(rng, forms.Profile(adversarial=0.4, max_rows=rng.choice([3, 5, 8])))
            form = forms.add_custom_columns(rng, form)
            form.pop("__info", None)
            if rng.random() < 0.4:
                forms.add_exotics(rng, form, ["search", "osm", "audit", "count_expr", "calc_msgs", "entity_variants", "loop", "group_media", "noapp_ref", "two_instance_exprs"], p=0.35)
            try:
                r = convert(forms.as_dict(form))
            except PyXFormError:
                continue
            survey = r._survey
            dom = survey.xml()
            try:
                t = self.dom_to_tuple(dom)
            except ValueError as e:
                cases.append({"coq": "(PT [])", "expected": f"outside the model: {e}", "desc": {"form": form}, "class": "outside the model"})
                continue
            expected = survey._to_ugly_xml() + "\x00" + survey._to_pretty_xml()
            cases.append({"coq": domgen.to_coq(t), "expected": expected, "desc": {"form": form}, "class": f"nodes<={1 << domgen.size(t).bit_length()}",
                          "nontrivial": True})
        return cases


def ops(tier):
    return c15.ops(tier)[:3] + [IsXmlTagOp(), DomChecksOp(), RealDocsOp()]


XML_NAME = re.compile(r"^[A-Za-z_:À-ÖØ-öø-˿Ͱ-ͽͿ-῿‌‍⁰-↏Ⰰ-⿯、-퟿豈-﷏ﷰ-�\U00010000-\U000EFFFF]"
                      r"[-.0-9A-Za-z_:·̀-ͯ‿⁀À-ÖØ-öø-˿Ͱ-ͽͿ-῿‌‍⁰-↏Ⰰ-⿯、-퟿豈-﷏ﷰ-�\U00010000-\U000EFFFF]*$")
XML_CHAR_BAD = re.compile("[^\x09\x0a\x0d\x20-퟿-�\U00010000-\U0010ffff]")


def audit(xform: str, expected_id: str | None):
    """The property, evaluated on one XForm text. Returns a list of problems (empty = holds)."""
    problems = []
    try:
        root = etree.fromstring(xform.encode("utf-8"), etree.XMLParser(resolve_entities=False))
    except etree.XMLSyntaxError as e:
        return [f"not well-formed / namespace-valid: {e}"]
    H, X = xf.H, xf.XF
    if root.tag != H + "html":
        problems.append(f"root is {root.tag}")
    kids = [c for c in root if isinstance(c.tag, str)]
    if [c.tag for c in kids] != [H + "head", H + "body"]:
        problems.append(f"html children are {[c.tag for c in kids]}")
        return problems
    head = kids[0]
    hk = [c.tag for c in head if isinstance(c.tag, str)]
    if sorted(hk) != sorted([H + "title", X + "model"]):
        problems.append(f"head children are {hk}")
        return problems
    model = head.find(X + "model")
    insts = [c for c in model if isinstance(c.tag, str) and c.tag == X + "instance"]
    if not insts:
        return problems + ["model has no instance"]
    prim = insts[0]
    if prim.get("id") is not None or prim.get("src") is not None:
        problems.append("first instance is not the primary instance (has id/src)")
    roots = [c for c in prim if isinstance(c.tag, str)]
    if len(roots) != 1:
        problems.append(f"primary instance has {len(roots)} root elements")
    elif expected_id is not None and roots[0].get("id") != expected_id:
        problems.append(f"primary root id {roots[0].get('id')!r} != form id {expected_id!r}")
    return problems


def expected_form_id(form):
    s = (form.get("settings") or [{}])[0]
    for k, v in s.items():
        if "_".join(k.split()).lower() in ("form_id", "id_string", "set_form_id"):
            return v
    return "data"


def classify(form, problems):
    """No finding is listed for this property any more (F1-F3 were repaired in /repo): nothing is excused."""
    return None


def _check(args):
    seed, i, hostile = args
    rng = rng_for(seed, PID, "oracle", "hostile" if hostile else "plain", i)
    form = forms.gen_form(rng, forms.Profile(adversarial=0.6, max_rows=rng.choice([3, 6, 10])))
    form = forms.add_custom_columns(rng, form, hostile=hostile)
    if i % 4 == 0:
        forms.add_exotics(rng_for(seed, PID, "exotic", i), form, ["bad_choice_col", "search", "osm", "legacy_hint", "audit", "count_expr", "calc_msgs", "file_selects", "entity_variants", "entity_variants", "hint_only_computed", "seeded_select"], p=0.35)
    clean = {k: v for k, v in form.items() if not k.startswith("__")}
    d = forms.as_dict(clean)
    out = {"i": i, "hostile": hostile}
    container = "dict"
    inputs = [("dict", d, None)]
    if forms.md_representable(clean) and rng.random() < 0.5:
        inputs.append(("md", forms.as_md(clean), None))
    if rng.random() < 0.08 and not hostile:
        try:
            inputs.append(("xlsx", forms.as_xlsx_bytes(clean), "xlsx"))
        except ValueError:
            pass   # openpyxl cannot store this text
    any_ok = False
    for cname, data, ft in inputs:
        for pp in (False, True):
            from pyxform.xls2xform import convert
            from pyxform.errors import PyXFormError
            import copy
            try:
                r = convert(copy.deepcopy(data) if isinstance(data, dict) else data, pretty_print=pp, file_type=ft)
            except PyXFormError:
                continue
            except Exception:
                continue    # crashes are C17's business
            any_ok = True
            probs = audit(r.xform, expected_form_id(clean))
            if probs:
                out.update({"form": form, "what": "; ".join(probs)[:600], "container": cname, "pretty": pp,
                            "finding": classify(form, probs), "xform": r.xform[:2000]})
                return out
    out["ok"] = any_ok
    out["key"] = hash(json.dumps(clean, sort_keys=True, ensure_ascii=False))
    out["custom"] = bool(form["__info"][0]["custom"])
    return out


def oracle(seed, tier, searching=False):
    n = 500 if tier == "quick" else 8000
    nh = 120 if tier == "quick" else 1500
    if searching:
        n *= 3
    res = pmap(_check, [(seed, i, False) for i in range(n)] + [(seed, i, True) for i in range(nh)])
    fails = [r for r in res if "what" in r]
    oks = [r for r in res if r.get("ok")]
    return {
        "evaluations": len(res),
        "distinct_nontrivial": len({r["key"] for r in oks if r.get("custom")}),
        "rule": "random XLSForms (adversarial text, custom bind::/instance::/body::/attribute:: columns, namespaces setting) "
                "converted by the real convert() as dict / md / xlsx, compact and pretty; lxml (namespace-aware) parse + "
                "skeleton audit; every fourth case adds rarely used features (choice columns whose header holds a space, filled on some rows only; search() selects; osm; audit; "
                "repeat_count expressions; selects from files); a hostile stream adds non-XML names, undeclared prefixes and control characters; "
                "non-trivial = accepted form with a custom attribute column, distinct by workbook",
        "accepted": len(oks), "hostile_cases": nh,
        "failures": [{"input": {"form": f["form"], "container": f["container"], "pretty": f["pretty"], "case": f["i"]},
                      "what": f["what"], "observed": f["xform"], "finding": f["finding"],
                      "reproduce": "cd /verif && /venv/bin/python harness/check.py C01 --replay <this file>"} for f in fails],
        "samples": [{"oracle_case": r["i"], "custom_columns": r.get("custom")} for r in oks[:3]],
    }


FINDING_INPUTS = {}


def replay_finding(slug):
    form = FINDING_INPUTS.get(slug)
    if not form:
        return None
    st, r = xf.convert_form(forms.as_dict(form))
    if st != "ok":
        return None
    probs = audit(r.xform, "data")
    if probs and classify(form, probs) == slug:
        return {"input": form, "what": "; ".join(probs)}
    return None


def replay(path: Path) -> int:
    payload = json.loads(Path(path).read_text())
    form = {k: v for k, v in payload["input"]["form"].items() if not k.startswith("__")}
    for pp in (False, True):
        st, r = xf.convert_form(forms.as_dict(form), pretty_print=pp)
        if st == "ok":
            probs = audit(r.xform, expected_form_id(form))
            if probs:
                print("; ".join(probs))
                print(f"VIOLATION property={PID} replay={path}")
                return 1
    print("replay: property holds on this input now")
    return 0
